#!/bin/bash
# Refresh the generated parts of DESIGN.md: the seed table (from seeded/TABLE.md) and the
# per-check explanations (from gcacheck -explain). Idempotent: content between the markers is replaced.
set -e
cd /verif
python3 - <<'PY'
import subprocess,re
s=open('DESIGN.md').read()
table=open('seeded/TABLE.md').read()
expl=subprocess.run(['checker/bin/gcacheck','-explain'],capture_output=True,text=True,check=True).stdout
def put(s,name,body):
    b='<!-- BEGIN %s -->'%name; e='<!-- END %s -->'%name
    block=b+'\n'+body.rstrip('\n')+'\n'+e
    if b in s:
        return re.sub(re.escape(b)+'.*?'+re.escape(e),lambda m:block,s,flags=re.S)
    return s.replace(name+'_PLACEHOLDER',block)
s=put(s,'SEED_TABLE',table)
s=put(s,'EXPLAIN',expl)
open('DESIGN.md','w').write(s)
PY
