#!/bin/bash
# usage: bp4.sh <set-dir> <id>...   prints the non-proved obligations for benign patches
for s in "${@:2}"; do echo "=== $s: $(python3 -c "import json;m=json.load(open('/verif/$1/$s/meta.json'));print(str(m.get('kind',''))[:140],'|',str(m.get('function',''))[:70])")"; /verif/tools/run_on_patch.sh /verif/$1/$s/patch.diff all 2>&1 | grep -E "^\s+(violated|undecided):" | sed -E 's/ \(configs [^)]*; key [^)]*\)$//' | cut -c1-360 | sort -u | head -${N:-6}; done
