#!/bin/bash
# usage: seedN_all.sh <seeded dir under /verif, e.g. seeded3> [filter-regex]
# For each kept seeded change: apply to /repo (git apply), run ALL checks once, undo (git checkout).
# Prints and (without a filter) writes <dir>/RESULTS.tsv : seed, owning property, detected-by-owner, checks that report a violation, checks that are only undecided.
set -u
export GOFLAGS=-mod=mod GOPROXY=off GOSUMDB=off GOTOOLCHAIN=local
unset GOWORK
D="/verif/$1"; F="${2:-.}"
if [ -n "$(git -C /repo status --porcelain)" ]; then echo "REPO-NOT-CLEAN"; exit 3; fi
trap 'git -C /repo checkout -- . ; git -C /repo clean -fdq' EXIT
tmp=$(mktemp)
for d in $(ls -d $D/C*-* | grep -E "$F" | sort); do
  s=$(basename $d); owner=${s%-*}
  if ! git -C /repo apply "$d/patch.diff"; then echo -e "$s\t$owner\tAPPLY-FAILED\t\t"; continue; fi
  o=$(/verif/checker/bin/gcacheck -prop all -tier quick -no-evidence 2>&1)
  git -C /repo checkout -- . ; git -C /repo clean -fdq
  viol=$(echo "$o" | grep -oE "^VIOLATION property=C[0-9]+" | sed 's/.*=//' | sort -u | tr '\n' ',' | sed 's/,$//')
  und=$(echo "$o" | grep -oE "^UNDECIDED property=C[0-9]+" | sed 's/.*=//' | sort -u | tr '\n' ',' | sed 's/,$//')
  own=no; case ",$viol," in *",$owner,"*) own=yes;; esac
  echo -e "$s\t$owner\t$own\t$viol\t$und" | tee -a $tmp
done
if [ "$F" = "." ]; then sort $tmp > $D/RESULTS.tsv; fi
rm -f $tmp
