#!/bin/bash
# usage: benign_eval.sh <dir-with-patch.diff>...   (behaviour-preserving refactorings: all checks must stay at exit 0)
# each patch is applied to a scratch copy of /repo under /tmp (removed afterwards), built, and all checks are run on it.
set -u
export GOFLAGS=-mod=mod GOPROXY=off GOSUMDB=off GOTOOLCHAIN=local
unset GOWORK
one() {
  d="$1"; s=$(basename $(dirname $d))/$(basename $d)
  w=$(mktemp -d /tmp/gca-ben-XXXXXX)
  git -C /repo archive HEAD | tar -x -C "$w"
  if ! (cd "$w" && patch -p1 -s --no-backup-if-mismatch < "$d/patch.diff" >/dev/null 2>&1); then echo -e "$s\tAPPLY-FAILED"; rm -rf "$w"; return; fi
  if ! (cd "$w" && go build ./... && go build -tags test ./...) >/dev/null 2>&1; then echo -e "$s\tBUILD-FAILED"; rm -rf "$w"; return; fi
  o=$(${GCACHECK_BIN:-/verif/checker/bin/gcacheck} -repo "$w" -prop all -tier quick -no-evidence 2>&1); rc=$?
  rm -rf "$w"
  if [ $rc -eq 0 ]; then echo -e "$s\tsilent"; else echo -e "$s\tALARM rc=$rc $(echo "$o" | grep -E '^(VIOLATION|UNDECIDED)' | sed 's/ replay=.*//; s/ reason=.*//' | tr '\n' ' ')"; fi
}
export -f one
printf '%s\n' "$@" | xargs -P "${J:-4}" -I{} bash -c 'one {}' | sort
