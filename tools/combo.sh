#!/bin/bash
# usage: combo.sh <name> <base patch dir under /verif> <file> <sed-expression>
# Builds a breaking variant ON TOP of a behaviour-preserving refactoring: the committed tree (git archive HEAD, so a
# dirty /repo working tree does not matter) + the refactoring + one sed edit; writes mutants/breaking/<name>.patch
# (diff against HEAD) after checking that the result still compiles with and without the test tag.
set -eu
export GOFLAGS=-mod=mod GOPROXY=off GOSUMDB=off GOTOOLCHAIN=local; unset GOWORK
name=$1; base=$2; file=$3; expr=$4
a=$(mktemp -d /tmp/gca-combo-a-XXXX); b=$(mktemp -d /tmp/gca-combo-b-XXXX)
trap 'rm -rf "$a" "$b"' EXIT
git -C /repo archive HEAD | tar -x -C "$a"
git -C /repo archive HEAD | tar -x -C "$b"
(cd "$b" && patch -p1 -s --no-backup-if-mismatch < "/verif/$base/patch.diff")
before=$(md5sum "$b/$file")
sed -i "$expr" "$b/$file"
[ "$before" != "$(md5sum "$b/$file")" ] || { echo "EDIT-NO-EFFECT $name"; exit 2; }
(cd "$b" && go build ./... && go build -tags test ./...) || { echo "BUILD-FAILED $name"; exit 3; }
out="/verif/mutants/breaking/$name.patch"; : > "$out"
for f in $(cd "$b" && find . -name '*.go' -type f | sed 's#^\./##' | sort); do
  if ! cmp -s "$a/$f" "$b/$f"; then diff -u --label "a/$f" --label "b/$f" "$a/$f" "$b/$f" >> "$out" || true; fi
done
grep -c '^@@' "/verif/mutants/breaking/$name.patch"
