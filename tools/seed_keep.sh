#!/bin/bash
# usage: seed_keep.sh <Cxx> <n> : copy /tmp/seed/<Cxx>-out/<n> to /verif/seeded/<Cxx>-<n>
set -e
src=/tmp/seed/$1-out/$2; dst=/verif/seeded/$1-$2
mkdir -p $dst; cp -r $src/. $dst/
ls $dst
