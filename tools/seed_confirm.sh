#!/bin/bash
# usage: seed_confirm.sh <seed dir>...   (J=N parallel)
# Confirms the demonstration of a seeded breaking change in scratch copies of the committed tree (git archive HEAD,
# under /tmp, removed afterwards): the demonstration must pass on the unchanged tree and fail with the change.
set -u
export GOFLAGS=-mod=mod GOPROXY=off GOSUMDB=off GOTOOLCHAIN=local
unset GOWORK
one() {
  d="$1"; s=$(basename "$d")
  w=$(mktemp -d /tmp/gca-conf-XXXXXX)
  git -C /repo archive HEAD | tar -x -C "$w"
  clean=fail; changed=pass
  for try in 1 2; do if (cd "$d" && bash ./demo.sh "$w") >"$w.clean.log" 2>&1; then clean=pass; break; fi; done
  if ! (cd "$w" && git init -q . 2>/dev/null; patch -p1 -s --no-backup-if-mismatch < "$d/patch.diff") >/dev/null 2>&1; then echo -e "$s\tAPPLY-FAILED"; rm -rf "$w" "$w".*.log; return; fi
  if ! (cd "$w" && go build ./... && go build -tags test ./...) >/dev/null 2>&1; then echo -e "$s\tBUILD-FAILED"; rm -rf "$w" "$w".*.log; return; fi
  for try in 1 2; do if (cd "$d" && bash ./demo.sh "$w") >"$w.mut.log" 2>&1; then changed=pass; else changed=fail; break; fi; done
  echo -e "$s\tclean=$clean\tchanged=$changed"
  rm -rf "$w" "$w".*.log
}
export -f one
printf '%s\n' "$@" | xargs -P "${J:-3}" -I{} bash -c 'one {}' | sort
