#!/bin/bash
# usage: bp3.sh <seed name under seeded_benign3> : run all checks on the patched scratch copy and list non-proved obligations (short)
d=$1
/verif/tools/run_on_patch.sh /verif/seeded_benign3/$d/patch.diff all 2>&1 | grep -E "^\s+(violated|undecided):" | sed -E 's/ \(configs [^)]*; key [^)]*\)$//' | cut -c1-${W:-420} | sort -u | head -${N:-14}
