#!/bin/bash
# usage: run_on_patch.sh <patch-file> <prop|all> [tier]
# Applies the patch to a scratch copy of /repo (outside /repo and /verif), runs
# the checker on the copy without writing evidence, prints its output, removes
# the copy. Exit status is the checker's.
set -u
patch="$1"; prop="$2"; tier="${3:-quick}"
d=$(mktemp -d /tmp/gca-mut-XXXXXX)
trap 'rm -rf "$d"' EXIT
git -C /repo archive HEAD | tar -x -C "$d"
if ! (cd "$d" && patch -p1 -s --no-backup-if-mismatch < "$patch"); then
  echo "PATCH-FAILED $patch"; exit 3
fi
if ! (cd "$d" && GOFLAGS=-mod=mod GOPROXY=off GOSUMDB=off go build ./... 2>&1 | tail -5); then
  echo "BUILD-FAILED"; exit 3
fi
/verif/checker/bin/gcacheck -repo "$d" -prop "$prop" -tier "$tier" -no-evidence
