#!/bin/bash
# Re-run the checks on every kept seeded change (/verif/seeded/<Cxx>-<n>/patch.diff).
# For each: apply to /repo (git apply), run ALL checks once, undo (git checkout).
# Writes /verif/seeded/RESULTS.tsv : seed, owning property, detected-by-owner, all checks that report a violation, checks that are only undecided.
# usage: seed_all.sh [filter-regex]
set -u
export GOFLAGS=-mod=mod GOPROXY=off GOSUMDB=off GOTOOLCHAIN=local
unset GOWORK
F="${1:-.}"
if [ -n "$(git -C /repo status --porcelain)" ]; then echo "REPO-NOT-CLEAN"; exit 3; fi
trap 'git -C /repo checkout -- . ; git -C /repo clean -fdq' EXIT
out=/verif/seeded/RESULTS.tsv
tmp=$(mktemp)
for d in $(ls -d /verif/seeded/C*-* | grep -E "$F" | sort); do
  s=$(basename $d); owner=${s%-*}
  if ! git -C /repo apply "$d/patch.diff"; then echo -e "$s\t$owner\tAPPLY-FAILED\t\t" >> $tmp; continue; fi
  o=$(/verif/checker/bin/gcacheck -prop all -tier quick -no-evidence 2>&1)
  git -C /repo checkout -- . ; git -C /repo clean -fdq
  viol=$(echo "$o" | grep -oE "^VIOLATION property=C[0-9]+" | sed 's/.*=//' | sort -u | tr '\n' ',' | sed 's/,$//')
  und=$(echo "$o" | grep -oE "^UNDECIDED property=C[0-9]+" | sed 's/.*=//' | sort -u | tr '\n' ',' | sed 's/,$//')
  own=no; case ",$viol," in *",$owner,"*) own=yes;; esac
  echo -e "$s\t$owner\t$own\t$viol\t$und" >> $tmp
  echo -e "$s\t$owner\t$own\t$viol\t$und"
done
if [ "$F" = "." ]; then sort $tmp > $out; fi
rm -f $tmp
