#!/bin/bash
# usage: bp.sh <dir-name under /verif> <props comma-separated>  — show non-proved obligations for a benign patch
d=$1; ps=$2
for p in ${ps//,/ }; do /verif/tools/run_on_patch.sh /verif/$d/patch.diff $p 2>&1 | grep -E "VIOLATED|UNDECIDED|violated:|undecided:|^\s+(violated|undecided)" | head -${N:-12}; done
