#!/bin/bash
# usage: seed_eval.sh <dir-with-patch.diff-and-demo.sh> [props...]
# Confirms a seeded breaking change and runs the checks on it:
#   1. /repo must be clean; the demonstration must PASS on the unchanged tree
#   2. git -C /repo apply patch.diff ; it must build ; the demonstration must FAIL
#   3. run the named checks (default: all) against /repo, without writing evidence
#   4. git -C /repo checkout -- .   (always)
set -u
dir="$1"; shift
props="${*:-all}"
export GOFLAGS=-mod=mod GOPROXY=off GOSUMDB=off GOTOOLCHAIN=local
unset GOWORK
if [ -n "$(git -C /repo status --porcelain)" ]; then echo "REPO-NOT-CLEAN"; exit 3; fi
restore() { git -C /repo checkout -- . ; git -C /repo clean -fdq; }
trap restore EXIT
if [ "${SKIP_DEMO:-0}" != 1 ]; then
  if (cd "$dir" && bash ./demo.sh /repo) >/tmp/seed_eval.clean.log 2>&1; then echo "demo-on-clean: pass (expected)"; else echo "demo-on-clean: FAIL (unexpected)"; tail -5 /tmp/seed_eval.clean.log; fi
  git -C /repo clean -fdq
fi
if ! git -C /repo apply "$dir/patch.diff"; then echo "APPLY-FAILED"; exit 3; fi
if ! (cd /repo && go build ./... && go build -tags test ./...) ; then echo "BUILD-FAILED"; exit 3; fi
if [ "${SKIP_DEMO:-0}" != 1 ]; then
  if (cd "$dir" && bash ./demo.sh /repo) >/tmp/seed_eval.mut.log 2>&1; then echo "demo-on-change: pass (UNEXPECTED: change not demonstrated)"; else echo "demo-on-change: fail (expected)"; fi
  git -C /repo clean -fdq
fi
for p in $props; do
  o=$(/verif/checker/bin/gcacheck -prop "$p" -tier quick -no-evidence 2>&1)
  echo "$o" | grep -E "^VIOLATION|^UNDECIDED" | sed 's/ replay=.*//'
  if [ "${VERBOSE:-0}" = 1 ]; then echo "$o" | grep -E "violated:|undecided:" | cut -c1-330; else echo "$o" | grep -E "violated:|undecided:" | sed -E 's/^ *(violated|undecided): ([^ ]+) .*\[([A-Z0-9-]+)\].*key ([^)]*)\)$/    \1 \2 \4/' | sort -u | head -12; fi
done
echo "done"
