// Command normform writes the helper-inlined normal form of a repository copy in place (debugging / validation aid:
// the normal form of a scratch copy can be built and tested like the original).
package main

import (
	"flag"
	"fmt"
	"os"
	"strings"

	"gcacheck/internal/an"
	"gcacheck/internal/norm"
)

func main() {
	repo := flag.String("repo", "/repo", "repository (scratch copy when -write is given)")
	write := flag.Bool("write", false, "overwrite the files of -repo with their normal form")
	tags := flag.String("tags", "", "build tags")
	keep := flag.Bool("keep", false, "keep the declarations of inlined functions (so that test files still compile)")
	only := flag.String("only", "", "comma separated substrings: inline only functions whose full name contains one of them")
	cands := flag.Bool("candidates", false, "list the helpers that would be inlined in the first round (one full name per line) and exit")
	flag.Parse()
	if *cands {
		env := append(os.Environ(), "GOFLAGS=-mod=mod", "GOPROXY=off", "GOSUMDB=off", "GOWORK=off", "GOTOOLCHAIN=local")
		var bf []string
		if *tags != "" {
			bf = []string{"-tags=" + *tags}
		}
		cs, err := norm.Candidates(*repo, env, bf, an.ModulePath, "./glow", "./server", "./client")
		if err != nil {
			fmt.Fprintln(os.Stderr, "error:", err)
			os.Exit(2)
		}
		for _, c := range cs {
			fmt.Println(c.Callee)
		}
		return
	}
	norm.KeepDecls = *keep
	if *only != "" {
		subs := strings.Split(*only, ",")
		norm.Only = func(full string) bool {
			for _, s := range subs {
				if strings.Contains(full, s) {
					return true
				}
			}
			return false
		}
	}
	env := append(os.Environ(), "GOFLAGS=-mod=mod", "GOPROXY=off", "GOSUMDB=off", "GOWORK=off", "GOTOOLCHAIN=local")
	var bf []string
	if *tags != "" {
		bf = []string{"-tags=" + *tags}
	}
	res, err := norm.Inline(*repo, env, bf, an.ModulePath, "./glow", "./server", "./client")
	if err != nil {
		fmt.Fprintln(os.Stderr, "error:", err)
		os.Exit(2)
	}
	for _, l := range res.Inlined {
		fmt.Println("inlined", l)
	}
	for _, l := range res.Skipped {
		fmt.Println("skipped", l)
	}
	if *write {
		for f, b := range res.Overlay {
			if err := os.WriteFile(f, b, 0644); err != nil {
				fmt.Fprintln(os.Stderr, err)
				os.Exit(2)
			}
		}
	}
}
