// gcacheck decides the properties C01..C20 of glowlabs-org/gca-backend by
// static analysis of the repository's current source (see /verif/DESIGN.md).
//
//	gcacheck -prop C13 -tier quick      one property (what MANIFEST.json registers)
//	gcacheck -prop all -tier quick      every property (used by the self test)
//
// Exit status: 0 every obligation proved (or a listed known finding); 1 at least
// one violation (a line "VIOLATION property=<id> replay=<path>" is printed);
// 2 undecided (an anchor or shape was not recognised; no VIOLATION line).
package main

import (
	"bufio"
	"context"
	"encoding/json"
	"flag"
	"fmt"
	"go/types"
	"os"
	"os/exec"
	"path/filepath"
	"runtime/debug"
	"sort"
	"strconv"
	"strings"
	"sync"
	"time"

	"gcacheck/internal/an"
	"gcacheck/internal/norm"
	"gcacheck/internal/props"

	"golang.org/x/tools/go/ssa"
)

func main() {
	repo := flag.String("repo", "/repo", "repository under analysis")
	verif := flag.String("verif", "/verif", "verification directory (evidence, known findings)")
	prop := flag.String("prop", "", "property id (C01..C20) or 'all'")
	tier := flag.String("tier", "", "quick or thorough (default: $VERIF_TIER or quick)")
	worker := flag.Bool("worker", false, "internal: analyse one configuration and print JSON")
	cfgID := flag.String("config", "K1", "internal/debug: build configuration")
	dump := flag.String("dump", "", "debug: dump terms and facts of functions whose name contains this string")
	codec := flag.String("codec", "", "debug: list the codec events of functions whose name contains this string")
	bounds := flag.String("bounds", "", "debug: list the BOUND obligations of functions whose name contains this string")
	noEvidence := flag.Bool("no-evidence", false, "do not write evidence files (self test on scratch copies)")
	explain := flag.Bool("explain", false, "print, as markdown, what every registered check decides and does not decide (the text that also goes into the evidence files)")
	flag.Parse()
	if *explain {
		for _, pc := range props.All() {
			fmt.Printf("#### %s – %s\n\n*Engines:* %s.\n\n%s\n\n*Trusted:* %s.\n\n", pc.ID, pc.Title, pc.Engines, pc.Explanation, strings.Join(pc.Assumptions, "; "))
		}
		return
	}

	if *tier == "" {
		*tier = os.Getenv("VERIF_TIER")
	}
	if *tier != "thorough" {
		*tier = "quick"
	}
	if *dump != "" {
		debugDump(*repo, *cfgID, *dump)
		return
	}
	if *codec != "" {
		cfg, _ := an.ConfigByID(*cfgID)
		p, err := an.Load(*repo, cfg)
		if err != nil {
			fmt.Fprintln(os.Stderr, err)
			os.Exit(2)
		}
		for _, fn := range p.SrcFuncs() {
			if !strings.Contains(fn.String(), *codec) {
				continue
			}
			fmt.Println(an.FuncName(fn), an.EventSigs(p.CodecEvents(fn)))
		}
		return
	}
	if *bounds != "" {
		cfg, _ := an.ConfigByID(*cfgID)
		p, err := an.Load(*repo, cfg)
		if err != nil {
			fmt.Fprintln(os.Stderr, err)
			os.Exit(2)
		}
		for _, fn := range p.SrcFuncs() {
			if !strings.Contains(fn.String(), *bounds) {
				continue
			}
			fmt.Print(p.Info(fn).DebugPhis())
			for _, o := range p.BoundObligations(fn) {
				st := "ok  "
				if !o.OK {
					st = "FAIL"
				}
				fmt.Printf("%s %s %s %s %s -- %s\n", st, o.Kind, p.Pos(o.Instr.Pos()), an.FuncName(fn), o.Expr, o.Why)
			}
		}
		return
	}
	if *worker {
		runWorker(*repo, *cfgID, *prop, *tier)
		return
	}
	if *prop == "" {
		fmt.Fprintln(os.Stderr, "usage: gcacheck -prop Cxx|all [-tier quick|thorough]")
		os.Exit(2)
	}
	os.Exit(runParent(*repo, *verif, *prop, *tier, *noEvidence))
}

func selected(prop string) []*an.PropertyCheck {
	var out []*an.PropertyCheck
	for _, pc := range props.All() {
		if prop == "all" || pc.ID == prop {
			out = append(out, pc)
		}
	}
	return out
}

// ---- worker ---------------------------------------------------------------------

func runWorker(repo, cfgID, prop, tier string) {
	cfg, ok := an.ConfigByID(cfgID)
	if !ok {
		fmt.Fprintln(os.Stderr, "unknown config", cfgID)
		os.Exit(3)
	}
	enc := json.NewEncoder(os.Stdout)
	checks := selected(prop)
	t0 := time.Now()
	p, err := an.Load(repo, cfg)
	if err != nil {
		for _, pc := range checks {
			enc.Encode(&an.Result{Prop: pc.ID, Config: cfgID, Error: err.Error()})
		}
		return
	}
	if tier == "thorough" {
		p.SetInlineBound(8)
	}
	loadS := time.Since(t0).Seconds()
	for _, pc := range checks {
		t1 := time.Now()
		c := an.NewCtx(p, pc.ID, tier)
		func() {
			defer func() {
				if r := recover(); r != nil {
					c.R.Error = fmt.Sprintf("checker panic: %v", r)
				}
			}()
			pc.Run(c)
		}()
		c.Finish()
		if failedResult(c.R) {
			if r2 := decideOnEquivalentForm(repo, cfg, p, pc, c.R, tier); r2 != nil {
				c.R = r2
			}
		}
		c.R.WallS = time.Since(t1).Seconds() + loadS
		enc.Encode(c.R)
	}
}

func failedResult(r *an.Result) bool {
	if r.Error != "" {
		return true
	}
	for _, o := range r.Obls {
		if o.Verdict == an.Violated || o.Verdict == an.Undecided {
			return true
		}
	}
	return false
}

var (
	normCands   map[string][]norm.Cand // per config
	normProgs   = map[string]*an.Program{}
	normInlined = map[string][]string{}
	normOrder   []string // keys of the loaded variant programs, oldest first
	normGood    = map[string]bool{}
)

// decideOnEquivalentForm re-decides a check that did not succeed on the program as written on semantically equivalent
// forms of it, obtained by inlining helpers with few call sites (package norm). The forms are tried in this order: all
// the helpers that the unproved obligations mention (as the helper or as its caller); those of them that are not the
// function a failing obligation sits in; then single helpers - the ones the pinned tree does not have (norm.Baseline)
// first, including helpers reachable from the functions the check analysed, and a few helpers of the pinned tree after
// them. At most 12 forms are loaded (3 when the tree has no helper that the pinned tree does not have). The first form on which every obligation is proved and which covers what failed
// (coversFailures) gives the result, with a note naming the form; otherwise the original result stands.
func decideOnEquivalentForm(repo string, cfg an.Config, p *an.Program, pc *an.PropertyCheck, r *an.Result, tier string) *an.Result {
	env, flags := an.LoadEnv(cfg)
	if normCands == nil {
		normCands = map[string][]norm.Cand{}
	}
	cands, ok := normCands[cfg.ID]
	if !ok {
		cs, err := norm.Candidates(repo, env, flags, an.ModulePath, "./glow", "./server", "./client")
		if err != nil {
			cs = nil
		}
		normCands[cfg.ID] = cs
		cands = cs
	}
	if os.Getenv("GCACHECK_DEBUG") != "" {
		fmt.Fprintf(os.Stderr, "equivalent forms for %s/%s: %d candidates\n", pc.ID, cfg.ID, len(cands))
	}
	if len(cands) == 0 {
		return nil
	}
	short := func(full string) string { return strings.ReplaceAll(full, an.ModulePath+"/", "") }
	var text strings.Builder
	for _, o := range r.Obls {
		if o.Verdict == an.Violated || o.Verdict == an.Undecided {
			text.WriteString(o.Key + " " + o.Func + " " + o.Desc + " " + o.Why + "\n")
		}
	}
	failing := text.String()
	isNew := func(full string) bool { return !norm.Baseline[full] }
	analysed := map[string]bool{}
	for _, f := range r.Analysed {
		analysed[f] = true
	}
	// the helpers the failing obligations name (as the helper or as its caller)
	var related []string
	seenRel := map[string]bool{}
	for _, cd := range cands {
		if seenRel[cd.Callee] {
			continue
		}
		if strings.Contains(failing, short(cd.Callee)) || (cd.Caller != "" && strings.Contains(failing, short(cd.Caller))) {
			related = append(related, cd.Callee)
			seenRel[cd.Callee] = true
		}
	}
	// the helpers reachable from the functions the check analysed (the obligation names one side of a two-sided rule,
	// the helper was extracted on the other side), transitively
	var reachable []string
	{
		reach := map[string]bool{}
		for f := range analysed {
			reach[f] = true
		}
		seen := map[string]bool{}
		for changed := true; changed; {
			changed = false
			for _, cd := range cands {
				if seen[cd.Callee] || seenRel[cd.Callee] || !(reach[short(cd.Callee)] || (cd.Caller != "" && reach[short(cd.Caller)])) {
					continue
				}
				seen[cd.Callee] = true
				reach[short(cd.Callee)] = true
				changed = true
				reachable = append(reachable, cd.Callee)
			}
		}
	}
	if os.Getenv("GCACHECK_DEBUG") != "" {
		fmt.Fprintf(os.Stderr, "related helpers: %v\nreachable helpers: %v\n", related, reachable)
	}
	anchorMissing := false
	files := map[string]bool{}
	anchors := map[string]bool{}
	for _, o := range r.Obls {
		if o.Verdict != an.Violated && o.Verdict != an.Undecided {
			continue
		}
		if o.Rule == "ANCHOR" || strings.Contains(o.Why, "anchor missing") {
			anchorMissing = true
		}
		if i := strings.Index(o.Pos, ":"); i > 0 {
			files[o.Pos[:i]] = true
		}
		anchors[o.Func] = true
	}
	inFile := map[string]bool{}
	for _, cd := range cands {
		for _, f := range cd.Files {
			if files[f] {
				inFile[cd.Callee] = true
			}
		}
	}
	// The forms, in the order in which they are tried. A helper that the pinned tree does not have (norm.Baseline) is
	// what a change introduced: those come first and are all tried; helpers of the pinned tree, with which the checks
	// pass as they stand, are tried a few at a time. At most maxForms forms are loaded for one check and configuration.
	maxForms := 12
	anyNew := false
	for _, cd := range cands {
		if isNew(cd.Callee) {
			anyNew = true
		}
	}
	if !anyNew {
		// the helpers are those of the pinned tree, with which the checks pass: what fails is not hidden by a helper
		// somebody introduced; a few forms are tried all the same (an existing helper may have been reshaped)
		maxForms = 3
	}
	var variants [][]string
	have := map[string]bool{}
	add := func(v []string) {
		if len(v) == 0 || len(variants) >= maxForms {
			return
		}
		k := strings.Join(v, ",")
		if have[k] {
			return
		}
		have[k] = true
		variants = append(variants, v)
	}
	addSingles := func(xs []string, limit int) {
		n := 0
		for _, x := range xs {
			if n >= limit {
				return
			}
			if !have[x] {
				n++
			}
			add([]string{x})
		}
	}
	filter := func(xs []string, keep func(string) bool) []string {
		var out []string
		for _, x := range xs {
			if keep(x) {
				out = append(out, x)
			}
		}
		return out
	}
	if len(related) > 0 && len(related) <= 12 {
		// all of them together
		add(related)
		// without the functions the failing obligations sit in (the anchors of the rules stay where the rules look)
		if len(related) > 2 {
			if leaves := filter(related, func(x string) bool { return !anchors[short(x)] }); len(leaves) > 1 && len(leaves) < len(related) {
				add(leaves)
			}
		}
		// the new ones together
		if nw := filter(related, isNew); len(nw) > 1 && len(nw) < len(related) {
			add(nw)
		}
	}
	addSingles(filter(related, isNew), maxForms)
	addSingles(filter(reachable, isNew), 8)
	addSingles(filter(related, func(x string) bool { return !isNew(x) }), 3)
	if len(related) == 0 && anchorMissing {
		// nothing names a function (an anchor was not found): the helpers that can hide an anchor are those that write
		// shared state, perform file operations or hand out a pointer
		byName := map[string]*ssa.Function{}
		for _, fn := range p.SrcFuncs() {
			byName[an.FuncName(fn)] = fn
		}
		var ranked []string
		seen := map[string]bool{}
		for _, cd := range cands {
			fn := byName[short(cd.Callee)]
			if fn == nil || seen[cd.Callee] {
				continue
			}
			e := p.Effect(fn)
			ptr := false
			res := fn.Signature.Results()
			for i := 0; i < res.Len(); i++ {
				if _, ok := res.At(i).Type().Underlying().(*types.Pointer); ok {
					ptr = true
				}
			}
			rank := -1
			switch {
			case ptr:
				rank = 0
			case e != nil && len(e.FileOps) > 0:
				rank = 1
			case e != nil && len(e.Writes) > 0:
				rank = 2
			}
			if rank >= 0 {
				if isNew(cd.Callee) {
					rank -= 3
				}
				seen[cd.Callee] = true
				ranked = append(ranked, fmt.Sprintf("%d:%s", rank+3, cd.Callee))
			}
		}
		sort.Strings(ranked)
		for i := range ranked {
			ranked[i] = ranked[i][2:]
		}
		addSingles(ranked, 6)
	}
	// helpers of the pinned tree on the other side of a two-sided rule: those the check does not analyse itself first,
	// then those in the files of the failing obligations
	old := filter(reachable, func(x string) bool { return !isNew(x) })
	rank := func(x string) int {
		switch {
		case !analysed[short(x)]:
			return 0
		case inFile[x]:
			return 1
		}
		return 2
	}
	sort.SliceStable(old, func(i, j int) bool { return rank(old[i]) < rank(old[j]) })
	addSingles(old, 2)
	if os.Getenv("GCACHECK_DEBUG") != "" {
		fmt.Fprintf(os.Stderr, "forms to try: %v\n", variants)
	}
	if len(variants) == 0 {
		return nil
	}
	return tryVariants(repo, cfg, pc, tier, variants, short, failing, r)
}

// coversFailures: the result on the equivalent form decides what was not decided on the source as written: every rule
// that failed there applies here at least as often (and all its instances are proved). A form on which a rule simply
// does not apply any more (its anchor moved) proves nothing about that rule.
func coversFailures(orig, r2 *an.Result) bool {
	failedRules := map[string]bool{}
	count := func(r *an.Result, rule string) int {
		n := 0
		for _, o := range r.Obls {
			if o.Rule == rule && o.Verdict != an.Note && !strings.HasPrefix(o.Key, "floor:") {
				n++
			}
		}
		return n
	}
	for _, o := range orig.Obls {
		if o.Verdict != an.Violated && o.Verdict != an.Undecided {
			continue
		}
		if o.Rule == "ANCHOR" || strings.Contains(o.Why, "anchor missing") {
			continue // no rule instance: the form must simply decide everything (checked by the caller)
		}
		failedRules[o.Rule] = true
	}
	construct := func(key string) string {
		if i := strings.LastIndex(key, "|"); i >= 0 {
			return key[i+1:]
		}
		return key
	}
	// pairedElsewhere: the rule has at least one instance more than was already proved on the source as written, and
	// every construct that failed there is examined on the form (same rule, same construct, whatever function it now
	// sits in): two failures of one pairing (append here, advance in the helper) become one proved pair
	pairedElsewhere := func(rule string) bool {
		proved := 0
		for _, o := range orig.Obls {
			if o.Rule == rule && o.Verdict == an.Proved {
				proved++
			}
		}
		if count(r2, rule) < proved+1 {
			return false
		}
		for _, o := range orig.Obls {
			if o.Rule != rule || (o.Verdict != an.Violated && o.Verdict != an.Undecided) || strings.HasPrefix(o.Key, "floor:") {
				continue
			}
			found := false
			for _, o2 := range r2.Obls {
				if o2.Rule == rule && o2.Verdict == an.Proved && construct(o2.Key) == construct(o.Key) {
					found = true
				}
			}
			if !found {
				if os.Getenv("GCACHECK_DEBUG") != "" {
					fmt.Fprintf(os.Stderr, "equivalent form does not examine %s\n", o.Key)
				}
				return false
			}
		}
		return true
	}
	for rule := range failedRules {
		// the rule that failed applies on the form at least as often as on the source as written (and, by the
		// caller's test, every instance is proved there)
		if count(r2, rule) < count(orig, rule) && !pairedElsewhere(rule) {
			if os.Getenv("GCACHECK_DEBUG") != "" {
				fmt.Fprintf(os.Stderr, "equivalent form has fewer instances of rule %s: %d < %d\n", rule, count(r2, rule), count(orig, rule))
			}
			return false
		}
	}
	return true
}

func tryVariants(repo string, cfg an.Config, pc *an.PropertyCheck, tier string, variants [][]string, short func(string) string, failing string, orig *an.Result) *an.Result {
	env, flags := an.LoadEnv(cfg)
	for _, v := range variants {
		key := cfg.ID + "|" + strings.Join(v, ",")
		p2, have := normProgs[key]
		if !have {
			set := map[string]bool{}
			for _, x := range v {
				set[x] = true
			}
			norm.Only = func(full string) bool { return set[full] }
			res, err := norm.Inline(repo, env, flags, an.ModulePath, "./glow", "./server", "./client")
			norm.Only = nil
			if err != nil || len(res.Inlined) == 0 {
				if os.Getenv("GCACHECK_DEBUG") != "" {
					fmt.Fprintf(os.Stderr, "variant %v: nothing inlined (err %v)\n", v, err)
					if res != nil {
						for _, why := range res.Skipped {
							fmt.Fprintf(os.Stderr, "    skipped %s\n", why)
						}
					}
				}
				normProgs[key] = nil
				continue
			}
			p2, err = an.LoadOverlay(repo, cfg, res.Overlay)
			if err != nil {
				normProgs[key] = nil
				continue
			}
			if tier == "thorough" {
				p2.SetInlineBound(8)
			}
			// few variant programs are kept (each holds a whole type-checked program, about 1 GB)
			// (at most 3: a variant that decided a property is kept in preference to those that decided nothing)
			if len(normOrder) >= 3 {
				k := 0
				for i, key := range normOrder {
					if !normGood[key] {
						k = i
						break
					}
				}
				old := normOrder[k]
				normOrder = append(normOrder[:k], normOrder[k+1:]...)
				delete(normProgs, old)
				delete(normInlined, old)
				delete(normGood, old)
				debug.FreeOSMemory()
			}
			normOrder = append(normOrder, key)
			normProgs[key] = p2
			normInlined[key] = res.Inlined
		}
		if p2 == nil {
			continue
		}
		c2 := an.NewCtx(p2, pc.ID, tier)
		func() {
			defer func() {
				if rec := recover(); rec != nil {
					c2.R.Error = fmt.Sprintf("checker panic: %v", rec)
					if os.Getenv("GCACHECK_DEBUG") != "" {
						fmt.Fprintf(os.Stderr, "%s\n", debug.Stack())
					}
				}
			}()
			pc.Run(c2)
		}()
		c2.Finish()
		if os.Getenv("GCACHECK_DEBUG") != "" {
			fmt.Fprintf(os.Stderr, "variant %v (inlined %v): failed=%v\n", v, normInlined[key], failedResult(c2.R))
			n := 0
			for _, o := range c2.R.Obls {
				if (o.Verdict == an.Violated || o.Verdict == an.Undecided) && n < 6 {
					n++
					fmt.Fprintf(os.Stderr, "    %s %s [%s] %.200s -- %.200s\n", o.Pos, o.Func, o.Rule, o.Desc, o.Why)
				}
			}
			if c2.R.Error != "" {
				fmt.Fprintf(os.Stderr, "    error %s\n", c2.R.Error)
			}
		}
		if !failedResult(c2.R) && coversFailures(orig, c2.R) {
			var names []string
			for _, x := range v {
				names = append(names, short(x))
			}
			c2.Note("FORM", nil, 0, "equivalent-form", "decided on an equivalent form of the source: the single-caller helper(s) "+strings.Join(names, ", ")+" inlined into their caller (package norm; positions refer to that form); "+fmt.Sprintf("%d obligation(s) were not proved on the source as written", strings.Count(failing, "\n")))
			c2.Finish()
			normGood[key] = true
			return c2.R
		}
	}
	return nil
}

// ---- parent ---------------------------------------------------------------------

type knownFinding struct {
	Prop string
	Key  string
	What string
}

func loadKnown(verif string) (known []knownFinding, fixed []string) {
	f, err := os.Open(filepath.Join(verif, "known_findings.txt"))
	if err != nil {
		return nil, nil
	}
	defer f.Close()
	sc := bufio.NewScanner(f)
	for sc.Scan() {
		line := strings.TrimSpace(sc.Text())
		switch {
		case strings.HasPrefix(line, "known:"):
			rest := strings.Fields(strings.TrimPrefix(line, "known:"))
			kf := knownFinding{}
			var what []string
			for _, w := range rest {
				switch {
				case strings.HasPrefix(w, "property=") && kf.Prop == "":
					kf.Prop = strings.TrimPrefix(w, "property=")
				case strings.HasPrefix(w, "key=") && kf.Key == "":
					kf.Key = strings.TrimPrefix(w, "key=")
				default:
					what = append(what, w)
				}
			}
			kf.What = strings.Join(what, " ")
			known = append(known, kf)
		case strings.HasPrefix(line, "fixed:"):
			fixed = append(fixed, line)
		}
	}
	return known, fixed
}

func runParent(repo, verif, prop, tier string, noEvidence bool) int {
	checks := selected(prop)
	if len(checks) == 0 {
		fmt.Fprintln(os.Stderr, "unknown property", prop)
		return 2
	}
	cfgs := []string{"K1", "K2"}
	if tier == "thorough" {
		cfgs = []string{"K1", "K2", "K3", "K4", "K5"}
	}
	self, _ := os.Executable()
	t0 := time.Now()
	results := map[string]map[string]*an.Result{} // prop -> config -> result
	var mu sync.Mutex
	var wg sync.WaitGroup
	sem := make(chan struct{}, 3)
	for _, cfg := range cfgs {
		wg.Add(1)
		go func(cfg string) {
			defer wg.Done()
			sem <- struct{}{}
			defer func() { <-sem }()
			ctx, cancel := context.WithTimeout(context.Background(), 15*time.Minute)
			defer cancel()
			cmd := exec.CommandContext(ctx, self, "-worker", "-repo", repo, "-config", cfg, "-prop", prop, "-tier", tier)
			cmd.Stderr = os.Stderr
			out, err := cmd.Output()
			dec := json.NewDecoder(strings.NewReader(string(out)))
			got := 0
			for {
				var r an.Result
				if e := dec.Decode(&r); e != nil {
					break
				}
				got++
				mu.Lock()
				if results[r.Prop] == nil {
					results[r.Prop] = map[string]*an.Result{}
				}
				rr := r
				results[r.Prop][cfg] = &rr
				mu.Unlock()
			}
			if err != nil || got == 0 {
				mu.Lock()
				for _, pc := range checks {
					if results[pc.ID] == nil {
						results[pc.ID] = map[string]*an.Result{}
					}
					if results[pc.ID][cfg] == nil {
						results[pc.ID][cfg] = &an.Result{Prop: pc.ID, Config: cfg, Error: fmt.Sprintf("worker failed: %v", err)}
					}
				}
				mu.Unlock()
			}
		}(cfg)
	}
	wg.Wait()
	wall := time.Since(t0).Seconds()
	known, fixed := loadKnown(verif)
	seed, _ := strconv.Atoi(os.Getenv("VERIF_SEED"))

	exit := 0
	for _, pc := range checks {
		code := report(pc, results[pc.ID], cfgs, tier, seed, wall, verif, known, fixed, noEvidence)
		if code == 1 || (code == 2 && exit == 0) {
			exit = code
		}
	}
	return exit
}

type evidence struct {
	PropertyID  string                 `json:"property_id"`
	Tier        string                 `json:"tier"`
	Seed        int                    `json:"seed"`
	Level       string                 `json:"level"`
	Coverage    map[string]interface{} `json:"coverage"`
	Assumptions []string               `json:"assumptions"`
	WallS       float64                `json:"wall_s"`
	Violations  int                    `json:"violations"`
}

func report(pc *an.PropertyCheck, byCfg map[string]*an.Result, cfgs []string, tier string, seed int, wall float64, verif string,
	known []knownFinding, fixed []string, noEvidence bool) int {

	type agg struct {
		o    an.Obligation
		cfgs []string
	}
	merged := map[string]*agg{}
	var order []string
	var errs []string
	perCfg := map[string]interface{}{}
	instances := map[string]int{}
	floors := map[string]int{}
	analysed := map[string]bool{}
	for _, cfg := range cfgs {
		r := byCfg[cfg]
		if r == nil {
			errs = append(errs, cfg+": no result")
			continue
		}
		if r.Error != "" {
			errs = append(errs, cfg+": "+r.Error)
		}
		np, nv, nu, nn := 0, 0, 0, 0
		for _, o := range r.Obls {
			switch o.Verdict {
			case an.Proved:
				np++
			case an.Violated:
				nv++
			case an.Undecided:
				nu++
			case an.Note:
				nn++
			}
			k := o.Verdict + "|" + o.Rule + "|" + o.Key + "|" + o.Desc
			if a, ok := merged[k]; ok {
				a.cfgs = append(a.cfgs, cfg)
			} else {
				merged[k] = &agg{o: o, cfgs: []string{cfg}}
				order = append(order, k)
			}
		}
		for k, v := range r.Instances {
			if v > instances[k] {
				instances[k] = v
			}
		}
		for k, v := range r.Floors {
			floors[k] = v
		}
		for _, f := range r.Analysed {
			analysed[f] = true
		}
		perCfg[cfg] = map[string]interface{}{"packages": r.Packages, "functions_loaded": r.Funcs, "callgraph_edges": r.Edges,
			"functions_in_scope": len(r.Analysed), "proved": np, "violated": nv, "undecided": nu, "notes": nn, "wall_s": r.WallS}
	}

	var violations, undecided, notes, provedL, knownHits []an.Obligation
	for _, k := range order {
		a := merged[k]
		o := a.o
		o.Config = strings.Join(a.cfgs, ",")
		switch o.Verdict {
		case an.Violated:
			isKnown := false
			for _, kf := range known {
				if kf.Prop == pc.ID && kf.Key == o.Rule+"|"+o.Key {
					isKnown = true
					fmt.Printf("KNOWN-FINDING: property=%s %s\n", pc.ID, kf.What)
				}
			}
			if isKnown {
				knownHits = append(knownHits, o)
			} else {
				violations = append(violations, o)
			}
		case an.Undecided:
			undecided = append(undecided, o)
		case an.Note:
			notes = append(notes, o)
		case an.Proved:
			provedL = append(provedL, o)
		}
	}

	nObl := len(provedL) + len(violations) + len(undecided) + len(knownHits)
	fmt.Printf("%s %s [%s, configs %s]: %d obligations: %d proved, %d violated, %d undecided, %d known findings, %d notes (%.1fs)\n",
		pc.ID, pc.Title, tier, strings.Join(cfgs, "+"), nObl, len(provedL), len(violations), len(undecided), len(knownHits), len(notes), wall)

	exit := 0
	replayPath := filepath.Join(verif, "out", pc.ID+".violations.txt")
	if len(violations) > 0 {
		exit = 1
		var sb strings.Builder
		for _, o := range violations {
			line := fmt.Sprintf("%s: %s [%s] %s -- %s (configs %s; key %s|%s)", o.Pos, o.Func, o.Rule, o.Desc, o.Why, o.Config, o.Rule, o.Key)
			fmt.Println("  violated:", line)
			sb.WriteString(line + "\n")
		}
		if !noEvidence {
			os.MkdirAll(filepath.Dir(replayPath), 0755)
			os.WriteFile(replayPath, []byte(sb.String()), 0644)
		}
		fmt.Printf("VIOLATION property=%s replay=%s\n", pc.ID, replayPath)
	} else if !noEvidence {
		os.Remove(replayPath)
	}
	if len(undecided) > 0 || len(errs) > 0 {
		for _, o := range undecided {
			fmt.Printf("  undecided: %s: %s [%s] %s -- %s\n", o.Pos, o.Func, o.Rule, o.Desc, o.Why)
		}
		for _, e := range errs {
			fmt.Println("  error:", e)
		}
		reason := "shape-not-recognised"
		if len(errs) > 0 {
			reason = "analysis-error"
		}
		fmt.Printf("UNDECIDED property=%s reason=%s count=%d\n", pc.ID, reason, len(undecided)+len(errs))
		if exit == 0 {
			exit = 2
		}
	}

	if noEvidence {
		return exit
	}
	// ---- evidence ----
	sample := func(l []an.Obligation, n int) []an.Obligation {
		if len(l) <= n {
			return l
		}
		// spread the samples over the rules
		seen := map[string]int{}
		var out []an.Obligation
		for _, o := range l {
			if seen[o.Rule] < 2 && len(out) < n {
				out = append(out, o)
				seen[o.Rule]++
			}
		}
		return out
	}
	distinct := map[string]bool{}
	rules := map[string]int{}
	for _, l := range [][]an.Obligation{provedL, violations, undecided, knownHits} {
		for _, o := range l {
			distinct[o.Rule+"|"+o.Key] = true
			rules[o.Rule]++
		}
	}
	var analysedL []string
	for f := range analysed {
		analysedL = append(analysedL, f)
	}
	sort.Strings(analysedL)
	var samples []interface{}
	for _, o := range sample(provedL, 12) {
		samples = append(samples, o)
	}
	for _, o := range violations {
		samples = append(samples, o)
	}
	for _, o := range undecided {
		samples = append(samples, o)
	}
	if len(samples) == 0 {
		samples = append(samples, map[string]string{"note": "no obligations were produced", "errors": strings.Join(errs, "; ")})
	}
	all := tier == "thorough"
	cov := map[string]interface{}{
		"explanation":          pc.Explanation,
		"technique":            "static analysis: " + pc.Engines,
		"rule":                 "an obligation is one construct (call site, store, index, exit edge, predicate, codec field) at which a rule instance must hold; distinct = distinct (rule, construct key); all are non-trivial by construction (each needs a dominance, dataflow, predicate-equivalence or grammar argument)",
		"evaluations":          nObl,
		"distinct_nontrivial":  len(distinct),
		"obligations":          nObl,
		"discharged":           len(provedL),
		"violated":             len(violations),
		"undecided":            len(undecided),
		"known_findings":       knownHits,
		"notes":                notes,
		"obligations_per_rule": rules,
		"rule_instances":       instances,
		"rule_floors":          floors,
		"configurations":       perCfg,
		"functions_in_scope":   analysedL,
		"samples":              samples,
		"exhaustive":           false,
		"checker_cmd":          "checker/bin/gcacheck -prop " + pc.ID + " -tier " + tier,
		"trusted_base":         pc.Assumptions,
		"errors":               errs,
		"fixed_defects_listed": fixed,
	}
	if all {
		cov["all_obligations"] = append(append(append([]an.Obligation{}, provedL...), violations...), undecided...)
	}
	ev := evidence{PropertyID: pc.ID, Tier: tier, Seed: seed, Level: "other", Coverage: cov, Assumptions: pc.Assumptions,
		WallS: wall, Violations: len(violations)}
	os.MkdirAll(filepath.Join(verif, "evidence"), 0755)
	b, _ := json.MarshalIndent(ev, "", " ")
	if err := os.WriteFile(filepath.Join(verif, "evidence", pc.ID+".json"), b, 0644); err != nil {
		fmt.Fprintln(os.Stderr, "cannot write evidence:", err)
		if exit == 0 {
			exit = 2
		}
	}
	return exit
}

// ---- debug ----------------------------------------------------------------------

func debugDump(repo, cfgID, pat string) {
	cfg, _ := an.ConfigByID(cfgID)
	p, err := an.Load(repo, cfg)
	if err != nil {
		fmt.Fprintln(os.Stderr, err)
		os.Exit(2)
	}
	fmt.Printf("loaded %s: %d packages, %d functions, %d call edges, int=%d bits\n", cfg.ID, p.NumPackages, p.NumFuncs, p.NumEdges, p.IntBits)
	for _, fn := range p.SrcFuncs() {
		if !strings.Contains(fn.String(), pat) {
			continue
		}
		fi := p.Info(fn)
		fmt.Println("==", an.FuncName(fn))
		e := p.Effect(fn)
		fmt.Println("  writes:", e.WritesSorted(), "locks:", e.Locks, "blocks:", e.Blocks, "pure:", e.Pure(), "fresh:", e.Fresh)
		for _, a := range p.AccessesOf(fn) {
			fmt.Printf("  access %s %s write=%v %s\n", fi.ID(a.Instr), a.Cls, a.Write, a.What)
		}
		for _, b := range fn.Blocks {
			fmt.Printf(" block %d  facts:\n", b.Index)
			for _, f := range fi.FactsAtBlock(b).Sorted() {
				fmt.Println("     ", f)
			}
			for _, in := range b.Instrs {
				if v, ok := in.(ssa.Value); ok {
					fmt.Printf("   %s %s = %s\n        %s\n", fi.ID(in), v.Name(), in, fi.Term(v))
				} else {
					fmt.Printf("   %s %s\n", fi.ID(in), in)
				}
			}
		}
	}
}
