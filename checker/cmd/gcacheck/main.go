package main

import (
	"flag"
	"fmt"
	"os"
	"strings"

	"gcacheck/internal/an"

	"golang.org/x/tools/go/ssa"
)

func main() {
	repo := flag.String("repo", "/repo", "repository under analysis")
	cfgID := flag.String("config", "K1", "build configuration")
	dump := flag.String("dump", "", "debug: dump terms and facts of functions whose name contains this string")
	flag.Parse()
	cfg, ok := an.ConfigByID(*cfgID)
	if !ok {
		fmt.Fprintln(os.Stderr, "unknown config")
		os.Exit(2)
	}
	p, err := an.Load(*repo, cfg)
	if err != nil {
		fmt.Fprintln(os.Stderr, err)
		os.Exit(2)
	}
	fmt.Printf("loaded %s: %d packages, %d functions, %d call edges, int=%d bits\n", cfg.ID, p.NumPackages, p.NumFuncs, p.NumEdges, p.IntBits)
	if *dump != "" {
		for _, fn := range p.SrcFuncs() {
			if !strings.Contains(fn.String(), *dump) {
				continue
			}
			fi := p.Info(fn)
			fmt.Println("==", an.FuncName(fn))
			e := p.Effect(fn)
			fmt.Println("  writes:", e.WritesSorted(), "locks:", e.Locks, "blocks:", e.Blocks, "pure:", e.Pure(), "fresh:", e.Fresh)
			for _, b := range fn.Blocks {
				fmt.Printf(" block %d  facts:\n", b.Index)
				for _, f := range fi.FactsAtBlock(b).Sorted() {
					fmt.Println("     ", f)
				}
				for _, in := range b.Instrs {
					if v, ok := in.(ssa.Value); ok {
						fmt.Printf("   %s %s = %s\n        %s\n", fi.ID(in), v.Name(), in, fi.Term(v))
					} else {
						fmt.Printf("   %s %s\n", fi.ID(in), in)
					}
				}
			}
		}
	}
}
