// gcacheck decides the properties C01..C20 of glowlabs-org/gca-backend by
// static analysis of the repository's current source (see /verif/DESIGN.md).
//
//	gcacheck -prop C13 -tier quick      one property (what MANIFEST.json registers)
//	gcacheck -prop all -tier quick      every property (used by the self test)
//
// Exit status: 0 every obligation proved (or a listed known finding); 1 at least
// one violation (a line "VIOLATION property=<id> replay=<path>" is printed);
// 2 undecided (an anchor or shape was not recognised; no VIOLATION line).
package main

import (
	"bufio"
	"context"
	"encoding/json"
	"flag"
	"fmt"
	"go/types"
	"os"
	"os/exec"
	"path/filepath"
	"sort"
	"strconv"
	"strings"
	"sync"
	"time"

	"gcacheck/internal/an"
	"gcacheck/internal/norm"
	"gcacheck/internal/props"

	"golang.org/x/tools/go/ssa"
)

func main() {
	repo := flag.String("repo", "/repo", "repository under analysis")
	verif := flag.String("verif", "/verif", "verification directory (evidence, known findings)")
	prop := flag.String("prop", "", "property id (C01..C20) or 'all'")
	tier := flag.String("tier", "", "quick or thorough (default: $VERIF_TIER or quick)")
	worker := flag.Bool("worker", false, "internal: analyse one configuration and print JSON")
	cfgID := flag.String("config", "K1", "internal/debug: build configuration")
	dump := flag.String("dump", "", "debug: dump terms and facts of functions whose name contains this string")
	codec := flag.String("codec", "", "debug: list the codec events of functions whose name contains this string")
	bounds := flag.String("bounds", "", "debug: list the BOUND obligations of functions whose name contains this string")
	noEvidence := flag.Bool("no-evidence", false, "do not write evidence files (self test on scratch copies)")
	explain := flag.Bool("explain", false, "print, as markdown, what every registered check decides and does not decide (the text that also goes into the evidence files)")
	flag.Parse()
	if *explain {
		for _, pc := range props.All() {
			fmt.Printf("#### %s – %s\n\n*Engines:* %s.\n\n%s\n\n*Trusted:* %s.\n\n", pc.ID, pc.Title, pc.Engines, pc.Explanation, strings.Join(pc.Assumptions, "; "))
		}
		return
	}

	if *tier == "" {
		*tier = os.Getenv("VERIF_TIER")
	}
	if *tier != "thorough" {
		*tier = "quick"
	}
	if *dump != "" {
		debugDump(*repo, *cfgID, *dump)
		return
	}
	if *codec != "" {
		cfg, _ := an.ConfigByID(*cfgID)
		p, err := an.Load(*repo, cfg)
		if err != nil {
			fmt.Fprintln(os.Stderr, err)
			os.Exit(2)
		}
		for _, fn := range p.SrcFuncs() {
			if !strings.Contains(fn.String(), *codec) {
				continue
			}
			fmt.Println(an.FuncName(fn), an.EventSigs(p.CodecEvents(fn)))
		}
		return
	}
	if *bounds != "" {
		cfg, _ := an.ConfigByID(*cfgID)
		p, err := an.Load(*repo, cfg)
		if err != nil {
			fmt.Fprintln(os.Stderr, err)
			os.Exit(2)
		}
		for _, fn := range p.SrcFuncs() {
			if !strings.Contains(fn.String(), *bounds) {
				continue
			}
			fmt.Print(p.Info(fn).DebugPhis())
			for _, o := range p.BoundObligations(fn) {
				st := "ok  "
				if !o.OK {
					st = "FAIL"
				}
				fmt.Printf("%s %s %s %s %s -- %s\n", st, o.Kind, p.Pos(o.Instr.Pos()), an.FuncName(fn), o.Expr, o.Why)
			}
		}
		return
	}
	if *worker {
		runWorker(*repo, *cfgID, *prop, *tier)
		return
	}
	if *prop == "" {
		fmt.Fprintln(os.Stderr, "usage: gcacheck -prop Cxx|all [-tier quick|thorough]")
		os.Exit(2)
	}
	os.Exit(runParent(*repo, *verif, *prop, *tier, *noEvidence))
}

func selected(prop string) []*an.PropertyCheck {
	var out []*an.PropertyCheck
	for _, pc := range props.All() {
		if prop == "all" || pc.ID == prop {
			out = append(out, pc)
		}
	}
	return out
}

// ---- worker ---------------------------------------------------------------------

func runWorker(repo, cfgID, prop, tier string) {
	cfg, ok := an.ConfigByID(cfgID)
	if !ok {
		fmt.Fprintln(os.Stderr, "unknown config", cfgID)
		os.Exit(3)
	}
	enc := json.NewEncoder(os.Stdout)
	checks := selected(prop)
	t0 := time.Now()
	p, err := an.Load(repo, cfg)
	if err != nil {
		for _, pc := range checks {
			enc.Encode(&an.Result{Prop: pc.ID, Config: cfgID, Error: err.Error()})
		}
		return
	}
	if tier == "thorough" {
		p.SetInlineBound(8)
	}
	loadS := time.Since(t0).Seconds()
	for _, pc := range checks {
		t1 := time.Now()
		c := an.NewCtx(p, pc.ID, tier)
		func() {
			defer func() {
				if r := recover(); r != nil {
					c.R.Error = fmt.Sprintf("checker panic: %v", r)
				}
			}()
			pc.Run(c)
		}()
		c.Finish()
		if failedResult(c.R) {
			if r2 := decideOnEquivalentForm(repo, cfg, p, pc, c.R, tier); r2 != nil {
				c.R = r2
			}
		}
		c.R.WallS = time.Since(t1).Seconds() + loadS
		enc.Encode(c.R)
	}
}

func failedResult(r *an.Result) bool {
	if r.Error != "" {
		return true
	}
	for _, o := range r.Obls {
		if o.Verdict == an.Violated || o.Verdict == an.Undecided {
			return true
		}
	}
	return false
}

var (
	normCands   map[string][]norm.Cand // per config
	normProgs   = map[string]*an.Program{}
	normInlined = map[string][]string{}
)

// decideOnEquivalentForm re-decides a check that did not succeed on the program as written on semantically equivalent
// forms of it, obtained by inlining helpers that have a single caller (package norm): first all the helpers that the
// unproved obligations mention (as the helper or as its caller), then each of them alone. The first form on which every
// obligation is proved gives the result (with a note naming the form); otherwise the original result stands.
func decideOnEquivalentForm(repo string, cfg an.Config, p *an.Program, pc *an.PropertyCheck, r *an.Result, tier string) *an.Result {
	env, flags := an.LoadEnv(cfg)
	if normCands == nil {
		normCands = map[string][]norm.Cand{}
	}
	cands, ok := normCands[cfg.ID]
	if !ok {
		cs, err := norm.Candidates(repo, env, flags, an.ModulePath, "./glow", "./server", "./client")
		if err != nil {
			cs = nil
		}
		normCands[cfg.ID] = cs
		cands = cs
	}
	if os.Getenv("GCACHECK_DEBUG") != "" {
		fmt.Fprintf(os.Stderr, "equivalent forms for %s/%s: %d candidates\n", pc.ID, cfg.ID, len(cands))
	}
	if len(cands) == 0 {
		return nil
	}
	short := func(full string) string { return strings.ReplaceAll(full, an.ModulePath+"/", "") }
	var text strings.Builder
	for _, o := range r.Obls {
		if o.Verdict == an.Violated || o.Verdict == an.Undecided {
			text.WriteString(o.Key + " " + o.Func + " " + o.Desc + " " + o.Why + "\n")
		}
	}
	failing := text.String()
	var related []string
	for _, cd := range cands {
		if strings.Contains(failing, short(cd.Callee)) || (cd.Caller != "" && strings.Contains(failing, short(cd.Caller))) {
			related = append(related, cd.Callee)
		}
	}
	if len(related) == 0 {
		// nothing names a function (an anchor was not found): the helpers that can hide an anchor are those that write
		// shared state, perform file operations or hand out a pointer
		anchorMissing := false
		for _, o := range r.Obls {
			if (o.Verdict == an.Violated || o.Verdict == an.Undecided) && (o.Rule == "ANCHOR" || strings.Contains(o.Why, "anchor missing")) {
				anchorMissing = true
			}
		}
		if !anchorMissing {
			return nil
		}
		byName := map[string]*ssa.Function{}
		for _, fn := range p.SrcFuncs() {
			byName[an.FuncName(fn)] = fn
		}
		for _, cd := range cands {
			fn := byName[short(cd.Callee)]
			if fn == nil {
				continue
			}
			e := p.Effect(fn)
			ptr := false
			res := fn.Signature.Results()
			for i := 0; i < res.Len(); i++ {
				if _, ok := res.At(i).Type().Underlying().(*types.Pointer); ok {
					ptr = true
				}
			}
			rank := -1
			switch {
			case ptr:
				rank = 0
			case e != nil && len(e.FileOps) > 0:
				rank = 1
			case e != nil && len(e.Writes) > 0:
				rank = 2
			}
			if rank >= 0 {
				dup := false
				for _, x := range related {
					if x[2:] == cd.Callee {
						dup = true
					}
				}
				if !dup {
					related = append(related, fmt.Sprintf("%d:%s", rank, cd.Callee))
				}
			}
		}
		sort.Strings(related)
		for i := range related {
			related[i] = related[i][2:]
		}
		// singles only: inlining all of them at once would move the anchors of the other rules
		if len(related) == 0 {
			return nil
		}
		if len(related) > 16 {
			related = related[:16]
		}
		var vs [][]string
		for _, x := range related {
			vs = append(vs, []string{x})
		}
		return tryVariants(repo, cfg, pc, tier, vs, short, failing, r)
	}
	if len(related) > 12 {
		return nil
	}
	variants := [][]string{related}
	if len(related) > 1 {
		for _, x := range related {
			variants = append(variants, []string{x})
		}
	}
	return tryVariants(repo, cfg, pc, tier, variants, short, failing, r)
}

// coversFailures: the result on the equivalent form decides what was not decided on the source as written: every rule
// that failed there applies here at least as often (and all its instances are proved). A form on which a rule simply
// does not apply any more (its anchor moved) proves nothing about that rule.
func coversFailures(orig, r2 *an.Result) bool {
	failedRules := map[string]bool{}
	count := func(r *an.Result, rule string) int {
		n := 0
		for _, o := range r.Obls {
			if o.Rule == rule && o.Verdict != an.Note {
				n++
			}
		}
		return n
	}
	for _, o := range orig.Obls {
		if o.Verdict != an.Violated && o.Verdict != an.Undecided {
			continue
		}
		if o.Rule == "ANCHOR" || strings.Contains(o.Why, "anchor missing") {
			continue // no rule instance: the form must simply decide everything (checked by the caller)
		}
		failedRules[o.Rule] = true
	}
	for rule := range failedRules {
		// the rule that failed applies on the form at least as often as on the source as written (and, by the
		// caller's test, every instance is proved there)
		if count(r2, rule) < count(orig, rule) {
			if os.Getenv("GCACHECK_DEBUG") != "" {
				fmt.Fprintf(os.Stderr, "equivalent form has fewer instances of rule %s: %d < %d\n", rule, count(r2, rule), count(orig, rule))
			}
			return false
		}
	}
	return true
}

func tryVariants(repo string, cfg an.Config, pc *an.PropertyCheck, tier string, variants [][]string, short func(string) string, failing string, orig *an.Result) *an.Result {
	env, flags := an.LoadEnv(cfg)
	for _, v := range variants {
		key := cfg.ID + "|" + strings.Join(v, ",")
		p2, have := normProgs[key]
		if !have {
			set := map[string]bool{}
			for _, x := range v {
				set[x] = true
			}
			norm.Only = func(full string) bool { return set[full] }
			res, err := norm.Inline(repo, env, flags, an.ModulePath, "./glow", "./server", "./client")
			norm.Only = nil
			if err != nil || len(res.Inlined) == 0 {
				normProgs[key] = nil
				continue
			}
			p2, err = an.LoadOverlay(repo, cfg, res.Overlay)
			if err != nil {
				normProgs[key] = nil
				continue
			}
			if tier == "thorough" {
				p2.SetInlineBound(8)
			}
			normProgs[key] = p2
			normInlined[key] = res.Inlined
		}
		if p2 == nil {
			continue
		}
		c2 := an.NewCtx(p2, pc.ID, tier)
		func() {
			defer func() {
				if rec := recover(); rec != nil {
					c2.R.Error = fmt.Sprintf("checker panic: %v", rec)
				}
			}()
			pc.Run(c2)
		}()
		c2.Finish()
		if !failedResult(c2.R) && coversFailures(orig, c2.R) {
			var names []string
			for _, x := range v {
				names = append(names, short(x))
			}
			c2.Note("FORM", nil, 0, "equivalent-form", "decided on an equivalent form of the source: the single-caller helper(s) "+strings.Join(names, ", ")+" inlined into their caller (package norm; positions refer to that form); "+fmt.Sprintf("%d obligation(s) were not proved on the source as written", strings.Count(failing, "\n")))
			c2.Finish()
			return c2.R
		}
	}
	return nil
}

// ---- parent ---------------------------------------------------------------------

type knownFinding struct {
	Prop string
	Key  string
	What string
}

func loadKnown(verif string) (known []knownFinding, fixed []string) {
	f, err := os.Open(filepath.Join(verif, "known_findings.txt"))
	if err != nil {
		return nil, nil
	}
	defer f.Close()
	sc := bufio.NewScanner(f)
	for sc.Scan() {
		line := strings.TrimSpace(sc.Text())
		switch {
		case strings.HasPrefix(line, "known:"):
			rest := strings.Fields(strings.TrimPrefix(line, "known:"))
			kf := knownFinding{}
			var what []string
			for _, w := range rest {
				switch {
				case strings.HasPrefix(w, "property=") && kf.Prop == "":
					kf.Prop = strings.TrimPrefix(w, "property=")
				case strings.HasPrefix(w, "key=") && kf.Key == "":
					kf.Key = strings.TrimPrefix(w, "key=")
				default:
					what = append(what, w)
				}
			}
			kf.What = strings.Join(what, " ")
			known = append(known, kf)
		case strings.HasPrefix(line, "fixed:"):
			fixed = append(fixed, line)
		}
	}
	return known, fixed
}

func runParent(repo, verif, prop, tier string, noEvidence bool) int {
	checks := selected(prop)
	if len(checks) == 0 {
		fmt.Fprintln(os.Stderr, "unknown property", prop)
		return 2
	}
	cfgs := []string{"K1", "K2"}
	if tier == "thorough" {
		cfgs = []string{"K1", "K2", "K3", "K4", "K5"}
	}
	self, _ := os.Executable()
	t0 := time.Now()
	results := map[string]map[string]*an.Result{} // prop -> config -> result
	var mu sync.Mutex
	var wg sync.WaitGroup
	sem := make(chan struct{}, 3)
	for _, cfg := range cfgs {
		wg.Add(1)
		go func(cfg string) {
			defer wg.Done()
			sem <- struct{}{}
			defer func() { <-sem }()
			ctx, cancel := context.WithTimeout(context.Background(), 15*time.Minute)
			defer cancel()
			cmd := exec.CommandContext(ctx, self, "-worker", "-repo", repo, "-config", cfg, "-prop", prop, "-tier", tier)
			cmd.Stderr = os.Stderr
			out, err := cmd.Output()
			dec := json.NewDecoder(strings.NewReader(string(out)))
			got := 0
			for {
				var r an.Result
				if e := dec.Decode(&r); e != nil {
					break
				}
				got++
				mu.Lock()
				if results[r.Prop] == nil {
					results[r.Prop] = map[string]*an.Result{}
				}
				rr := r
				results[r.Prop][cfg] = &rr
				mu.Unlock()
			}
			if err != nil || got == 0 {
				mu.Lock()
				for _, pc := range checks {
					if results[pc.ID] == nil {
						results[pc.ID] = map[string]*an.Result{}
					}
					if results[pc.ID][cfg] == nil {
						results[pc.ID][cfg] = &an.Result{Prop: pc.ID, Config: cfg, Error: fmt.Sprintf("worker failed: %v", err)}
					}
				}
				mu.Unlock()
			}
		}(cfg)
	}
	wg.Wait()
	wall := time.Since(t0).Seconds()
	known, fixed := loadKnown(verif)
	seed, _ := strconv.Atoi(os.Getenv("VERIF_SEED"))

	exit := 0
	for _, pc := range checks {
		code := report(pc, results[pc.ID], cfgs, tier, seed, wall, verif, known, fixed, noEvidence)
		if code == 1 || (code == 2 && exit == 0) {
			exit = code
		}
	}
	return exit
}

type evidence struct {
	PropertyID  string                 `json:"property_id"`
	Tier        string                 `json:"tier"`
	Seed        int                    `json:"seed"`
	Level       string                 `json:"level"`
	Coverage    map[string]interface{} `json:"coverage"`
	Assumptions []string               `json:"assumptions"`
	WallS       float64                `json:"wall_s"`
	Violations  int                    `json:"violations"`
}

func report(pc *an.PropertyCheck, byCfg map[string]*an.Result, cfgs []string, tier string, seed int, wall float64, verif string,
	known []knownFinding, fixed []string, noEvidence bool) int {

	type agg struct {
		o    an.Obligation
		cfgs []string
	}
	merged := map[string]*agg{}
	var order []string
	var errs []string
	perCfg := map[string]interface{}{}
	instances := map[string]int{}
	floors := map[string]int{}
	analysed := map[string]bool{}
	for _, cfg := range cfgs {
		r := byCfg[cfg]
		if r == nil {
			errs = append(errs, cfg+": no result")
			continue
		}
		if r.Error != "" {
			errs = append(errs, cfg+": "+r.Error)
		}
		np, nv, nu, nn := 0, 0, 0, 0
		for _, o := range r.Obls {
			switch o.Verdict {
			case an.Proved:
				np++
			case an.Violated:
				nv++
			case an.Undecided:
				nu++
			case an.Note:
				nn++
			}
			k := o.Verdict + "|" + o.Rule + "|" + o.Key + "|" + o.Desc
			if a, ok := merged[k]; ok {
				a.cfgs = append(a.cfgs, cfg)
			} else {
				merged[k] = &agg{o: o, cfgs: []string{cfg}}
				order = append(order, k)
			}
		}
		for k, v := range r.Instances {
			if v > instances[k] {
				instances[k] = v
			}
		}
		for k, v := range r.Floors {
			floors[k] = v
		}
		for _, f := range r.Analysed {
			analysed[f] = true
		}
		perCfg[cfg] = map[string]interface{}{"packages": r.Packages, "functions_loaded": r.Funcs, "callgraph_edges": r.Edges,
			"functions_in_scope": len(r.Analysed), "proved": np, "violated": nv, "undecided": nu, "notes": nn, "wall_s": r.WallS}
	}

	var violations, undecided, notes, provedL, knownHits []an.Obligation
	for _, k := range order {
		a := merged[k]
		o := a.o
		o.Config = strings.Join(a.cfgs, ",")
		switch o.Verdict {
		case an.Violated:
			isKnown := false
			for _, kf := range known {
				if kf.Prop == pc.ID && kf.Key == o.Rule+"|"+o.Key {
					isKnown = true
					fmt.Printf("KNOWN-FINDING: property=%s %s\n", pc.ID, kf.What)
				}
			}
			if isKnown {
				knownHits = append(knownHits, o)
			} else {
				violations = append(violations, o)
			}
		case an.Undecided:
			undecided = append(undecided, o)
		case an.Note:
			notes = append(notes, o)
		case an.Proved:
			provedL = append(provedL, o)
		}
	}

	nObl := len(provedL) + len(violations) + len(undecided) + len(knownHits)
	fmt.Printf("%s %s [%s, configs %s]: %d obligations: %d proved, %d violated, %d undecided, %d known findings, %d notes (%.1fs)\n",
		pc.ID, pc.Title, tier, strings.Join(cfgs, "+"), nObl, len(provedL), len(violations), len(undecided), len(knownHits), len(notes), wall)

	exit := 0
	replayPath := filepath.Join(verif, "out", pc.ID+".violations.txt")
	if len(violations) > 0 {
		exit = 1
		var sb strings.Builder
		for _, o := range violations {
			line := fmt.Sprintf("%s: %s [%s] %s -- %s (configs %s; key %s|%s)", o.Pos, o.Func, o.Rule, o.Desc, o.Why, o.Config, o.Rule, o.Key)
			fmt.Println("  violated:", line)
			sb.WriteString(line + "\n")
		}
		if !noEvidence {
			os.MkdirAll(filepath.Dir(replayPath), 0755)
			os.WriteFile(replayPath, []byte(sb.String()), 0644)
		}
		fmt.Printf("VIOLATION property=%s replay=%s\n", pc.ID, replayPath)
	} else if !noEvidence {
		os.Remove(replayPath)
	}
	if len(undecided) > 0 || len(errs) > 0 {
		for _, o := range undecided {
			fmt.Printf("  undecided: %s: %s [%s] %s -- %s\n", o.Pos, o.Func, o.Rule, o.Desc, o.Why)
		}
		for _, e := range errs {
			fmt.Println("  error:", e)
		}
		reason := "shape-not-recognised"
		if len(errs) > 0 {
			reason = "analysis-error"
		}
		fmt.Printf("UNDECIDED property=%s reason=%s count=%d\n", pc.ID, reason, len(undecided)+len(errs))
		if exit == 0 {
			exit = 2
		}
	}

	if noEvidence {
		return exit
	}
	// ---- evidence ----
	sample := func(l []an.Obligation, n int) []an.Obligation {
		if len(l) <= n {
			return l
		}
		// spread the samples over the rules
		seen := map[string]int{}
		var out []an.Obligation
		for _, o := range l {
			if seen[o.Rule] < 2 && len(out) < n {
				out = append(out, o)
				seen[o.Rule]++
			}
		}
		return out
	}
	distinct := map[string]bool{}
	rules := map[string]int{}
	for _, l := range [][]an.Obligation{provedL, violations, undecided, knownHits} {
		for _, o := range l {
			distinct[o.Rule+"|"+o.Key] = true
			rules[o.Rule]++
		}
	}
	var analysedL []string
	for f := range analysed {
		analysedL = append(analysedL, f)
	}
	sort.Strings(analysedL)
	var samples []interface{}
	for _, o := range sample(provedL, 12) {
		samples = append(samples, o)
	}
	for _, o := range violations {
		samples = append(samples, o)
	}
	for _, o := range undecided {
		samples = append(samples, o)
	}
	if len(samples) == 0 {
		samples = append(samples, map[string]string{"note": "no obligations were produced", "errors": strings.Join(errs, "; ")})
	}
	all := tier == "thorough"
	cov := map[string]interface{}{
		"explanation":          pc.Explanation,
		"technique":            "static analysis: " + pc.Engines,
		"rule":                 "an obligation is one construct (call site, store, index, exit edge, predicate, codec field) at which a rule instance must hold; distinct = distinct (rule, construct key); all are non-trivial by construction (each needs a dominance, dataflow, predicate-equivalence or grammar argument)",
		"evaluations":          nObl,
		"distinct_nontrivial":  len(distinct),
		"obligations":          nObl,
		"discharged":           len(provedL),
		"violated":             len(violations),
		"undecided":            len(undecided),
		"known_findings":       knownHits,
		"notes":                notes,
		"obligations_per_rule": rules,
		"rule_instances":       instances,
		"rule_floors":          floors,
		"configurations":       perCfg,
		"functions_in_scope":   analysedL,
		"samples":              samples,
		"exhaustive":           false,
		"checker_cmd":          "checker/bin/gcacheck -prop " + pc.ID + " -tier " + tier,
		"trusted_base":         pc.Assumptions,
		"errors":               errs,
		"fixed_defects_listed": fixed,
	}
	if all {
		cov["all_obligations"] = append(append(append([]an.Obligation{}, provedL...), violations...), undecided...)
	}
	ev := evidence{PropertyID: pc.ID, Tier: tier, Seed: seed, Level: "other", Coverage: cov, Assumptions: pc.Assumptions,
		WallS: wall, Violations: len(violations)}
	os.MkdirAll(filepath.Join(verif, "evidence"), 0755)
	b, _ := json.MarshalIndent(ev, "", " ")
	if err := os.WriteFile(filepath.Join(verif, "evidence", pc.ID+".json"), b, 0644); err != nil {
		fmt.Fprintln(os.Stderr, "cannot write evidence:", err)
		if exit == 0 {
			exit = 2
		}
	}
	return exit
}

// ---- debug ----------------------------------------------------------------------

func debugDump(repo, cfgID, pat string) {
	cfg, _ := an.ConfigByID(cfgID)
	p, err := an.Load(repo, cfg)
	if err != nil {
		fmt.Fprintln(os.Stderr, err)
		os.Exit(2)
	}
	fmt.Printf("loaded %s: %d packages, %d functions, %d call edges, int=%d bits\n", cfg.ID, p.NumPackages, p.NumFuncs, p.NumEdges, p.IntBits)
	for _, fn := range p.SrcFuncs() {
		if !strings.Contains(fn.String(), pat) {
			continue
		}
		fi := p.Info(fn)
		fmt.Println("==", an.FuncName(fn))
		e := p.Effect(fn)
		fmt.Println("  writes:", e.WritesSorted(), "locks:", e.Locks, "blocks:", e.Blocks, "pure:", e.Pure(), "fresh:", e.Fresh)
		for _, a := range p.AccessesOf(fn) {
			fmt.Printf("  access %s %s write=%v %s\n", fi.ID(a.Instr), a.Cls, a.Write, a.What)
		}
		for _, b := range fn.Blocks {
			fmt.Printf(" block %d  facts:\n", b.Index)
			for _, f := range fi.FactsAtBlock(b).Sorted() {
				fmt.Println("     ", f)
			}
			for _, in := range b.Instrs {
				if v, ok := in.(ssa.Value); ok {
					fmt.Printf("   %s %s = %s\n        %s\n", fi.ID(in), v.Name(), in, fi.Term(v))
				} else {
					fmt.Printf("   %s %s\n", fi.ID(in), in)
				}
			}
		}
	}
}
