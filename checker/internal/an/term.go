package an

import (
	"go/constant"
	"go/token"
	"go/types"
	"sort"
	"strings"

	"golang.org/x/tools/go/ssa"
)

// Term is a canonical symbolic expression for an SSA value ("access path
// term", DESIGN.md 1.3). Two SSA values with the same Key denote the same
// run-time value: loads carry the version (reaching definitions) of the memory
// they read, impure calls carry their instruction id.
type Term struct {
	K   string  // kind
	S   string  // operator, field, callee, constant text, id ...
	A   []*Term // operands
	V   string  // memory version (ld, pure)
	Typ types.Type
	Val ssa.Value // an SSA value this term was built from (nil after substitution)
	key string
}

// Kinds of terms.
const (
	KConst  = "const"
	KParam  = "param"
	KFree   = "fv"
	KGlobal = "global"
	KAlloc  = "alloc" // address of a local
	KFA     = "fa"    // field address
	KIA     = "ia"    // element address
	KLoad   = "ld"
	KField  = "fld"
	KIndex  = "idx"
	KLookup = "lk"
	KLkOK   = "lkok"
	KExt    = "ext"
	KBin    = "bin"
	KUn     = "un"
	KConv   = "cv"
	KCall   = "call"
	KPure   = "pure"
	KPhi    = "phi"
	KMake   = "make"
	KSlice  = "slc"
	KClock  = "clock"  // in a value summary: an argument-free read of the clock made by the callee
	KStruct = "struct" // a struct value built field by field: S = field names joined by ",", A = their values
	KLen    = "len"
	KCap    = "cap"
	KRet    = "ret"
	KRef    = "ref"
	KRange  = "rng"
	KOpaque = "op"
	KClos   = "clos"
	KFunc   = "func"
)

// Key returns the canonical string of the term.
func (t *Term) Key() string {
	if t == nil {
		return "<nil>"
	}
	if t.key != "" {
		return t.key
	}
	var sb strings.Builder
	switch t.K {
	case KConst:
		sb.WriteString("#" + t.S)
	case KParam:
		sb.WriteString("$p" + t.S)
	case KRet:
		sb.WriteString("$ret" + t.S)
	case KFree:
		sb.WriteString("$fv:" + t.S)
	case KGlobal:
		sb.WriteString("@" + t.S)
	case KAlloc:
		sb.WriteString("&L" + t.S)
	case KFA:
		sb.WriteString(t.A[0].Key() + "." + t.S)
	case KIA:
		sb.WriteString(t.A[0].Key() + "[" + t.A[1].Key() + "]")
	case KLoad:
		sb.WriteString("*(" + t.A[0].Key() + "|" + t.V + ")")
	default:
		sb.WriteString(t.K)
		if t.S != "" {
			sb.WriteString(":" + t.S)
		}
		sb.WriteString("(")
		for i, a := range t.A {
			if i > 0 {
				sb.WriteString(",")
			}
			sb.WriteString(a.Key())
		}
		if t.V != "" {
			sb.WriteString("|" + t.V)
		}
		sb.WriteString(")")
	}
	t.key = sb.String()
	return t.key
}

func (t *Term) String() string { return t.Key() }

// IsConst reports whether the term is a constant and returns its text.
func (t *Term) IsConst() (string, bool) {
	if t != nil && t.K == KConst {
		return t.S, true
	}
	return "", false
}

// ConstInt returns the integer value of a constant term.
func (t *Term) ConstInt() (constant.Value, bool) {
	if t == nil || t.K != KConst {
		return nil, false
	}
	v := constant.MakeFromLiteral(t.S, token.INT, 0)
	if v.Kind() == constant.Unknown {
		return nil, false
	}
	return v, true
}

func mk(k, s string, typ types.Type, val ssa.Value, a ...*Term) *Term {
	return &Term{K: k, S: s, A: a, Typ: typ, Val: val}
}

// Walk calls f on t and all its subterms (pre-order).
func (t *Term) Walk(f func(*Term)) {
	if t == nil {
		return
	}
	f(t)
	for _, a := range t.A {
		a.Walk(f)
	}
}

// Contains reports whether some subterm satisfies pred.
func (t *Term) Contains(pred func(*Term) bool) bool {
	found := false
	t.Walk(func(s *Term) {
		if pred(s) {
			found = true
		}
	})
	return found
}

// Subst rewrites the term top-down: if f returns a non-nil term for a subterm
// that subterm is replaced (and not descended into).
func (t *Term) Subst(f func(*Term) *Term) *Term {
	if t == nil {
		return nil
	}
	if r := f(t); r != nil {
		return r
	}
	if len(t.A) == 0 {
		return t
	}
	changed := false
	na := make([]*Term, len(t.A))
	for i, a := range t.A {
		na[i] = a.Subst(f)
		if na[i] != a {
			changed = true
		}
	}
	if !changed {
		return t
	}
	n := &Term{K: t.K, S: t.S, A: na, V: t.V, Typ: t.Typ}
	return normalize(n)
}

// normalize applies the local rewriting rules that do not need program context.
func normalize(t *Term) *Term {
	switch t.K {
	case KBin:
		switch t.S {
		case ">":
			t = &Term{K: KBin, S: "<", A: []*Term{t.A[1], t.A[0]}, Typ: t.Typ, Val: t.Val}
		case ">=":
			t = &Term{K: KBin, S: "<=", A: []*Term{t.A[1], t.A[0]}, Typ: t.Typ, Val: t.Val}
		case "==", "!=", "+", "*", "&", "|", "^":
			if t.A[0].Key() > t.A[1].Key() {
				t = &Term{K: KBin, S: t.S, A: []*Term{t.A[1], t.A[0]}, Typ: t.Typ, Val: t.Val}
			}
		}
	case KField:
		// fld(ref-free struct load, f) is handled with context in FuncInfo.
	case KSlice:
		// slc(slc(X,a,b),c,d) = slc(X, a+c, a+d)   (d == end: b)
		if len(t.A) == 3 && t.A[0].K == KSlice && len(t.A[0].A) == 3 {
			inner := t.A[0]
			// only for slices of slices/strings (not for array pointers, whose inner slice is the base)
			a, b := inner.A[1], inner.A[2]
			c, d := t.A[1], t.A[2]
			lo := addTerms(a, c)
			var hi *Term
			if k, ok := d.IsConst(); ok && k == "end" {
				hi = b
			} else {
				hi = addTerms(a, d)
			}
			return &Term{K: KSlice, A: []*Term{inner.A[0], lo, hi}, Typ: t.Typ, Val: t.Val}
		}
	}
	return t
}

// addTerms builds a + b with constant folding.
func addTerms(a, b *Term) *Term {
	ca, oka := constInt64(a)
	cb, okb := constInt64(b)
	switch {
	case oka && okb:
		return mk(KConst, itoa64(ca+cb), a.Typ, nil)
	case oka && ca == 0:
		return b
	case okb && cb == 0:
		return a
	}
	// (x + k1) + k2
	if okb && a.K == KBin && a.S == "+" {
		if k1, ok := constInt64(a.A[0]); ok {
			return normalize(mk(KBin, "+", a.Typ, nil, mk(KConst, itoa64(k1+cb), a.Typ, nil), a.A[1]))
		}
		if k1, ok := constInt64(a.A[1]); ok {
			return normalize(mk(KBin, "+", a.Typ, nil, mk(KConst, itoa64(k1+cb), a.Typ, nil), a.A[0]))
		}
	}
	return normalize(mk(KBin, "+", a.Typ, nil, a, b))
}

func itoa64(v int64) string {
	neg := v < 0
	if neg {
		v = -v
	}
	if v == 0 {
		return "0"
	}
	var buf [24]byte
	n := len(buf)
	for v > 0 {
		n--
		buf[n] = byte('0' + v%10)
		v /= 10
	}
	if neg {
		n--
		buf[n] = '-'
	}
	return string(buf[n:])
}

// ---- building terms from SSA ---------------------------------------------------

// Term returns the canonical term of an SSA value in this function.
func (fi *FuncInfo) Term(v ssa.Value) *Term {
	if t, ok := fi.terms[v]; ok {
		return t
	}
	// cycle guard for phis
	fi.terms[v] = &Term{K: KOpaque, S: "cycle:" + v.Name(), Typ: v.Type(), Val: v}
	t := fi.term0(v)
	t = normalize(t)
	if t.Val == nil {
		t.Val = v
	}
	fi.terms[v] = t
	return t
}

// foldIntBin folds +, - and * of two integer constants (a local used as a running offset produces such operations: the
// builder only folds what the language calls constant expressions) when the result is representable in the type.
func foldIntBin(v *ssa.BinOp, tx, ty *Term) *Term {
	if v.Op != token.ADD && v.Op != token.SUB && v.Op != token.MUL {
		return nil
	}
	bt, ok := v.Type().Underlying().(*types.Basic)
	if !ok || bt.Info()&types.IsInteger == 0 || tx.K != KConst || ty.K != KConst {
		return nil
	}
	a, ok1 := tx.ConstInt()
	b, ok2 := ty.ConstInt()
	if !ok1 || !ok2 || a.Kind() != constant.Int || b.Kind() != constant.Int {
		return nil
	}
	r := constant.BinaryOp(a, v.Op, b)
	if r.Kind() != constant.Int {
		return nil
	}
	// representable in 32 bits of the right signedness at least (int/uint are 32 bits wide on the arm configurations)
	lo, hi := constant.MakeInt64(-1<<31), constant.MakeInt64(1<<31-1)
	if bt.Info()&types.IsUnsigned != 0 {
		lo, hi = constant.MakeInt64(0), constant.MakeInt64(1<<32-1)
		switch bt.Kind() {
		case types.Uint8:
			hi = constant.MakeInt64(255)
		case types.Uint16:
			hi = constant.MakeInt64(65535)
		}
	} else {
		switch bt.Kind() {
		case types.Int8:
			lo, hi = constant.MakeInt64(-128), constant.MakeInt64(127)
		case types.Int16:
			lo, hi = constant.MakeInt64(-32768), constant.MakeInt64(32767)
		}
	}
	if constant.Compare(r, token.LSS, lo) || constant.Compare(r, token.GTR, hi) {
		return nil
	}
	return mk(KConst, r.ExactString(), v.Type(), ssa.NewConst(r, v.Type()))
}

func isConstZero(t *Term) bool {
	c, ok := t.IsConst()
	return ok && c == "0"
}

func constText(c *ssa.Const) string {
	if c.Value == nil {
		return "nil"
	}
	return c.Value.ExactString()
}

func fieldName(structPtrOrVal types.Type, idx int) string {
	t := structPtrOrVal
	if p, ok := t.Underlying().(*types.Pointer); ok {
		t = p.Elem()
	}
	return t.Underlying().(*types.Struct).Field(idx).Name()
}

var purePrefixes = []string{
	"(encoding/binary.littleEndian).Uint", "(encoding/binary.bigEndian).Uint", "bytes.Equal", "math.Float64", "strconv.", "fmt.Sprint", "fmt.Errorf",
	"errors.New", "strings.", "encoding/hex.", "github.com/ethereum/go-ethereum/crypto.Keccak", "github.com/ethereum/go-ethereum/crypto.VerifySignature",
	"github.com/ethereum/go-ethereum/crypto.DecompressPubkey", "github.com/ethereum/go-ethereum/crypto.FromECDSAPub", "github.com/ethereum/go-ethereum/crypto.Sign",
	"github.com/ethereum/go-ethereum/crypto.ToECDSA", "(github.com/ethereum/go-ethereum/common.Hash).Bytes", "path/filepath.Join", "path.Join",
}

func (fi *FuncInfo) isPureCall(c *ssa.CallCommon) bool {
	if c.IsInvoke() {
		return false
	}
	sc := c.StaticCallee()
	if sc == nil {
		return false
	}
	if IsRepoFunc(sc) {
		e := fi.P.effects[sc]
		return e != nil && e.Pure()
	}
	name := sc.String()
	for _, p := range purePrefixes {
		if strings.HasPrefix(name, p) {
			return true
		}
	}
	return false
}

func (fi *FuncInfo) term0(v ssa.Value) *Term {
	switch v := v.(type) {
	case *ssa.Const:
		return mk(KConst, constText(v), v.Type(), v)
	case *ssa.Parameter:
		for i, p := range fi.Fn.Params {
			if p == v {
				return mk(KParam, itoa(i), v.Type(), v)
			}
		}
	case *ssa.FreeVar:
		return mk(KFree, v.Name(), v.Type(), v)
	case *ssa.Global:
		return mk(KGlobal, v.Pkg.Pkg.Name()+"."+v.Name(), v.Type(), v)
	case *ssa.Function:
		return mk(KFunc, v.String(), v.Type(), v)
	case *ssa.Builtin:
		return mk(KFunc, "builtin."+v.Name(), v.Type(), v)
	case *ssa.Alloc:
		return mk(KAlloc, fi.ID(v), v.Type(), v)
	case *ssa.FieldAddr:
		return mk(KFA, fieldName(v.X.Type(), v.Field), v.Type(), v, fi.Term(v.X))
	case *ssa.IndexAddr:
		xt, it := fi.Term(v.X), fi.Term(v.Index)
		// an element of a reslice is an element of the resliced value: s[lo:hi][i] is s[lo+i] (for accesses in range,
		// which BOUND proves on the instructions themselves)
		if xt.K == KSlice && len(xt.A) == 3 && it.Typ != nil {
			if _, isSl := v.X.Type().Underlying().(*types.Slice); isSl {
				if lo := xt.A[1]; isConstZero(lo) {
					return mk(KIA, "", v.Type(), v, xt.A[0], it)
				} else if _, _, ok := isIntType(lo.Typ); ok || lo.K == KConst {
					return mk(KIA, "", v.Type(), v, xt.A[0], normalize(mk(KBin, "+", it.Typ, nil, lo, it)))
				}
			}
		}
		return mk(KIA, "", v.Type(), v, xt, it)
	case *ssa.Field:
		return fi.fieldOf(fi.Term(v.X), fieldName(v.X.Type(), v.Field), v.Type(), v)
	case *ssa.Index:
		t := mk(KIndex, "", v.Type(), v, fi.Term(v.X), fi.Term(v.Index))
		if isRefType(v.X.Type()) {
			t.V = fi.VersionAtTyped(v, fi.ObjClass(v.X).add("[]"), v.Type())
		}
		return t
	case *ssa.Lookup:
		k := KLookup
		var et types.Type
		if mt, ok := v.X.Type().Underlying().(*types.Map); ok {
			et = mt.Elem()
		}
		if v.CommaOk {
			k = KLkOK
		}
		t := mk(k, "", v.Type(), v, fi.Term(v.X), fi.Term(v.Index))
		t.V = fi.VersionAtTyped(v, fi.ObjClass(v.X).add("[]"), et)
		return t
	case *ssa.UnOp:
		switch v.Op {
		case token.MUL:
			return fi.loadTerm(v)
		case token.NOT:
			x := fi.Term(v.X)
			if n := negate(x); n != nil {
				return n
			}
			return mk(KUn, "!", v.Type(), v, x)
		case token.ARROW:
			return mk(KOpaque, "recv#"+fi.ID(v), v.Type(), v)
		default:
			return mk(KUn, v.Op.String(), v.Type(), v, fi.Term(v.X))
		}
	case *ssa.BinOp:
		tx, ty := fi.Term(v.X), fi.Term(v.Y)
		if f := foldIntBin(v, tx, ty); f != nil {
			return f
		}
		return mk(KBin, v.Op.String(), v.Type(), v, tx, ty)
	case *ssa.Convert:
		return mk(KConv, types.TypeString(v.Type(), nil), v.Type(), v, fi.Term(v.X))
	case *ssa.ChangeType:
		return fi.Term(v.X)
	case *ssa.ChangeInterface:
		return fi.Term(v.X)
	case *ssa.MakeInterface:
		return fi.Term(v.X)
	case *ssa.TypeAssert:
		if v.CommaOk {
			return mk(KOpaque, "assertok#"+fi.ID(v), v.Type(), v, fi.Term(v.X))
		}
		return mk(KOpaque, "assert#"+fi.ID(v), v.Type(), v, fi.Term(v.X))
	case *ssa.Extract:
		tup := fi.Term(v.Tuple)
		if tup.K == KPure && v.Index == 0 || tup.K == KCall || tup.K == KLkOK || tup.K == KOpaque || tup.K == KPure {
			return mk(KExt, itoa(v.Index), v.Type(), v, tup)
		}
		return mk(KExt, itoa(v.Index), v.Type(), v, tup)
	case *ssa.Next:
		return mk(KRange, fi.ID(v), v.Type(), v)
	case *ssa.Range:
		return mk(KOpaque, "range#"+fi.ID(v), v.Type(), v, fi.Term(v.X))
	case *ssa.Phi:
		// a pointer that is either nil or one particular address (p := find(x) with the not-found ways returning nil, after
		// inlining or in single-exit form): every use that goes through it is a use of that address, a nil value is only
		// ever compared
		if _, isPtr := v.Type().Underlying().(*types.Pointer); isPtr {
			var only ssa.Value
			unique := true
			for _, e := range v.Edges {
				if k, isC := e.(*ssa.Const); isC && k.Value == nil {
					continue
				}
				if only == nil {
					only = e
				} else if e != only {
					unique = false
				}
			}
			if unique && only != nil {
				if _, again := only.(*ssa.Phi); !again {
					return fi.Term(only)
				}
			}
		}
		return mk(KPhi, fi.ID(v), v.Type(), v)
	case *ssa.MakeSlice:
		return mk(KMake, "slice#"+fi.ID(v), v.Type(), v, fi.Term(v.Len))
	case *ssa.MakeMap:
		return mk(KMake, "map#"+fi.ID(v), v.Type(), v)
	case *ssa.MakeChan:
		return mk(KMake, "chan#"+fi.ID(v), v.Type(), v)
	case *ssa.MakeClosure:
		fn, _ := v.Fn.(*ssa.Function)
		name := "?"
		if fn != nil {
			name = fn.String()
		}
		return mk(KClos, name+"#"+fi.ID(v), v.Type(), v)
	case *ssa.Slice:
		lo, hi := mk(KConst, "0", nil, nil), (*Term)(nil)
		if v.Low != nil {
			lo = fi.Term(v.Low)
		}
		if v.High != nil {
			hi = fi.Term(v.High)
		} else {
			hi = mk(KConst, "end", nil, nil)
		}
		xt := fi.Term(v.X)
		// a reslice of a reslice is a reslice of the original: s[a:b][c:d] is s[a+c:a+d]
		if _, isSl := v.X.Type().Underlying().(*types.Slice); isSl && xt.K == KSlice && len(xt.A) == 3 && v.Max == nil {
			ilo, ihi := xt.A[1], xt.A[2]
			_, _, intLo := isIntType(ilo.Typ)
			if intLo || ilo.K == KConst {
				add := func(a, b *Term) *Term {
					if isConstZero(a) {
						return b
					}
					if isConstZero(b) {
						return a
					}
					if ca, ok := constInt64(a); ok {
						if cb, ok := constInt64(b); ok {
							return mk(KConst, itoa(int(ca+cb)), b.Typ, nil)
						}
					}
					return normalize(mk(KBin, "+", types.Typ[types.Int], nil, a, b))
				}
				nlo := add(ilo, lo)
				nhi := ihi
				if c, ok := hi.IsConst(); !ok || c != "end" {
					nhi = add(ilo, hi)
				}
				return mk(KSlice, "", v.Type(), v, xt.A[0], nlo, nhi)
			}
		}
		return mk(KSlice, "", v.Type(), v, xt, lo, hi)
	case *ssa.Call:
		return fi.callTerm(v)
	}
	if in, ok := v.(ssa.Instruction); ok {
		return mk(KOpaque, fi.ID(in), v.Type(), v)
	}
	return mk(KOpaque, v.Name(), v.Type(), v)
}

// negate returns the negation of a comparison term, or nil.
func negate(x *Term) *Term {
	if x.K == KBin {
		switch x.S {
		case "==":
			return &Term{K: KBin, S: "!=", A: x.A, Typ: x.Typ}
		case "!=":
			return &Term{K: KBin, S: "==", A: x.A, Typ: x.Typ}
		case "<":
			return &Term{K: KBin, S: "<=", A: []*Term{x.A[1], x.A[0]}, Typ: x.Typ}
		case "<=":
			return &Term{K: KBin, S: "<", A: []*Term{x.A[1], x.A[0]}, Typ: x.Typ}
		}
	}
	if x.K == KUn && x.S == "!" {
		return x.A[0]
	}
	return nil
}

// fieldOf builds fld(x, f), pushing the projection into loads.
func (fi *FuncInfo) fieldOf(x *Term, f string, typ types.Type, val ssa.Value) *Term {
	if x.K == KStruct {
		for i, n := range strings.Split(x.S, ",") {
			if n == f && i < len(x.A) {
				return x.A[i]
			}
		}
	}
	if x.K == KLoad {
		addr := mk(KFA, f, nil, nil, x.A[0])
		cls, ok := fi.classOfAddrTerm(x.A[0])
		ver := x.V
		if ok {
			ver = fi.ProjectVersion(x.V, cls.add(f))
		}
		t := &Term{K: KLoad, A: []*Term{addr}, V: ver, Typ: typ, Val: val}
		return t
	}
	return mk(KField, f, typ, val, x)
}

// classOfAddrTerm recovers the class of an address term from its SSA value.
func (fi *FuncInfo) classOfAddrTerm(a *Term) (Class, bool) {
	switch a.K {
	case KFA:
		c, ok := fi.classOfAddrTerm(a.A[0])
		if !ok {
			return Class{}, false
		}
		return c.add(a.S), true
	case KIA:
		c, ok := fi.classOfAddrTerm(a.A[0])
		if !ok {
			return Class{}, false
		}
		return c.add("[]"), true
	}
	if a.Val != nil {
		return fi.ObjClass(a.Val), true
	}
	return Class{}, false
}

// loadTerm builds the term of a load, forwarding the stored value when exactly
// one dominating store to the same address reaches the load.
func (fi *FuncInfo) loadTerm(ld *ssa.UnOp) *Term {
	fi.ensureMem()
	cls := fi.AddrClass(ld.X)
	addr := fi.Term(ld.X)
	reach := fi.ReachingAt(ld)
	var ids []string
	var hit []*MemDef
	for d := range reach {
		if fi.affects(d.Cls, cls, ld.Type()) {
			ids = append(ids, d.ID)
			hit = append(hit, d)
		}
	}
	sort.Strings(ids)
	ver := strings.Join(ids, ",")
	if st := singleStore(hit); st != nil && Dominates(st, ld) {
		{
			sa := fi.Term(st.Addr)
			if sa.Key() == addr.Key() && (len(hit) == 1 || len(hit) == len(structLeaves(st.Val.Type(), 0))) {
				return fi.Term(st.Val)
			}
			// store to a prefix (whole struct), load of a field path
			if path, ok := addrSuffix(sa, addr); ok {
				t := fi.Term(st.Val)
				for _, f := range path {
					t = fi.fieldOf(t, f, nil, nil)
				}
				t2 := *t
				t2.Typ = ld.Type()
				t2.key = ""
				return &t2
			}
		}
	}
	return &Term{K: KLoad, A: []*Term{addr}, V: ver, Typ: ld.Type(), Val: ld}
}

// singleStore returns the Store instruction that all the definitions come
// from, or nil.
func singleStore(hit []*MemDef) *ssa.Store {
	if len(hit) == 0 {
		return nil
	}
	st, ok := hit[0].Instr.(*ssa.Store)
	if !ok {
		return nil
	}
	for _, d := range hit[1:] {
		if d.Instr != hit[0].Instr {
			return nil
		}
	}
	return st
}

// addrSuffix: if addr = base.f1.f2..., returns [f1 f2 ...].
func addrSuffix(base, addr *Term) ([]string, bool) {
	var path []string
	cur := addr
	for cur != nil {
		if cur.Key() == base.Key() {
			// reverse
			for i, j := 0, len(path)-1; i < j; i, j = i+1, j-1 {
				path[i], path[j] = path[j], path[i]
			}
			return path, len(path) > 0
		}
		if cur.K != KFA {
			return nil, false
		}
		path = append(path, cur.S)
		cur = cur.A[0]
	}
	return nil, false
}

// contentTerm returns the term for the value stored in the local whose
// address is a (an Alloc) just before instruction at.
func (fi *FuncInfo) contentTerm(a ssa.Value, at ssa.Instruction) *Term {
	fi.ensureMem()
	cls := fi.AddrClass(a)
	addr := fi.Term(a)
	reach := fi.ReachingAt(at)
	var ids []string
	var hit []*MemDef
	for d := range reach {
		if fi.MayAlias(d.Cls, cls) {
			ids = append(ids, d.ID)
			hit = append(hit, d)
		}
	}
	sort.Strings(ids)
	if st := singleStore(hit); st != nil && Dominates(st, at) && fi.Term(st.Addr).Key() == addr.Key() &&
		(len(hit) == 1 || len(hit) == len(structLeaves(st.Val.Type(), 0))) {
		return fi.Term(st.Val)
	}
	var typ types.Type
	if p, ok := a.Type().Underlying().(*types.Pointer); ok {
		typ = p.Elem()
	}
	return &Term{K: KLoad, A: []*Term{addr}, V: strings.Join(ids, ","), Typ: typ}
}

func (fi *FuncInfo) callTerm(c *ssa.Call) *Term {
	cc := &c.Call
	if b, ok := cc.Value.(*ssa.Builtin); ok {
		switch b.Name() {
		case "len":
			return mk(KLen, "", c.Type(), c, fi.Term(cc.Args[0]))
		case "cap":
			return mk(KCap, "", c.Type(), c, fi.Term(cc.Args[0]))
		}
		args := make([]*Term, len(cc.Args))
		for i, a := range cc.Args {
			args[i] = fi.Term(a)
		}
		return mk(KCall, "builtin."+b.Name()+"#"+fi.ID(c), c.Type(), c, args...)
	}
	// a straight-line helper of the same package that only names an expression is replaced by that expression
	if sc := cc.StaticCallee(); sc != nil && !cc.IsInvoke() && sc != fi.Fn && sc.Pkg != nil && sc.Pkg == fi.Fn.Pkg {
		if vs := fi.P.valueSummary(sc); vs != nil {
			if t := fi.instantiateTerm(vs, c); t != nil {
				return t
			}
		}
	}
	name := CalleeName(cc)
	args := make([]*Term, 0, len(cc.Args)+1)
	if cc.IsInvoke() {
		args = append(args, fi.Term(cc.Value))
	}
	pure := fi.isPureCall(cc)
	var vers []string
	for _, a := range cc.Args {
		at := fi.Term(a)
		if pure && isRefType(a.Type()) {
			if al, ok := a.(*ssa.Alloc); ok {
				at = mk(KRef, "", a.Type(), nil, fi.contentTerm(al, c))
			} else {
				cls := fi.ObjClass(a)
				if _, isPtr := a.Type().Underlying().(*types.Pointer); !isPtr {
					cls = cls.add("[]")
				}
				vers = append(vers, fi.VersionAt(c, cls))
			}
		}
		args = append(args, at)
	}
	if pure {
		t := mk(KPure, name, c.Type(), c, args...)
		t.V = strings.Join(vers, ";")
		return t
	}
	if name == "" {
		name = "dyn"
	}
	return mk(KCall, name+"#"+fi.ID(c), c.Type(), c, args...)
}

// CalleeOfTerm returns the callee name of a call/pure term (without the id).
func (t *Term) Callee() string {
	switch t.K {
	case KPure:
		return t.S
	case KCall:
		if i := strings.LastIndex(t.S, "#"); i >= 0 {
			return t.S[:i]
		}
		return t.S
	}
	return ""
}

// Renorm re-applies the context-dependent normalisations (field projection of
// loads, operand ordering) bottom-up after a substitution.
func (fi *FuncInfo) Renorm(t *Term) *Term {
	if t == nil || len(t.A) == 0 {
		return t
	}
	na := make([]*Term, len(t.A))
	for i, a := range t.A {
		na[i] = fi.Renorm(a)
	}
	if t.K == KField {
		return fi.fieldOf(na[0], t.S, t.Typ, nil)
	}
	n := &Term{K: t.K, S: t.S, A: na, V: t.V, Typ: t.Typ, Val: t.Val}
	return normalize(n)
}

// FieldOfTerm projects field f out of a struct-valued term.
func (fi *FuncInfo) FieldOfTerm(t *Term, f string) *Term { return fi.fieldOf(t, f, nil, nil) }

// ResolveLocalField: rt is a load of a local struct assembled by field stores;
// if exactly one store to field f reaches the load (and dominates instruction
// at), the term of the stored value is returned.
func (fi *FuncInfo) ResolveLocalField(rt *Term, f string, at ssa.Instruction) *Term {
	if rt.K != KLoad {
		return nil
	}
	ft := fi.fieldOf(rt, f, nil, nil)
	if ft.K != KLoad {
		return ft
	}
	fi.ensureMem()
	ids := strings.Split(ft.V, ",")
	if len(ids) != 1 || ids[0] == "" {
		return nil
	}
	d := fi.defByID[ids[0]]
	if d == nil {
		return nil
	}
	st, ok := d.Instr.(*ssa.Store)
	if !ok || !Dominates(st, at) {
		return nil
	}
	if fi.Term(st.Addr).Key() == ft.A[0].Key() {
		return fi.Term(st.Val)
	}
	// whole-struct store: project
	if path, ok := addrSuffix(fi.Term(st.Addr), ft.A[0]); ok {
		t := fi.Term(st.Val)
		for _, p := range path {
			t = fi.fieldOf(t, p, nil, nil)
		}
		return t
	}
	return nil
}

// ConstTerm builds a constant term.
func ConstTerm(text string) *Term { return mk(KConst, text, nil, nil) }

// NormBin builds a normalised binary term (comparisons are rewritten to < and
// <=, commutative operands are ordered).
func NormBin(op string, a, b *Term) *Term { return normalize(mk(KBin, op, nil, nil, a, b)) }

// FieldlessExtract returns the term of result i of a call.
func (fi *FuncInfo) FieldlessExtract(call *ssa.Call, i int) *Term { return fi.extractTerm(call, i) }

// VarargElems returns the values stored into a variadic argument slice
// (new [N]T; stores to its elements; slice [:]) in element order.
func VarargElems(v ssa.Value) []ssa.Value {
	sl, ok := v.(*ssa.Slice)
	if !ok {
		return nil
	}
	al, ok := sl.X.(*ssa.Alloc)
	if !ok {
		return nil
	}
	n, ok := arrayLen(al.Type())
	if !ok {
		return nil
	}
	out := make([]ssa.Value, n)
	refs := al.Referrers()
	if refs == nil {
		return nil
	}
	for _, r := range *refs {
		ia, ok := r.(*ssa.IndexAddr)
		if !ok {
			continue
		}
		k, ok := ia.Index.(*ssa.Const)
		if !ok {
			continue
		}
		idx := int(k.Int64())
		if irefs := ia.Referrers(); irefs != nil {
			for _, r2 := range *irefs {
				if st, ok := r2.(*ssa.Store); ok && st.Addr == ia && idx < len(out) {
					out[idx] = st.Val
				}
			}
		}
	}
	return out
}

// PathOf resolves a file path value built with filepath.Join / path.Join (or a
// constant) into its component terms; ok is false if the shape is different.
func (fi *FuncInfo) PathOf(v ssa.Value) (parts []*Term, ok bool) {
	switch x := v.(type) {
	case *ssa.Const:
		return []*Term{fi.Term(x)}, true
	case *ssa.Call:
		name := CalleeName(&x.Call)
		if name == "path/filepath.Join" || name == "path.Join" {
			if len(x.Call.Args) == 1 {
				for _, e := range VarargElems(x.Call.Args[0]) {
					if e == nil {
						return nil, false
					}
					sub, ok := fi.PathOf(e)
					if ok && len(sub) > 0 && sub[0].K == KConst {
						parts = append(parts, sub...)
					} else {
						parts = append(parts, fi.Term(e))
					}
				}
				return parts, true
			}
			for _, a := range x.Call.Args {
				parts = append(parts, fi.Term(a))
			}
			return parts, true
		}
		// a repository helper that returns the path (func (s *T) keyPath() string { return filepath.Join(s.dir, name) }):
		// the path its returns build, when they agree on the file name
		if sc := x.Call.StaticCallee(); sc != nil && IsRepoFunc(sc) && len(sc.Blocks) > 0 && sc.Signature.Results().Len() == 1 && !fi.pathBusy {
			if b, ok := sc.Signature.Results().At(0).Type().Underlying().(*types.Basic); ok && b.Kind() == types.String {
				cfi := fi.P.Info(sc)
				if cfi != nil && !cfi.pathBusy {
					cfi.pathBusy = true
					var last *Term
					var got []*Term
					okAll := true
					for _, cb := range sc.Blocks {
						if len(cb.Instrs) == 0 {
							continue
						}
						ret, isRet := cb.Instrs[len(cb.Instrs)-1].(*ssa.Return)
						if !isRet || len(ret.Results) != 1 {
							continue
						}
						sub, ok := cfi.PathOf(ret.Results[0])
						if !ok || len(sub) == 0 || sub[len(sub)-1].K != KConst {
							okAll = false
							break
						}
						if last != nil && last.Key() != sub[len(sub)-1].Key() {
							okAll = false
							break
						}
						last, got = sub[len(sub)-1], sub
					}
					cfi.pathBusy = false
					if okAll && last != nil {
						for _, t := range got {
							if t.K == KConst {
								parts = append(parts, t)
							} else {
								parts = append(parts, fi.InstantiateTerm(t, x))
							}
						}
						return parts, true
					}
				}
			}
		}
	case *ssa.Phi:
		// both branches must agree on the last (file name) component
		var last *Term
		for _, e := range x.Edges {
			sub, ok := fi.PathOf(e)
			if !ok || len(sub) == 0 {
				return nil, false
			}
			l := sub[len(sub)-1]
			if last == nil {
				last = l
				parts = sub
			} else if last.Key() != l.Key() {
				return nil, false
			}
		}
		return parts, last != nil
	case *ssa.UnOp:
		t := fi.Term(x)
		if t.K == KConst {
			return []*Term{t}, true
		}
		if t.Val != nil && t.Val != v {
			return fi.PathOf(t.Val)
		}
	}
	t := fi.Term(v)
	if t.K == KConst {
		return []*Term{t}, true
	}
	if t.Val != nil && t.Val != v {
		if _, isCall := t.Val.(*ssa.Call); isCall {
			return fi.PathOf(t.Val)
		}
	}
	return []*Term{t}, false
}

// PathFileName returns the constant last component of a path value ("" if unknown).
func (fi *FuncInfo) PathFileName(v ssa.Value) string {
	// a path handed in as a parameter of an unexported helper: the name every call site passes
	if prm, ok := v.(*ssa.Parameter); ok && !fi.pathBusy {
		fn := fi.Fn
		if fn.Object() != nil && !fn.Object().Exported() {
			idx := -1
			for i, q := range fn.Params {
				if q == prm {
					idx = i
				}
			}
			name := ""
			sites := fi.P.CallSites(fn)
			for _, s := range sites {
				call, isCall := s.(*ssa.Call)
				if !isCall || idx < 0 || idx >= len(call.Call.Args) || call.Call.StaticCallee() != fn {
					return ""
				}
				cfi := fi.P.Info(call.Parent())
				cfi.pathBusy = true
				n := cfi.PathFileName(call.Call.Args[idx])
				cfi.pathBusy = false
				if n == "" || (name != "" && n != name) {
					return ""
				}
				name = n
			}
			return name
		}
	}
	parts, _ := fi.PathOf(v)
	if len(parts) == 0 {
		return ""
	}
	last := parts[len(parts)-1]
	if k, ok := last.IsConst(); ok && len(k) >= 2 && k[0] == '"' {
		return k[1 : len(k)-1]
	}
	return ""
}

// ConvTermKey returns the key of the conversion cv:typ(x).
func ConvTermKey(typ string, x *Term) string {
	return (&Term{K: KConv, S: typ, A: []*Term{x}}).Key()
}

// ContentAt returns the term of the value held by local al just before instruction at.
func (fi *FuncInfo) ContentAt(al *ssa.Alloc, at ssa.Instruction) *Term { return fi.contentTerm(al, at) }

// SliceTerm builds x[lo:hi] (hi == nil means the end of x), normalised.
func SliceTerm(x, lo, hi *Term) *Term {
	if hi == nil {
		hi = mk(KConst, "end", nil, nil)
	}
	return normalize(mk(KSlice, "", nil, nil, x, lo, hi))
}
