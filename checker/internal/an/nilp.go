package an

import (
	"go/types"
	"strings"

	"golang.org/x/tools/go/ssa"
)

// NilErrObl is a NILP obligation for a pointer result of a (T, error) call:
// dereferencing it requires the error result to be known nil.
type NilErrObl struct {
	Fn   *ssa.Function
	Use  ssa.Instruction
	Call *ssa.Call
	OK   bool
	Why  string
	Expr string
}

// NilErrObligations enumerates dereferences of pointer results that come with
// an error result (external or repository callees) and checks that each is
// dominated by the err == nil edge of the same call.
func (p *Program) NilErrObligations(fn *ssa.Function) []NilErrObl {
	fi := p.Info(fn)
	var out []NilErrObl
	for _, b := range fn.Blocks {
		for _, in := range b.Instrs {
			ex, ok := in.(*ssa.Extract)
			if !ok {
				continue
			}
			call, ok := ex.Tuple.(*ssa.Call)
			if !ok {
				continue
			}
			if _, isPtr := ex.Type().Underlying().(*types.Pointer); !isPtr {
				continue
			}
			res := call.Call.Signature().Results()
			errIdx := -1
			for i := 0; i < res.Len(); i++ {
				if isErrorType(res.At(i).Type()) {
					errIdx = i
				}
			}
			if errIdx < 0 || errIdx == ex.Index {
				continue
			}
			errT := fi.extractTerm(call, errIdx)
			nilc := mk(KConst, "nil", nil, nil)
			want := normalize(mk(KBin, "==", nil, nil, errT, nilc)).Key()
			for _, use := range pointerDerefs(ex) {
				facts := fi.FactsAt(use)
				o := NilErrObl{Fn: fn, Use: use, Call: call, Expr: CalleeName(&call.Call)}
				if facts.Has(want) {
					o.OK = true
					o.Why = "dominated by the err == nil edge of the call"
				} else {
					o.Why = "no dominating check that the error result of " + strings.TrimPrefix(CalleeName(&call.Call), ModulePath+"/") + " is nil; the pointer result is nil when the call fails"
				}
				out = append(out, o)
			}
		}
	}
	return out
}

// pointerDerefs lists the instructions that certainly dereference pointer v:
// field/element address computations and loads (through phis and local
// variables). Method calls are not counted (a nil receiver is legal).
func pointerDerefs(v ssa.Value) []ssa.Instruction {
	var out []ssa.Instruction
	seen := map[ssa.Value]bool{}
	var walk func(v ssa.Value)
	walk = func(v ssa.Value) {
		if seen[v] {
			return
		}
		seen[v] = true
		refs := v.Referrers()
		if refs == nil {
			return
		}
		for _, r := range *refs {
			switch r := r.(type) {
			case *ssa.FieldAddr:
				if r.X == v {
					out = append(out, r)
				}
			case *ssa.IndexAddr:
				if r.X == v {
					out = append(out, r)
				}
			case *ssa.UnOp:
				if r.X == v && r.Op.String() == "*" {
					out = append(out, r)
				}
			case *ssa.Phi:
				walk(r)
			case *ssa.Store:
				if r.Val == v {
					if al, ok := r.Addr.(*ssa.Alloc); ok {
						if ar := al.Referrers(); ar != nil {
							for _, u := range *ar {
								if ld, ok := u.(*ssa.UnOp); ok && ld.Op.String() == "*" {
									walk(ld)
								}
							}
						}
					}
				}
			}
		}
	}
	walk(v)
	return out
}
