package an

import (
	"fmt"
	"go/types"
	"sort"
	"strings"

	"golang.org/x/tools/go/ssa"
)

// FuncInfo caches the per-function analyses: instruction ids, classes,
// reaching memory definitions ("versions"), terms and branch facts.
type FuncInfo struct {
	P  *Program
	Fn *ssa.Function

	phiJoin     map[*ssa.Phi][]phiRel
	paramLen    map[int]int64
	pathBusy    bool
	liftCache   map[string]Fact
	phiJoinBusy map[*ssa.Phi]bool

	ids          map[ssa.Instruction]string
	objClass     map[ssa.Value]Class
	objVisiting  map[ssa.Value]bool
	localEscapes map[string]types.Type // L: root -> allocated type, present iff escaped

	// memory definitions
	defs     []*MemDef
	defByID  map[string]*MemDef
	defsAt   map[ssa.Instruction][]*MemDef // definitions performed by an instruction
	reachIn  map[*ssa.BasicBlock]map[*MemDef]bool
	memReady bool

	terms map[ssa.Value]*Term

	factsIn    map[*ssa.BasicBlock]FactSet
	factsReady bool
	edgeFacts  map[[2]int][]Fact

	summaryDepth  int
	byID          map[string]ssa.Instruction
	freshVisiting map[string]bool
	phiMode       int
	phiB          map[*ssa.Phi][2]int64
	phiRels       map[*ssa.Phi][]*phiRel
	phiPass       int
	candTerms     []*Term
	refVisiting   map[ssa.Value]bool
}

// MemDef is one instruction that may write a class.
type MemDef struct {
	ID     string
	Instr  ssa.Instruction
	Cls    Class
	Strong bool // overwrites exactly one local location
	Havoc  bool // lock operation: everything under the class may have changed, earlier definitions are subsumed
}

func (p *Program) newFuncInfoLite(fn *ssa.Function) *FuncInfo {
	fi := &FuncInfo{P: p, Fn: fn, ids: map[ssa.Instruction]string{}, objClass: map[ssa.Value]Class{},
		objVisiting: map[ssa.Value]bool{}, localEscapes: map[string]types.Type{}, terms: map[ssa.Value]*Term{}}
	for _, b := range fn.Blocks {
		for i, in := range b.Instrs {
			fi.ids[in] = fmt.Sprintf("b%di%d", b.Index, i)
		}
	}
	fi.computeEscapes()
	return fi
}

// Info returns the cached FuncInfo of fn.
func (p *Program) Info(fn *ssa.Function) *FuncInfo {
	p.Effects()
	if fi, ok := p.funcInfo[fn]; ok {
		return fi
	}
	fi := p.newFuncInfoLite(fn)
	p.funcInfo[fn] = fi
	return fi
}

// ID returns the function-local id of an instruction.
func (fi *FuncInfo) ID(in ssa.Instruction) string {
	if s, ok := fi.ids[in]; ok {
		return s
	}
	return "?"
}

func (fi *FuncInfo) computeEscapes() {
	fn := fi.Fn
	for _, b := range fn.Blocks {
		for _, in := range b.Instrs {
			var root ssa.Value
			var typ types.Type
			switch v := in.(type) {
			case *ssa.Alloc:
				root, typ = v, v.Type().Underlying().(*types.Pointer).Elem()
			case *ssa.MakeSlice:
				root, typ = v, v.Type()
			case *ssa.MakeMap:
				root, typ = v, v.Type()
			default:
				continue
			}
			if fi.valueEscapes(root) {
				fi.localEscapes["L:"+fi.ID(in)] = typ
			}
		}
	}
}

func (fi *FuncInfo) valueEscapes(root ssa.Value) bool {
	seen := map[ssa.Value]bool{}
	work := []ssa.Value{root}
	for len(work) > 0 {
		v := work[len(work)-1]
		work = work[:len(work)-1]
		if seen[v] {
			continue
		}
		seen[v] = true
		refs := v.Referrers()
		if refs == nil {
			continue
		}
		for _, u := range *refs {
			switch u := u.(type) {
			case *ssa.FieldAddr:
				if u.X == v {
					work = append(work, u)
				}
			case *ssa.IndexAddr:
				if u.X == v {
					work = append(work, u)
				}
			case *ssa.Slice:
				if u.X == v {
					work = append(work, u)
				}
			case *ssa.ChangeType:
				work = append(work, u)
			case *ssa.Phi:
				work = append(work, u)
			case *ssa.Store:
				if u.Val == v {
					return true
				}
			case *ssa.MapUpdate:
				if u.Value == v || u.Key == v {
					return true
				}
			case *ssa.MakeClosure, *ssa.Return, *ssa.MakeInterface, *ssa.Send, *ssa.Go:
				return true
			case ssa.CallInstruction:
				c := u.Common()
				if b, ok := c.Value.(*ssa.Builtin); ok {
					switch b.Name() {
					case "len", "cap", "copy", "delete", "print", "println", "clear":
						continue
					case "append":
						// append(x, v...) copies elements of v; x flows to the result
						if len(c.Args) > 0 && c.Args[0] == v {
							if val, ok := u.(ssa.Value); ok {
								work = append(work, val)
							}
						}
						continue
					}
				}
				return true
			}
		}
	}
	return false
}

// ---- reaching memory definitions --------------------------------------------------

func (fi *FuncInfo) ensureMem() {
	if fi.memReady {
		return
	}
	fi.memReady = true
	fn := fi.Fn
	fi.defByID = map[string]*MemDef{}
	fi.defsAt = map[ssa.Instruction][]*MemDef{}
	fi.reachIn = map[*ssa.BasicBlock]map[*MemDef]bool{}
	add := func(in ssa.Instruction, c Class, strong bool, k int) {
		if c.IsNil() {
			return
		}
		id := fi.ID(in)
		if k > 0 {
			id += "." + itoa(k)
		}
		d := &MemDef{ID: id, Instr: in, Cls: c, Strong: strong}
		fi.defs = append(fi.defs, d)
		fi.defByID[id] = d
		fi.defsAt[in] = append(fi.defsAt[in], d)
	}
	for _, b := range fn.Blocks {
		for _, in := range b.Instrs {
			switch in := in.(type) {
			case *ssa.Store:
				c := fi.AddrClass(in.Addr)
				strong := false
				if c.IsLocal() {
					strong = true
					for _, p := range c.Path {
						if p == "[]" {
							strong = false
						}
					}
					// only direct Alloc-rooted addresses are must-aliases
					if !fi.directLocalAddr(in.Addr) {
						strong = false
					}
				}
				if strong {
					// A whole-struct store to a local is expanded into one
					// definition per leaf field, so that a later store to
					// one field shadows exactly that field.
					if leaves := structLeaves(in.Val.Type(), 0); len(leaves) > 0 {
						for k, lf := range leaves {
							lc := c
							for _, f := range lf {
								lc = lc.add(f)
							}
							add(in, lc, true, k+1)
						}
						continue
					}
				}
				add(in, c, strong, 0)
			case *ssa.MapUpdate:
				add(in, fi.ObjClass(in.Map).add("[]"), false, 0)
			case ssa.CallInstruction:
				if _, isGo := in.(*ssa.Go); isGo {
					continue
				}
				if _, isDefer := in.(*ssa.Defer); isDefer {
					// deferred calls run at function exit; their writes
					// cannot precede any load of this function body except
					// after RunDefers, which we treat at the RunDefers instr.
					continue
				}
				_, _, isLock := LockOp(in.Common())
				for k, w := range fi.CallWrites(in) {
					add(in, w, false, k)
					if isLock {
						fi.defs[len(fi.defs)-1].Havoc = true
					}
				}
			case *ssa.RunDefers:
				k := 0
				for _, b2 := range fn.Blocks {
					for _, in2 := range b2.Instrs {
						if d, ok := in2.(*ssa.Defer); ok {
							for _, w := range fi.CallWrites(d) {
								add(in, w, false, k)
								k++
							}
						}
					}
				}
			}
		}
	}
	// forward may-dataflow
	out := map[*ssa.BasicBlock]map[*MemDef]bool{}
	for _, b := range fn.Blocks {
		fi.reachIn[b] = map[*MemDef]bool{}
		out[b] = map[*MemDef]bool{}
	}
	changed := true
	for changed {
		changed = false
		for _, b := range fn.Blocks {
			in := fi.reachIn[b]
			for _, p := range b.Preds {
				for d := range out[p] {
					if !in[d] {
						in[d] = true
						changed = true
					}
				}
			}
			cur := map[*MemDef]bool{}
			for d := range in {
				cur[d] = true
			}
			for _, ins := range b.Instrs {
				fi.applyDefs(cur, ins)
			}
			if len(cur) != len(out[b]) {
				out[b] = cur
				changed = true
			} else {
				for d := range cur {
					if !out[b][d] {
						out[b] = cur
						changed = true
						break
					}
				}
			}
		}
	}
}

// structLeaves lists the leaf field paths of a struct type (nested structs are
// expanded, arrays and everything else are leaves).
func structLeaves(t types.Type, depth int) [][]string {
	st, ok := t.Underlying().(*types.Struct)
	if !ok || depth > 3 {
		return nil
	}
	var out [][]string
	for i := 0; i < st.NumFields(); i++ {
		f := st.Field(i)
		if sub := structLeaves(f.Type(), depth+1); len(sub) > 0 {
			for _, s := range sub {
				out = append(out, append([]string{f.Name()}, s...))
			}
			continue
		}
		out = append(out, []string{f.Name()})
	}
	return out
}

func (fi *FuncInfo) directLocalAddr(a ssa.Value) bool {
	switch a := a.(type) {
	case *ssa.Alloc:
		return true
	case *ssa.FieldAddr:
		return fi.directLocalAddr(a.X)
	}
	return false
}

func (fi *FuncInfo) applyDefs(cur map[*MemDef]bool, ins ssa.Instruction) {
	for _, d := range fi.defsAt[ins] {
		if d.Havoc {
			for o := range cur {
				if o.Cls.Root == d.Cls.Root && pathPrefix(d.Cls.Path, o.Cls.Path) && len(o.Cls.Path) >= len(d.Cls.Path) {
					delete(cur, o)
				}
			}
		}
		if d.Strong {
			for o := range cur {
				if o.Cls.Root == d.Cls.Root && len(o.Cls.Path) >= len(d.Cls.Path) && pathPrefix(d.Cls.Path, o.Cls.Path) {
					delete(cur, o)
				}
			}
		}
		cur[d] = true
	}
}

// ReachingAt returns the memory definitions that may reach the point just
// before instruction at.
func (fi *FuncInfo) ReachingAt(at ssa.Instruction) map[*MemDef]bool {
	fi.ensureMem()
	b := at.Block()
	cur := map[*MemDef]bool{}
	for d := range fi.reachIn[b] {
		cur[d] = true
	}
	for _, ins := range b.Instrs {
		if ins == at {
			break
		}
		fi.applyDefs(cur, ins)
	}
	return cur
}

// VersionAt returns the version string of class c just before instruction at:
// the sorted ids of the reaching definitions that may alias c.
func (fi *FuncInfo) VersionAt(at ssa.Instruction, c Class) string {
	reach := fi.ReachingAt(at)
	var ids []string
	for d := range reach {
		if fi.MayAlias(d.Cls, c) {
			ids = append(ids, d.ID)
		}
	}
	sort.Strings(ids)
	return strings.Join(ids, ",")
}

// affects reports whether definition class d can change the value of type typ
// stored at class c. A definition of a deeper location only matters if that
// location is stored inline in the value (not behind a pointer, slice or map).
func (fi *FuncInfo) affects(d, c Class, typ types.Type) bool {
	if !fi.MayAlias(d, c) {
		return false
	}
	if typ == nil || d.Root != c.Root || len(d.Path) <= len(c.Path) {
		return true
	}
	t := typ
	for _, comp := range d.Path[len(c.Path):] {
		switch u := t.Underlying().(type) {
		case *types.Struct:
			if comp == "[]" {
				return true
			}
			found := false
			for i := 0; i < u.NumFields(); i++ {
				if u.Field(i).Name() == comp {
					t = u.Field(i).Type()
					found = true
					break
				}
			}
			if !found {
				return true
			}
		case *types.Array:
			if comp != "[]" {
				return true
			}
			t = u.Elem()
		case *types.Pointer, *types.Slice, *types.Map, *types.Chan, *types.Signature:
			return false // behind a reference
		case *types.Interface:
			return false
		default:
			return true
		}
	}
	return true
}

// VersionAtTyped is VersionAt for a value of the given type: definitions of
// locations behind a reference held in the value are ignored.
func (fi *FuncInfo) VersionAtTyped(at ssa.Instruction, c Class, typ types.Type) string {
	reach := fi.ReachingAt(at)
	var ids []string
	for d := range reach {
		if fi.affects(d.Cls, c, typ) {
			ids = append(ids, d.ID)
		}
	}
	sort.Strings(ids)
	return strings.Join(ids, ",")
}

// VersionAfter is VersionAt for the point just after instruction at.
func (fi *FuncInfo) VersionAfter(at ssa.Instruction, c Class) string {
	reach := fi.ReachingAt(at)
	fi.applyDefs(reach, at)
	var ids []string
	for d := range reach {
		if fi.MayAlias(d.Cls, c) {
			ids = append(ids, d.ID)
		}
	}
	sort.Strings(ids)
	return strings.Join(ids, ",")
}

// ProjectVersion restricts a version string to the definitions that may alias c.
func (fi *FuncInfo) ProjectVersion(ver string, c Class) string {
	if ver == "" {
		return ""
	}
	fi.ensureMem()
	var ids []string
	for _, id := range strings.Split(ver, ",") {
		d := fi.defByID[id]
		if d == nil || fi.MayAlias(d.Cls, c) {
			ids = append(ids, id)
		}
	}
	return strings.Join(ids, ",")
}

// Dominates reports whether instruction a dominates instruction b.
func Dominates(a, b ssa.Instruction) bool {
	ba, bb := a.Block(), b.Block()
	if ba == bb {
		for _, in := range ba.Instrs {
			if in == a {
				return true
			}
			if in == b {
				return false
			}
		}
		return false
	}
	return ba.Dominates(bb)
}

// InstrIndex returns the index of in within its block.
func InstrIndex(in ssa.Instruction) int {
	for i, x := range in.Block().Instrs {
		if x == in {
			return i
		}
	}
	return -1
}

// InstrByID returns the instruction with the given id (definition ids carry a
// ".k" suffix that is ignored).
func (fi *FuncInfo) InstrByID(id string) ssa.Instruction {
	if i := strings.Index(id, "."); i >= 0 {
		id = id[:i]
	}
	if fi.byID == nil {
		fi.byID = map[string]ssa.Instruction{}
		for in, s := range fi.ids {
			fi.byID[s] = in
		}
	}
	return fi.byID[id]
}
