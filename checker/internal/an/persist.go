package an

import (
	"sort"
	"strings"

	"golang.org/x/tools/go/ssa"
)

// FileOp is one file-system operation on a named file (DESIGN.md 1.9).
type FileOp struct {
	Fn     *ssa.Function
	Call   *ssa.Call
	Kind   string // open-append, open-trunc, open-rw, open-other, create, writefile, readfile, open-read, write, writeat, truncate, remove, rename
	File   string // constant last path component ("" if unknown)
	Flags  int64
	Handle ssa.Value // for write/writeat: the *os.File value
}

// openFlags (linux values, the only GOOS analysed)
const (
	oWRONLY = 0x1
	oRDWR   = 0x2
	oCREATE = 0x40
	oTRUNC  = 0x200
	oAPPEND = 0x400
)

// FileOps lists the file operations of fn.
func (p *Program) FileOps(fn *ssa.Function) []FileOp {
	fi := p.Info(fn)
	var out []FileOp
	for _, b := range fn.Blocks {
		for _, in := range b.Instrs {
			call, ok := in.(*ssa.Call)
			if !ok {
				continue
			}
			name := CalleeName(&call.Call)
			op := FileOp{Fn: fn, Call: call}
			switch name {
			case "os.OpenFile":
				op.File = fi.PathFileName(call.Call.Args[0])
				ft := fi.Term(call.Call.Args[1])
				if v, ok := constInt64(ft); ok {
					op.Flags = v
				} else {
					op.Flags = -1
				}
				switch {
				case op.Flags < 0:
					op.Kind = "open-other"
				case op.Flags&oAPPEND != 0 && op.Flags&oTRUNC == 0:
					op.Kind = "open-append"
				case op.Flags&oTRUNC != 0:
					op.Kind = "open-trunc"
				case op.Flags&(oWRONLY|oRDWR) != 0:
					op.Kind = "open-rw"
				default:
					op.Kind = "open-read"
				}
			case "os.Create":
				op.Kind, op.File = "create", fi.PathFileName(call.Call.Args[0])
			case "os.WriteFile", "io/ioutil.WriteFile":
				op.Kind, op.File = "writefile", fi.PathFileName(call.Call.Args[0])
			case "os.ReadFile", "io/ioutil.ReadFile":
				op.Kind, op.File = "readfile", fi.PathFileName(call.Call.Args[0])
			case "os.Open":
				op.Kind, op.File = "open-read", fi.PathFileName(call.Call.Args[0])
			case "os.Remove", "os.RemoveAll":
				op.Kind, op.File = "remove", fi.PathFileName(call.Call.Args[0])
			case "os.Rename":
				op.Kind, op.File = "rename", fi.PathFileName(call.Call.Args[1])
			case "os.Truncate":
				op.Kind, op.File = "truncate", fi.PathFileName(call.Call.Args[0])
			case "(*os.File).Write", "(*os.File).WriteString":
				op.Kind, op.Handle = "write", call.Call.Args[0]
			case "(*os.File).WriteAt":
				op.Kind, op.Handle = "writeat", call.Call.Args[0]
			case "(*os.File).Truncate":
				op.Kind, op.Handle = "truncate", call.Call.Args[0]
			default:
				continue
			}
			out = append(out, op)
		}
	}
	// attribute handle operations to the file their handle was opened on
	for i := range out {
		if out[i].Handle == nil {
			continue
		}
		h := out[i].Handle
		for _, o2 := range out {
			if o2.Handle != nil || o2.File == "" {
				continue
			}
			// handle is extract 0 of the open call (possibly through a local)
			if ex, ok := h.(*ssa.Extract); ok && ex.Tuple == ssa.Value(o2.Call) {
				out[i].File = o2.File
			}
			if ht := fi.Term(h); ht.K == KExt && len(ht.A) == 1 && ht.A[0].Val == ssa.Value(o2.Call) {
				out[i].File = o2.File
			}
		}
	}
	return out
}

// WriterProtocol classifies how fn writes file: append-1, create-empty,
// create-then-write, truncate-then-write, in-place, other, or "" if it does not write it.
func (p *Program) WriterProtocol(fn *ssa.Function, file string) (proto string, detail string) {
	ops := p.FileOps(fn)
	var opens, writes, others []FileOp
	for _, o := range ops {
		if o.File != file {
			continue
		}
		switch o.Kind {
		case "open-append", "open-trunc", "open-rw", "open-other", "create", "writefile":
			opens = append(opens, o)
		case "write":
			writes = append(writes, o)
		case "writeat", "truncate", "remove", "rename":
			others = append(others, o)
		}
	}
	if len(opens) == 0 && len(writes) == 0 && len(others) == 0 {
		return "", ""
	}
	var kinds []string
	for _, o := range opens {
		kinds = append(kinds, o.Kind)
	}
	for _, o := range others {
		kinds = append(kinds, o.Kind)
	}
	sort.Strings(kinds)
	detail = strings.Join(kinds, ",") + "; writes=" + itoa(len(writes))
	switch {
	case len(others) > 0:
		for _, o := range others {
			if o.Kind == "writeat" {
				return "in-place", detail
			}
		}
		return "other", detail
	case len(opens) == 1 && opens[0].Kind == "open-append":
		if len(writes) == 1 {
			return "append-1", detail
		}
		return "append-n", detail
	case len(opens) == 1 && opens[0].Kind == "create":
		if len(writes) == 0 {
			return "create-empty", detail
		}
		if len(writes) > 1 {
			// a crash between the writes exposes a partial (non-empty) file
			return "create-then-write-n", detail
		}
		return "create-then-write", detail
	case len(opens) == 1 && (opens[0].Kind == "writefile" || opens[0].Kind == "open-trunc"):
		return "truncate-then-write", detail
	}
	return "other", detail
}
