package an

import (
	"fmt"
	"go/constant"
	"go/token"
	"go/types"
	"math"
	"sort"
	"strings"

	"golang.org/x/tools/go/ssa"
)

// The BOUND engine (DESIGN.md 1.4): a difference-bound ("zone") constraint
// system over canonical terms. Nodes are integer-valued terms (and len(X)
// terms); a constraint x - y <= c is an edge y -> x with weight c; node 0 is
// the constant zero. Because nodes are keyed by canonical term, syntactically
// different SSA values with the same meaning share a node (this replaces CSE).
//
// Sources of constraints: types, constants, the structure of arithmetic terms
// (only when no wrap-around is possible on the known ranges), lengths of
// make/slice/append/array values, library postconditions, loop induction for
// phis, and the branch facts that hold at the program point of the query.

const inf = int64(math.MaxInt64 / 4)

type bsys struct {
	fi    *FuncInfo
	idx   map[string]int
	terms []*Term
	d     [][]int64 // d[y][x] = least known c with x - y <= c (always closed)
	gen   int
	// pending conditional rules
	arith    []*Term
	axiom    map[string]bool
	lenDiff  [][3]int // len node = hi node - lo node
	lenSum   [][3]int // len node = a + b
	neq      [][2]int
	strideOK map[string]bool
	parLen   [][2]*Term // pairs of slices with equal length (only related when both are queried)
	bottom   bool       // the system mentions a phi that has no value yet
	// linear layer: comparisons between arbitrary integer terms, and the +/- nodes known not to wrap around
	linFacts [][3]int // a, b, strict: a - b (+1) <= 0
	exact    map[string]bool
}

func newBsys(fi *FuncInfo) *bsys {
	s := &bsys{fi: fi, idx: map[string]int{}, axiom: map[string]bool{}, strideOK: map[string]bool{}, exact: map[string]bool{}}
	s.node(&Term{K: KConst, S: "0"}) // node 0
	return s
}

func (s *bsys) grow() {
	n := len(s.terms)
	for i := range s.d {
		s.d[i] = append(s.d[i], inf)
	}
	row := make([]int64, n)
	for i := range row {
		row[i] = inf
	}
	row[n-1] = 0
	s.d = append(s.d, row)
}

func isIntType(t types.Type) (bits int, signed bool, ok bool) {
	if t == nil {
		return 0, false, false
	}
	b, isB := t.Underlying().(*types.Basic)
	if !isB {
		return 0, false, false
	}
	switch b.Kind() {
	case types.Int8:
		return 8, true, true
	case types.Int16:
		return 16, true, true
	case types.Int32:
		return 32, true, true
	case types.Int64:
		return 64, true, true
	case types.Int:
		return 0, true, true // 0 = platform int
	case types.Uint8:
		return 8, false, true
	case types.Uint16:
		return 16, false, true
	case types.Uint32:
		return 32, false, true
	case types.Uint64:
		return 64, false, true
	case types.Uint, types.Uintptr:
		return 0, false, true
	case types.UntypedInt:
		return 64, true, true
	}
	return 0, false, false
}

func (s *bsys) typeRange(t types.Type) (lo, hi int64, ok bool) {
	bits, signed, ok := isIntType(t)
	if !ok {
		return 0, 0, false
	}
	if bits == 0 {
		bits = s.fi.P.IntBits
	}
	if signed {
		if bits >= 63 {
			return -inf, inf, true
		}
		return -(int64(1) << uint(bits-1)), (int64(1) << uint(bits-1)) - 1, true
	}
	if bits >= 62 {
		return 0, inf, true
	}
	return 0, (int64(1) << uint(bits)) - 1, true
}

// add records x - y <= c and keeps the matrix closed (incremental
// shortest-path update, O(n^2) per new constraint).
func (s *bsys) add(x, y int, c int64) {
	if c >= inf {
		return
	}
	if c < -inf {
		c = -inf
	}
	if c >= s.d[y][x] {
		return
	}
	s.gen++
	n := len(s.terms)
	for u := 0; u < n; u++ {
		duy := s.d[u][y]
		if duy >= inf {
			continue
		}
		base := sat(duy, c)
		du := s.d[u]
		dx := s.d[x]
		for v := 0; v < n; v++ {
			if dx[v] >= inf {
				continue
			}
			if nd := sat(base, dx[v]); nd < du[v] {
				du[v] = nd
			}
		}
	}
}

func (s *bsys) eq(x, y int, c int64) { // x - y == c
	s.add(x, y, c)
	s.add(y, x, -c)
}

func (s *bsys) lower(x int, c int64) { s.add(0, x, -c) } // x >= c
func (s *bsys) upper(x int, c int64) { s.add(x, 0, c) }  // x <= c

func sat(a, b int64) int64 {
	if a >= inf || b >= inf {
		return inf
	}
	r := a + b
	if r >= inf {
		return inf
	}
	if r <= -inf {
		return -inf
	}
	return r
}

func (s *bsys) close() {}

// ub/lb of a node and of a difference (after close()).
func (s *bsys) ub(x int) int64 { return s.d[0][x] }
func (s *bsys) lb(x int) int64 {
	v := s.d[x][0]
	if v >= inf {
		return -inf
	}
	return -v
}
func (s *bsys) diffUB(x, y int) int64 { return s.d[y][x] } // upper bound of x - y

func (s *bsys) inconsistent() bool {
	for i := range s.d {
		if s.d[i][i] < 0 {
			return true
		}
	}
	return false
}

func constInt64(t *Term) (int64, bool) {
	if t == nil || t.K != KConst {
		return 0, false
	}
	v := constant.MakeFromLiteral(t.S, token.INT, 0)
	if v.Kind() != constant.Int {
		return 0, false
	}
	if i, ok := constant.Int64Val(v); ok {
		if i > inf {
			return inf, true
		}
		if i < -inf {
			return -inf, true
		}
		return i, true
	}
	if constant.Sign(v) > 0 {
		return inf, true
	}
	return -inf, true
}

func lenTerm(x *Term) *Term { return &Term{K: KLen, A: []*Term{x}, Typ: types.Typ[types.Int]} }

// node returns the node of a term, creating it (and its structural
// constraints) on first use.
func (s *bsys) node(t *Term) int {
	k := t.Key()
	if i, ok := s.idx[k]; ok {
		return i
	}
	i := len(s.terms)
	s.idx[k] = i
	s.terms = append(s.terms, t)
	s.grow()
	s.structure(i, t)
	return i
}

func arrayLen(t types.Type) (int64, bool) {
	if t == nil {
		return 0, false
	}
	if p, ok := t.Underlying().(*types.Pointer); ok {
		t = p.Elem()
	}
	if a, ok := t.Underlying().(*types.Array); ok {
		return a.Len(), true
	}
	return 0, false
}

func (s *bsys) structure(i int, t *Term) {
	if c, ok := constInt64(t); ok {
		s.eq(i, 0, c)
		return
	}
	if lo, hi, ok := s.typeRange(t.Typ); ok && t.K != KLen {
		if lo > -inf {
			s.lower(i, lo)
		}
		if hi < inf {
			s.upper(i, hi)
		}
	}
	switch t.K {
	case KLen, KCap:
		for _, pr := range s.parLen {
			if t.K == KLen && pr[1].Key() == t.A[0].Key() {
				if j, ok := s.idx[lenTerm(pr[0]).Key()]; ok {
					s.eq(i, j, 0)
				}
			}
		}
		s.lower(i, 0)
		// domain axiom: in-memory objects are shorter than a quarter of the address space
		maxLen := int64(1) << 56
		if s.fi.P.IntBits == 32 {
			maxLen = 1<<30 - 1
		}
		s.upper(i, maxLen)
		s.lenRules(i, t.A[0], t.K == KCap)
	case KBin:
		switch t.S {
		case "+", "-", "*", "/", "%", "&", ">>", "<<", "|":
			for _, a := range t.A {
				if _, _, ok := isIntType(a.Typ); ok || a.K == KConst {
					s.node(a)
				}
			}
			s.arith = append(s.arith, t)
		}
	case KConv:
		if _, _, ok := isIntType(t.A[0].Typ); ok {
			s.node(t.A[0])
			s.arith = append(s.arith, t)
		}
	case KPhi:
		s.phiRules(i, t)
	case KExt:
		if len(t.A) == 1 && (t.A[0].K == KCall || t.A[0].K == KPure) {
			s.intResult(i, t.A[0], atoi(t.S))
		}
	case KPure, KCall:
		s.intResult(i, t, 0)
		callee := t.Callee()
		if strings.HasSuffix(callee, "glow.CurrentTimeslot") {
			s.upper(i, 1<<31-1)
			s.axiom["glow.CurrentTimeslot() < 2^31 (2^31 five-minute slots are 20,000 years)"] = true
		}
	case KLoad:
		if len(t.A) == 1 && t.A[0].K == KFA && t.A[0].S == "equipmentReportsOffset" {
			s.upper(i, 1<<31-1)
			s.axiom["GCAServer.equipmentReportsOffset < 2^31 (a timeslot value)"] = true
		}
		if len(t.A) == 1 && t.A[0].K == KFA && (t.A[0].S == "logMaxLineBytes" || t.A[0].S == "logMaxBytes" || t.A[0].S == "logSizeBytes") {
			limit := int64(1) << 56
			if s.fi.P.IntBits == 32 {
				limit = 1 << 29
			}
			s.lower(i, 0)
			s.upper(i, limit)
			s.axiom["EventLogger limits are positive byte counts of at most 2^29 (the constructor is only called with such constants: C18 rule CFG) and logSizeBytes never exceeds logMaxBytes (C18 rules ACCOUNT and BOUND-SZ)"] = true
		}
	}
}

// intResult adds what is known about integer result res of a call.
func (s *bsys) intResult(i int, call *Term, res int) {
	if _, _, ok := isIntType(s.terms[i].Typ); !ok {
		return
	}
	switch call.Callee() {
	case "runtime.Stack":
		// godoc: "returns the number of bytes written to buf"
		if len(call.A) >= 1 {
			s.lower(i, 0)
			s.add(i, s.node(lenTerm(call.A[0])), 0)
		}
		return
	case "builtin.copy":
		// language spec: copy returns the number of elements copied, min(len(dst), len(src))
		s.lower(i, 0)
		if len(call.A) == 2 {
			d, r := s.node(lenTerm(call.A[0])), s.node(lenTerm(call.A[1]))
			s.add(i, d, 0)
			s.add(i, r, 0)
			if s.proveLE(r, d, 0) {
				s.add(r, i, 0)
			} else if s.proveLE(d, r, 0) {
				s.add(d, i, 0)
			}
		}
		return
	case "strconv.ParseUint", "strconv.ParseInt":
		// godoc: "the result is a value of the type with bitSize bits" (on a range error the nearest representable value)
		if res == 0 && len(call.A) == 3 {
			if b, ok := constInt64(call.A[2]); ok && b >= 1 && b <= 62 {
				if call.Callee() == "strconv.ParseUint" {
					s.lower(i, 0)
					s.upper(i, int64(1)<<uint(b)-1)
				} else {
					s.lower(i, -(int64(1) << uint(b-1)))
					s.upper(i, int64(1)<<uint(b-1)-1)
				}
			} else if call.Callee() == "strconv.ParseUint" {
				s.lower(i, 0)
			}
		}
		return
	case "(*math/big.Int).Int64":
		// crypto/rand.Int godoc: "returns a uniform random value in [0, max)"
		if len(call.A) == 1 && call.A[0].K == KExt && call.A[0].S == "0" && call.A[0].A[0].Callee() == "crypto/rand.Int" {
			ri := call.A[0].A[0]
			if len(ri.A) == 2 && ri.A[1].Callee() == "math/big.NewInt" && len(ri.A[1].A) == 1 {
				s.lower(i, 0)
				s.add(i, s.node(ri.A[1].A[0]), -1)
			}
		}
		return
	}
	c, ok := call.Val.(*ssa.Call)
	if !ok {
		return
	}
	sc := c.Call.StaticCallee()
	if sc == nil || !IsRepoFunc(sc) {
		return
	}
	sum := s.fi.P.IntSummary(sc, res)
	if sum == nil {
		return
	}
	if sum.Lo > -inf {
		s.lower(i, sum.Lo)
	}
	if sum.Hi < inf {
		s.upper(i, sum.Hi)
	}
	for _, q := range sum.LeLenOfParam {
		args := call.A
		if q < len(args) {
			s.add(i, s.node(lenTerm(args[q])), 0)
		}
	}
}

// applyArith (re)derives the constraints of arithmetic terms under the current
// bounds; it only relates a result to its operands when the operation cannot
// wrap around on the ranges known at this point.
func (s *bsys) applyArith() {
	for _, t := range s.arith {
		i := s.idx[t.Key()]
		tlo, thi, ok := s.typeRange(t.Typ)
		if !ok {
			continue
		}
		switch t.K {
		case KConv:
			a := s.node(t.A[0])
			if s.lb(a) >= tlo && s.ub(a) <= thi {
				s.eq(i, a, 0)
			}
		case KBin:
			a, b := s.node(t.A[0]), s.node(t.A[1])
			la, ua, lb_, ub_ := s.lb(a), s.ub(a), s.lb(b), s.ub(b)
			switch t.S {
			case "+":
				// no wrap-around below: one operand is non-negative, or the sum of the lower bounds fits
				lowOK := lb_ >= 0 || la >= 0 || (la > -inf && lb_ > -inf && la+lb_ >= tlo)
				// no wrap-around above: one operand is non-positive, or the sum of the upper bounds fits
				highOK := ub_ <= 0 || ua <= 0 || (ua < inf && ub_ < inf && ua+ub_ <= thi)
				if lowOK && highOK {
					s.exact[t.Key()] = true
					// t = a + b
					if cb, ok := constInt64(t.A[1]); ok {
						s.eq(i, a, cb)
					} else if ca, ok := constInt64(t.A[0]); ok {
						s.eq(i, b, ca)
					} else {
						s.sumRel(i, a, b)
					}
				}
			case "-":
				// mathematical difference range from the zone: a - b in [-D(b,a), D(a,b)]
				hi := s.diffUB(a, b)
				lo := int64(-inf)
				if v := s.diffUB(b, a); v < inf {
					lo = -v
				}
				if lo >= tlo && hi <= thi {
					s.exact[t.Key()] = true
					if cb, ok := constInt64(t.A[1]); ok {
						s.eq(i, a, -cb)
					} else {
						s.upper(i, hi)
						s.lower(i, lo)
						s.sumRel(a, i, b) // a = t + b
					}
				}
			case "*":
				if c, ok := constInt64(t.A[1]); ok && c >= 0 && la >= 0 && ua < inf/(c+1) && ua*c <= thi {
					s.upper(i, ua*c)
					s.lower(i, la*c)
				} else if c, ok := constInt64(t.A[0]); ok && c >= 0 && lb_ >= 0 && ub_ < inf/(c+1) && ub_*c <= thi {
					s.upper(i, ub_*c)
					s.lower(i, lb_*c)
				}
			case "/":
				if c, ok := constInt64(t.A[1]); ok && c > 0 && la >= 0 {
					s.lower(i, la/c)
					if ua < inf {
						s.upper(i, ua/c)
					}
					s.add(i, a, 0)
					// q = a / c  =>  q*c <= a <= q*c + c - 1
					if uq := s.ub(i); uq < inf/(c+1) {
						s.upper(a, uq*c+c-1)
					}
					if lq := s.lb(i); lq > 0 && lq < inf/(c+1) {
						s.lower(a, lq*c)
					}
				}
			case "%":
				if c, ok := constInt64(t.A[1]); ok && c > 0 && la >= 0 {
					s.lower(i, 0)
					s.upper(i, c-1)
					s.add(i, a, 0)
				}
			case "&":
				if c, ok := constInt64(t.A[1]); ok && c >= 0 {
					s.lower(i, 0)
					s.upper(i, c)
				} else if c, ok := constInt64(t.A[0]); ok && c >= 0 {
					s.lower(i, 0)
					s.upper(i, c)
				}
			case ">>":
				if la >= 0 {
					s.lower(i, 0)
					s.add(i, a, 0)
				}
			}
		}
	}
}

// bytesLike: a string or a slice of bytes.
func bytesLike(t types.Type) bool {
	if t == nil {
		return false
	}
	switch u := t.Underlying().(type) {
	case *types.Basic:
		return u.Info()&types.IsString != 0
	case *types.Slice:
		b, ok := u.Elem().Underlying().(*types.Basic)
		return ok && b.Kind() == types.Uint8
	}
	return false
}

// lenRules adds what is known about len(x).
func (s *bsys) lenRules(i int, x *Term, isCap bool) {
	if n, ok := arrayLen(x.Typ); ok {
		s.eq(i, 0, n)
		return
	}
	switch x.K {
	case KParam:
		// a slice parameter of an unexported helper: every caller's argument length is a precondition
		{
			if lb, ok := s.fi.paramLenLower(atoi(x.S)); ok && lb > 0 {
				s.lower(i, lb)
				s.axiom["len of parameter "+x.S+" of "+FuncName(s.fi.Fn)+" >= "+itoa(int(lb))+" (proved at every call site of this unexported function)"] = true
			}
		}
	case KConst:
		if strings.HasPrefix(x.S, "\"") {
			if v := constant.MakeFromLiteral(x.S, token.STRING, 0); v.Kind() == constant.String {
				s.eq(i, 0, int64(len(constant.StringVal(v))))
			}
		}
		if x.S == "nil" {
			s.eq(i, 0, 0)
		}
	case KMake:
		if len(x.A) == 1 && strings.HasPrefix(x.S, "slice#") && !isCap {
			s.eq(i, s.node(x.A[0]), 0)
		} else if len(x.A) == 1 {
			s.add(s.node(x.A[0]), i, 0) // cap >= len
		}
	case KSlice:
		base, lo, hi := x.A[0], x.A[1], x.A[2]
		ln := s.node(lo)
		var hn int
		if c, ok := hi.IsConst(); ok && c == "end" {
			hn = s.node(lenTerm(base))
		} else {
			hn = s.node(hi)
		}
		if isCap {
			return
		}
		// len = hi - lo
		if c, ok := constInt64(lo); ok {
			s.eq(i, hn, -c)
		} else {
			s.lenDiff = append(s.lenDiff, [3]int{i, hn, ln})
		}
	case KConv:
		// string <-> []byte conversion keeps the length (string <-> []rune does not: one rune is 1..4 bytes)
		if len(x.A) == 1 && bytesLike(x.Typ) && bytesLike(x.A[0].Typ) {
			s.eq(i, s.node(lenTerm(x.A[0])), 0)
		}
	case KCall:
		if strings.HasPrefix(x.S, "builtin.append#") && len(x.A) >= 1 {
			base := s.node(lenTerm(x.A[0]))
			s.add(base, i, 0) // len(result) >= len(base)
			if len(x.A) == 2 && !isCap {
				// append(a, b...) : len = len(a) + len(b)
				extra := s.node(lenTerm(x.A[1]))
				s.lenSum = append(s.lenSum, [3]int{i, base, extra})
			}
			return
		}
		s.callLen(i, x)
	case KPure:
		s.callLen(i, x)
	case KExt:
		if len(x.A) == 1 && (x.A[0].K == KCall || x.A[0].K == KPure) {
			s.callLenIdx(i, x.A[0], atoi(x.S))
			// results that always have equal lengths
			if c, ok := x.A[0].Val.(*ssa.Call); ok {
				if sc := c.Call.StaticCallee(); sc != nil && IsRepoFunc(sc) {
					for _, pr := range s.fi.P.LenEqResults(sc) {
						me, other := atoi(x.S), -1
						if pr[0] == me {
							other = pr[1]
						} else if pr[1] == me {
							other = pr[0]
						}
						if other >= 0 {
							ot := &Term{K: KExt, S: itoa(other), A: []*Term{x.A[0]}}
							if j, exists := s.idx[lenTerm(ot).Key()]; exists {
								s.eq(i, j, 0)
							} else {
								s.parLen = append(s.parLen, [2]*Term{x, ot})
							}
						}
					}
				}
			}
		}
	case KPhi:
		s.phiLen(i, x)
	}
}

func (s *bsys) callLen(i int, call *Term) { s.callLenIdx(i, call, 0) }

func (s *bsys) callLenIdx(i int, call *Term, res int) {
	switch call.Callee() {
	case "github.com/ethereum/go-ethereum/crypto.CompressPubkey":
		// godoc: "CompressPubkey encodes a public key to the 33-byte compressed format."
		s.eq(i, 0, 33)
		return
	case "github.com/ethereum/go-ethereum/crypto.FromECDSA":
		// godoc: exports a private key into a binary dump; math.PaddedBigBytes(D, 32)
		s.eq(i, 0, 32)
		return
	}
	c, ok := call.Val.(*ssa.Call)
	if !ok {
		return
	}
	sc := c.Call.StaticCallee()
	if sc != nil && IsRepoFunc(sc) {
		lb, exact := s.fi.P.LenSummary(sc, res)
		if exact {
			s.eq(i, 0, lb)
		} else if lb > 0 {
			s.lower(i, lb)
		}
	}
}

// phi of slices: minimum over the edges; recognises "x = append(x, e)" loops.
func (s *bsys) phiLen(i int, x *Term) {
	phi, ok := x.Val.(*ssa.Phi)
	if !ok {
		return
	}
	// lower bound: min over edges that do not depend on the phi; edges of the
	// form append(phi, ...) only grow.
	min := inf
	for _, e := range phi.Edges {
		if s.growsFrom(e, phi, 0) {
			continue
		}
		et := s.fi.Term(e)
		en := s.node(lenTerm(et))
		s.closeAll()
		if l := s.lb(en); l < min {
			min = l
		}
	}
	if min < inf && min > 0 {
		s.lower(i, min)
	}
	// slices that are appended to in lock step have equal lengths
	for _, in := range phi.Block().Instrs {
		other, ok := in.(*ssa.Phi)
		if !ok {
			break
		}
		if other == phi || len(other.Edges) != len(phi.Edges) {
			continue
		}
		if _, isSlice := other.Type().Underlying().(*types.Slice); !isSlice {
			continue
		}
		par := true
		for k := range phi.Edges {
			if !parallelLen(phi.Edges[k], other.Edges[k], phi, other, 0) {
				par = false
				break
			}
		}
		if par {
			ot := s.fi.Term(other)
			if _, exists := s.idx[lenTerm(ot).Key()]; exists {
				s.eq(i, s.idx[lenTerm(ot).Key()], 0)
			} else {
				s.parLen = append(s.parLen, [2]*Term{x, ot})
			}
		}
	}
}

// parallelLen: x and y have equal length given that phis pa and pb have.
func parallelLen(x, y ssa.Value, pa, pb *ssa.Phi, depth int) bool {
	if depth > 4 {
		return false
	}
	if x == pa && y == pb {
		return true
	}
	cx, okx := x.(*ssa.Const)
	cy, oky := y.(*ssa.Const)
	if okx && oky {
		return cx.Value == nil && cy.Value == nil
	}
	ax, okx := x.(*ssa.Call)
	ay, oky := y.(*ssa.Call)
	if okx && oky {
		bx, ok1 := ax.Call.Value.(*ssa.Builtin)
		by, ok2 := ay.Call.Value.(*ssa.Builtin)
		if ok1 && ok2 && bx.Name() == "append" && by.Name() == "append" && ax.Block() == ay.Block() && len(ax.Call.Args) == 2 && len(ay.Call.Args) == 2 {
			nx, ok3 := varargLen(ax.Call.Args[1])
			ny, ok4 := varargLen(ay.Call.Args[1])
			if ok3 && ok4 && nx == ny {
				return parallelLen(ax.Call.Args[0], ay.Call.Args[0], pa, pb, depth+1)
			}
		}
	}
	return false
}

// varargLen: the value is a full slice of a fixed-size array allocation.
func varargLen(v ssa.Value) (int64, bool) {
	sl, ok := v.(*ssa.Slice)
	if !ok || sl.Low != nil || sl.High != nil {
		return 0, false
	}
	return arrayLen(sl.X.Type())
}

// growsFrom: v is phi, or append(v', ...) / v'[:] chains that never shrink.
func (s *bsys) growsFrom(v ssa.Value, phi *ssa.Phi, depth int) bool {
	if depth > 6 {
		return false
	}
	if v == phi {
		return true
	}
	switch x := v.(type) {
	case *ssa.Call:
		if b, ok := x.Call.Value.(*ssa.Builtin); ok && b.Name() == "append" {
			return s.growsFrom(x.Call.Args[0], phi, depth+1)
		}
	case *ssa.Phi:
		for _, e := range x.Edges {
			if e == x {
				continue
			}
			if !s.growsFrom(e, phi, depth+1) {
				return false
			}
		}
		return true
	}
	return false
}

// phiRules: bounds of integer phis come from the per-function phi analysis.
func (s *bsys) phiRules(i int, t *Term) {
	phi, ok := t.Val.(*ssa.Phi)
	if !ok {
		return
	}
	if _, _, isInt := isIntType(phi.Type()); !isInt {
		return
	}
	lo, hi, bottom := s.fi.phiBound(phi)
	if bottom {
		s.bottom = true
		return
	}
	if lo > -inf {
		s.lower(i, lo)
	}
	if hi < inf {
		s.upper(i, hi)
	}
	for _, r := range s.fi.phiRels[phi] {
		if r.dropped {
			continue
		}
		s.add(i, s.node(r.T), r.C)
	}
	// join rule: if every incoming value is <= one of the incoming values T (on its own edge), the phi is <= T
	// (idx := n; for ... { if c { idx = i; break } } with i < n gives idx <= n); likewise for >=.
	for _, r := range s.fi.phiJoinRels(phi) {
		if r.C >= 0 {
			s.add(i, s.node(r.T), 0)
		} else {
			s.add(s.node(r.T), i, 0)
		}
	}
}

// paramLenLower: for an unexported function all of whose uses are static calls, the least length that every call
// site provably passes for slice parameter k.
func (fi *FuncInfo) paramLenLower(k int) (int64, bool) {
	if fi.paramLen == nil {
		fi.paramLen = map[int]int64{}
	}
	if v, ok := fi.paramLen[k]; ok {
		return v, v > 0
	}
	fi.paramLen[k] = 0 // guards recursion
	fn := fi.Fn
	if fn.Object() == nil || fn.Object().Exported() || k >= len(fn.Params) {
		return 0, false
	}
	if _, isSlice := fn.Params[k].Type().Underlying().(*types.Slice); !isSlice {
		return 0, false
	}
	// the function must not escape as a value (bound method, func value): then call sites are all its uses
	if refs := fn.Referrers(); refs != nil && len(*refs) > 0 {
		return 0, false
	}
	sites := fi.P.CallSites(fn)
	if len(sites) == 0 {
		return 0, false
	}
	best := int64(inf)
	for _, site := range sites {
		call, ok := site.(*ssa.Call)
		if !ok || call.Call.StaticCallee() != fn || k >= len(call.Call.Args) {
			return 0, false
		}
		cfi := fi.P.Info(call.Parent())
		cs := cfi.sysFor(call)
		n := cs.node(lenTerm(cfi.Term(call.Call.Args[k])))
		cs.closeAll()
		lb := cs.lb(n)
		if lb <= 0 {
			return 0, false
		}
		if lb < best {
			best = lb
		}
	}
	fi.paramLen[k] = best
	return best, true
}

// phiJoinRels: for a phi that is not a loop-carried variable of its own block, the incoming values T such that
// every incoming value is <= T (C = +1) or >= T (C = -1) on the edge it arrives over.
func (fi *FuncInfo) phiJoinRels(phi *ssa.Phi) []phiRel {
	if fi.phiJoin == nil {
		fi.phiJoin = map[*ssa.Phi][]phiRel{}
		fi.phiJoinBusy = map[*ssa.Phi]bool{}
	}
	if r, ok := fi.phiJoin[phi]; ok {
		return r
	}
	if fi.phiJoinBusy[phi] {
		return nil
	}
	fi.phiJoinBusy[phi] = true
	defer delete(fi.phiJoinBusy, phi)
	var out []phiRel
	blk := phi.Block()
	// loop-carried: some incoming value depends on the phi itself
	self := fi.Term(phi).Key()
	for _, e := range phi.Edges {
		dep := false
		fi.Term(e).Walk(func(x *Term) {
			if x.Key() == self {
				dep = true
			}
		})
		if dep {
			fi.phiJoin[phi] = nil
			return nil
		}
	}
	// candidates: the incoming values themselves, and the bounds that the facts of some incoming edge compare an
	// incoming value with (i < len(x) on the edge that leaves a scan loop early)
	type cand struct {
		T    *Term
		self int // index of the edge the candidate is the value of, -1 otherwise
	}
	var cands []cand
	seenC := map[string]bool{}
	for j, ej := range phi.Edges {
		T := fi.Term(ej)
		if _, isConst := T.IsConst(); !isConst && !seenC[T.Key()] {
			seenC[T.Key()] = true
			cands = append(cands, cand{T, j})
		}
	}
	for i, ei := range phi.Edges {
		et := fi.Term(ei)
		fs := map[string]Fact{}
		for k, f := range fi.FactsAtBlock(blk.Preds[i]) {
			fs[k] = f
		}
		for _, f := range fi.EdgeFacts(blk.Preds[i], blk) {
			fs[f.Key()] = f
		}
		for _, f := range fs {
			if f.Neg || f.T.K != KBin || (f.T.S != "<" && f.T.S != "<=") {
				continue
			}
			for k := 0; k < 2; k++ {
				if f.T.A[k].Key() == et.Key() {
					o := f.T.A[1-k]
					if _, isConst := o.IsConst(); !isConst && !seenC[o.Key()] {
						seenC[o.Key()] = true
						cands = append(cands, cand{o, -1})
					}
				}
			}
		}
	}
	for _, cd := range cands {
		T := cd.T
		if !termStableAt(T, blk) {
			continue
		}
		le, ge := true, true
		for i, ei := range phi.Edges {
			if i == cd.self {
				continue
			}
			sys := fi.SysForEdge(blk.Preds[i], blk)
			et := fi.Term(ei)
			if !sys.ProveDiffLE(et, T, 0) {
				le = false
			}
			if !sys.ProveDiffLE(T, et, 0) {
				ge = false
			}
		}
		if le {
			out = append(out, phiRel{T: T, C: 1})
		} else if ge {
			out = append(out, phiRel{T: T, C: -1})
		}
	}
	fi.phiJoin[phi] = out
	return out
}

// phiRel is a relational loop invariant phi - T <= C found by candidate
// generation and simultaneous inductive verification (Houdini).
type phiRel struct {
	T       *Term
	C       int64
	dropped bool
}

// termStableAt: every SSA value the term is built from is defined before the
// block (dominates it) or is a phi of the block, so the term denotes one
// value for the whole time control stays in the loop headed by blk.
func termStableAt(t *Term, blk *ssa.BasicBlock) bool {
	body := loopBodyOf(blk)
	ok := true
	var walk func(x *Term)
	walk = func(x *Term) {
		if !ok || x == nil {
			return
		}
		switch x.K {
		case KLoad, KFA, KIA, KLen, KField:
			// address computations and loads may be re-executed inside the loop: they denote the same value as long
			// as what they are computed from is stable and, for a load, no definition that reaches it lies in the loop
			if x.K == KLoad && x.V != "" && !strings.HasPrefix(x.V, "@") {
				if fn := blk.Parent(); fn != nil {
					for _, id := range strings.Split(x.V, ",") {
						if in := instrByIDIn(fn, id); in != nil && body[in.Block()] {
							ok = false
							return
						}
					}
				}
			}
			for _, a := range x.A {
				walk(a)
			}
			return
		}
		if x.Val != nil {
			if in, isInstr := x.Val.(ssa.Instruction); isInstr {
				if b := in.Block(); b != nil {
					if b == blk {
						if _, isPhi := in.(*ssa.Phi); !isPhi {
							ok = false
							return
						}
					} else if !b.Dominates(blk) {
						ok = false
						return
					}
				}
			}
		}
		for _, a := range x.A {
			walk(a)
		}
	}
	walk(t)
	return ok
}

// loopBodyOf: the blocks of the natural loop(s) headed by blk (empty if blk heads no loop).
func loopBodyOf(blk *ssa.BasicBlock) map[*ssa.BasicBlock]bool {
	body := map[*ssa.BasicBlock]bool{}
	for _, p := range blk.Preds {
		if !blk.Dominates(p) {
			continue
		}
		body[blk] = true
		stack := []*ssa.BasicBlock{p}
		for len(stack) > 0 {
			x := stack[len(stack)-1]
			stack = stack[:len(stack)-1]
			if body[x] {
				continue
			}
			body[x] = true
			stack = append(stack, x.Preds...)
		}
	}
	return body
}

// instrByIDIn finds the instruction with id "b<block>i<index>[.<k>]" in fn.
func instrByIDIn(fn *ssa.Function, id string) ssa.Instruction {
	if i := strings.Index(id, "."); i >= 0 {
		id = id[:i]
	}
	var bi, ii int
	if _, err := fmt.Sscanf(id, "b%di%d", &bi, &ii); err != nil {
		return nil
	}
	if bi < 0 || bi >= len(fn.Blocks) || ii < 0 || ii >= len(fn.Blocks[bi].Instrs) {
		return nil
	}
	return fn.Blocks[bi].Instrs[ii]
}

func (fi *FuncInfo) edgeSystem(phi *ssa.Phi, k int) *bsys {
	pred := phi.Block().Preds[k]
	s := newBsys(fi)
	for _, f := range fi.FactsAtBlock(pred).Sorted() {
		s.addFact(f)
	}
	for _, f := range fi.EdgeFacts(pred, phi.Block()) {
		s.addFact(f)
	}
	return s
}

// computePhiRels finds relational invariants for the integer phis.
func (fi *FuncInfo) computePhiRels(phis []*ssa.Phi) {
	fi.phiRels = map[*ssa.Phi][]*phiRel{}
	candKind := func(t *Term) bool {
		switch t.K {
		case KLen, KLoad, KParam, KExt, KConv, KPhi:
			return true
		}
		return false
	}
	// candidates from the edges that do not depend on the phi
	for _, phi := range phis {
		type cand struct {
			t *Term
			c int64
			n int
		}
		cands := map[string]*cand{}
		indep := 0
		for k, e := range phi.Edges {
			if valueDependsOn(e, phi, map[ssa.Value]bool{}) {
				continue
			}
			s := fi.edgeSystem(phi, k)
			n := s.node(fi.Term(e))
			// seed the comparison operands that occur in any branch fact of the function
			for _, ct := range fi.candidateTerms() {
				if termStableAt(ct, phi.Block()) {
					s.node(ct)
				}
			}
			s.closeAll()
			if s.inconsistent() || s.bottom {
				continue
			}
			indep++
			for m, mt := range s.terms {
				if m == 0 || m == n || !candKind(mt) {
					continue
				}
				if mt.K == KPhi {
					op, ok := mt.Val.(*ssa.Phi)
					if !ok || op.Block() != phi.Block() || op == phi {
						continue
					}
				}
				if !termStableAt(mt, phi.Block()) {
					continue
				}
				if v := s.diffUB(n, m); v < inf && v > -inf {
					c := cands[mt.Key()]
					if c == nil {
						cands[mt.Key()] = &cand{t: mt, c: v, n: 1}
					} else {
						c.n++
						if v > c.c {
							c.c = v
						}
					}
				}
			}
			// other phis of the block: relate the incoming values directly
			for _, in := range phi.Block().Instrs {
				op, ok := in.(*ssa.Phi)
				if !ok {
					break
				}
				if op == phi {
					continue
				}
				if _, _, isInt := isIntType(op.Type()); !isInt {
					continue
				}
				m := s.node(fi.Term(op.Edges[k]))
				s.closeAll()
				if v := s.diffUB(n, m); v < inf && v > -inf {
					ot := fi.Term(op)
					c := cands[ot.Key()]
					if c == nil {
						cands[ot.Key()] = &cand{t: ot, c: v, n: 1}
					} else {
						c.n++
						if v > c.c {
							c.c = v
						}
					}
				}
			}
		}
		var keys []string
		for k, c := range cands {
			if c.n >= indep && indep > 0 {
				keys = append(keys, k)
			}
		}
		sort.Strings(keys)
		if len(keys) > 12 {
			keys = keys[:12]
		}
		for _, k := range keys {
			fi.phiRels[phi] = append(fi.phiRels[phi], &phiRel{T: cands[k].t, C: cands[k].c})
		}
	}
	// simultaneous inductive verification: drop what does not hold on every edge
	for round := 0; round < 8; round++ {
		dropped := false
		for _, phi := range phis {
			for _, r := range fi.phiRels[phi] {
				if r.dropped {
					continue
				}
				for k, e := range phi.Edges {
					s := fi.edgeSystem(phi, k)
					n := s.node(fi.Term(e))
					var m int
					if op, ok := r.T.Val.(*ssa.Phi); ok && r.T.K == KPhi && op.Block() == phi.Block() {
						m = s.node(fi.Term(op.Edges[k]))
					} else {
						m = s.node(r.T)
					}
					s.closeAll()
					if s.inconsistent() {
						continue
					}
					if s.bottom || !s.proveLE(n, m, r.C) {
						r.dropped = true
						dropped = true
						break
					}
				}
			}
		}
		if !dropped {
			break
		}
	}
}

// candidateTerms lists the integer operands of comparison facts anywhere in
// the function (loop guards): the terms a loop invariant may refer to.
func (fi *FuncInfo) candidateTerms() []*Term {
	if fi.candTerms != nil {
		return fi.candTerms
	}
	seen := map[string]bool{}
	out := []*Term{}
	for _, b := range fi.Fn.Blocks {
		for _, f := range fi.FactsAtBlock(b) {
			if f.T.K != KBin {
				continue
			}
			switch f.T.S {
			case "<", "<=", "==", "!=":
			default:
				continue
			}
			for _, a := range f.T.A {
				if a.K == KConst || seen[a.Key()] {
					continue
				}
				if _, _, ok := isIntType(a.Typ); !ok && a.K != KLen {
					continue
				}
				if a.K == KBin {
					continue
				}
				seen[a.Key()] = true
				out = append(out, a)
			}
		}
	}
	sort.Slice(out, func(i, j int) bool { return out[i].Key() < out[j].Key() })
	if len(out) > 24 {
		out = out[:24]
	}
	fi.candTerms = out
	return out
}

func valueDependsOn(v ssa.Value, phi *ssa.Phi, seen map[ssa.Value]bool) bool {
	if v == phi {
		return true
	}
	if seen[v] {
		return false
	}
	seen[v] = true
	in, ok := v.(ssa.Instruction)
	if !ok {
		return false
	}
	for _, op := range in.Operands(nil) {
		if *op != nil && valueDependsOn(*op, phi, seen) {
			return true
		}
	}
	return false
}

// phiBound returns the current bounds of an integer phi. The bounds are
// computed once per function: (1) guard-only bounds with every phi
// unconstrained (valid outright), (2) an ascending iteration from bottom,
// clamped to the guard-only bounds, checked to be a post-fixpoint.
func (fi *FuncInfo) phiBound(phi *ssa.Phi) (lo, hi int64, bottom bool) {
	switch fi.phiMode {
	case 1: // top mode
		return -inf, inf, false
	case 2, 3:
		st, ok := fi.phiB[phi]
		if !ok {
			return -inf, inf, false
		}
		if st[0] > st[1] {
			return 0, 0, true
		}
		return st[0], st[1], false
	}
	fi.computePhiBounds()
	return fi.phiBound(phi)
}

func (fi *FuncInfo) edgeBounds(phi *ssa.Phi, k int) (lo, hi int64, skip bool) {
	pred := phi.Block().Preds[k]
	s := newBsys(fi)
	for _, f := range fi.FactsAtBlock(pred).Sorted() {
		s.addFact(f)
	}
	for _, f := range fi.EdgeFacts(pred, phi.Block()) {
		s.addFact(f)
	}
	n := s.node(fi.Term(phi.Edges[k]))
	s.closeAll()
	if s.bottom || s.inconsistent() {
		return 0, 0, true
	}
	return s.lb(n), s.ub(n), false
}

func (fi *FuncInfo) computePhiBounds() {
	fi.ensureFacts()
	var phis []*ssa.Phi
	for _, b := range fi.Fn.Blocks {
		for _, in := range b.Instrs {
			if phi, ok := in.(*ssa.Phi); ok {
				if _, _, isInt := isIntType(phi.Type()); isInt {
					phis = append(phis, phi)
				}
			}
		}
	}
	prev := fi.phiB
	fi.phiB = map[*ssa.Phi][2]int64{}
	_ = prev
	// (1) descending iteration from top: every iterate is a sound
	// over-approximation (the transfer function is monotone).
	fi.phiMode = 2
	top := map[*ssa.Phi][2]int64{}
	for _, phi := range phis {
		fi.phiB[phi] = [2]int64{-inf, inf}
	}
	for round := 0; round < 6; round++ {
		changed := false
		for _, phi := range phis {
			lo, hi := int64(inf), int64(-inf)
			for k := range phi.Edges {
				l, h, skip := fi.edgeBounds(phi, k)
				if skip {
					continue
				}
				if l < lo {
					lo = l
				}
				if h > hi {
					hi = h
				}
			}
			if lo > hi {
				lo, hi = -inf, inf
			}
			cur := fi.phiB[phi]
			// only ever tighten
			if lo < cur[0] {
				lo = cur[0]
			}
			if hi > cur[1] {
				hi = cur[1]
			}
			if lo != cur[0] || hi != cur[1] {
				fi.phiB[phi] = [2]int64{lo, hi}
				changed = true
			}
		}
		if !changed {
			break
		}
	}
	for _, phi := range phis {
		top[phi] = fi.phiB[phi]
	}
	// (2) iteration from bottom with doubling widening and narrowing, clamped
	// to the bounds of (1); the result is kept only if a final pass confirms
	// it is a post-fixpoint (F(X) within X for every phi).
	fi.phiMode = 2
	for _, phi := range phis {
		fi.phiB[phi] = [2]int64{inf, -inf} // bottom
	}
	evalPhi := func(phi *ssa.Phi) (int64, int64, bool) {
		lo, hi := int64(inf), int64(-inf)
		any := false
		for k := range phi.Edges {
			l, h, skip := fi.edgeBounds(phi, k)
			if skip {
				continue
			}
			any = true
			if l < lo {
				lo = l
			}
			if h > hi {
				hi = h
			}
		}
		t := top[phi]
		if lo < t[0] {
			lo = t[0]
		}
		if hi > t[1] {
			hi = t[1]
		}
		return lo, hi, any
	}
	grow := map[*ssa.Phi]int{}
	stable := false
	for round := 0; round < 60 && !stable; round++ {
		stable = true
		for _, phi := range phis {
			cur := fi.phiB[phi]
			lo, hi, any := evalPhi(phi)
			if !any {
				continue
			}
			t := top[phi]
			if cur[0] <= cur[1] { // not bottom
				grew := false
				if lo < cur[0] {
					grew = true
				} else if round < 30 {
					lo = cur[0] // keep while ascending; narrowing happens once nothing grows
				}
				if hi > cur[1] {
					grew = true
				} else if round < 30 {
					hi = cur[1]
				}
				if grew {
					grow[phi]++
					if grow[phi] >= 3 {
						// doubling widening towards the sound outer bound
						if hi > cur[1] {
							w := hi*4 + 64
							if grow[phi] > 9 || hi > inf/8 || w > t[1] {
								w = t[1]
							}
							hi = w
						}
						if lo < cur[0] {
							w := lo*4 - 64
							if grow[phi] > 9 || lo < -inf/8 || w < t[0] {
								w = t[0]
							}
							lo = w
						}
					}
				}
			}
			if lo != cur[0] || hi != cur[1] {
				fi.phiB[phi] = [2]int64{lo, hi}
				stable = false
			}
		}
		if stable && round < 30 {
			// switch to narrowing: recompute everything from the current state
			round = 29
			stable = false
			changed := false
			for _, phi := range phis {
				cur := fi.phiB[phi]
				if cur[0] > cur[1] {
					continue
				}
				lo, hi, any := evalPhi(phi)
				if !any {
					continue
				}
				if lo < cur[0] {
					lo = cur[0]
				}
				if hi > cur[1] {
					hi = cur[1]
				}
				if lo != cur[0] || hi != cur[1] {
					fi.phiB[phi] = [2]int64{lo, hi}
					changed = true
				}
			}
			if !changed {
				stable = true
			}
		}
	}
	// final post-fixpoint check
	ok := true
	for _, phi := range phis {
		cur := fi.phiB[phi]
		if cur[0] > cur[1] {
			continue
		}
		lo, hi, any := evalPhi(phi)
		if any && (lo < cur[0] || hi > cur[1]) {
			ok = false
		}
	}
	if !ok {
		for _, phi := range phis {
			fi.phiB[phi] = top[phi]
		}
	}
	for _, phi := range phis {
		if st := fi.phiB[phi]; st[0] > st[1] {
			fi.phiB[phi] = top[phi] // never assigned: unreachable
		}
	}
	fi.phiMode = 3
	if fi.phiPass == 0 {
		fi.phiPass = 1
		fi.computePhiRels(phis)
		// second numeric pass with the relational invariants available
		rels := fi.phiRels
		fi.phiMode = 0
		fi.computePhiBounds()
		fi.phiRels = rels
		fi.phiMode = 3
	}
}

func (s *bsys) closeAll() {
	for round := 0; round < 20; round++ {
		before := s.gen
		s.applyArith()
		for _, tr := range s.lenDiff { // len = hi - lo
			i, hn, ln := tr[0], tr[1], tr[2]
			if v := s.diffUB(hn, ln); v < inf {
				s.upper(i, v)
			}
			if v := s.diffUB(ln, hn); v < inf {
				s.lower(i, -v)
			}
			// i - hn <= -lb(lo) ; hn - i <= ub(lo)
			if l := s.lb(ln); l > -inf {
				s.add(i, hn, -l)
			}
			if u := s.ub(ln); u < inf {
				s.add(hn, i, u)
			}
		}
		for _, tr := range s.lenSum { // i = a + b
			s.sumRel(tr[0], tr[1], tr[2])
		}
		for _, ne := range s.neq { // a != b and a <= b  =>  a <= b - 1
			a, b := ne[0], ne[1]
			if s.diffUB(a, b) == 0 {
				s.add(a, b, -1)
			}
			if s.diffUB(b, a) == 0 {
				s.add(b, a, -1)
			}
		}
		if s.gen == before {
			break
		}
	}
}

// sumRel propagates i = a + b in all directions that a zone can express.
func (s *bsys) sumRel(i, a, b int) {
	if u := s.ub(b); u < inf {
		s.add(i, a, u)
	}
	if l := s.lb(b); l > -inf {
		s.add(a, i, -l)
	}
	if u := s.ub(a); u < inf {
		s.add(i, b, u)
	}
	if l := s.lb(a); l > -inf {
		s.add(b, i, -l)
	}
	// b = i - a, a = i - b
	if v := s.diffUB(i, a); v < inf {
		s.upper(b, v)
	}
	if v := s.diffUB(a, i); v < inf {
		s.lower(b, -v)
	}
	if v := s.diffUB(i, b); v < inf {
		s.upper(a, v)
	}
	if v := s.diffUB(b, i); v < inf {
		s.lower(a, -v)
	}
}

// addFact turns a branch fact into constraints.
func (s *bsys) addFact(f Fact) {
	t := f.T
	if f.Neg {
		return
	}
	if t.K == KBin {
		intOperands := func() bool {
			for _, a := range t.A {
				if _, _, ok := isIntType(a.Typ); !ok && a.K != KConst && a.K != KLen {
					return false
				}
				if a.K == KConst {
					if _, ok := constInt64(a); !ok {
						return false
					}
				}
			}
			return true
		}
		switch t.S {
		case "<":
			if intOperands() {
				s.linFacts = append(s.linFacts, [3]int{s.node(t.A[0]), s.node(t.A[1]), 1})
				s.add(s.node(t.A[0]), s.node(t.A[1]), -1)
				// stride idiom: i < L/c  =>  c*i + c <= L   (L >= 0, c > 0)
				if q := t.A[1]; q.K == KBin && q.S == "/" {
					if c, ok := constInt64(q.A[1]); ok && c > 0 && c < 1<<20 {
						ln := s.node(q.A[0])
						s.closeAll()
						if s.lb(ln) >= 0 && s.ub(ln) < inf/2 {
							prod := normalize(&Term{K: KBin, S: "*", A: []*Term{t.A[0], q.A[1]}, Typ: t.A[0].Typ})
							pn := s.node(prod)
							s.add(pn, ln, -c)
							s.lower(pn, 0)
							s.strideOK[prod.Key()] = true
						}
					}
				}
			}
		case "<=":
			if intOperands() {
				s.linFacts = append(s.linFacts, [3]int{s.node(t.A[0]), s.node(t.A[1]), 0})
				s.add(s.node(t.A[0]), s.node(t.A[1]), 0)
			}
		case "==":
			if intOperands() {
				s.linFacts = append(s.linFacts, [3]int{s.node(t.A[0]), s.node(t.A[1]), 0}, [3]int{s.node(t.A[1]), s.node(t.A[0]), 0})
				s.eq(s.node(t.A[0]), s.node(t.A[1]), 0)
			}
			// err == nil postconditions
			s.nilErrPost(t)
		case "!=":
			if intOperands() {
				a, b := s.node(t.A[0]), s.node(t.A[1])
				s.neq = append(s.neq, [2]int{a, b})
			}
		}
	}
}

// nilErrPost: library postconditions that hold when the error result is nil.
func (s *bsys) nilErrPost(t *Term) {
	var x *Term
	if c, ok := t.A[0].IsConst(); ok && c == "nil" {
		x = t.A[1]
	} else if c, ok := t.A[1].IsConst(); ok && c == "nil" {
		x = t.A[0]
	}
	if x == nil || x.K != KExt || len(x.A) != 1 {
		return
	}
	call := x.A[0]
	switch call.Callee() {
	case "io.ReadFull":
		// godoc: "On return, n == len(buf) if and only if err == nil."
		if len(call.A) == 2 {
			n := s.node(&Term{K: KExt, S: "0", A: []*Term{call}, Typ: types.Typ[types.Int]})
			s.eq(n, s.node(lenTerm(call.A[1])), 0)
		}
	case "github.com/ethereum/go-ethereum/crypto.Sign":
		// godoc: "The produced signature is in the [R || S || V] format" (65 bytes)
		sig := &Term{K: KExt, S: "0", A: []*Term{call}}
		s.eq(s.node(lenTerm(sig)), 0, 65)
	case "(*encoding/csv.Reader).Read":
		// godoc: a record is a slice of fields; a successful Read returns at least one field.
		rec := &Term{K: KExt, S: "0", A: []*Term{call}}
		s.lower(s.node(lenTerm(rec)), 1)
	}
}

// proveLE tries to prove x - y <= c.
func (s *bsys) proveLE(x, y int, c int64) bool {
	s.closeAll()
	if s.inconsistent() {
		return true // unreachable point
	}
	if s.diffUB(x, y) <= c {
		return true
	}
	// x != y together with x <= y gives x < y
	for _, ne := range s.neq {
		a, b := ne[0], ne[1]
		if c == -1 && ((a == x && b == y) || (a == y && b == x)) && s.diffUB(x, y) <= 0 {
			return true
		}
	}
	return s.proveLinear(x, y, c)
}

// ---- linear layer ---------------------------------------------------------------------------------------------
//
// A zone relates two terms at a time. Guards written over three quantities (size <= max - need, need + size <= max)
// are the same inequality over the integers; the linear layer proves a goal x - y <= c when the sum of at most two
// comparison facts (and known ranges of single terms) is that inequality. A sum or difference is taken apart only
// where the zone established that it does not wrap around; the outermost sum of the goal's left-hand side may also be
// taken apart when it cannot wrap below, because the proved mathematical bound (<= a value of the same type) then
// excludes wrapping above.

type linForm struct {
	k  int64
	co map[int]int64
}

func (f linForm) addScaled(g linForm, m int64) linForm {
	out := linForm{k: f.k + m*g.k, co: map[int]int64{}}
	for i, c := range f.co {
		out.co[i] = c
	}
	for i, c := range g.co {
		out.co[i] += m * c
		if out.co[i] == 0 {
			delete(out.co, i)
		}
	}
	return out
}

func (s *bsys) linOf(i int, goalTop bool, depth int) linForm {
	t := s.terms[i]
	if c, ok := constInt64(t); ok && c > -inf && c < inf {
		return linForm{k: c}
	}
	if t.K == KBin && (t.S == "+" || t.S == "-") && len(t.A) == 2 && depth < 24 {
		ok := s.exact[t.Key()]
		sub := false
		if !ok && goalTop && t.S == "+" {
			a, b := s.node(t.A[0]), s.node(t.A[1])
			ok = s.lb(a) >= 0 || s.lb(b) >= 0
			// a sum of non-negative parts: every partial sum is at most the whole, so the proved bound on the whole
			// excludes wrap-around of the parts as well
			sub = s.lb(a) >= 0 && s.lb(b) >= 0
		}
		if ok {
			a := s.linOf(s.node(t.A[0]), sub, depth+1)
			b := s.linOf(s.node(t.A[1]), sub, depth+1)
			if t.S == "+" {
				return a.addScaled(b, 1)
			}
			return a.addScaled(b, -1)
		}
	}
	return linForm{co: map[int]int64{i: 1}}
}

func (s *bsys) proveLinear(x, y int, c int64) bool {
	if len(s.linFacts) == 0 || len(s.linFacts) > 200 {
		return false
	}
	// goal: lin(x) - lin(y) - c <= 0
	goal := s.linOf(x, true, 0).addScaled(s.linOf(y, false, 0), -1)
	goal.k -= c
	n := len(s.terms)
	var facts []linForm
	for _, f := range s.linFacts {
		lf := s.linOf(f[0], false, 0).addScaled(s.linOf(f[1], false, 0), -1)
		lf.k += int64(f[2])
		facts = append(facts, lf)
	}
	if len(s.terms) != n {
		s.closeAll()
	}
	// discharge: what remains of the goal after subtracting the chosen facts must follow from single-term ranges
	closes := func(rest linForm) bool {
		// a difference of two terms: what the zone knows about it
		if len(rest.co) == 2 {
			var xs []int
			for i := range rest.co {
				xs = append(xs, i)
			}
			a, b := xs[0], xs[1]
			if rest.co[a] < 0 {
				a, b = b, a
			}
			if c := rest.co[a]; c > 0 && rest.co[b] == -c {
				if d := s.diffUB(a, b); d < inf && d > -inf && (d == 0 || (c < inf/4 && d < inf/(4*c) && d > -inf/(4*c))) {
					if c*d+rest.k <= 0 {
						return true
					}
				}
			}
		}
		// rest: sum co*x + k <= 0 to be shown from ranges: max of the left side
		tot := rest.k
		for i, co := range rest.co {
			if co > 0 {
				u := s.ub(i)
				if u >= inf || u > inf/co {
					return false
				}
				tot += co * u
			} else {
				l := s.lb(i)
				if l <= -inf || -l > inf/(-co) {
					return false
				}
				tot += co * l
			}
		}
		return tot <= 0
	}
	if closes(goal) {
		return true
	}
	for i := range facts {
		r1 := goal.addScaled(facts[i], -1)
		if closes(r1) {
			return true
		}
		for j := i; j < len(facts); j++ {
			if closes(r1.addScaled(facts[j], -1)) {
				return true
			}
		}
	}
	return false
}

func (s *bsys) describe(x int) string {
	s.closeAll()
	lo, hi := s.lb(x), s.ub(x)
	los, his := "-inf", "+inf"
	if lo > -inf {
		los = fmt.Sprint(lo)
	}
	if hi < inf {
		his = fmt.Sprint(hi)
	}
	return "[" + los + "," + his + "]"
}

// extra state
type bsysExtra struct{}

// ---- obligations ---------------------------------------------------------------

// BoundObl is one BOUND/PRE/DIV/NILP obligation.
type BoundObl struct {
	Kind  string // IDX SLC PRE DIV NILP
	Fn    *ssa.Function
	Instr ssa.Instruction
	Expr  string // canonical expression (key)
	Desc  string
	OK    bool
	Why   string
}

// sysFor builds the constraint system for the program point of instruction at.
func (fi *FuncInfo) sysFor(at ssa.Instruction) *bsys {
	s := newBsys(fi)
	facts := fi.FactsAt(at)
	for _, f := range facts.Sorted() {
		s.addFact(f)
	}
	// unit resolution on disjunctions: (A or B) together with not-A gives B
	refuted := func(t *Term) bool {
		if t.K == KUn && t.S == "!" {
			return facts.Has(t.A[0].Key())
		}
		if n := negate(t); n != nil {
			return facts.Has(normalize(n).Key())
		}
		return facts.Has("!" + t.Key())
	}
	for _, f := range facts.Sorted() {
		if f.T.K != KOr || f.Neg {
			continue
		}
		a, b := f.T.A[0], f.T.A[1]
		asFact := func(t *Term) Fact {
			if t.K == KUn && t.S == "!" {
				return Fact{T: t.A[0], Neg: true}
			}
			return Fact{T: t}
		}
		if refuted(a) {
			s.addFact(asFact(b))
		} else if refuted(b) {
			s.addFact(asFact(a))
		}
	}
	return s
}

// partial library functions: callee -> (argument index of the slice, minimal length)
var preLen = map[string][2]int{
	"(encoding/binary.littleEndian).Uint16":    {1, 2},
	"(encoding/binary.littleEndian).Uint32":    {1, 4},
	"(encoding/binary.littleEndian).Uint64":    {1, 8},
	"(encoding/binary.littleEndian).PutUint16": {1, 2},
	"(encoding/binary.littleEndian).PutUint32": {1, 4},
	"(encoding/binary.littleEndian).PutUint64": {1, 8},
	"(encoding/binary.bigEndian).Uint16":       {1, 2},
	"(encoding/binary.bigEndian).Uint32":       {1, 4},
	"(encoding/binary.bigEndian).Uint64":       {1, 8},
	"(encoding/binary.bigEndian).PutUint16":    {1, 2},
	"(encoding/binary.bigEndian).PutUint32":    {1, 4},
	"(encoding/binary.bigEndian).PutUint64":    {1, 8},
}

// BoundObligations enumerates and decides the index, slice, partial-call and
// division obligations of one function.
func (p *Program) BoundObligations(fn *ssa.Function) []BoundObl {
	if p.boundCache == nil {
		p.boundCache = map[*ssa.Function][]BoundObl{}
	}
	if r, ok := p.boundCache[fn]; ok {
		return r
	}
	fi := p.Info(fn)
	var out []BoundObl
	sysByBlock := map[*ssa.BasicBlock]*bsys{}
	sys := func(in ssa.Instruction) *bsys {
		b := in.Block()
		if s, ok := sysByBlock[b]; ok {
			return s
		}
		s := fi.sysFor(in)
		sysByBlock[b] = s
		return s
	}
	for _, b := range fn.Blocks {
		for _, in := range b.Instrs {
			switch in := in.(type) {
			case *ssa.IndexAddr:
				out = append(out, fi.idxObl(sys(in), in, in.X, in.Index))
			case *ssa.Index:
				if _, isMap := in.X.Type().Underlying().(*types.Map); isMap {
					continue
				}
				out = append(out, fi.idxObl(sys(in), in, in.X, in.Index))
			case *ssa.Slice:
				out = append(out, fi.sliceObl(sys(in), in))
			case *ssa.BinOp:
				if in.Op == token.QUO || in.Op == token.REM {
					if _, _, ok := isIntType(in.Type()); ok {
						s := sys(in)
						y := fi.Term(in.Y)
						n := s.node(y)
						s.closeAll()
						ok := s.lb(n) > 0 || s.ub(n) < 0
						out = append(out, BoundObl{Kind: "DIV", Fn: fn, Instr: in, Expr: "div:" + shortKey(y), OK: ok,
							Desc: "integer division/remainder by " + shortKey(y) + " requires a non-zero divisor", Why: "divisor range " + s.describe(n)})
					}
				}
			case *ssa.Call:
				name := CalleeName(&in.Call)
				if pl, ok := preLen[name]; ok && pl[0] < len(in.Call.Args) {
					s := sys(in)
					bt := fi.Term(in.Call.Args[pl[0]])
					n := s.node(lenTerm(bt))
					ok := s.proveLE(0, n, -int64(pl[1])) // 0 - len <= -N
					out = append(out, BoundObl{Kind: "PRE", Fn: fn, Instr: in, Expr: name + "(" + shortKey(bt) + ")", OK: ok,
						Desc: fmt.Sprintf("%s requires len(b) >= %d", name[strings.LastIndex(name, ".")+1:], pl[1]),
						Why:  "len(" + shortKey(bt) + ") in " + s.describe(n)})
				}
			}
		}
	}
	p.boundCache[fn] = out
	return out
}

func shortKey(t *Term) string {
	s := strings.ReplaceAll(t.Key(), ModulePath+"/", "")
	if len(s) > 140 {
		return s[:137] + "..."
	}
	return s
}

func (fi *FuncInfo) idxObl(s *bsys, in ssa.Instruction, x, idx ssa.Value) BoundObl {
	xt, it := fi.Term(x), fi.Term(idx)
	o := BoundObl{Kind: "IDX", Fn: fi.Fn, Instr: in, Expr: shortKey(xt) + "[" + shortKey(it) + "]"}
	o.Desc = "index " + shortKey(it) + " must satisfy 0 <= i < len(" + shortKey(xt) + ")"
	i := s.node(it)
	var okHi bool
	var lenDesc string
	if n, ok := arrayLen(x.Type()); ok {
		okHi = s.proveLE(i, 0, n-1)
		lenDesc = fmt.Sprint(n)
	} else {
		ln := s.node(lenTerm(xt))
		okHi = s.proveLE(i, ln, -1)
		lenDesc = s.describe(ln)
	}
	okLo := s.proveLE(0, i, 0)
	o.OK = okHi && okLo
	o.Why = fmt.Sprintf("index range %s, length %s", s.describe(i), lenDesc)
	if !okLo {
		o.Why += "; lower bound not derivable"
	}
	if !okHi {
		o.Why += "; upper bound not derivable"
	}
	if len(s.axiom) > 0 {
		var ax []string
		for a := range s.axiom {
			ax = append(ax, a)
		}
		sort.Strings(ax)
		o.Why += "; axioms used: " + strings.Join(ax, "; ")
	}
	return o
}

func (fi *FuncInfo) sliceObl(s *bsys, in *ssa.Slice) BoundObl {
	xt := fi.Term(in.X)
	o := BoundObl{Kind: "SLC", Fn: fi.Fn, Instr: in}
	var lo, hi int
	loS, hiS := "0", "len"
	if in.Low != nil {
		lo = s.node(fi.Term(in.Low))
		loS = shortKey(fi.Term(in.Low))
	} else {
		lo = 0
	}
	// upper limit: cap for slices, len for arrays and strings
	var limit int
	limitConst := int64(-1)
	if n, ok := arrayLen(in.X.Type()); ok {
		limitConst = n
	} else if _, isSlice := in.X.Type().Underlying().(*types.Slice); isSlice && in.High != nil {
		// s[lo:hi] may extend up to cap(s); we only know len(s) <= cap(s)
		limit = s.node(lenTerm(xt))
	} else {
		limit = s.node(lenTerm(xt))
	}
	leLimit := func(n int) bool {
		if limitConst >= 0 {
			return s.proveLE(n, 0, limitConst)
		}
		return s.proveLE(n, limit, 0)
	}
	o.Expr = shortKey(xt) + "[" + loS + ":"
	ok := s.proveLE(0, lo, 0) // lo >= 0
	if in.High != nil {
		hi = s.node(fi.Term(in.High))
		hiS = shortKey(fi.Term(in.High))
		ok = ok && s.proveLE(lo, hi, 0) && leLimit(hi)
	} else {
		ok = ok && leLimit(lo)
	}
	o.Expr += hiS + "]"
	o.OK = ok
	o.Desc = "slice bounds 0 <= " + loS + " <= " + hiS + " <= len/cap(" + shortKey(xt) + ")"
	o.Why = "lo " + s.describe(lo)
	if in.High != nil {
		o.Why += ", hi " + s.describe(hi)
	}
	if limitConst >= 0 {
		o.Why += fmt.Sprintf(", limit %d", limitConst)
	} else {
		o.Why += ", len " + s.describe(limit)
	}
	return o
}

// LenSummary returns a lower bound (or the exact value) of the length of
// result res of fn, derived from its return statements.
func (p *Program) LenSummary(fn *ssa.Function, res int) (lb int64, exact bool) {
	if p.lenSums == nil {
		p.lenSums = map[string][2]int64{}
		p.lenBusy = map[string]bool{}
	}
	key := fn.String() + "#" + itoa(res)
	if v, ok := p.lenSums[key]; ok {
		return v[0], v[1] == 1
	}
	if p.lenBusy[key] {
		return 0, false
	}
	p.lenBusy[key] = true
	defer delete(p.lenBusy, key)
	fi := p.Info(fn)
	min, max := inf, int64(-inf)
	for _, b := range fn.Blocks {
		if len(b.Instrs) == 0 || b == b.Parent().Recover {
			continue
		}
		ret, ok := b.Instrs[len(b.Instrs)-1].(*ssa.Return)
		if !ok || res >= len(ret.Results) {
			continue
		}
		s := fi.sysFor(ret)
		n := s.node(lenTerm(fi.Term(ret.Results[res])))
		s.closeAll()
		if l := s.lb(n); l < min {
			min = l
		}
		if u := s.ub(n); u > max {
			max = u
		}
	}
	if min >= inf || min < 0 {
		min = 0
	}
	ex := int64(0)
	if min == max {
		ex = 1
	}
	p.lenSums[key] = [2]int64{min, ex}
	return min, ex == 1
}

// IntSum is the summary of one integer result: numeric range and the slice
// parameters whose length bounds it from above.
type IntSum struct {
	Lo, Hi       int64
	LeLenOfParam []int
}

// IntSummary computes the range of integer result res of fn over all returns.
func (p *Program) IntSummary(fn *ssa.Function, res int) *IntSum {
	if p.intSums == nil {
		p.intSums = map[string]*IntSum{}
	}
	key := fn.String() + "#" + itoa(res)
	if v, ok := p.intSums[key]; ok {
		return v
	}
	p.intSums[key] = nil // in progress
	if res >= fn.Signature.Results().Len() {
		return nil
	}
	if _, _, ok := isIntType(fn.Signature.Results().At(res).Type()); !ok {
		return nil
	}
	fi := p.Info(fn)
	sum := &IntSum{Lo: inf, Hi: -inf}
	var sliceParams []int
	for i, prm := range fn.Params {
		switch prm.Type().Underlying().(type) {
		case *types.Slice:
			sliceParams = append(sliceParams, i)
		default:
			if b, ok := prm.Type().Underlying().(*types.Basic); ok && b.Kind() == types.String {
				sliceParams = append(sliceParams, i)
			}
		}
	}
	le := map[int]bool{}
	for _, q := range sliceParams {
		le[q] = true
	}
	for _, b := range fn.Blocks {
		if len(b.Instrs) == 0 || b == b.Parent().Recover {
			continue
		}
		ret, ok := b.Instrs[len(b.Instrs)-1].(*ssa.Return)
		if !ok || res >= len(ret.Results) {
			continue
		}
		s := fi.sysFor(ret)
		n := s.node(fi.Term(ret.Results[res]))
		s.closeAll()
		if s.inconsistent() {
			continue
		}
		if l := s.lb(n); l < sum.Lo {
			sum.Lo = l
		}
		if u := s.ub(n); u > sum.Hi {
			sum.Hi = u
		}
		for _, q := range sliceParams {
			if le[q] && !s.proveLE(n, s.node(lenTerm(fi.Term(fn.Params[q]))), 0) {
				le[q] = false
			}
		}
	}
	if sum.Lo > sum.Hi {
		sum.Lo, sum.Hi = -inf, inf
	}
	for _, q := range sliceParams {
		if le[q] {
			sum.LeLenOfParam = append(sum.LeLenOfParam, q)
		}
	}
	p.intSums[key] = sum
	return sum
}

// DebugPhis renders the phi bounds of a function.
func (fi *FuncInfo) DebugPhis() string {
	fi.computePhiBounds()
	var sb strings.Builder
	for _, b := range fi.Fn.Blocks {
		for _, in := range b.Instrs {
			if phi, ok := in.(*ssa.Phi); ok {
				if st, ok := fi.phiB[phi]; ok {
					sb.WriteString(fmt.Sprintf("  %s %s = [%d,%d]  %s\n", fi.ID(phi), phi.Name(), st[0], st[1], phi.String()))
					for _, r := range fi.phiRels[phi] {
						if !r.dropped {
							sb.WriteString(fmt.Sprintf("      - %s <= %d\n", shortKey(r.T), r.C))
						}
					}
				}
			}
		}
	}
	return sb.String()
}

// LenEqResults lists pairs of slice results of fn that have equal length at
// every return.
func (p *Program) LenEqResults(fn *ssa.Function) [][2]int {
	if p.lenEq == nil {
		p.lenEq = map[*ssa.Function][][2]int{}
	}
	if v, ok := p.lenEq[fn]; ok {
		return v
	}
	p.lenEq[fn] = nil
	res := fn.Signature.Results()
	var slices []int
	for i := 0; i < res.Len(); i++ {
		if _, ok := res.At(i).Type().Underlying().(*types.Slice); ok {
			slices = append(slices, i)
		}
	}
	var out [][2]int
	fi := p.Info(fn)
	for a := 0; a < len(slices); a++ {
		for b := a + 1; b < len(slices); b++ {
			i, j := slices[a], slices[b]
			ok := true
			for _, blk := range fn.Blocks {
				if len(blk.Instrs) == 0 || blk == blk.Parent().Recover {
					continue
				}
				ret, isRet := blk.Instrs[len(blk.Instrs)-1].(*ssa.Return)
				if !isRet {
					continue
				}
				s := fi.sysFor(ret)
				ni := s.node(lenTerm(fi.Term(ret.Results[i])))
				nj := s.node(lenTerm(fi.Term(ret.Results[j])))
				if !(s.proveLE(ni, nj, 0) && s.proveLE(nj, ni, 0)) {
					ok = false
					break
				}
			}
			if ok {
				out = append(out, [2]int{i, j})
			}
		}
	}
	p.lenEq[fn] = out
	return out
}

// Sys is the exported view of a constraint system at a program point.
type Sys struct{ s *bsys }

// SysFor returns the constraint system (branch facts, structural constraints,
// loop invariants) for the point of instruction at.
func (fi *FuncInfo) SysFor(at ssa.Instruction) *Sys { return &Sys{fi.sysFor(at)} }

// SysForEdge returns the constraint system that holds on the control-flow
// edge from block a to block b (facts of a plus the branch facts of the edge).
func (fi *FuncInfo) SysForEdge(a, b *ssa.BasicBlock) *Sys {
	s := newBsys(fi)
	for _, f := range fi.FactsAtBlock(a).Sorted() {
		s.addFact(f)
	}
	for _, f := range fi.EdgeFacts(a, b) {
		s.addFact(f)
	}
	return &Sys{s}
}

// AddFact adds a fact to the system.
func (x *Sys) AddFact(f Fact) { x.s.addFact(f) }

// AddEq states that two integer terms are equal (terms of other types are ignored).
func (x *Sys) AddEq(a, b *Term) {
	for _, t := range []*Term{a, b} {
		if _, _, ok := isIntType(t.Typ); !ok && t.K != KConst && t.K != KLen {
			return
		}
		if t.K == KConst {
			if _, ok := constInt64(t); !ok {
				return
			}
		}
	}
	x.s.eq(x.s.node(a), x.s.node(b), 0)
}

// Inconsistent: the constraints collected so far have no solution (the point is unreachable).
func (x *Sys) Inconsistent() bool {
	x.s.closeAll()
	return x.s.inconsistent()
}

// ProveGE proves t >= c.
func (x *Sys) ProveGE(t *Term, c int64) bool { return x.s.proveLE(0, x.s.node(t), -c) }

// ProveLE proves t <= c.
func (x *Sys) ProveLE(t *Term, c int64) bool { return x.s.proveLE(x.s.node(t), 0, c) }

// ProveDiffLE proves a - b <= c.
func (x *Sys) ProveDiffLE(a, b *Term, c int64) bool {
	return x.s.proveLE(x.s.node(a), x.s.node(b), c)
}

// Describe renders the known range of t.
func (x *Sys) Describe(t *Term) string { return x.s.describe(x.s.node(t)) }

// LenTerm builds the term len(x).
func LenTerm(x *Term) *Term { return lenTerm(x) }
