// Package an holds the analysis engines of the gca-backend checker.
//
// Everything in here decides from source: the packages are parsed and
// type-checked by go/packages, lowered to SSA, and a VTA call graph is built.
// No code of the repository under analysis is ever executed.
package an

import (
	"fmt"
	"go/token"
	"go/types"
	"os"
	"sort"
	"strings"

	"golang.org/x/tools/go/callgraph"
	"golang.org/x/tools/go/callgraph/cha"
	"golang.org/x/tools/go/callgraph/vta"
	"golang.org/x/tools/go/packages"
	"golang.org/x/tools/go/ssa"
	"golang.org/x/tools/go/ssa/ssautil"
)

// ModulePath is the import path prefix of the repository under analysis.
const ModulePath = "github.com/glowlabs-org/gca-backend"

// Config is one build configuration (DESIGN.md 1.1).
type Config struct {
	ID     string
	Tags   string // "" or "test"
	GOARCH string
	Why    string
}

// Configs lists the build configurations in tier order.
var Configs = []Config{
	{ID: "K1", Tags: "", GOARCH: "amd64", Why: "what ships; only configuration containing *_p.go and glow/timeslot.go"},
	{ID: "K2", Tags: "test", GOARCH: "amd64", Why: "what the upstream suite runs; *_t.go constants"},
	{ID: "K3", Tags: "", GOARCH: "arm", Why: "the IoT device; 32-bit int"},
	{ID: "K4", Tags: "", GOARCH: "arm64", Why: "servers and newer devices"},
	{ID: "K5", Tags: "", GOARCH: "386", Why: "second 32-bit int configuration"},
}

// ConfigByID returns the configuration with the given id.
func ConfigByID(id string) (Config, bool) {
	for _, c := range Configs {
		if c.ID == id {
			return c, true
		}
	}
	return Config{}, false
}

// Program is a loaded, type-checked and SSA-lowered build configuration.
type Program struct {
	Cfg      Config
	RepoDir  string
	Fset     *token.FileSet
	Pkgs     []*packages.Package // the repository's packages
	AllPkgs  map[string]*packages.Package
	Prog     *ssa.Program
	SSA      map[string]*ssa.Package // keyed by short name: glow, server, client, bin/gca-server ...
	CG       *callgraph.Graph
	IntBits  int // size of int in this configuration
	funcInfo map[*ssa.Function]*FuncInfo
	effects  map[*ssa.Function]*Effect
	srcFuncs []*ssa.Function

	summaries    map[*ssa.Function]*RetSummary
	valueSums    map[*ssa.Function]*Term
	codecBusy    map[*ssa.Function]bool
	valueSumBusy map[*ssa.Function]bool
	summarizing  map[*ssa.Function]bool
	inlineBound  int
	lockFlows    map[*ssa.Function]*LockFlow
	accesses     map[*ssa.Function][]Access
	rootsAll     []Root
	boundCache   map[*ssa.Function][]BoundObl
	lenSums      map[string][2]int64
	lenBusy      map[string]bool
	intSums      map[string]*IntSum
	lenEq        map[*ssa.Function][][2]int

	NumPackages int
	NumFuncs    int
	NumEdges    int
}

// LoadEnv returns the environment and build flags with which configuration cfg is loaded.
func LoadEnv(cfg Config) (env []string, buildFlags []string) {
	env = append(os.Environ(),
		"GOFLAGS=-mod=mod", "GOPROXY=off", "GOSUMDB=off", "GOWORK=off", "GOTOOLCHAIN=local",
		"GOARCH="+cfg.GOARCH, "GOOS=linux")
	if cfg.GOARCH != "amd64" {
		env = append(env, "CGO_ENABLED=0")
	}
	if cfg.Tags != "" {
		buildFlags = []string{"-tags=" + cfg.Tags}
	}
	return env, buildFlags
}

// Load loads one configuration of the repository at dir.
func Load(dir string, cfg Config) (*Program, error) { return LoadOverlay(dir, cfg, nil) }

// LoadOverlay loads one configuration with some files replaced (an equivalent form of the source, see package norm).
func LoadOverlay(dir string, cfg Config, overlay map[string][]byte) (*Program, error) {
	env, flags := LoadEnv(cfg)
	pc := &packages.Config{
		Mode:       packages.LoadAllSyntax,
		Dir:        dir,
		Env:        env,
		Tests:      false,
		Fset:       token.NewFileSet(),
		BuildFlags: flags,
		Overlay:    overlay,
	}
	pkgs, err := packages.Load(pc, "./glow", "./server", "./client", "./bin/...")
	if err != nil {
		return nil, fmt.Errorf("load %s: %v", cfg.ID, err)
	}
	if len(pkgs) == 0 {
		return nil, fmt.Errorf("load %s: no packages", cfg.ID)
	}
	nerr := 0
	var firstErr string
	all := map[string]*packages.Package{}
	packages.Visit(pkgs, nil, func(p *packages.Package) {
		all[p.PkgPath] = p
		for _, e := range p.Errors {
			if strings.HasPrefix(p.PkgPath, ModulePath) {
				nerr++
				if firstErr == "" {
					firstErr = e.Error()
				}
			}
		}
	})
	if nerr > 0 {
		return nil, fmt.Errorf("load %s: %d type/parse errors in the repository, first: %s", cfg.ID, nerr, firstErr)
	}
	prog, _ := ssautil.AllPackages(pkgs, ssa.InstantiateGenerics)
	prog.Build()
	p := &Program{Cfg: cfg, RepoDir: dir, Fset: pc.Fset, Pkgs: pkgs, AllPkgs: all, Prog: prog,
		SSA: map[string]*ssa.Package{}, funcInfo: map[*ssa.Function]*FuncInfo{}, effects: map[*ssa.Function]*Effect{}}
	for _, pk := range pkgs {
		sp := prog.Package(pk.Types)
		if sp == nil {
			return nil, fmt.Errorf("load %s: no SSA for %s", cfg.ID, pk.PkgPath)
		}
		short := strings.TrimPrefix(strings.TrimPrefix(pk.PkgPath, ModulePath), "/")
		p.SSA[short] = sp
	}
	for _, need := range []string{"glow", "server", "client"} {
		if p.SSA[need] == nil {
			return nil, fmt.Errorf("load %s: package %s missing", cfg.ID, need)
		}
	}
	p.NumPackages = len(pkgs)
	sizes := types.SizesFor("gc", cfg.GOARCH)
	p.IntBits = int(sizes.Sizeof(types.Typ[types.Int])) * 8

	allFns := ssautil.AllFunctions(prog)
	p.CG = vta.CallGraph(allFns, cha.CallGraph(prog))
	p.CG.DeleteSyntheticNodes()
	for fn := range allFns {
		if fn.Pkg != nil && strings.HasPrefix(fn.Pkg.Pkg.Path(), ModulePath) && fn.Blocks != nil {
			p.srcFuncs = append(p.srcFuncs, fn)
		}
	}
	sort.Slice(p.srcFuncs, func(i, j int) bool { return p.srcFuncs[i].String() < p.srcFuncs[j].String() })
	p.NumFuncs = len(p.srcFuncs)
	for _, n := range p.CG.Nodes {
		p.NumEdges += len(n.Out)
	}
	return p, nil
}

// SrcFuncs returns every function (including closures) of the repository that
// has a body, sorted by name.
func (p *Program) SrcFuncs() []*ssa.Function { return p.srcFuncs }

// FuncsIn returns the repository functions of one package (short name).
func (p *Program) FuncsIn(short string) []*ssa.Function {
	var out []*ssa.Function
	path := ModulePath + "/" + short
	for _, f := range p.srcFuncs {
		if f.Pkg.Pkg.Path() == path {
			out = append(out, f)
		}
	}
	return out
}

// Named returns the named type pkg.name (short package name).
func (p *Program) Named(short, name string) *types.Named {
	sp := p.SSA[short]
	if sp == nil {
		return nil
	}
	obj := sp.Pkg.Scope().Lookup(name)
	if obj == nil {
		return nil
	}
	n, _ := obj.Type().(*types.Named)
	return n
}

// Method returns the SSA function of method name on *T or T.
func (p *Program) Method(short, typ, name string) *ssa.Function {
	n := p.Named(short, typ)
	if n == nil {
		return nil
	}
	for _, t := range []types.Type{types.NewPointer(n), n} {
		ms := p.Prog.MethodSets.MethodSet(t)
		if sel := ms.Lookup(n.Obj().Pkg(), name); sel != nil {
			if fn := p.Prog.MethodValue(sel); fn != nil {
				// Prefer the declared function over a pointer wrapper.
				if fn.Synthetic != "" {
					if obj, ok := sel.Obj().(*types.Func); ok {
						if d := p.Prog.FuncValue(obj); d != nil {
							return d
						}
					}
				}
				return fn
			}
		}
	}
	return nil
}

// Func returns the package-level function short.name.
func (p *Program) Func(short, name string) *ssa.Function {
	sp := p.SSA[short]
	if sp == nil {
		return nil
	}
	return sp.Func(name)
}

// Pos renders a position relative to the repository root.
func (p *Program) Pos(pos token.Pos) string {
	if !pos.IsValid() {
		return "-"
	}
	ps := p.Fset.Position(pos)
	f := strings.TrimPrefix(ps.Filename, p.RepoDir+"/")
	return fmt.Sprintf("%s:%d", f, ps.Line)
}

// FuncName renders a function name without the module path.
func FuncName(fn *ssa.Function) string {
	if fn == nil {
		return "<nil>"
	}
	s := fn.String()
	s = strings.ReplaceAll(s, ModulePath+"/", "")
	return s
}

// ConstValue looks up a package-level constant and returns its exact string.
func (p *Program) ConstValue(short, name string) (string, bool) {
	sp := p.SSA[short]
	if sp == nil {
		return "", false
	}
	c, ok := sp.Pkg.Scope().Lookup(name).(*types.Const)
	if !ok {
		return "", false
	}
	return c.Val().ExactString(), true
}
