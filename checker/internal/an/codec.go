package an

import (
	"fmt"
	"go/constant"
	"go/token"
	"go/types"
	"math/big"
	"sort"
	"strconv"
	"strings"

	"golang.org/x/tools/go/ssa"
)

// CodecEvent is one field-sized read or write performed by an encoder, a
// decoder or a signing-bytes builder (DESIGN.md 1.8). The sequence of events,
// in source order, is the layout grammar of the codec in flattened form.
type CodecEvent struct {
	Op     string // W (encode) or R (decode)
	Width  int    // bytes; -1 = variable length
	Order  string // LE, BE or "" for raw bytes
	Float  bool   // through math.Float64bits / Float64frombits
	Field  string // struct field (or len(field), or a literal) involved
	Off    string // offset expression inside the buffer (volatile parts stripped), "" if cursor/stream
	Pos    token.Pos
	Instr  ssa.Instruction
	Prefix string // for W of a constant string: its text
	// Val is the encoded value (writes through PutUintNN); TmpAlloc the local fixed-size array that is the buffer of this
	// event (PutUintNN) or the source of this stream write: a value staged in such an array and then written to the stream.
	Val      *Term
	TmpAlloc ssa.Value
	// ByteVal is the value of a single byte written by append(buf, b1, b2).
	ByteVal ssa.Value
	// Delegate is the repository encoder whose whole output is written here (append(buf, x.Serialize()...)).
	Delegate *ssa.Function
}

func (e CodecEvent) Sig() string {
	f := ""
	if e.Float {
		f = "f"
	}
	w := fmt.Sprint(e.Width)
	if e.Width < 0 {
		w = "var"
	}
	return fmt.Sprintf("%s%s%s:%s", w, e.Order, f, e.Field)
}

func (e CodecEvent) String() string {
	s := e.Op + e.Sig()
	if e.Off != "" {
		s += "@" + e.Off
	}
	return s
}

// appendUintOf recognises binary.LittleEndian.AppendUintNN / BigEndian.AppendUintNN.
func appendUintOf(name string) (width int, order string, ok bool) {
	o := ""
	switch {
	case strings.HasPrefix(name, "(encoding/binary.littleEndian).AppendUint"):
		o = "LE"
	case strings.HasPrefix(name, "(encoding/binary.bigEndian).AppendUint"):
		o = "BE"
	default:
		return 0, "", false
	}
	switch name[strings.LastIndex(name, "AppendUint")+len("AppendUint"):] {
	case "16":
		return 2, o, true
	case "32":
		return 4, o, true
	case "64":
		return 8, o, true
	}
	return 0, "", false
}

// chainLen: the length of a byte slice built by make / append / AppendUintNN in straight-line code, as a term: a
// constant plus the lengths of the variable parts (nil if it cannot be told).
func (fi *FuncInfo) chainLen(v ssa.Value, depth int) *Term {
	if n, ok := staticLen(v, 0); ok {
		return mk(KConst, itoa(n), types.Typ[types.Int], nil)
	}
	if depth > 40 {
		return nil
	}
	add := func(a, b *Term) *Term {
		if a == nil || b == nil {
			return nil
		}
		return mk(KBin, "+", types.Typ[types.Int], nil, a, b)
	}
	switch x := v.(type) {
	case *ssa.Call:
		if bi, ok := x.Call.Value.(*ssa.Builtin); ok && bi.Name() == "append" && len(x.Call.Args) == 2 {
			base := fi.chainLen(x.Call.Args[0], depth+1)
			if n, ok := staticLen(x.Call.Args[1], 0); ok {
				return add(base, mk(KConst, itoa(n), types.Typ[types.Int], nil))
			}
			// a variable part: its own length
			return add(base, lenTerm(fi.Term(x.Call.Args[1])))
		}
		if w, _, ok := appendUintOf(CalleeName(&x.Call)); ok && len(x.Call.Args) == 3 {
			return add(fi.chainLen(x.Call.Args[1], depth+1), mk(KConst, itoa(w), types.Typ[types.Int], nil))
		}
	}
	return nil
}

func isEmptyMake(v ssa.Value) bool {
	// make([]T, 0, constant) is compiled to new([n]T)[:0]
	if sl, ok := v.(*ssa.Slice); ok && sl.Low == nil {
		if _, isAl := sl.X.(*ssa.Alloc); isAl {
			if k, ok := sl.High.(*ssa.Const); ok && k.Value != nil && constant.Sign(k.Value) == 0 {
				return true
			}
		}
	}
	ms, ok := v.(*ssa.MakeSlice)
	if !ok {
		return false
	}
	k, ok := ms.Len.(*ssa.Const)
	return ok && k.Value != nil && constant.Sign(k.Value) == 0
}

// isFreshMake: make([]T, L, n) with a constant length L (room left for a header that is filled in later): what is
// appended lands at the absolute offset L + the lengths appended so far.
func isFreshMake(v ssa.Value) bool {
	if sl, ok := v.(*ssa.Slice); ok && sl.Low == nil {
		if al, isAl := sl.X.(*ssa.Alloc); isAl && al.Heap {
			if k, ok := sl.High.(*ssa.Const); ok && k.Value != nil && constant.Sign(k.Value) >= 0 {
				// the allocation is used for this slice only
				if refs := al.Referrers(); refs != nil && len(*refs) == 1 {
					return true
				}
			}
		}
	}
	ms, ok := v.(*ssa.MakeSlice)
	if !ok {
		return false
	}
	k, ok := ms.Len.(*ssa.Const)
	return ok && k.Value != nil && constant.Sign(k.Value) >= 0
}

// chainStartsEmpty: the append chain that produced v starts from make(T, 0, n) (so offsets are absolute).
func chainStartsEmpty(v ssa.Value, depth int) bool {
	if depth > 40 {
		return false
	}
	if isEmptyMake(v) || isFreshMake(v) {
		return true
	}
	switch x := v.(type) {
	case *ssa.Call:
		if bi, ok := x.Call.Value.(*ssa.Builtin); ok && bi.Name() == "append" && len(x.Call.Args) == 2 {
			return chainStartsEmpty(x.Call.Args[0], depth+1)
		}
		if _, _, ok := appendUintOf(CalleeName(&x.Call)); ok && len(x.Call.Args) == 3 {
			return chainStartsEmpty(x.Call.Args[1], depth+1)
		}
	}
	return false
}

// staticLen: the statically known length of a byte slice built by make / append / AppendUintNN in straight-line code.
func staticLen(v ssa.Value, depth int) (int, bool) {
	if depth > 40 {
		return 0, false
	}
	switch x := v.(type) {
	case *ssa.MakeSlice:
		if k, ok := x.Len.(*ssa.Const); ok && k.Value != nil {
			if n, exact := constant.Int64Val(k.Value); exact {
				return int(n), true
			}
		}
	case *ssa.Slice:
		if k, ok := x.High.(*ssa.Const); ok && k.Value != nil && x.Low == nil {
			if n, exact := constant.Int64Val(k.Value); exact {
				return int(n), true
			}
		}
		if x.Low == nil && x.High == nil {
			if n := fixedArrayLen(x.X.Type()); n > 0 {
				return n, true
			}
		}
	case *ssa.Convert:
		if k, ok := x.X.(*ssa.Const); ok && k.Value != nil && k.Value.Kind() == constant.String {
			return len(constant.StringVal(k.Value)), true
		}
	case *ssa.Const:
		if x.Value != nil && x.Value.Kind() == constant.String {
			return len(constant.StringVal(x.Value)), true
		}
		if x.Value == nil {
			return 0, true // nil slice
		}
	case *ssa.Call:
		if bi, ok := x.Call.Value.(*ssa.Builtin); ok && bi.Name() == "append" && len(x.Call.Args) == 2 {
			a, ok1 := staticLen(x.Call.Args[0], depth+1)
			b, ok2 := staticLen(x.Call.Args[1], depth+1)
			return a + b, ok1 && ok2
		}
		if w, _, ok := appendUintOf(CalleeName(&x.Call)); ok && len(x.Call.Args) == 3 {
			a, ok1 := staticLen(x.Call.Args[1], depth+1)
			return a + w, ok1
		}
	}
	return 0, false
}

func byteOrderOf(name string) (width int, order string, put bool, ok bool) {
	o := ""
	switch {
	case strings.HasPrefix(name, "(encoding/binary.littleEndian)."):
		o = "LE"
	case strings.HasPrefix(name, "(encoding/binary.bigEndian)."):
		o = "BE"
	default:
		return 0, "", false, false
	}
	m := name[strings.LastIndex(name, ".")+1:]
	put = strings.HasPrefix(m, "Put")
	m = strings.TrimPrefix(m, "Put")
	switch m {
	case "Uint16":
		return 2, o, put, true
	case "Uint32":
		return 4, o, put, true
	case "Uint64":
		return 8, o, put, true
	}
	return 0, "", false, false
}

// innerField returns the innermost struct field name mentioned by a term
// (the source of an encoded value), or a literal description.
func innerField(t *Term) string {
	name := ""
	var walk func(x *Term) bool
	walk = func(x *Term) bool {
		switch x.K {
		case KField:
			name = x.S
			return true
		case KFA:
			name = x.S
			return true
		case KLen:
			if walk(x.A[0]) {
				name = "len(" + name + ")"
				return true
			}
			return false
		case KConst:
			return false
		}
		for _, a := range x.A {
			if walk(a) {
				return true
			}
		}
		return false
	}
	if walk(t) {
		return name
	}
	if t.K == KConst {
		return "const"
	}
	// a flag byte chosen beforehand (b := 0; if x.Banned { b = 1 }; buf[k] = b): a phi of constants
	if ph, ok := t.Val.(*ssa.Phi); ok && t.K == KPhi {
		all := len(ph.Edges) > 0
		for _, e := range ph.Edges {
			if _, isC := e.(*ssa.Const); !isC {
				all = false
			}
		}
		if all {
			return "const"
		}
	}
	return "?"
}

func containsFloatBits(t *Term, name string) bool {
	return t.Contains(func(x *Term) bool { return (x.K == KPure || x.K == KCall) && strings.HasSuffix(x.Callee(), name) })
}

// destField follows a decoded value to the struct field (or make length) it ends up in.
func destField(fi *FuncInfo, v ssa.Value, depth int) string {
	if depth > 6 {
		return "?"
	}
	refs := v.Referrers()
	if refs == nil {
		return "?"
	}
	for _, r := range *refs {
		switch x := r.(type) {
		case *ssa.Store:
			if x.Val != v {
				continue
			}
			at := fi.Term(x.Addr)
			cur := at
			for cur != nil {
				if cur.K == KFA {
					return cur.S
				}
				if cur.K == KIA {
					cur = cur.A[0]
					continue
				}
				break
			}
			// stored into a plain local: follow its loads
			if al, ok := x.Addr.(*ssa.Alloc); ok && al.Referrers() != nil {
				for _, u := range *al.Referrers() {
					if ld, ok := u.(*ssa.UnOp); ok && ld.Op == token.MUL {
						if f := destField(fi, ld, depth+1); f != "?" {
							return f
						}
					}
				}
			}
		case *ssa.Convert:
			if f := destField(fi, x, depth+1); f != "?" {
				return f
			}
		case *ssa.ChangeType:
			if f := destField(fi, x, depth+1); f != "?" {
				return f
			}
		case *ssa.Call:
			name := CalleeName(&x.Call)
			if strings.HasSuffix(name, "math.Float64frombits") {
				if f := destField(fi, x, depth+1); f != "?" {
					return f
				}
			}
		case *ssa.MakeSlice:
			if x.Len == v || x.Cap == v {
				if f := destField(fi, x, depth+1); f != "?" {
					return "len(" + f + ")"
				}
			}
		case *ssa.BinOp:
			// comparisons (loop bounds) are not destinations
			switch x.Op {
			case token.LSS, token.GTR, token.LEQ, token.GEQ:
				continue
			case token.EQL, token.NEQ:
				// b != 0 : the boolean flag a byte encodes
				_, c1 := x.X.(*ssa.Const)
				_, c2 := x.Y.(*ssa.Const)
				if !c1 && !c2 {
					continue
				}
			}
			if f := destField(fi, x, depth+1); f != "?" {
				return f
			}
		case *ssa.Phi:
			if f := destField(fi, x, depth+1); f != "?" {
				return f
			}
		case *ssa.Return:
			for i, res := range x.Results {
				if res == v {
					return "ret" + itoa(i)
				}
			}
		}
	}
	return "?"
}

func offsetOf(t *Term) string {
	// slc(base, lo, hi): offset lo
	if t.K != KSlice {
		// the whole buffer (a parameter, a fresh make): its first byte
		if t.K == KParam || t.K == KMake {
			return "#0"
		}
		return ""
	}
	return offsetKey(t.A[1])
}

// OffsetKey is the exported form of offsetKey.
func OffsetKey(t *Term) string { return offsetKey(t) }

// offsetKey renders an offset expression in a canonical linear form: the sum of its constant parts
// followed by its symbolic parts ("#34", "bin:+(#34,len(x))"), "" for a loop-carried cursor. A cursor
// that is advanced in straight-line code (pos += 2; pos += len(x)) therefore yields the same offsets
// as constant expressions (34+len(x)).
func offsetKey(lo *Term) string {
	lo = foldCopyCount(lo)
	if cursorLike(lo) {
		return "" // running cursor
	}
	konst := big.NewInt(0)
	var atoms []string
	var walk func(t *Term, sign int) bool
	walk = func(t *Term, sign int) bool {
		if t.K == KConv && len(t.A) == 1 {
			if _, _, ok := isIntType(t.Typ); ok || t.Typ == nil {
				// widening conversions of offsets (int(x)) do not change the value in range
				return walk(t.A[0], sign)
			}
		}
		if t.K == KBin && t.S == "+" {
			return walk(t.A[0], sign) && walk(t.A[1], sign)
		}
		if t.K == KBin && t.S == "-" && sign > 0 {
			return walk(t.A[0], 1) && walk(t.A[1], -1)
		}
		if t.K == KLen && len(t.A) == 1 {
			if n, ok := constLen(t.A[0]); ok {
				if sign > 0 {
					konst.Add(konst, big.NewInt(int64(n)))
				} else {
					konst.Sub(konst, big.NewInt(int64(n)))
				}
				return true
			}
		}
		if len(Symbols(t)) == 0 {
			if v, err := EvalInt(t, Env{}, 64); err == nil {
				if sign > 0 {
					konst.Add(konst, v)
				} else {
					konst.Sub(konst, v)
				}
				return true
			}
		}
		if sign < 0 {
			return false
		}
		atoms = append(atoms, StripVolatile(shortKey(t)))
		return true
	}
	if !walk(lo, 1) {
		return StripVolatile(shortKey(lo))
	}
	sort.Strings(atoms)
	switch {
	case len(atoms) == 0:
		return "#" + konst.String()
	case konst.Sign() == 0 && len(atoms) == 1:
		return atoms[0]
	}
	out := atoms[len(atoms)-1]
	for i := len(atoms) - 2; i >= 0; i-- {
		out = "bin:+(" + atoms[i] + "," + out + ")"
	}
	if konst.Sign() != 0 {
		out = "bin:+(#" + konst.String() + "," + out + ")"
	}
	return out
}

// foldCopyCount replaces n = copy(buf, []byte("literal")) by len("literal"): a cursor that starts
// after a constant prefix (the destination is large enough whenever the later slices are in range,
// which BOUND proves separately).
func foldCopyCount(t *Term) *Term {
	return t.Subst(func(x *Term) *Term {
		if x.K == KCall && x.Callee() == "builtin.copy" && len(x.A) == 2 {
			d, okd := constLen(x.A[0])
			r, okr := constLen(x.A[1])
			switch {
			case okd && okr:
				if r < d {
					d = r
				}
				return mk(KConst, itoa(d), x.Typ, nil)
			case okr && x.A[0].K == KMake:
				// a fresh buffer that later slices (proved in range by BOUND) extend beyond the prefix
				return mk(KConst, itoa(r), x.Typ, nil)
			}
		}
		return nil
	})
}

// constLen: the statically known length of a byte-slice term.
func constLen(t *Term) (int, bool) {
	if s := constStringIn(t); s != "" && t.K == KConv {
		return len(s), true
	}
	if t.K == KSlice && len(t.A) == 3 {
		lo, okl := t.A[1].IsConst()
		hi, okh := t.A[2].IsConst()
		if okl && okh && hi != "end" {
			return atoi(hi) - atoi(lo), true
		}
		if okl && okh && hi == "end" && t.A[0].Typ != nil {
			if n := fixedArrayLen(t.A[0].Typ); n > 0 {
				return n - atoi(lo), true
			}
		}
		// x[a : a+k]
		if t.A[2].K == KBin && t.A[2].S == "+" {
			for i := 0; i < 2; i++ {
				if k, ok := t.A[2].A[i].IsConst(); ok && t.A[2].A[1-i].Key() == t.A[1].Key() {
					return atoi(k), true
				}
			}
		}
	}
	return 0, false
}

// cursorLike: the offset is a loop-carried value (a phi reached through arithmetic only;
// a phi inside a load or a len() is just an index into some other structure).
func cursorLike(t *Term) bool {
	switch t.K {
	case KPhi:
		return true
	case KBin, KConv, KUn:
		for _, a := range t.A {
			if cursorLike(a) {
				return true
			}
		}
	}
	return false
}

func fixedArrayLen(t types.Type) int {
	if p, ok := t.Underlying().(*types.Pointer); ok {
		t = p.Elem()
	}
	if a, ok := t.Underlying().(*types.Array); ok {
		if b, ok := a.Elem().Underlying().(*types.Basic); ok && b.Kind() == types.Uint8 {
			return int(a.Len())
		}
	}
	return -1
}

// CodecEvents extracts the events of a function. isBuffer decides whether a
// slice/array value is the codec's byte buffer (output for encoders, input for
// decoders); when nil, every []byte involved counts.
func (p *Program) CodecEvents(fn *ssa.Function) []CodecEvent {
	fi := p.Info(fn)
	var out []CodecEvent
	for _, b := range fn.Blocks {
		for _, in := range b.Instrs {
			switch x := in.(type) {
			case *ssa.Call:
				name := CalleeName(&x.Call)
				// a straight-line helper of the same package that is handed (a slice of) the buffer:
				// its events belong here, shifted by the offset of the slice it was given
				if sc := x.Call.StaticCallee(); sc != nil && sc != fn && sc.Pkg == fn.Pkg && p.Transparent(sc) && !p.codecBusy[sc] {
					for k, a := range x.Call.Args {
						if k >= len(sc.Params) || !isByteSlice(a.Type()) {
							continue
						}
						if p.codecBusy == nil {
							p.codecBusy = map[*ssa.Function]bool{}
						}
						p.codecBusy[sc] = true
						sub := p.CodecEvents(sc)
						delete(p.codecBusy, sc)
						at := fi.Term(a)
						var base *Term
						if at.K == KSlice {
							base = at.A[1]
						}
						for _, e := range sub {
							e.Instr, e.Pos = x, x.Pos()
							if base != nil && e.Off != "" {
								if strings.HasPrefix(e.Off, "#") {
									e.Off = offsetKey(mk(KBin, "+", nil, nil, base, mk(KConst, e.Off[1:], nil, nil)))
								} else {
									e.Off = ""
								}
							}
							out = append(out, e)
						}
						break
					}
				}
				// a decoder that hands its whole input to the decoder of the same type (parse(raw) { r, err := pkg.Decode(raw); .. }):
				// what that decoder reads is what this one reads
				if sc := x.Call.StaticCallee(); sc != nil && sc != fn && IsRepoFunc(sc) && !p.codecBusy[sc] && len(x.Call.Args) == 1 && isByteSlice(x.Call.Args[0].Type()) &&
					sameDecodedType(fn, sc) && fi.Term(x.Call.Args[0]).K == KParam {
					if p.codecBusy == nil {
						p.codecBusy = map[*ssa.Function]bool{}
					}
					p.codecBusy[sc] = true
					sub := p.CodecEvents(sc)
					delete(p.codecBusy, sc)
					for _, e := range sub {
						if e.Op != "R" {
							continue
						}
						e.Instr, e.Pos = x, x.Pos()
						out = append(out, e)
					}
					continue
				}
				// a straight-line helper (or closure) of the same package that writes to or reads from the same stream
				if sc := x.Call.StaticCallee(); sc != nil && sc != fn && sc.Pkg == fn.Pkg && p.Transparent(sc) && !p.codecBusy[sc] && hasStreamHandle(sc) && !hasByteSliceArg(&x.Call) {
					if p.codecBusy == nil {
						p.codecBusy = map[*ssa.Function]bool{}
					}
					p.codecBusy[sc] = true
					sub := p.CodecEvents(sc)
					delete(p.codecBusy, sc)
					for _, e := range sub {
						if e.Off != "" {
							continue // not a stream event
						}
						if e.Val != nil {
							if vt := fi.InstantiateTerm(e.Val, x); vt != nil {
								e.Val = vt
								e.Field = innerField(vt)
								e.Float = containsFloatBits(vt, "math.Float64bits")
							}
						}
						e.Instr, e.Pos, e.TmpAlloc = x, x.Pos(), nil
						out = append(out, e)
					}
					continue
				}
				// append style: buf = binary.LittleEndian.AppendUint32(buf, v) writes v at offset len(buf)
				if w, order, ok := appendUintOf(name); ok && len(x.Call.Args) == 3 {
					vt := fi.Term(x.Call.Args[2])
					ev := CodecEvent{Op: "W", Width: w, Order: order, Float: containsFloatBits(vt, "math.Float64bits"), Field: innerField(vt), Pos: x.Pos(), Instr: x, Val: vt}
					if lt := fi.chainLen(x.Call.Args[1], 0); lt != nil {
						ev.Off = offsetKey(lt)
					}
					out = append(out, ev)
					continue
				}
				if w, order, put, ok := byteOrderOf(name); ok {
					buf := fi.Term(x.Call.Args[1])
					if put {
						vt := fi.Term(x.Call.Args[2])
						ev := CodecEvent{Op: "W", Width: w, Order: order, Float: containsFloatBits(vt, "math.Float64bits"), Field: innerField(vt), Off: offsetOf(buf), Pos: x.Pos(), Instr: x, Val: vt}
						if buf.K == KSlice && buf.A[0].K == KAlloc && fixedArrayLen(buf.A[0].Typ) == w {
							ev.TmpAlloc = buf.A[0].Val
						}
						out = append(out, ev)
					} else {
						fl := false
						if refs := x.Referrers(); refs != nil {
							for _, r := range *refs {
								if c2, ok := r.(*ssa.Call); ok && strings.HasSuffix(CalleeName(&c2.Call), "math.Float64frombits") {
									fl = true
								}
							}
						}
						out = append(out, CodecEvent{Op: "R", Width: w, Order: order, Float: fl, Field: destField(fi, x, 0), Off: offsetOf(buf), Pos: x.Pos(), Instr: x})
					}
					continue
				}
				if bi, ok := x.Call.Value.(*ssa.Builtin); ok {
					switch bi.Name() {
					case "copy":
						dst, src := fi.Term(x.Call.Args[0]), fi.Term(x.Call.Args[1])
						dstArr, srcArr := sliceOfFixedArray(x.Call.Args[0]), sliceOfFixedArray(x.Call.Args[1])
						switch {
						case srcArr > 0 && dstArr <= 0:
							// copy(buffer[...], field[:]) : write of a fixed-size field
							out = append(out, CodecEvent{Op: "W", Width: srcArr, Field: innerField(src), Off: offsetOf(dst), Pos: x.Pos(), Instr: x})
						case dstArr > 0 && srcArr <= 0:
							field := innerField(dst)
							if field == "?" {
								if sl, ok := x.Call.Args[0].(*ssa.Slice); ok {
									if al, ok := sl.X.(*ssa.Alloc); ok {
										field = allocDestField(fi, al)
									}
								}
							}
							out = append(out, CodecEvent{Op: "R", Width: dstArr, Field: field, Off: offsetOf(src), Pos: x.Pos(), Instr: x})
						case srcArr <= 0 && dstArr <= 0:
							// variable-length bytes (string, prefix)
							ev := CodecEvent{Op: "W", Width: -1, Field: innerField(src), Off: offsetOf(dst), Pos: x.Pos(), Instr: x}
							if pfx := constStringIn(src); pfx != "" {
								ev.Prefix = pfx
								ev.Width = len(pfx)
								ev.Field = "prefix"
								if ev.Off == "#0" {
									ev.Off = "" // a prefix is identified by its text, wherever the builder puts it first
								}
							}
							out = append(out, ev)
						}
					case "append":
						// append(x, b1, b2): single bytes written after x
						if len(x.Call.Args) == 2 && isByteSlice(x.Call.Args[0].Type()) {
							elems := VarargElems(x.Call.Args[1])
							for _, el := range elems {
								if el == nil {
									elems = nil // a local array that is not a literal argument list (var tmp [4]byte; append(b, tmp[:]...))
									break
								}
							}
							if len(elems) > 0 {
								base := fi.chainLen(x.Call.Args[0], 0)
								for k, el := range elems {
									if el == nil {
										continue
									}
									ev := CodecEvent{Op: "W", Width: 1, Field: "byte:" + innerField(fi.Term(el)), Pos: x.Pos(), Instr: x, ByteVal: el}
									if base != nil {
										ev.Off = offsetKey(mk(KBin, "+", types.Typ[types.Int], nil, base, mk(KConst, itoa(k), types.Typ[types.Int], nil)))
									}
									out = append(out, ev)
								}
								continue
							}
						}
						// append(x, y...) with y a byte slice: a write of y after x
						if len(x.Call.Args) == 2 {
							isStr := false
							if bt, ok := x.Call.Args[1].Type().Underlying().(*types.Basic); ok && bt.Info()&types.IsString != 0 && isByteSlice(x.Call.Args[0].Type()) {
								isStr = true
							}
							if st, ok := x.Call.Args[1].Type().Underlying().(*types.Slice); ok || isStr {
								if bt, ok := elemBasic(st); isStr || ok && bt.Kind() == types.Uint8 {
									base := fi.Term(x.Call.Args[0])
									src := fi.Term(x.Call.Args[1])
									if pfx := constStringIn(base); pfx != "" {
										out = append(out, CodecEvent{Op: "W", Width: len(pfx), Field: "prefix", Prefix: pfx, Pos: x.Pos() - 1, Instr: x})
									}
									ev := CodecEvent{Op: "W", Width: -1, Field: innerField(src), Pos: x.Pos(), Instr: x}
									if n := sliceOfFixedArray(x.Call.Args[1]); n > 0 {
										ev.Width = n
										// a local array that was filled by PutUintNN before: one write of that value (see below)
										if src.K == KSlice && src.A[0].K == KAlloc {
											ev.TmpAlloc = src.A[0].Val
										}
									}
									// a part appended to a chain that started empty: its offset is the length so far
									if chainStartsEmpty(x.Call.Args[0], 0) {
										if lt := fi.chainLen(x.Call.Args[0], 0); lt != nil {
											ev.Off = offsetKey(lt)
										}
									}
									if pfx := constStringIn(src); pfx != "" {
										ev.Prefix, ev.Width, ev.Field = pfx, len(pfx), "prefix"
										ev.Off = "" // a prefix is identified by its text, wherever the builder puts it first
									}
									if (src.K == KPure || src.K == KCall) && strings.HasSuffix(src.Callee(), ").Serialize") {
										ev.Field = "Serialize(" + innerField(src) + ")"
										if sc, ok := x.Call.Args[1].(*ssa.Call); ok && innerField(src) == "?" && len(sc.Call.Args) > 0 {
											// the receiver is the address of a local (the loop variable): what that local holds
											if al, isAl := sc.Call.Args[0].(*ssa.Alloc); isAl {
												if f := innerField(fi.contentTerm(al, sc)); f != "?" {
													ev.Field = "Serialize(" + f + ")"
												} else if refs := al.Referrers(); refs != nil {
													// the one whole-value store into the local (the copy of the ranged element)
													var only *ssa.Store
													n := 0
													for _, r := range *refs {
														if st, isSt := r.(*ssa.Store); isSt && st.Addr == ssa.Value(al) {
															only = st
															n++
														}
													}
													if n == 1 && Dominates(only, sc) {
														if f := innerField(fi.Term(only.Val)); f != "?" {
															ev.Field = "Serialize(" + f + ")"
														}
													}
												}
											}
										}
										if sc, ok := x.Call.Args[1].(*ssa.Call); ok {
											if callee := sc.Call.StaticCallee(); callee != nil && IsRepoFunc(callee) {
												ev.Delegate = callee
											}
										}
									}
									if src.K == KSlice && (src.A[0].K == KPure || src.A[0].K == KCall) && strings.HasSuffix(src.A[0].Callee(), ").Serialize") {
										ev.Field = "Serialize()" + sliceSuffix(src)
									}
									out = append(out, ev)
								}
							}
						}
					}
					continue
				}
				// streaming codecs over bytes.Buffer / bytes.Reader
				switch name {
				case "(*bytes.Buffer).Write":
					src := fi.Term(x.Call.Args[1])
					w := sliceOfFixedArray(x.Call.Args[1])
					if w <= 0 {
						w = -1
					}
					ev := CodecEvent{Op: "W", Width: w, Field: innerField(src), Pos: x.Pos(), Instr: x}
					if src.K == KSlice && src.A[0].K == KAlloc && w > 0 {
						ev.TmpAlloc = src.A[0].Val
					}
					out = append(out, ev)
				case "(*bytes.Buffer).WriteString":
					out = append(out, CodecEvent{Op: "W", Width: -1, Field: innerField(fi.Term(x.Call.Args[1])), Pos: x.Pos(), Instr: x})
				case "(*bytes.Buffer).WriteByte":
					// the two branches of a bool both write one byte: reported once per call site
					out = append(out, CodecEvent{Op: "W", Width: 1, Field: "byte", Pos: x.Pos(), Instr: x})
				case "(*bytes.Reader).ReadByte":
					out = append(out, CodecEvent{Op: "R", Width: 1, Field: "byte", Pos: x.Pos(), Instr: x})
				case "(*bytes.Reader).Read":
					out = append(out, CodecEvent{Op: "R", Width: -1, Field: innerField(fi.Term(x.Call.Args[1])), Pos: x.Pos(), Instr: x})
				case "io.ReadFull":
					// io.ReadFull(r, key[:]) into a fixed-size array that is the decoded field itself (an array that is a
					// staging buffer is reported where it is decoded: Uint16(tmp[:]))
					if len(x.Call.Args) == 2 {
						if sl, isSl := x.Call.Args[1].(*ssa.Slice); isSl && sl.Low == nil && sl.High == nil {
							if al, isAl := sl.X.(*ssa.Alloc); isAl {
								if n := fixedArrayLen(al.Type().Underlying().(*types.Pointer).Elem()); n > 0 && !decodedLater(al) {
									field := al.Comment
									if f := allocDestField(fi, al); f != "?" {
										field = f
									}
									out = append(out, CodecEvent{Op: "R", Width: n, Field: field, Pos: x.Pos(), Instr: x})
								}
							}
						}
					}
				case "encoding/binary.Write", "encoding/binary.Read":
					op := "W"
					if name == "encoding/binary.Read" {
						op = "R"
					}
					order := "?"
					ot := fi.Term(x.Call.Args[1])
					if strings.Contains(ot.Key(), "LittleEndian") {
						order = "LE"
					} else if strings.Contains(ot.Key(), "BigEndian") {
						order = "BE"
					}
					// data: MakeInterface of a value (write) or of a pointer to a local (read)
					var dt types.Type
					field := "?"
					if mi, ok := x.Call.Args[2].(*ssa.MakeInterface); ok {
						dt = mi.X.Type()
						field = innerField(fi.Term(mi.X))
						if al, ok := mi.X.(*ssa.Alloc); ok {
							dt = al.Type().Underlying().(*types.Pointer).Elem()
							field = al.Comment
							if f := allocDestField(fi, al); f != "?" {
								field = f
							}
						} else if fa, ok := mi.X.(*ssa.FieldAddr); ok && op == "R" {
							// binary.Read(r, order, &entry.Field): the pointee is what is read
							if pt, isPtr := fa.Type().Underlying().(*types.Pointer); isPtr {
								dt = pt.Elem()
							}
							if st, isPtr := fa.X.Type().Underlying().(*types.Pointer); isPtr {
								if sx, isStruct := st.Elem().Underlying().(*types.Struct); isStruct {
									field = sx.Field(fa.Field).Name()
								}
							}
						}
					}
					w := -1
					if dt != nil {
						if bits, _, ok := isIntType(dt); ok && bits > 0 {
							w = bits / 8
						} else if n := fixedArrayLen(dt); n > 0 {
							w = n
							order = ""
						}
					}
					out = append(out, CodecEvent{Op: op, Width: w, Order: order, Field: field, Pos: x.Pos(), Instr: x})
				}
			case *ssa.Store:
				// buffer[k] = byte
				if ia, ok := x.Addr.(*ssa.IndexAddr); ok {
					if bt, ok := x.Val.Type().Underlying().(*types.Basic); ok && bt.Kind() == types.Uint8 {
						if _, isSlice := ia.X.Type().Underlying().(*types.Slice); isSlice {
							idx := fi.Term(ia.Index)
							off := offsetKey(idx)
							out = append(out, CodecEvent{Op: "W", Width: 1, Field: "byte:" + innerField(fi.Term(x.Val)), Off: off, Pos: x.Pos(), Instr: x})
						}
					}
				}
			case *ssa.UnOp:
				// byte read: v := buffer[k]
				if x.Op == token.MUL {
					if ia, ok := x.X.(*ssa.IndexAddr); ok {
						if bt, ok := x.Type().Underlying().(*types.Basic); ok && bt.Kind() == types.Uint8 {
							if _, isSlice := ia.X.Type().Underlying().(*types.Slice); isSlice {
								idx := fi.Term(ia.Index)
								off := offsetKey(idx)
								out = append(out, CodecEvent{Op: "R", Width: 1, Field: "byte:" + destField(fi, x, 0), Off: off, Pos: x.Pos(), Instr: x})
							}
						}
					}
				}
			case *ssa.Convert:
				// string(buffer[lo:hi]) : variable-length read
				if bt, ok := x.Type().Underlying().(*types.Basic); ok && bt.Kind() == types.String {
					if _, isSlice := x.X.Type().Underlying().(*types.Slice); isSlice {
						out = append(out, CodecEvent{Op: "R", Width: -1, Field: destField(fi, x, 0), Pos: x.Pos(), Instr: x})
					}
				}
			}
		}
	}
	sort.SliceStable(out, func(i, j int) bool { return out[i].Pos < out[j].Pos })
	// a value staged in a local array (PutUintNN(tmp[:], v)) and then written to the stream (buf.Write(tmp[:])) is one
	// write of v to the stream
	for i := 0; i < len(out); i++ {
		e := out[i]
		if e.TmpAlloc == nil || e.Val != nil || e.Op != "W" {
			continue
		}
		for j := i - 1; j >= 0; j-- {
			st := out[j]
			if st.TmpAlloc == e.TmpAlloc && st.Val != nil && st.Width == e.Width && st.Off == "#0" && Dominates(st.Instr, e.Instr) {
				out[i].Order, out[i].Float, out[i].Field, out[i].Val = st.Order, st.Float, st.Field, st.Val
				out = append(out[:j], out[j+1:]...)
				i--
				break
			}
		}
	}
	return out
}

// sameDecodedType: both functions return (T, error) or (T, n, error) for the same named struct type T.
func sameDecodedType(a, b *ssa.Function) bool {
	ra, rb := a.Signature.Results(), b.Signature.Results()
	if ra.Len() < 2 || rb.Len() < 2 {
		return false
	}
	ta, tb := ra.At(0).Type(), rb.At(0).Type()
	if _, ok := ta.Underlying().(*types.Struct); !ok {
		return false
	}
	return types.Identical(ta, tb) && isErrorType(ra.At(ra.Len()-1).Type()) && isErrorType(rb.At(rb.Len()-1).Type())
}

func elemBasic(st *types.Slice) (*types.Basic, bool) {
	if st == nil {
		return nil, false
	}
	bt, ok := st.Elem().Underlying().(*types.Basic)
	return bt, ok
}

func hasByteSliceArg(c *ssa.CallCommon) bool {
	for _, a := range c.Args {
		if isByteSlice(a.Type()) {
			return true
		}
	}
	return false
}

// hasStreamHandle: the function receives or captures a *bytes.Buffer or *bytes.Reader.
func hasStreamHandle(fn *ssa.Function) bool {
	is := func(t types.Type) bool {
		for i := 0; i < 2; i++ {
			if pt, ok := t.Underlying().(*types.Pointer); ok {
				t = pt.Elem()
			}
		}
		s := t.String()
		return s == "bytes.Buffer" || s == "bytes.Reader"
	}
	for _, q := range fn.Params {
		if is(q.Type()) {
			return true
		}
	}
	for _, q := range fn.FreeVars {
		if is(q.Type()) {
			return true
		}
	}
	return false
}

// allocDestField: where the value read into a local ends up, judged by the first of its loads that reaches a named destination.
func allocDestField(fi *FuncInfo, al *ssa.Alloc) string {
	if refs := al.Referrers(); refs != nil {
		for _, r := range *refs {
			if ld, ok := r.(*ssa.UnOp); ok && ld.Op == token.MUL {
				if f := destField(fi, ld, 0); f != "?" {
					return f
				}
			}
		}
	}
	return destField(fi, firstLoadOf(al), 0)
}

func firstLoadOf(al *ssa.Alloc) ssa.Value {
	if refs := al.Referrers(); refs != nil {
		for _, r := range *refs {
			if ld, ok := r.(*ssa.UnOp); ok && ld.Op == token.MUL {
				return ld
			}
		}
	}
	return al
}

func sliceSuffix(t *Term) string {
	lo := StripVolatile(shortKey(t.A[1]))
	hi := StripVolatile(shortKey(t.A[2]))
	return "[" + lo + ":" + hi + "]"
}

// sliceOfFixedArray: v is x[:] (or x[a:b]) of a fixed-size byte array; returns its length.
func sliceOfFixedArray(v ssa.Value) int {
	sl, ok := v.(*ssa.Slice)
	if !ok {
		return -1
	}
	if sl.Low != nil || sl.High != nil {
		return -1
	}
	return fixedArrayLen(sl.X.Type())
}

// constStringIn: the term is (a conversion of) a constant string.
func constStringIn(t *Term) string {
	for t.K == KConv && len(t.A) == 1 {
		t = t.A[0]
	}
	if t.K == KConst && len(t.S) >= 2 && t.S[0] == '"' {
		return t.S[1 : len(t.S)-1]
	}
	return ""
}

// EventSigs renders a list of events.
func EventSigs(evs []CodecEvent) []string {
	var out []string
	for _, e := range evs {
		out = append(out, e.String())
	}
	return out
}

func isByteSlice(t types.Type) bool {
	sl, ok := t.Underlying().(*types.Slice)
	if !ok {
		return false
	}
	b, ok := sl.Elem().Underlying().(*types.Basic)
	return ok && b.Kind() == types.Uint8
}

// ShiftEncodedArray recognises a fixed-size byte array filled byte by byte with the shifts of one integer
// (data[0] = byte(v); data[1] = byte(v >> 8); ...): every index 0..n-1 is stored exactly once, the value stored at k is
// byte(v >> 8k) (little-endian) or byte(v >> 8(n-1-k)) (big-endian), and v has exactly 8n bits. It returns the term of
// v, the byte order ("LE"/"BE") and the stores; ok is false for any other shape.
func (fi *FuncInfo) ShiftEncodedArray(al *ssa.Alloc) (val *Term, order string, stores []*ssa.Store, ok bool) {
	pt, isPtr := al.Type().Underlying().(*types.Pointer)
	if !isPtr {
		return nil, "", nil, false
	}
	n := fixedArrayLen(pt.Elem())
	if n < 2 || al.Referrers() == nil {
		return nil, "", nil, false
	}
	shifts := make([]int64, n)
	for i := range shifts {
		shifts[i] = -1
	}
	for _, r := range *al.Referrers() {
		ia, isIA := r.(*ssa.IndexAddr)
		if !isIA || ia.Referrers() == nil {
			continue
		}
		kc, isC := ia.Index.(*ssa.Const)
		if !isC {
			continue
		}
		k := int(kc.Int64())
		for _, r2 := range *ia.Referrers() {
			st, isSt := r2.(*ssa.Store)
			if !isSt || st.Addr != ssa.Value(ia) {
				continue
			}
			if k < 0 || k >= n || shifts[k] >= 0 {
				return nil, "", nil, false
			}
			t := fi.Term(st.Val)
			if t.K != KConv || len(t.A) != 1 {
				return nil, "", nil, false
			}
			if bits, _, isInt := isIntType(t.Typ); !isInt || bits != 8 {
				return nil, "", nil, false
			}
			src := t.A[0]
			sh := int64(0)
			if src.K == KBin && src.S == ">>" && len(src.A) == 2 {
				c, isConst := src.A[1].IsConst()
				if !isConst {
					return nil, "", nil, false
				}
				v, err := strconv.ParseInt(c, 10, 64)
				if err != nil {
					return nil, "", nil, false
				}
				sh, src = v, src.A[0]
			}
			if val == nil {
				val = src
			} else if val.Key() != src.Key() {
				return nil, "", nil, false
			}
			shifts[k] = sh
			stores = append(stores, st)
		}
	}
	if val == nil {
		return nil, "", nil, false
	}
	if bits, _, isInt := isIntType(val.Typ); !isInt || bits != 8*n {
		return nil, "", nil, false
	}
	le, be := true, true
	for k, sh := range shifts {
		if sh != int64(8*k) {
			le = false
		}
		if sh != int64(8*(n-1-k)) {
			be = false
		}
	}
	switch {
	case le:
		return val, "LE", stores, true
	case be:
		return val, "BE", stores, true
	}
	return nil, "", nil, false
}

// decodedLater: a slice of the local array is handed to a ByteOrder decoder (the array is a staging buffer).
func decodedLater(al *ssa.Alloc) bool {
	refs := al.Referrers()
	if refs == nil {
		return false
	}
	for _, r := range *refs {
		sl, ok := r.(*ssa.Slice)
		if !ok || sl.Referrers() == nil {
			continue
		}
		for _, r2 := range *sl.Referrers() {
			if call, ok := r2.(*ssa.Call); ok {
				name := CalleeName(&call.Call)
				if strings.Contains(name, "encoding/binary.littleEndian).Uint") || strings.Contains(name, "encoding/binary.bigEndian).Uint") {
					return true
				}
			}
		}
	}
	return false
}
