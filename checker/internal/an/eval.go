package an

import (
	"fmt"
	"go/constant"
	"go/token"
	"go/types"
	"math/big"
	"sort"
	"strings"
)

// The PRED engine (DESIGN.md 1.7): a guard extracted from the code as a term
// is compared with the property's predicate on the cells of the partition of
// the number line by the constants involved (each constant and its
// neighbours, plus the extremes of the operand types). Terms are evaluated
// with Go's fixed-width semantics (conversions and wrap-around), so a guard
// computed in too narrow a type disagrees with the mathematical predicate at
// the wrap-around cells. No repository code is executed: this is constant
// folding of an extracted expression.

// Env maps symbol keys (canonical term keys) to integer values.
type Env map[string]*big.Int

func typeBits(t types.Type, intBits int) (bits int, signed bool, ok bool) {
	b, s, ok := isIntType(t)
	if !ok {
		return 0, false, false
	}
	if b == 0 {
		b = intBits
	}
	return b, s, true
}

func wrap(v *big.Int, bits int, signed bool) *big.Int {
	mod := new(big.Int).Lsh(big.NewInt(1), uint(bits))
	r := new(big.Int).Mod(v, mod) // 0 <= r < 2^bits
	if signed {
		half := new(big.Int).Lsh(big.NewInt(1), uint(bits-1))
		if r.Cmp(half) >= 0 {
			r.Sub(r, mod)
		}
	}
	return r
}

// EvalInt evaluates an integer term under env with Go semantics.
func EvalInt(t *Term, env Env, intBits int) (*big.Int, error) {
	if v, ok := env[t.Key()]; ok {
		return v, nil
	}
	switch t.K {
	case KConst:
		cv := constant.MakeFromLiteral(t.S, token.INT, 0)
		if cv.Kind() != constant.Int {
			// float constants that are integral
			fv := constant.MakeFromLiteral(t.S, token.FLOAT, 0)
			if fv.Kind() == constant.Float || fv.Kind() == constant.Int {
				iv := constant.ToInt(fv)
				if iv.Kind() == constant.Int {
					cv = iv
				}
			}
		}
		if cv.Kind() != constant.Int {
			return nil, fmt.Errorf("non-integer constant %s", t.S)
		}
		b, ok := new(big.Int).SetString(cv.ExactString(), 10)
		if !ok {
			return nil, fmt.Errorf("bad constant %s", t.S)
		}
		return b, nil
	case KConv:
		x, err := EvalInt(t.A[0], env, intBits)
		if err != nil {
			return nil, err
		}
		bits, signed, ok := typeBits(t.Typ, intBits)
		if !ok {
			return nil, fmt.Errorf("conversion to non-integer type %s", t.S)
		}
		return wrap(x, bits, signed), nil
	case KBin:
		x, err := EvalInt(t.A[0], env, intBits)
		if err != nil {
			return nil, err
		}
		y, err := EvalInt(t.A[1], env, intBits)
		if err != nil {
			return nil, err
		}
		r := new(big.Int)
		switch t.S {
		case "+":
			r.Add(x, y)
		case "-":
			r.Sub(x, y)
		case "*":
			r.Mul(x, y)
		case "/":
			if y.Sign() == 0 {
				return nil, fmt.Errorf("division by zero")
			}
			r.Quo(x, y)
		case "%":
			if y.Sign() == 0 {
				return nil, fmt.Errorf("division by zero")
			}
			r.Rem(x, y)
		default:
			return nil, fmt.Errorf("unsupported operator %s", t.S)
		}
		bits, signed, ok := typeBits(t.Typ, intBits)
		if !ok {
			// untyped / substituted term: take the type of an operand
			for _, a := range t.A {
				if b2, s2, ok2 := typeBits(a.Typ, intBits); ok2 {
					bits, signed, ok = b2, s2, true
					break
				}
			}
		}
		if !ok {
			return r, nil
		}
		return wrap(r, bits, signed), nil
	}
	return nil, fmt.Errorf("unsupported term %s", shortKey(t))
}

// EvalBool evaluates a comparison / boolean combination.
func EvalBool(t *Term, env Env, intBits int) (bool, error) {
	switch t.K {
	case KBin:
		switch t.S {
		case "<", "<=", "==", "!=":
			x, err := EvalInt(t.A[0], env, intBits)
			if err != nil {
				return false, err
			}
			y, err := EvalInt(t.A[1], env, intBits)
			if err != nil {
				return false, err
			}
			c := x.Cmp(y)
			switch t.S {
			case "<":
				return c < 0, nil
			case "<=":
				return c <= 0, nil
			case "==":
				return c == 0, nil
			default:
				return c != 0, nil
			}
		}
	case KUn:
		if t.S == "!" {
			v, err := EvalBool(t.A[0], env, intBits)
			return !v, err
		}
	case KOr:
		a, err := EvalBool(t.A[0], env, intBits)
		if err != nil {
			return false, err
		}
		b, err := EvalBool(t.A[1], env, intBits)
		return a || b, err
	case KConst:
		return t.S == "true", nil
	}
	return false, fmt.Errorf("unsupported boolean term %s", shortKey(t))
}

// Symbols returns the keys of the maximal non-arithmetic subterms of t.
func Symbols(t *Term) []string {
	set := map[string]bool{}
	var walk func(x *Term)
	walk = func(x *Term) {
		switch x.K {
		case KConst:
			return
		case KBin, KUn, KConv, KOr:
			for _, a := range x.A {
				walk(a)
			}
			return
		}
		set[x.Key()] = true
	}
	walk(t)
	var out []string
	for k := range set {
		out = append(out, k)
	}
	sort.Strings(out)
	return out
}

// RelevantFacts returns the facts all of whose symbols are in vars.
func RelevantFacts(fs FactSet, vars map[string]bool) []Fact {
	var out []Fact
	for _, f := range fs.Sorted() {
		syms := Symbols(f.T)
		if len(syms) == 0 {
			continue
		}
		ok := true
		for _, s := range syms {
			if !vars[s] {
				ok = false
			}
		}
		if ok {
			out = append(out, f)
		}
	}
	return out
}

// EvalFacts evaluates the conjunction of facts under env.
func EvalFacts(fs []Fact, env Env, intBits int) (bool, error) {
	for _, f := range fs {
		v, err := EvalBool(f.T, env, intBits)
		if err != nil {
			return false, err
		}
		if f.Neg {
			v = !v
		}
		if !v {
			return false, nil
		}
	}
	return true, nil
}

// Big is a small helper to build big integers from decimal text.
func Big(s string) *big.Int {
	s = strings.ReplaceAll(s, "_", "")
	if strings.HasPrefix(s, "2^") {
		e := 0
		rest := s[2:]
		adj := int64(0)
		if i := strings.IndexAny(rest, "+-"); i > 0 {
			fmt.Sscanf(rest[i:], "%d", &adj)
			rest = rest[:i]
		}
		fmt.Sscanf(rest, "%d", &e)
		v := new(big.Int).Lsh(big.NewInt(1), uint(e))
		return v.Add(v, big.NewInt(adj))
	}
	v, _ := new(big.Int).SetString(s, 10)
	return v
}

// Disagreement is a point where the code's guard and the oracle differ.
type Disagreement struct {
	Env    map[string]string
	Code   bool
	Oracle bool
}

// ComparePredicate evaluates the conjunction of facts and the oracle on every
// point of grid (a list of environments keyed by variable name; names maps
// variable names to symbol keys). Points where evaluation fails are reported
// through err.
func ComparePredicate(fs []Fact, names map[string]string, grid []map[string]*big.Int, oracle func(map[string]*big.Int) bool, intBits int) (points int, dis []Disagreement, err error) {
	for _, pt := range grid {
		env := Env{}
		for name, v := range pt {
			if key, ok := names[name]; ok {
				env[key] = v
			}
		}
		got, e := EvalFacts(fs, env, intBits)
		if e != nil {
			return points, dis, e
		}
		points++
		want := oracle(pt)
		if got != want {
			d := Disagreement{Env: map[string]string{}, Code: got, Oracle: want}
			for k, v := range pt {
				d.Env[k] = v.String()
			}
			dis = append(dis, d)
		}
	}
	return points, dis, nil
}
