package an

import (
	"fmt"
	"go/token"
	"regexp"
	"sort"
	"strings"

	"golang.org/x/tools/go/ssa"
)

// Verdicts of an obligation.
const (
	Proved    = "proved"
	Violated  = "violated"
	Undecided = "undecided"
	Note      = "note"
)

// Obligation is one construct at which a rule instance must hold.
type Obligation struct {
	Rule    string `json:"rule"`
	Key     string `json:"key"` // rule-independent construct key: function + canonical expression (no line numbers)
	Pos     string `json:"pos"`
	Func    string `json:"func,omitempty"`
	Desc    string `json:"desc"`
	Verdict string `json:"verdict"`
	Why     string `json:"why,omitempty"`
	Config  string `json:"config,omitempty"`
}

// Result is what one property check produced in one configuration.
type Result struct {
	Prop      string         `json:"prop"`
	Config    string         `json:"config"`
	Obls      []Obligation   `json:"obligations"`
	Instances map[string]int `json:"instances"` // per rule: number of instances / sites matched
	Floors    map[string]int `json:"floors"`    // per rule: confirmed-by-hand minimum
	Analysed  []string       `json:"analysed"`  // functions in scope
	Packages  int            `json:"packages"`
	Funcs     int            `json:"functions"`
	Edges     int            `json:"callgraph_edges"`
	WallS     float64        `json:"wall_s"`
	Error     string         `json:"error,omitempty"`
}

// Ctx is handed to a property check.
type Ctx struct {
	P    *Program
	R    *Result
	Tier string
	seen map[string]bool
}

// NewCtx creates the context for one property in one configuration.
func NewCtx(p *Program, prop, tier string) *Ctx {
	return &Ctx{P: p, Tier: tier, seen: map[string]bool{},
		R: &Result{Prop: prop, Config: p.Cfg.ID, Instances: map[string]int{}, Floors: map[string]int{},
			Packages: p.NumPackages, Funcs: p.NumFuncs, Edges: p.NumEdges}}
}

func (c *Ctx) add(rule, verdict string, fn *ssa.Function, pos token.Pos, key, desc, why string) {
	o := Obligation{Rule: rule, Key: key, Pos: c.P.Pos(pos), Desc: desc, Verdict: verdict, Why: why, Config: c.P.Cfg.ID}
	if fn != nil {
		o.Func = FuncName(fn)
		if !pos.IsValid() {
			o.Pos = c.P.Pos(fn.Pos())
		}
	}
	id := rule + "|" + key + "|" + verdict + "|" + desc
	if c.seen[id] {
		return
	}
	c.seen[id] = true
	c.R.Obls = append(c.R.Obls, o)
}

// Proved records a discharged obligation.
func (c *Ctx) Proved(rule string, fn *ssa.Function, pos token.Pos, key, desc, why string) {
	c.add(rule, Proved, fn, pos, key, desc, why)
}

// Violated records a violated obligation.
func (c *Ctx) Violated(rule string, fn *ssa.Function, pos token.Pos, key, desc, why string) {
	c.add(rule, Violated, fn, pos, key, desc, why)
}

// Undecided records an obligation whose shape was not recognised.
func (c *Ctx) Undecided(rule string, fn *ssa.Function, pos token.Pos, key, desc, why string) {
	c.add(rule, Undecided, fn, pos, key, desc, why)
}

// Note records an observation that never affects the exit code.
func (c *Ctx) Note(rule string, fn *ssa.Function, pos token.Pos, key, desc string) {
	c.add(rule, Note, fn, pos, key, desc, "")
}

// Check records proved or violated depending on ok.
func (c *Ctx) Check(ok bool, rule string, fn *ssa.Function, pos token.Pos, key, desc, why string) bool {
	if ok {
		c.Proved(rule, fn, pos, key, desc, why)
	} else {
		c.Violated(rule, fn, pos, key, desc, why)
	}
	return ok
}

// Count adds to the instance counter of a rule.
func (c *Ctx) Count(rule string, n int) { c.R.Instances[rule] += n }

// Floor declares the hand-confirmed minimum number of instances of a rule and
// reports "undecided" if fewer were matched (a rule that matches nothing would
// pass vacuously).
func (c *Ctx) Floor(rule string, want int) {
	c.R.Floors[rule] = want
	if got := c.R.Instances[rule]; got < want {
		c.add(rule, Undecided, nil, token.NoPos, "floor:"+rule, fmt.Sprintf("rule %s matched %d instances, floor is %d", rule, got, want),
			"anchor or shape no longer recognised; the rule would otherwise pass vacuously")
	}
}

// Scope records a function as analysed.
func (c *Ctx) Scope(fns ...*ssa.Function) {
	for _, fn := range fns {
		if fn != nil {
			c.R.Analysed = append(c.R.Analysed, FuncName(fn))
		}
	}
}

// Finish sorts and deduplicates the result.
func (c *Ctx) Finish() {
	sort.Strings(c.R.Analysed)
	c.R.Analysed = uniq(c.R.Analysed)
	sort.SliceStable(c.R.Obls, func(i, j int) bool {
		a, b := c.R.Obls[i], c.R.Obls[j]
		if a.Rule != b.Rule {
			return a.Rule < b.Rule
		}
		if a.Pos != b.Pos {
			return posLess(a.Pos, b.Pos)
		}
		return a.Key < b.Key
	})
}

func uniq(s []string) []string {
	var out []string
	for i, x := range s {
		if i == 0 || x != s[i-1] {
			out = append(out, x)
		}
	}
	return out
}

func posLess(a, b string) bool {
	fa, la := splitPos(a)
	fb, lb := splitPos(b)
	if fa != fb {
		return fa < fb
	}
	return la < lb
}

func splitPos(p string) (string, int) {
	i := strings.LastIndex(p, ":")
	if i < 0 {
		return p, 0
	}
	return p[:i], atoi(p[i+1:])
}

// KeyOf builds a construct key from a function and an expression text.
func KeyOf(fn *ssa.Function, expr string) string {
	return FuncName(fn) + "|" + StripVolatile(expr)
}

var (
	reVersion = regexp.MustCompile(`\|[b0-9i.,;]*\)`)
	reInstrID = regexp.MustCompile(`#?b[0-9]+i[0-9]+(\.[0-9]+)?`)
)

// StripVolatile removes memory versions and instruction ids from a rendered
// term, so that keys do not change when unrelated code moves.
func StripVolatile(s string) string {
	s = reVersion.ReplaceAllString(s, ")")
	s = reInstrID.ReplaceAllString(s, "")
	return s
}

// PropertyCheck is the implementation of one property's rules.
type PropertyCheck struct {
	ID          string
	Title       string
	Engines     string
	Explanation string   // which clauses are decided and which are not
	Assumptions []string // trusted base
	Run         func(c *Ctx)
}
