package an

import (
	"go/token"
	"go/types"
	"sort"
	"strings"

	"golang.org/x/tools/go/ssa"
)

// Fact is a boolean term known to be true (or false, if Neg) on every path
// that reaches a program point.
type Fact struct {
	T   *Term
	Neg bool
}

func (f Fact) Key() string {
	if f.Neg {
		return "!" + f.T.Key()
	}
	return f.T.Key()
}

func (f Fact) String() string { return f.Key() }

// FactSet is a set of facts keyed by canonical text.
type FactSet map[string]Fact

func (s FactSet) Has(key string) bool { _, ok := s[key]; return ok }

func (s FactSet) Sorted() []Fact {
	keys := make([]string, 0, len(s))
	for k := range s {
		keys = append(keys, k)
	}
	sort.Strings(keys)
	out := make([]Fact, len(keys))
	for i, k := range keys {
		out[i] = s[k]
	}
	return out
}

func mkFact(t *Term, neg bool) Fact {
	if neg {
		if n := negate(t); n != nil {
			return Fact{T: normalize(n)}
		}
	}
	// (x == true) / (x != false) style comparisons with boolean constants
	if t.K == KBin && (t.S == "==" || t.S == "!=") {
		for i := 0; i < 2; i++ {
			if c, ok := t.A[i].IsConst(); ok && (c == "true" || c == "false") {
				other := t.A[1-i]
				pos := (c == "true") == (t.S == "==")
				if neg {
					pos = !pos
				}
				return mkFact(other, !pos)
			}
		}
	}
	return Fact{T: t, Neg: neg}
}

// ensureFacts runs the must-dataflow of branch facts.
func (fi *FuncInfo) ensureFacts() {
	if fi.factsReady {
		return
	}
	fi.factsReady = true
	fn := fi.Fn
	fi.factsIn = map[*ssa.BasicBlock]FactSet{}
	fi.edgeFacts = map[[2]int][]Fact{}
	if len(fn.Blocks) == 0 {
		return
	}
	// edge facts
	for _, b := range fn.Blocks {
		if len(b.Instrs) == 0 || b == b.Parent().Recover {
			continue
		}
		iff, ok := b.Instrs[len(b.Instrs)-1].(*ssa.If)
		if !ok || len(b.Succs) != 2 || b.Succs[0] == b.Succs[1] {
			continue
		}
		ct := fi.Term(iff.Cond)
		for k := 0; k < 2; k++ {
			f := mkFact(ct, k == 1)
			fs := []Fact{f}
			fs = append(fs, fi.expandFact(f, 0)...)
			fi.edgeFacts[[2]int{b.Index, b.Succs[k].Index}] = fs
		}
	}
	fi.runFactsIteration()
	// second phase: a branch on a boolean that was computed earlier (ok := a && b; if ok {...};
	// a switch case a && b; a result variable) knows, on its true edge, what every way of the
	// value being true implies - computed from the facts of the first phase
	extra := false
	for _, b := range fn.Blocks {
		if len(b.Instrs) == 0 || b == fn.Recover {
			continue
		}
		iff, ok := b.Instrs[len(b.Instrs)-1].(*ssa.If)
		if !ok || len(b.Succs) != 2 || b.Succs[0] == b.Succs[1] {
			continue
		}
		cond := iff.Cond
		neg := false
		if u, ok := cond.(*ssa.UnOp); ok && u.Op == token.NOT {
			cond, neg = u.X, true
		}
		ph, isPhi := cond.(*ssa.Phi)
		// a join phi compared with nil (err := <several ways>; if err != nil): per branch, what the ways that can give a
		// nil / non-nil value have in common
		var nilPhi *ssa.Phi
		nilEq := false
		if bo, ok := cond.(*ssa.BinOp); ok && (bo.Op == token.EQL || bo.Op == token.NEQ) {
			for q := 0; q < 2; q++ {
				a, b2 := bo.X, bo.Y
				if q == 1 {
					a, b2 = b2, a
				}
				if kc, isC := b2.(*ssa.Const); isC && kc.Value == nil {
					if p2, isP := a.(*ssa.Phi); isP {
						nilPhi, nilEq = p2, bo.Op == token.EQL
					} else if ta := fi.Term(a); ta.K == KPhi {
						// the value was spilled to a local and loaded back (err is address-taken)
						if p3, isP := ta.Val.(*ssa.Phi); isP {
							nilPhi, nilEq = p3, bo.Op == token.EQL
						}
					}
				}
			}
		}
		if !isPhi && nilPhi == nil {
			continue
		}
		for k := 0; k < 2; k++ {
			wantTrue := (k == 0) != neg
			var fs []Fact
			var possible bool
			switch {
			case nilPhi != nil:
				fs, possible = fi.nilImplies(nilPhi, wantTrue == nilEq, 0)
			case wantTrue:
				fs, possible = fi.trueImplies(ph, 0)
			default:
				fs, possible = fi.falseImplies(ph, 0)
			}
			if !possible || len(fs) == 0 {
				continue
			}
			key := [2]int{b.Index, b.Succs[k].Index}
			have := map[string]bool{}
			for _, f := range fi.edgeFacts[key] {
				have[f.Key()] = true
			}
			for _, f := range fs {
				if !have[f.Key()] {
					fi.edgeFacts[key] = append(fi.edgeFacts[key], f)
					extra = true
				}
			}
		}
	}
	if extra {
		fi.factsIn = map[*ssa.BasicBlock]FactSet{}
		fi.runFactsIteration()
	}
}

// liftFact carries a fact over the edge p -> b into a join block: a load in the fact that denotes the CURRENT
// value of its location at the end of p (its version is the set of definitions reaching the end of p) denotes, along
// this edge, the current value at the start of b as well; it is re-versioned to the definitions reaching b, so that
// the same condition established on two paths with different memory histories (if c { x -= k }; ...) meets itself.
func (fi *FuncInfo) liftFact(f Fact, p, b *ssa.BasicBlock) Fact {
	fi.ensureMem()
	key := f.Key() + "|" + itoa(p.Index) + ">" + itoa(b.Index)
	if fi.liftCache == nil {
		fi.liftCache = map[string]Fact{}
	}
	if g, ok := fi.liftCache[key]; ok {
		return g
	}
	var out map[*MemDef]bool
	version := func(reach map[*MemDef]bool, cls Class, typ types.Type) string {
		var ids []string
		for d := range reach {
			if fi.affects(d.Cls, cls, typ) {
				ids = append(ids, d.ID)
			}
		}
		sort.Strings(ids)
		return strings.Join(ids, ",")
	}
	changed := false
	nt := f.T.Subst(func(t *Term) *Term {
		if t.K != KLoad || t.V == "" || strings.HasPrefix(t.V, "@") || t.Typ == nil {
			return nil
		}
		ld, ok := t.Val.(*ssa.UnOp)
		if !ok || ld.Parent() != fi.Fn {
			return nil
		}
		cls := fi.AddrClass(ld.X)
		if out == nil {
			out = map[*MemDef]bool{}
			for d := range fi.reachIn[p] {
				out[d] = true
			}
			for _, ins := range p.Instrs {
				fi.applyDefs(out, ins)
			}
		}
		if version(out, cls, t.Typ) != t.V {
			return nil // the fact is about an older value
		}
		nv := version(fi.reachIn[b], cls, t.Typ)
		if nv == t.V {
			return nil
		}
		changed = true
		return &Term{K: KLoad, A: t.A, V: nv, Typ: t.Typ, Val: t.Val}
	})
	g := f
	if changed {
		g = Fact{T: nt, Neg: f.Neg}
	}
	fi.liftCache[key] = g
	return g
}

// runFactsIteration computes factsIn from edgeFacts (descending must-dataflow).
func (fi *FuncInfo) runFactsIteration() {
	fn := fi.Fn
	top := map[*ssa.BasicBlock]bool{}
	for _, b := range fn.Blocks {
		top[b] = true
	}
	entry := fn.Blocks[0]
	fi.factsIn[entry] = FactSet{}
	top[entry] = false
	// Recover blocks are entered abnormally; they carry no facts.
	if fn.Recover != nil {
		fi.factsIn[fn.Recover] = FactSet{}
		top[fn.Recover] = false
	}
	changed := true
	rounds := 0
	for changed {
		changed = false
		rounds++
		if rounds > 2000 {
			panic("facts dataflow does not converge in " + fn.String())
		}
		for _, b := range fn.Blocks {
			if b == entry || b == fn.Recover {
				continue
			}
			var acc FactSet
			first := true
			for _, p := range b.Preds {
				if top[p] {
					continue
				}
				cand := FactSet{}
				lift := len(b.Preds) >= 2
				for k, f := range fi.factsIn[p] {
					if lift {
						f = fi.liftFact(f, p, b)
						k = f.Key()
					}
					cand[k] = f
				}
				for _, f := range fi.edgeFacts[[2]int{p.Index, b.Index}] {
					if lift {
						f = fi.liftFact(f, p, b)
					}
					cand[f.Key()] = f
				}
				if first {
					acc, first = cand, false
				} else {
					for k := range acc {
						if _, ok := cand[k]; !ok {
							delete(acc, k)
						}
					}
				}
			}
			if first {
				continue // no processed predecessor yet
			}
			// short-circuit "a || b": a block with two predecessors, each
			// arriving over a conditional edge, knows the disjunction. The
			// disjunction is generated at the block (it does not depend on
			// the iteration state), which keeps the iteration descending.
			if len(b.Preds) == 2 && b.Preds[0] != b.Preds[1] {
				e0 := fi.edgeFacts[[2]int{b.Preds[0].Index, b.Index}]
				e1 := fi.edgeFacts[[2]int{b.Preds[1].Index, b.Index}]
				if len(e0) > 0 && len(e1) > 0 {
					of := orFact(e0[0], e1[0])
					acc[of.Key()] = of
				}
			}
			if !top[b] {
				// descending iteration: never grow
				for k := range acc {
					if _, ok := fi.factsIn[b][k]; !ok {
						delete(acc, k)
					}
				}
			}
			same := !top[b] && len(acc) == len(fi.factsIn[b])
			if same {
				for k := range acc {
					if _, ok := fi.factsIn[b][k]; !ok {
						same = false
						break
					}
				}
			}
			if !same {
				top[b] = false
				fi.factsIn[b] = acc
				changed = true
			}
		}
	}
	for _, b := range fn.Blocks {
		if fi.factsIn[b] == nil {
			fi.factsIn[b] = FactSet{}
		}
	}
}

// FactsAt returns the facts that hold at the start of (and throughout) the
// block of instruction in.
func (fi *FuncInfo) FactsAt(in ssa.Instruction) FactSet {
	fi.ensureFacts()
	return fi.factsIn[in.Block()]
}

// FactsAtBlock returns the facts at the start of block b.
func (fi *FuncInfo) FactsAtBlock(b *ssa.BasicBlock) FactSet {
	fi.ensureFacts()
	return fi.factsIn[b]
}

// EdgeFacts returns the facts generated on the edge from block a to block b.
func (fi *FuncInfo) EdgeFacts(a, b *ssa.BasicBlock) []Fact {
	fi.ensureFacts()
	return fi.edgeFacts[[2]int{a.Index, b.Index}]
}

// ---- function summaries ----------------------------------------------------------

// RetSummary records, per result index, the facts that hold whenever that
// result is nil (error results) or true (bool results), expressed over the
// callee's parameters ($pN), results ($retN) and entry-version loads.
type RetSummary struct {
	Fn        *ssa.Function
	When      map[int][]Fact // result index -> facts that hold when the result is nil / true
	WhenFalse map[int][]Fact // bool results: facts that hold when the result is false
}

func (p *Program) retSummary(fn *ssa.Function, depth int) *RetSummary {
	if p.summaries == nil {
		p.summaries = map[*ssa.Function]*RetSummary{}
		p.summarizing = map[*ssa.Function]bool{}
	}
	if s, ok := p.summaries[fn]; ok {
		return s
	}
	if p.summarizing[fn] || depth > p.InlineBound() {
		return nil
	}
	p.summarizing[fn] = true
	defer delete(p.summarizing, fn)
	s := p.buildRetSummary(fn, depth)
	p.summaries[fn] = s
	return s
}

// InlineBound is the maximal nesting of summaries (DESIGN.md 1.6).
func (p *Program) InlineBound() int {
	if p.inlineBound == 0 {
		return 4
	}
	return p.inlineBound
}

// SetInlineBound sets the summary nesting bound.
func (p *Program) SetInlineBound(n int) { p.inlineBound = n }

func isErrorType(t types.Type) bool {
	return types.Identical(t, types.Universe.Lookup("error").Type())
}

func isBoolType(t types.Type) bool {
	b, ok := t.Underlying().(*types.Basic)
	return ok && b.Kind() == types.Bool
}

// resultMayBe reports whether result value v at return ret may be nil (for
// errors) or true (for bools): "no" only if it definitely is not.
func (fi *FuncInfo) resultMayBe(v ssa.Value, ret *ssa.Return, wantNil bool) bool {
	t := fi.Term(v)
	if c, ok := t.IsConst(); ok {
		if wantNil {
			return c == "nil"
		}
		return c == "true"
	}
	if wantNil {
		// error values constructed on the spot are non-nil
		switch t.K {
		case KPure, KCall:
			callee := t.Callee()
			if strings.HasPrefix(callee, "fmt.Errorf") || strings.HasPrefix(callee, "errors.New") {
				return false
			}
		}
		facts := fi.FactsAt(ret)
		nilc := mk(KConst, "nil", nil, nil)
		ne := normalize(mk(KBin, "!=", nil, nil, t, nilc))
		if facts.Has(ne.Key()) {
			return false
		}
		return true
	}
	facts := fi.FactsAt(ret)
	if facts.Has("!" + t.Key()) {
		return false
	}
	if n := negate(t); n != nil && facts.Has(normalize(n).Key()) {
		return false
	}
	return true
}

func (p *Program) buildRetSummary(fn *ssa.Function, depth int) *RetSummary {
	if !IsRepoFunc(fn) {
		return nil
	}
	res := fn.Signature.Results()
	s := &RetSummary{Fn: fn, When: map[int][]Fact{}, WhenFalse: map[int][]Fact{}}
	interesting := false
	for i := 0; i < res.Len(); i++ {
		if isErrorType(res.At(i).Type()) || isBoolType(res.At(i).Type()) {
			interesting = true
		}
	}
	if !interesting {
		return s
	}
	fi := p.Info(fn)
	fi.summaryDepth = depth
	fi.ensureFacts()
	for i := 0; i < res.Len(); i++ {
		rt := res.At(i).Type()
		isErr, isBool := isErrorType(rt), isBoolType(rt)
		if !isErr && !isBool {
			continue
		}
		var acc map[string]Fact
		first := true
		if isErr {
			// one outcome per way of returning (a single-exit function returns a phi: split by incoming edge)
			nilc := mk(KConst, "nil", nil, nil)
			for _, o := range fi.Outcomes() {
				if i >= len(o.Vals) {
					continue
				}
				rt := o.Results[i]
				mayNil := true
				if c, isC := rt.IsConst(); isC {
					mayNil = c == "nil"
				} else {
					if rt.K == KPure || rt.K == KCall {
						if cn := rt.Callee(); strings.HasPrefix(cn, "fmt.Errorf") || strings.HasPrefix(cn, "errors.New") {
							mayNil = false
						}
					}
					if o.Facts.Has(normalize(mk(KBin, "!=", nil, nil, rt, nilc)).Key()) {
						mayNil = false
					}
				}
				if !mayNil {
					continue
				}
				exported := fi.exportFactsOf(o.Facts, o.Vals, o.At, i)
				for j, rv := range o.Vals {
					if j == i {
						continue
					}
					jt := o.Results[j]
					if jt.K == KConst || !exportable(jt) || jt.Contains(func(x *Term) bool { return x.K == KLoad }) {
						continue
					}
					eq := Fact{T: normalize(mk(KBin, "==", nil, nil, mk(KRet, itoa(j), rv.Type(), nil), jt))}
					exported[eq.Key()] = eq
				}
				if first {
					acc, first = exported, false
				} else {
					for k := range acc {
						if _, ok := exported[k]; !ok {
							delete(acc, k)
						}
					}
				}
			}
		}
		for _, b := range fn.Blocks {
			if isErr {
				break
			}
			if len(b.Instrs) == 0 || b == b.Parent().Recover {
				continue
			}
			ret, ok := b.Instrs[len(b.Instrs)-1].(*ssa.Return)
			if !ok || i >= len(ret.Results) {
				continue
			}
			if !fi.resultMayBe(ret.Results[i], ret, isErr) {
				continue
			}
			var extra []Fact
			if isBool {
				// what the returned condition itself implies when it is true
				ti, possible := fi.trueImplies(ret.Results[i], 0)
				if !possible {
					continue
				}
				extra = ti
			}
			exported := fi.exportFacts(ret, i, extra...)
			// what the other results are when this one reports success: $retj == term over the interface vocabulary
			for j, rv := range ret.Results {
				if j == i {
					continue
				}
				rt := fi.Term(rv)
				if rt.K == KConst || !exportable(rt) || rt.Contains(func(x *Term) bool { return x.K == KLoad }) {
					continue
				}
				eq := Fact{T: normalize(mk(KBin, "==", nil, nil, mk(KRet, itoa(j), rv.Type(), nil), rt))}
				exported[eq.Key()] = eq
			}
			if first {
				acc, first = exported, false
			} else {
				for k := range acc {
					if _, ok := exported[k]; !ok {
						delete(acc, k)
					}
				}
			}
		}
		var keys []string
		for k := range acc {
			keys = append(keys, k)
		}
		sort.Strings(keys)
		for _, k := range keys {
			s.When[i] = append(s.When[i], acc[k])
		}
		if !isBool {
			continue
		}
		// the mirror image: what holds whenever the boolean result is false
		var accF map[string]Fact
		firstF := true
		for _, b := range fn.Blocks {
			if len(b.Instrs) == 0 || b == b.Parent().Recover {
				continue
			}
			ret, ok := b.Instrs[len(b.Instrs)-1].(*ssa.Return)
			if !ok || i >= len(ret.Results) {
				continue
			}
			if c, isC := fi.Term(ret.Results[i]).IsConst(); isC && c == "true" {
				continue
			}
			fiF, possible := fi.falseImplies(ret.Results[i], 0)
			if !possible {
				continue
			}
			exported := fi.exportFacts(ret, i, fiF...)
			if firstF {
				accF, firstF = exported, false
			} else {
				for k := range accF {
					if _, ok := exported[k]; !ok {
						delete(accF, k)
					}
				}
			}
		}
		keys = keys[:0]
		for k := range accF {
			keys = append(keys, k)
		}
		sort.Strings(keys)
		for _, k := range keys {
			s.WhenFalse[i] = append(s.WhenFalse[i], accF[k])
		}
	}
	return s
}

// trueImplies returns facts that hold whenever the boolean value v is true
// (beyond the facts of the block that uses it): v itself, and for a phi (the
// SSA form of a && b, of if/else chains that assign a result, ...) the facts
// common to all incoming edges over which v can be true. possible is false if
// v is the constant false on every path.
func (fi *FuncInfo) trueImplies(v ssa.Value, depth int) (out []Fact, possible bool) {
	if depth > 6 {
		return nil, true
	}
	t := fi.Term(v)
	if c, ok := t.IsConst(); ok {
		return nil, c == "true"
	}
	switch x := v.(type) {
	case *ssa.Phi:
		var acc map[string]Fact
		first := true
		var principals []Fact
		nContrib := 0
		for i, e := range x.Edges {
			pred := x.Block().Preds[i]
			sub, ok := fi.trueImplies(e, depth+1)
			if !ok {
				continue
			}
			nContrib++
			if ef := fi.edgeFacts[[2]int{pred.Index, x.Block().Index}]; len(ef) > 0 {
				principals = append(principals, ef[0])
			} else if len(sub) > 0 {
				principals = append(principals, sub[0])
			}
			cand := map[string]Fact{}
			for k, f := range fi.factsIn[pred] {
				cand[k] = f
			}
			for _, f := range fi.edgeFacts[[2]int{pred.Index, x.Block().Index}] {
				cand[f.Key()] = f
			}
			for _, f := range sub {
				cand[f.Key()] = f
			}
			if first {
				acc, first = cand, false
			} else {
				for k := range acc {
					if _, ok := cand[k]; !ok {
						delete(acc, k)
					}
				}
			}
		}
		if first {
			return nil, false
		}
		var keys []string
		for k := range acc {
			keys = append(keys, k)
		}
		sort.Strings(keys)
		for _, k := range keys {
			out = append(out, acc[k])
		}
		// exactly two ways: the disjunction of what distinguishes them (a && b is false iff !a or !b)
		if nContrib == 2 && len(principals) == 2 && principals[0].Key() != principals[1].Key() {
			out = append(out, orFact(principals[0], principals[1]))
		}
		return out, true
	case *ssa.UnOp:
		if x.Op == token.NOT {
			f := mkFact(fi.Term(x.X), true)
			out = append(out, f)
			// !(a || b) is true iff a and b are both false
			if sub, ok := fi.falseImplies(x.X, depth+1); ok {
				for _, sf := range sub {
					if sf.Key() != f.Key() {
						out = append(out, sf)
					}
				}
			} else {
				return nil, false
			}
			return out, true
		}
	}
	f := mkFact(t, false)
	out = append(out, f)
	out = append(out, fi.expandFact(f, depth)...)
	return out, true
}

// nilImplies: facts that hold whenever the pointer/interface value v is nil (wantNil) or non-nil (!wantNil): for a join
// phi (err := f(); ...; the value of a result variable of an inlined or single-exit body), the facts common to the
// incoming edges over which the value can be nil / non-nil.
func (fi *FuncInfo) nilImplies(v ssa.Value, wantNil bool, depth int) (out []Fact, possible bool) {
	if depth > 6 {
		return nil, true
	}
	t := fi.Term(v)
	if c, ok := t.IsConst(); ok {
		return nil, (c == "nil") == wantNil
	}
	if !wantNil {
		// cannot tell more about a non-nil value
		if _, isPhi := v.(*ssa.Phi); !isPhi {
			return nil, true
		}
	} else if t.K == KPure || t.K == KCall {
		if cn := t.Callee(); strings.HasPrefix(cn, "fmt.Errorf") || strings.HasPrefix(cn, "errors.New") {
			return nil, false
		}
	}
	x, ok := v.(*ssa.Phi)
	if !ok {
		nilc := mk(KConst, "nil", nil, nil)
		op := "=="
		if !wantNil {
			op = "!="
		}
		f := Fact{T: normalize(mk(KBin, op, nil, nil, t, nilc))}
		out = append(out, f)
		out = append(out, fi.expandFact(f, depth)...)
		return out, true
	}
	var acc map[string]Fact
	first := true
	for i, e := range x.Edges {
		pred := x.Block().Preds[i]
		sub, ok := fi.nilImplies(e, wantNil, depth+1)
		if !ok {
			continue
		}
		cand := map[string]Fact{}
		for k, f := range fi.factsIn[pred] {
			cand[k] = f
		}
		for _, f := range fi.edgeFacts[[2]int{pred.Index, x.Block().Index}] {
			cand[f.Key()] = f
		}
		// the value that arrives over this edge is known there to be non-nil (nil): this way does not contribute
		if et := fi.Term(e); et.K != KConst {
			nilc := mk(KConst, "nil", nil, nil)
			op := "!="
			if !wantNil {
				op = "=="
			}
			if _, refuted := cand[normalize(mk(KBin, op, nil, nil, et, nilc)).Key()]; refuted {
				continue
			}
		}
		for _, f := range sub {
			cand[f.Key()] = f
		}
		if first {
			acc, first = cand, false
		} else {
			for k := range acc {
				if _, ok := cand[k]; !ok {
					delete(acc, k)
				}
			}
		}
	}
	if first {
		return nil, false
	}
	var keys []string
	for k := range acc {
		keys = append(keys, k)
	}
	sort.Strings(keys)
	for _, k := range keys {
		out = append(out, acc[k])
	}
	return out, true
}

// falseImplies is the mirror image of trueImplies: facts that hold whenever v is false.
func (fi *FuncInfo) falseImplies(v ssa.Value, depth int) (out []Fact, possible bool) {
	if depth > 6 {
		return nil, true
	}
	t := fi.Term(v)
	if c, ok := t.IsConst(); ok {
		return nil, c == "false"
	}
	switch x := v.(type) {
	case *ssa.Phi:
		var acc map[string]Fact
		first := true
		var principals []Fact
		nContrib := 0
		for i, e := range x.Edges {
			pred := x.Block().Preds[i]
			sub, ok := fi.falseImplies(e, depth+1)
			if !ok {
				continue
			}
			nContrib++
			if ef := fi.edgeFacts[[2]int{pred.Index, x.Block().Index}]; len(ef) > 0 {
				principals = append(principals, ef[0])
			} else if len(sub) > 0 {
				principals = append(principals, sub[0])
			}
			cand := map[string]Fact{}
			for k, f := range fi.factsIn[pred] {
				cand[k] = f
			}
			for _, f := range fi.edgeFacts[[2]int{pred.Index, x.Block().Index}] {
				cand[f.Key()] = f
			}
			for _, f := range sub {
				cand[f.Key()] = f
			}
			if first {
				acc, first = cand, false
			} else {
				for k := range acc {
					if _, ok := cand[k]; !ok {
						delete(acc, k)
					}
				}
			}
		}
		if first {
			return nil, false
		}
		var keys []string
		for k := range acc {
			keys = append(keys, k)
		}
		sort.Strings(keys)
		for _, k := range keys {
			out = append(out, acc[k])
		}
		// exactly two ways: the disjunction of what distinguishes them (a && b is false iff !a or !b)
		if nContrib == 2 && len(principals) == 2 && principals[0].Key() != principals[1].Key() {
			out = append(out, orFact(principals[0], principals[1]))
		}
		return out, true
	case *ssa.UnOp:
		if x.Op == token.NOT {
			f := mkFact(fi.Term(x.X), false)
			out = append(out, f)
			if sub, ok := fi.trueImplies(x.X, depth+1); ok {
				for _, sf := range sub {
					if sf.Key() != f.Key() {
						out = append(out, sf)
					}
				}
			} else {
				return nil, false
			}
			return out, true
		}
	}
	return []Fact{mkFact(t, true)}, true
}

// exportFacts rewrites the facts at a return site into the callee's interface
// vocabulary and drops those that mention callee-local state.
func (fi *FuncInfo) exportFacts(ret *ssa.Return, skip int, extra ...Fact) map[string]Fact {
	return fi.exportFactsOf(fi.FactsAt(ret), ret.Results, ret, skip, extra...)
}

// exportFactsOf is exportFacts for one outcome of a return (see Outcomes): the facts and result values of that way.
func (fi *FuncInfo) exportFactsOf(facts FactSet, results []ssa.Value, ret ssa.Instruction, skip int, extra ...Fact) map[string]Fact {
	if len(extra) > 0 {
		all := FactSet{}
		for k, f := range facts {
			all[k] = f
		}
		for _, f := range extra {
			all[f.Key()] = f
		}
		facts = all
	}
	// replacement map: returned values and their fields
	repl := map[string]*Term{}
	for i, rv := range results {
		if i == skip {
			continue
		}
		rt := fi.Term(rv)
		retT := mk(KRet, itoa(i), rv.Type(), nil)
		if rt.K != KConst {
			repl[rt.Key()] = retT
		}
		// a local struct read after a join: what it holds on this way is its content at the end of the incoming block
		if ld, ok := rv.(*ssa.UnOp); ok && ld.Op == token.MUL {
			if al, ok := ld.X.(*ssa.Alloc); ok && ret != ssa.Instruction(nil) {
				if _, isRet := ret.(*ssa.Return); !isRet {
					if ct := fi.contentTerm(al, ret); ct != nil && ct.K == KLoad {
						rt = ct
						repl[rt.Key()] = retT
					}
				}
			}
		}
		// struct built field by field in a local
		if rt.K == KLoad && rt.A[0].K == KAlloc {
			if st, ok := rv.Type().Underlying().(*types.Struct); ok {
				for f := 0; f < st.NumFields(); f++ {
					fname := st.Field(f).Name()
					ft := fi.fieldOf(rt, fname, st.Field(f).Type(), nil)
					if ft.K != KLoad {
						continue
					}
					repl[ft.Key()] = mk(KField, fname, st.Field(f).Type(), nil, retT)
					// single dominating store to exactly this field?
					ids := strings.Split(ft.V, ",")
					if len(ids) != 1 || ids[0] == "" {
						continue
					}
					d := fi.defByID[ids[0]]
					if d == nil {
						continue
					}
					if sto, ok := d.Instr.(*ssa.Store); ok && Dominates(sto, ret) && fi.Term(sto.Addr).Key() == ft.A[0].Key() {
						vt := fi.Term(sto.Val)
						if vt.K != KConst {
							repl[vt.Key()] = mk(KField, fname, st.Field(f).Type(), nil, retT)
						}
					}
				}
			}
		}
	}
	out := map[string]Fact{}
	for _, f := range facts {
		nt := f.T.Subst(func(t *Term) *Term {
			if r, ok := repl[t.Key()]; ok {
				return r
			}
			return nil
		})
		// a load of parameter-rooted memory in a later critical section of the
		// callee is kept, with a version that can never equal a caller version
		nt = nt.Subst(func(t *Term) *Term {
			if t.K == KLoad && t.V != "" && !strings.HasPrefix(t.V, "@") && rootIsParam(t.A[0]) {
				return &Term{K: KLoad, A: t.A, V: "@" + FuncName(fi.Fn) + ":" + t.V, Typ: t.Typ, Val: t.Val}
			}
			return nil
		})
		if !exportable(nt) {
			continue
		}
		nf := Fact{T: nt, Neg: f.Neg}
		out[nf.Key()] = nf
	}
	return out
}

// exportable: only interface vocabulary (params, results, constants, globals,
// entry-version loads, pure calls over those).
func exportable(t *Term) bool {
	ok := true
	t.Walk(func(s *Term) {
		switch s.K {
		case KCall, KPhi, KAlloc, KRange, KOpaque, KMake, KFree, KClos:
			ok = false
		case KLoad:
			if s.V != "" && !strings.HasPrefix(s.V, "@") {
				ok = false
			}
		case KPure:
			if strings.Trim(s.V, ";") != "" {
				ok = false
			}
		}
	})
	return ok
}

// expandFact derives further facts from a fact about the result of a call to
// a summarised repository function: (err == nil) or (ok == true).
func (fi *FuncInfo) expandFact(f Fact, depth int) []Fact {
	if out := absFacts(f); out != nil {
		return out
	}
	var callT *Term
	idx := 0
	whenFalse := false
	t := f.T
	switch {
	case !f.Neg && t.K == KBin && t.S == "==":
		// x == nil
		var x *Term
		if c, ok := t.A[0].IsConst(); ok && c == "nil" {
			x = t.A[1]
		} else if c, ok := t.A[1].IsConst(); ok && c == "nil" {
			x = t.A[0]
		}
		if x == nil {
			return nil
		}
		callT, idx = callOfResult(x)
		if callT == nil {
			return nil
		}
		if !isErrorTypeTerm(x) {
			return nil
		}
	case !f.Neg && (t.K == KCall || t.K == KPure || t.K == KExt):
		callT, idx = callOfResult(t)
		if callT == nil {
			return nil
		}
	case f.Neg && (t.K == KCall || t.K == KPure || t.K == KExt):
		// a boolean result that is false
		callT, idx = callOfResult(t)
		if callT == nil || t.Typ == nil || !isBoolType(t.Typ) {
			return nil
		}
		whenFalse = true
	default:
		return nil
	}
	call, ok := callT.Val.(*ssa.Call)
	if !ok || call.Parent() != fi.Fn {
		return nil
	}
	sc := call.Call.StaticCallee()
	if sc == nil || !IsRepoFunc(sc) {
		return nil
	}
	sum := fi.P.retSummary(sc, fi.summaryDepth+1)
	if sum == nil {
		return nil
	}
	var out []Fact
	src := sum.When[idx]
	if whenFalse {
		src = sum.WhenFalse[idx]
	}
	for _, sf := range src {
		if inst := fi.instantiate(sf, call); inst != nil {
			out = append(out, *inst)
		}
	}
	return out
}

func isErrorTypeTerm(x *Term) bool {
	if x.Typ == nil {
		return true
	}
	return isErrorType(x.Typ) || types.IsInterface(x.Typ)
}

func callOfResult(x *Term) (*Term, int) {
	switch x.K {
	case KCall, KPure:
		return x, 0
	case KExt:
		if len(x.A) == 1 && (x.A[0].K == KCall || x.A[0].K == KPure) {
			return x.A[0], atoi(x.S)
		}
	}
	return nil, 0
}

// valueSummary returns, for a straight-line repository function with one
// result (a helper that names an expression: an offset computation, a guarded
// read of a field, a predicate), that result as a term over the function's
// parameters; nil if the function is not of that form. Calls to such helpers
// are replaced by the instantiated term in the caller (term-level inlining),
// so extracting an expression into a helper does not change any term.
func (p *Program) valueSummary(fn *ssa.Function) *Term {
	if p.valueSums == nil {
		p.valueSums = map[*ssa.Function]*Term{}
		p.valueSumBusy = map[*ssa.Function]bool{}
	}
	if t, ok := p.valueSums[fn]; ok {
		return t
	}
	if p.valueSumBusy[fn] {
		return nil
	}
	p.valueSumBusy[fn] = true
	defer delete(p.valueSumBusy, fn)
	t := p.buildValueSummary(fn)
	p.valueSums[fn] = t
	return t
}

func (p *Program) buildValueSummary(fn *ssa.Function) *Term {
	if !IsRepoFunc(fn) || fn.Signature.Results().Len() != 1 || len(fn.Blocks) == 0 {
		return nil
	}
	var body *ssa.BasicBlock
	for _, b := range fn.Blocks {
		if b == fn.Recover {
			continue
		}
		if body != nil {
			return nil
		}
		body = b
	}
	if body == nil || len(body.Instrs) == 0 {
		return nil
	}
	ret, ok := body.Instrs[len(body.Instrs)-1].(*ssa.Return)
	if !ok || len(ret.Results) != 1 {
		return nil
	}
	fi := p.Info(fn)
	for _, in := range body.Instrs {
		switch x := in.(type) {
		case *ssa.Return, *ssa.FieldAddr, *ssa.IndexAddr, *ssa.UnOp, *ssa.BinOp, *ssa.Convert, *ssa.ChangeType, *ssa.Extract,
			*ssa.Field, *ssa.Index, *ssa.Lookup, *ssa.DebugRef, *ssa.MakeInterface, *ssa.ChangeInterface:
		case *ssa.Call:
			if _, _, isLock := LockOp(&x.Call); isLock {
				continue
			}
			if bi, ok := x.Call.Value.(*ssa.Builtin); ok && (bi.Name() == "len" || bi.Name() == "cap") {
				continue
			}
			if !fi.isPureCall(&x.Call) {
				// a clock read (no arguments, no write, lock, blocking or file effect) is allowed: its term is
				// re-identified per call site when the summary is instantiated
				sc := x.Call.StaticCallee()
				if sc == nil || len(x.Call.Args) != 0 || !IsRepoFunc(sc) {
					return nil
				}
				e := fi.P.effects[sc]
				if e == nil || len(e.Writes)+len(e.Locks)+len(e.Blocks)+len(e.FileOps)+len(e.Spawns) != 0 {
					return nil
				}
			}
		case *ssa.Defer:
			// defer mu.Unlock(): the section ends at the return
			if _, _, isLock := LockOp(&x.Call); !isLock {
				return nil
			}
		case *ssa.RunDefers:
		case *ssa.Alloc:
		case *ssa.Store:
			// the spill of a parameter into its local (struct parameters whose fields are addressed), or the
			// initialisation of a field of a local struct that is the function's result (a struct literal)
			if al, isAl := x.Addr.(*ssa.Alloc); isAl {
				if _, isParam := x.Val.(*ssa.Parameter); isParam {
					continue
				}
				// the spill of the result around a deferred call (*t0 = v; rundefers; return *t0): a local that is only
				// stored to and loaded
				private := !al.Heap
				if refs := al.Referrers(); refs != nil {
					for _, r := range *refs {
						switch y := r.(type) {
						case *ssa.Store:
							if y.Addr != ssa.Value(al) {
								private = false
							}
						case *ssa.UnOp, *ssa.DebugRef:
						default:
							private = false
						}
					}
				}
				if private {
					continue
				}
			}
			if fa, isFA := x.Addr.(*ssa.FieldAddr); isFA {
				if al, isAl := fa.X.(*ssa.Alloc); isAl && resultAlloc(ret) == al {
					continue
				}
			}
			return nil
		default:
			return nil
		}
	}
	rt := fi.Term(ret.Results[0])
	if al := resultAlloc(ret); al != nil {
		// a struct literal: the value is the record of its initialised fields
		st, ok := al.Type().(*types.Pointer).Elem().Underlying().(*types.Struct)
		if !ok || rt.K != KLoad {
			return nil
		}
		var names []string
		var vals []*Term
		for i := 0; i < st.NumFields(); i++ {
			ft := fi.ResolveLocalField(rt, st.Field(i).Name(), ret)
			if ft == nil || ft.K == KLoad && ft.A[0].K == KFA && ft.A[0].A[0].K == KAlloc {
				continue // not initialised: zero value
			}
			names = append(names, st.Field(i).Name())
			vals = append(vals, ft)
		}
		rt = mk(KStruct, strings.Join(names, ","), ret.Results[0].Type(), nil, vals...)
	}
	// loads made after a lock operation of the callee keep a version that can never equal a caller version
	rt = rt.Subst(func(t *Term) *Term {
		if t.K == KLoad && t.V != "" && !strings.HasPrefix(t.V, "@") && rootIsParam(t.A[0]) {
			return &Term{K: KLoad, A: t.A, V: "@" + FuncName(fn) + ":" + t.V, Typ: t.Typ, Val: t.Val}
		}
		return nil
	})
	// argument-free clock reads are exportable: mark them so that exportable() accepts and instantiation renames them
	rt = rt.Subst(func(t *Term) *Term {
		if t.K == KCall && len(t.A) == 0 && !strings.HasPrefix(t.S, "builtin.") {
			return &Term{K: KClock, S: t.S, Typ: t.Typ, Val: t.Val}
		}
		return nil
	})
	if !exportable(rt) {
		return nil
	}
	return rt
}

// resultAlloc: the function returns *al for a local struct al.
func resultAlloc(ret *ssa.Return) *ssa.Alloc {
	if len(ret.Results) != 1 {
		return nil
	}
	if ld, ok := ret.Results[0].(*ssa.UnOp); ok && ld.Op == token.MUL {
		if al, ok := ld.X.(*ssa.Alloc); ok {
			if _, isSt := al.Type().(*types.Pointer).Elem().Underlying().(*types.Struct); isSt {
				return al
			}
		}
	}
	return nil
}

// instantiateTerm maps a summary term (over $pN) into the caller at call site call.
func (fi *FuncInfo) instantiateTerm(st *Term, call *ssa.Call) *Term {
	args := call.Call.Args
	bad := false
	var sub func(t *Term) *Term
	sub = func(t *Term) *Term {
		switch t.K {
		case KParam:
			i := atoi(t.S)
			if i < len(args) {
				return fi.Term(args[i])
			}
			bad = true
			return t
		case KRet:
			bad = true
			return t
		case KClock:
			// one reading per execution of the call site
			return &Term{K: KCall, S: t.S + "@" + fi.ID(call), Typ: t.Typ, Val: t.Val}
		case KLoad:
			if strings.HasPrefix(t.V, "@") {
				addr := t.A[0].Subst(sub)
				return &Term{K: KLoad, A: []*Term{addr}, V: t.V, Typ: t.Typ, Val: t.Val}
			}
			addr := t.A[0].Subst(sub)
			cls, ok := fi.classOfAddrTerm(addr)
			if !ok {
				bad = true
				return t
			}
			return &Term{K: KLoad, A: []*Term{addr}, V: fi.VersionAt(call, cls), Typ: t.Typ, Val: t.Val}
		case KField:
			x := t.A[0].Subst(sub)
			return fi.fieldOf(x, t.S, t.Typ, nil)
		case KRef:
			x := t.A[0].Subst(sub)
			return mk(KRef, "", t.Typ, nil, x)
		}
		return nil
	}
	nt := st.Subst(sub)
	if bad {
		return nil
	}
	return fi.Renorm(nt)
}

// InstantiateTerm maps a term of a callee (over its parameters) into the caller at call site call; nil if impossible.
func (fi *FuncInfo) InstantiateTerm(t *Term, call *ssa.Call) *Term {
	if t == nil {
		return nil
	}
	return fi.instantiateTerm(t, call)
}

// Transparent reports whether fn is a straight-line helper: one basic block, no lock operation, no defer, no go.
// Such a function only names a statement sequence, and rules that enumerate the operations of a function
// attribute its operations to its callers.
func (p *Program) Transparent(fn *ssa.Function) bool {
	if !IsRepoFunc(fn) || len(fn.Blocks) == 0 {
		return false
	}
	n := 0
	for _, b := range fn.Blocks {
		if b == fn.Recover {
			continue
		}
		n++
		for _, in := range b.Instrs {
			switch x := in.(type) {
			case *ssa.Defer, *ssa.Go, *ssa.RunDefers, *ssa.Select, *ssa.Send:
				return false
			case *ssa.Call:
				if _, _, isLock := LockOp(&x.Call); isLock {
					return false
				}
			}
		}
	}
	return n == 1
}

// instantiate maps a summary fact into the caller at call site call.
func (fi *FuncInfo) instantiate(sf Fact, call *ssa.Call) *Fact {
	args := call.Call.Args
	callT := fi.Term(call)
	nres := call.Call.Signature().Results().Len()
	bad := false
	var sub func(t *Term) *Term
	sub = func(t *Term) *Term {
		switch t.K {
		case KParam:
			i := atoi(t.S)
			if i < len(args) {
				return fi.Term(args[i])
			}
			bad = true
			return t
		case KRet:
			i := atoi(t.S)
			if nres == 1 {
				return callT
			}
			return fi.extractTerm(call, i)
		case KLoad:
			if strings.HasPrefix(t.V, "@") {
				// read inside the callee's own critical section: keep the marker
				addr := t.A[0].Subst(sub)
				return &Term{K: KLoad, A: []*Term{addr}, V: t.V, Typ: t.Typ, Val: t.Val}
			}
			// entry-version load in the callee: version at the call site
			addr := t.A[0].Subst(sub)
			cls, ok := fi.classOfAddrTerm(addr)
			if !ok {
				bad = true
				return t
			}
			ver := fi.VersionAt(call, cls)
			nt := &Term{K: KLoad, A: []*Term{addr}, V: ver, Typ: t.Typ}
			return nt
		case KField:
			x := t.A[0].Subst(sub)
			return fi.fieldOf(x, t.S, t.Typ, nil)
		case KRef:
			x := t.A[0].Subst(sub)
			return mk(KRef, "", t.Typ, nil, x)
		}
		return nil
	}
	nt := sf.T.Subst(sub)
	if bad {
		return nil
	}
	return &Fact{T: nt, Neg: sf.Neg}
}

// extractTerm returns the term of result i of a multi-result call.
func (fi *FuncInfo) extractTerm(call *ssa.Call, i int) *Term {
	if refs := call.Referrers(); refs != nil {
		for _, r := range *refs {
			if e, ok := r.(*ssa.Extract); ok && e.Index == i {
				return fi.Term(e)
			}
		}
	}
	return mk(KExt, itoa(i), nil, nil, fi.Term(call))
}

// Outcome is one way a function returns: the result terms and the facts that hold then. A return whose results are
// phis of its own block (the single-exit form: var r T; var err error; if .. { r = .. } else { err = .. }; return r, err)
// is split into one outcome per incoming edge.
type Outcome struct {
	Ret     *ssa.Return
	Results []*Term
	Vals    []ssa.Value
	Facts   FactSet
	From    *ssa.BasicBlock // the block the way comes from, when the return was split by incoming edge
	At      ssa.Instruction // the point whose memory state the results are read in: the return, or the end of the incoming edge's block
}

func (fi *FuncInfo) Outcomes() []Outcome { return fi.outcomes(false) }

// OutcomesByEdge splits every return whose block only reads and computes by incoming edge, also when the results are
// not phis (if c { work }; return nil: the ways with and without the work are separate outcomes). From is the block the
// way comes from (nil for an unsplit return).
func (fi *FuncInfo) OutcomesByEdge() []Outcome { return fi.outcomes(true) }

func (fi *FuncInfo) outcomes(always bool) []Outcome {
	var out []Outcome
	fn := fi.Fn
	for _, b := range fn.Blocks {
		if len(b.Instrs) == 0 || b == fn.Recover {
			continue
		}
		ret, ok := b.Instrs[len(b.Instrs)-1].(*ssa.Return)
		if !ok {
			continue
		}
		split := always && len(b.Preds) >= 2
		// the phi a result denotes: directly, or through the spill around deferred calls (*t = phi; rundefers; return *t)
		phiOf := func(r ssa.Value) *ssa.Phi {
			if ph, ok := r.(*ssa.Phi); ok && ph.Block() == b {
				return ph
			}
			if rt := fi.Term(r); rt.K == KPhi {
				if ph, ok := rt.Val.(*ssa.Phi); ok && ph.Block() == b {
					return ph
				}
			}
			return nil
		}
		for _, r := range ret.Results {
			if phiOf(r) != nil {
				split = true
			}
		}
		// only phis (and the return) in the block, so nothing between the join and the return changes the facts
		// instructions between the join and the return matter only if a result is read from memory there (a local
		// struct): facts about SSA values and versioned loads that hold on an incoming edge still hold at the return
		readsMemory := false
		for _, r := range ret.Results {
			if ld, ok := r.(*ssa.UnOp); ok && ld.Op == token.MUL && ld.Block() == b && phiOf(r) == nil {
				readsMemory = true
			}
		}
		for _, in := range b.Instrs[:len(b.Instrs)-1] {
			if !readsMemory {
				break
			}
			switch x := in.(type) {
			case *ssa.Phi, *ssa.UnOp, *ssa.FieldAddr, *ssa.IndexAddr, *ssa.Extract, *ssa.BinOp, *ssa.Convert, *ssa.ChangeType, *ssa.MakeInterface, *ssa.DebugRef, *ssa.RunDefers:
				// reads and pure computations (and the deferred unlock) between the join and the return
			case *ssa.Store:
				// the spill of a result into its private slot
				if _, isAl := x.Addr.(*ssa.Alloc); !isAl {
					split = false
				}
			default:
				split = false
			}
		}
		if !split {
			o := Outcome{Ret: ret, Facts: fi.FactsAt(ret), At: ret}
			for _, r := range ret.Results {
				o.Results = append(o.Results, fi.Term(r))
				o.Vals = append(o.Vals, r)
			}
			out = append(out, o)
			continue
		}
		for i, pred := range b.Preds {
			o := Outcome{Ret: ret, Facts: FactSet{}, At: ret, From: pred}
			if n := len(pred.Instrs); n > 0 {
				o.At = pred.Instrs[n-1]
				for k, f := range fi.FactsAt(pred.Instrs[n-1]) {
					o.Facts[k] = f
				}
			}
			for _, f := range fi.EdgeFacts(pred, b) {
				o.Facts[f.Key()] = f
			}
			for _, r := range ret.Results {
				if ph := phiOf(r); ph != nil {
					o.Results = append(o.Results, fi.Term(ph.Edges[i]))
					o.Vals = append(o.Vals, ph.Edges[i])
				} else {
					o.Results = append(o.Results, fi.Term(r))
					o.Vals = append(o.Vals, r)
				}
			}
			out = append(out, o)
		}
	}
	return out
}

// FeasiblePhiEdges tells, for a join phi and a later program point at, which incoming edges of the phi's block can have
// been taken by an execution that reaches at: an edge is excluded when a sibling phi of the same block (the error or ok
// flag that travels with a result: v, err := <several ways>) has, on that edge, a value that contradicts a fact at at
// (err == nil at the use, but the edge carries fmt.Errorf(..); ok is true at the use, but the edge carries false).
func (fi *FuncInfo) FeasiblePhiEdges(ph *ssa.Phi, at ssa.Instruction) []bool {
	out := make([]bool, len(ph.Edges))
	for i := range out {
		out[i] = true
	}
	facts := fi.FactsAt(at)
	blk := ph.Block()
	nilc := mk(KConst, "nil", nil, nil)
	for _, in := range blk.Instrs {
		sib, ok := in.(*ssa.Phi)
		if !ok {
			break
		}
		st := fi.Term(sib)
		if st.K != KPhi {
			continue
		}
		isNil := facts.Has(normalize(mk(KBin, "==", nil, nil, st, nilc)).Key())
		notNil := facts.Has(normalize(mk(KBin, "!=", nil, nil, st, nilc)).Key())
		isTrue := facts.Has(st.Key())
		isFalse := facts.Has("!" + st.Key())
		if !isNil && !notNil && !isTrue && !isFalse {
			continue
		}
		for i, e := range sib.Edges {
			et := fi.Term(e)
			c, isC := et.IsConst()
			pred := blk.Preds[i]
			predFacts := FactSet{}
			if n := len(pred.Instrs); n > 0 {
				for k, f := range fi.FactsAt(pred.Instrs[n-1]) {
					predFacts[k] = f
				}
			}
			for _, f := range fi.EdgeFacts(pred, blk) {
				predFacts[f.Key()] = f
			}
			switch {
			case isNil:
				definitelyNonNil := false
				if et.K == KPure || et.K == KCall {
					cn := et.Callee()
					definitelyNonNil = strings.HasPrefix(cn, "fmt.Errorf") || strings.HasPrefix(cn, "errors.New")
				}
				if !isC && predFacts.Has(normalize(mk(KBin, "!=", nil, nil, et, nilc)).Key()) {
					definitelyNonNil = true
				}
				if definitelyNonNil {
					out[i] = false
				}
			case notNil:
				if isC && c == "nil" {
					out[i] = false
				}
				if !isC && predFacts.Has(normalize(mk(KBin, "==", nil, nil, et, nilc)).Key()) {
					out[i] = false
				}
			case isTrue:
				if isC && c == "false" {
					out[i] = false
				}
			case isFalse:
				if isC && c == "true" {
					out[i] = false
				}
			}
		}
	}
	return out
}

// RefineAt rewrites results of calls to repository helpers inside t by what the helper's return summary says they
// equal, given the facts that hold at instruction at (v, ok := helper(x); if !ok { continue }; use(v): at the use, v is
// the term the helper returns together with ok == true).
func (fi *FuncInfo) RefineAt(t *Term, at ssa.Instruction) *Term {
	// a join phi whose feasible edges (see FeasiblePhiEdges) all carry the same value is that value
	t = t.Subst(func(x *Term) *Term {
		ph, ok := x.Val.(*ssa.Phi)
		if !ok || x.K != KPhi {
			return nil
		}
		feas := fi.FeasiblePhiEdges(ph, at)
		var only *Term
		n := 0
		for i, e := range ph.Edges {
			if !feas[i] {
				continue
			}
			et := fi.Term(e)
			if only == nil || only.Key() != et.Key() {
				n++
				only = et
			}
		}
		if n == 1 && only.Key() != x.Key() {
			return only
		}
		return nil
	})
	facts := fi.FactsAt(at)
	for round := 0; round < 3; round++ {
		changed := false
		nt := t.Subst(func(x *Term) *Term {
			callT, _ := callOfResult(x)
			if callT == nil || callT.K != KCall {
				return nil
			}
			call, ok := callT.Val.(*ssa.Call)
			if !ok {
				return nil
			}
			if sc := call.Call.StaticCallee(); sc == nil || !IsRepoFunc(sc) {
				return nil
			}
			for _, f := range facts {
				if f.Neg || f.T.K != KBin || f.T.S != "==" {
					continue
				}
				for k := 0; k < 2; k++ {
					if f.T.A[k].Key() == x.Key() && !f.T.A[1-k].Contains(func(y *Term) bool { return y.Key() == callT.Key() }) {
						if c, isC := f.T.A[1-k].IsConst(); isC && (c == "nil" || c == "true" || c == "false") {
							continue
						}
						changed = true
						return f.T.A[1-k]
					}
				}
			}
			return nil
		})
		if !changed {
			break
		}
		t = nt
	}
	return t
}

// KOr is the kind of a disjunction of two facts (operands are sorted).
const KOr = "or"

func factTerm(f Fact) *Term {
	if f.Neg {
		return &Term{K: KUn, S: "!", A: []*Term{f.T}}
	}
	return f.T
}

func orFact(a, b Fact) Fact {
	x, y := factTerm(a), factTerm(b)
	if x.Key() > y.Key() {
		x, y = y, x
	}
	return Fact{T: &Term{K: KOr, A: []*Term{x, y}}}
}

// OrKey returns the key of the disjunction fact of two fact keys given as terms.
func OrKey(x, y *Term) string {
	if x.Key() > y.Key() {
		x, y = y, x
	}
	return (&Term{K: KOr, A: []*Term{x, y}}).Key()
}

// NotTerm wraps a term in a negation (for use with OrKey).
func NotTerm(t *Term) *Term { return &Term{K: KUn, S: "!", A: []*Term{t}} }

// RetSummaryOf returns the return summary of a repository function.
func (p *Program) RetSummaryOf(fn *ssa.Function) *RetSummary { return p.retSummary(fn, 0) }

func rootIsParam(addr *Term) bool {
	for addr != nil {
		switch addr.K {
		case KParam:
			return true
		case KFA, KIA:
			addr = addr.A[0]
		case KLoad:
			addr = addr.A[0]
		default:
			return false
		}
	}
	return false
}

// GuardAlternatives spells out a guard that is a boolean flag set on several ways (ban := false; if a { ban = true };
// if b { ban = true }; if ban { store }): when the facts at in contain a boolean join phi, the result has one fact set
// per way the flag became true (the facts at the end of the edge that carries the constant true, together with the
// other facts at in); a way that carries false contributes nothing. Without such a phi the result is the facts at in.
func (fi *FuncInfo) GuardAlternatives(in ssa.Instruction) []FactSet {
	facts := fi.FactsAt(in)
	var flag *ssa.Phi
	var flagKey string
	for _, f := range facts.Sorted() {
		if f.Neg || f.T.K != KPhi {
			continue
		}
		if ph, ok := f.T.Val.(*ssa.Phi); ok && isBoolType(ph.Type()) {
			flag, flagKey = ph, f.Key()
			break
		}
	}
	if flag == nil {
		return []FactSet{facts}
	}
	rest := FactSet{}
	for k, f := range facts {
		if k != flagKey {
			rest[k] = f
		}
	}
	seen := map[*ssa.Phi]bool{}
	onStack := map[*ssa.Phi]bool{}
	ok := true
	var expand func(ph *ssa.Phi) []FactSet
	expand = func(ph *ssa.Phi) []FactSet {
		if onStack[ph] {
			ok = false // a flag carried around a loop
			return nil
		}
		if seen[ph] {
			return nil // the same earlier flag value on a second edge: its ways are listed already
		}
		seen[ph] = true
		onStack[ph] = true
		defer func() { onStack[ph] = false }()
		var out []FactSet
		for i, e := range ph.Edges {
			pred := ph.Block().Preds[i]
			if c, isC := e.(*ssa.Const); isC {
				if c.Value != nil && c.Value.String() == "true" {
					fs := FactSet{}
					if n := len(pred.Instrs); n > 0 {
						for k, f := range fi.FactsAt(pred.Instrs[n-1]) {
							fs[k] = f
						}
					}
					for _, f := range fi.EdgeFacts(pred, ph.Block()) {
						fs[f.Key()] = f
					}
					out = append(out, fs)
				}
				continue
			}
			if inner, isPhi := e.(*ssa.Phi); isPhi && isBoolType(inner.Type()) {
				out = append(out, expand(inner)...)
				continue
			}
			ok = false
		}
		return out
	}
	alts := expand(flag)
	if !ok || len(alts) == 0 {
		return []FactSet{facts}
	}
	for _, a := range alts {
		for k, f := range rest {
			if _, have := a[k]; !have {
				a[k] = f
			}
		}
	}
	return alts
}

// absFacts: a comparison of math.Abs(x) with a constant c says the same about x itself: Abs(x) < c is -c < x and x < c;
// c <= Abs(x) is x <= -c or c <= x (for every float64, NaN included: both forms are false resp. true for NaN).
func absFacts(f Fact) []Fact {
	t := f.T
	if f.Neg || t.K != KBin || (t.S != "<" && t.S != "<=") || len(t.A) != 2 {
		return nil
	}
	absArg := func(x *Term) *Term {
		if (x.K == KCall || x.K == KPure) && x.Callee() == "math.Abs" && len(x.A) == 1 {
			return x.A[0]
		}
		return nil
	}
	neg := func(c string) string {
		if strings.HasPrefix(c, "-") {
			return c[1:]
		}
		return "-" + c
	}
	if x := absArg(t.A[0]); x != nil {
		if c, ok := t.A[1].IsConst(); ok {
			hi := mk(KConst, c, t.A[1].Typ, nil)
			lo := mk(KConst, neg(c), t.A[1].Typ, nil)
			return []Fact{{T: normalize(mk(KBin, t.S, nil, nil, x, hi))}, {T: normalize(mk(KBin, t.S, nil, nil, lo, x))}}
		}
	}
	if x := absArg(t.A[1]); x != nil {
		if c, ok := t.A[0].IsConst(); ok {
			hi := mk(KConst, c, t.A[0].Typ, nil)
			lo := mk(KConst, neg(c), t.A[0].Typ, nil)
			return []Fact{orFact(Fact{T: normalize(mk(KBin, t.S, nil, nil, x, lo))}, Fact{T: normalize(mk(KBin, t.S, nil, nil, hi, x))})}
		}
	}
	return nil
}
