package an

import (
	"fmt"
	"go/token"
	"go/types"
	"sort"
	"strings"

	"golang.org/x/tools/go/ssa"
)

// Lock states of one abstract lock at a program point.
const (
	LsUnlocked  = 'U'
	LsLocked    = 'L'
	LsDeferred  = 'D' // locked, with a deferred unlock pending
	LsConflict  = 'X' // paths disagree (reported once at the join)
	LsInherited = 'I' // this function never touches the lock: whatever the caller holds
)

// LockFinding is one LOCK-1 finding inside a function.
type LockFinding struct {
	Lock  string
	Kind  string // leak, double-lock, unlock-unheld, inconsistent-join, panic-held, deferred-unheld
	Instr ssa.Instruction
	Desc  string
}

// LockFlow is the per-function lock-state dataflow.
type LockFlow struct {
	fi       *FuncInfo
	Locks    []string // locks with operations in this function
	in       map[*ssa.BasicBlock]map[string]byte
	Findings []LockFinding
	Ops      int
}

// deferredUnlocks returns the locks a deferred call releases.
func deferredUnlocks(d *ssa.Defer) []string {
	if id, op, ok := LockOp(&d.Call); ok {
		if op == "Unlock" {
			return []string{id}
		}
		return nil
	}
	var out []string
	if fn := FuncOfValue(d.Call.Value); fn != nil && IsRepoFunc(fn) {
		for _, b := range fn.Blocks {
			for _, in := range b.Instrs {
				if c, ok := in.(*ssa.Call); ok {
					if id, op, ok := LockOp(&c.Call); ok && op == "Unlock" {
						out = append(out, id)
					}
				}
			}
		}
	}
	return out
}

// LockFlowOf computes (and caches) the lock flow of a function.
func (p *Program) LockFlowOf(fn *ssa.Function) *LockFlow {
	if p.lockFlows == nil {
		p.lockFlows = map[*ssa.Function]*LockFlow{}
	}
	if lf, ok := p.lockFlows[fn]; ok {
		return lf
	}
	fi := p.Info(fn)
	lf := &LockFlow{fi: fi, in: map[*ssa.BasicBlock]map[string]byte{}}
	p.lockFlows[fn] = lf
	lockSet := map[string]bool{}
	for _, b := range fn.Blocks {
		for _, in := range b.Instrs {
			switch in := in.(type) {
			case *ssa.Defer:
				for _, id := range deferredUnlocks(in) {
					lockSet[id] = true
					lf.Ops++
				}
				if id, _, ok := LockOp(&in.Call); ok {
					lockSet[id] = true
				}
			case *ssa.Call:
				if id, _, ok := LockOp(&in.Call); ok {
					lockSet[id] = true
					lf.Ops++
				}
			}
		}
	}
	for id := range lockSet {
		lf.Locks = append(lf.Locks, id)
	}
	sort.Strings(lf.Locks)
	if len(lf.Locks) == 0 || len(fn.Blocks) == 0 {
		return lf
	}
	reported := map[string]bool{}
	report := func(lock, kind string, in ssa.Instruction, desc string) {
		k := lock + kind + fi.ID(in)
		if reported[k] {
			return
		}
		reported[k] = true
		lf.Findings = append(lf.Findings, LockFinding{Lock: lock, Kind: kind, Instr: in, Desc: desc})
	}
	entry := map[string]byte{}
	for _, id := range lf.Locks {
		entry[id] = LsUnlocked
	}
	lf.in[fn.Blocks[0]] = entry
	if fn.Recover != nil {
		lf.in[fn.Recover] = copyState(entry)
	}
	work := []*ssa.BasicBlock{fn.Blocks[0]}
	for len(work) > 0 {
		b := work[0]
		work = work[1:]
		cur := copyState(lf.in[b])
		for _, in := range b.Instrs {
			lf.transfer(cur, in, report)
		}
		for _, s := range b.Succs {
			old, seen := lf.in[s]
			if !seen {
				lf.in[s] = copyState(cur)
				work = append(work, s)
				continue
			}
			changed := false
			for _, id := range lf.Locks {
				if old[id] != cur[id] && old[id] != LsConflict {
					report(id, "inconsistent-join", s.Instrs[0],
						fmt.Sprintf("lock %s is %s on one path and %s on another path into this point", id, lsName(old[id]), lsName(cur[id])))
					old[id] = LsConflict
					changed = true
				}
			}
			if changed {
				work = append(work, s)
			}
		}
	}
	return lf
}

func copyState(m map[string]byte) map[string]byte {
	n := make(map[string]byte, len(m))
	for k, v := range m {
		n[k] = v
	}
	return n
}

func lsName(s byte) string {
	switch s {
	case LsUnlocked:
		return "not held"
	case LsLocked:
		return "held"
	case LsDeferred:
		return "held with a deferred unlock"
	case LsConflict:
		return "held on some paths only"
	case LsInherited:
		return "whatever the caller holds"
	}
	return "?"
}

func (lf *LockFlow) transfer(cur map[string]byte, in ssa.Instruction, report func(lock, kind string, in ssa.Instruction, desc string)) {
	switch in := in.(type) {
	case *ssa.Call:
		id, op, ok := LockOp(&in.Call)
		if !ok {
			return
		}
		switch op {
		case "Lock":
			switch cur[id] {
			case LsLocked, LsDeferred:
				report(id, "double-lock", in, "Lock of "+id+" while it is already held (self-deadlock)")
			}
			if cur[id] != LsDeferred {
				cur[id] = LsLocked
			}
		case "Unlock":
			switch cur[id] {
			case LsUnlocked:
				report(id, "unlock-unheld", in, "Unlock of "+id+" while it is not held")
			case LsDeferred:
				report(id, "unlock-unheld", in, "explicit Unlock of "+id+" although a deferred Unlock is pending (double unlock at return)")
			}
			if cur[id] != LsConflict {
				cur[id] = LsUnlocked
			}
		}
	case *ssa.Defer:
		for _, id := range deferredUnlocks(in) {
			switch cur[id] {
			case LsLocked:
				cur[id] = LsDeferred
			case LsUnlocked:
				report(id, "deferred-unheld", in, "deferred Unlock of "+id+" registered while the lock is not held")
			case LsDeferred:
				report(id, "deferred-unheld", in, "second deferred Unlock of "+id)
			}
		}
	case *ssa.Return:
		for _, id := range lf.Locks {
			if cur[id] == LsLocked {
				report(id, "leak", in, "return with "+id+" still held")
			}
		}
	case *ssa.Panic:
		for _, id := range lf.Locks {
			if cur[id] == LsLocked {
				report(id, "panic-held", in, "explicit panic while "+id+" is held without a deferred unlock")
			}
		}
	}
}

// StateAt returns the state of lock id just before instruction at.
func (lf *LockFlow) StateAt(at ssa.Instruction, id string) byte {
	has := false
	for _, l := range lf.Locks {
		if l == id {
			has = true
		}
	}
	if !has {
		return LsInherited
	}
	b := at.Block()
	st, ok := lf.in[b]
	if !ok {
		return LsUnlocked // unreachable block
	}
	cur := copyState(st)
	for _, in := range b.Instrs {
		if in == at {
			break
		}
		lf.transfer(cur, in, func(string, string, ssa.Instruction, string) {})
	}
	return cur[id]
}

// Held reports whether the state means the lock is held.
func Held(s byte) bool { return s == LsLocked || s == LsDeferred }

// ---- roots ------------------------------------------------------------------------

// Root is an entry point: code that starts running with no lock held.
type Root struct {
	Fn   *ssa.Function
	Kind string // udp, tcp, http, launch, go, onstop, afterstop, exported, main, ctor
	Site ssa.Instruction
}

// Roots discovers the entry points of a package (short name).
func (p *Program) Roots(short string) []Root {
	var roots []Root
	seen := map[*ssa.Function]string{}
	add := func(fn *ssa.Function, kind string, site ssa.Instruction) {
		if fn == nil || !IsRepoFunc(fn) {
			return
		}
		if k, ok := seen[fn]; ok && k == kind {
			return
		}
		seen[fn] = kind
		roots = append(roots, Root{Fn: fn, Kind: kind, Site: site})
	}
	for _, fn := range p.FuncsIn(short) {
		for _, b := range fn.Blocks {
			for _, in := range b.Instrs {
				switch in := in.(type) {
				case *ssa.Go:
					add(FuncOfValue(in.Call.Value), "go", in)
				case ssa.CallInstruction:
					kind, fv := SpawnTarget(in.Common())
					if kind == "" {
						continue
					}
					k := kind
					if kind == "handle" {
						k = "http"
					}
					add(FuncOfValue(fv), k, in)
				}
			}
		}
		if fn.Parent() == nil && fn.Object() != nil && fn.Object().Exported() {
			if fn.Signature.Recv() != nil {
				// exported method on an exported or unexported type
				add(fn, "exported", nil)
			} else {
				add(fn, "exported", nil)
			}
		}
	}
	sort.SliceStable(roots, func(i, j int) bool { return roots[i].Fn.String() < roots[j].Fn.String() })
	return roots
}

// SyncReach returns the functions reachable from fn through synchronous calls
// (Call and Defer instructions, closures called directly), not through
// go/Launch/HandleFunc.
func (p *Program) SyncReach(from ...*ssa.Function) map[*ssa.Function]bool {
	seen := map[*ssa.Function]bool{}
	var walk func(fn *ssa.Function)
	walk = func(fn *ssa.Function) {
		if fn == nil || seen[fn] || !IsRepoFunc(fn) {
			return
		}
		seen[fn] = true
		for _, b := range fn.Blocks {
			for _, in := range b.Instrs {
				ci, ok := in.(ssa.CallInstruction)
				if !ok {
					continue
				}
				if _, isGo := in.(*ssa.Go); isGo {
					continue
				}
				for _, g := range p.Callees(ci) {
					walk(g)
				}
			}
		}
	}
	for _, f := range from {
		walk(f)
	}
	return seen
}

// CallSites returns the synchronous call sites of fn inside the repository.
func (p *Program) CallSites(fn *ssa.Function) []ssa.CallInstruction {
	node := p.CG.Nodes[fn]
	if node == nil {
		return nil
	}
	var out []ssa.CallInstruction
	seen := map[ssa.CallInstruction]bool{}
	for _, e := range node.In {
		if e.Site == nil || seen[e.Site] {
			continue
		}
		if _, isGo := e.Site.(*ssa.Go); isGo {
			continue
		}
		if !IsRepoFunc(e.Caller.Func) {
			continue
		}
		// A static call site resolves to exactly its callee.
		if sc := e.Site.Common().StaticCallee(); sc != nil && sc != fn {
			continue
		}
		seen[e.Site] = true
		out = append(out, e.Site)
	}
	sort.Slice(out, func(i, j int) bool { return out[i].Pos() < out[j].Pos() })
	return out
}

// ---- guarded-by -----------------------------------------------------------------

// Access is one instruction that reads or writes a class.
type Access struct {
	Fn    *ssa.Function
	Instr ssa.Instruction
	Cls   Class
	Write bool
	What  string
}

// AccessesOf lists the memory accesses of one function with refined classes.
func (p *Program) AccessesOf(fn *ssa.Function) []Access {
	if p.accesses == nil {
		p.accesses = map[*ssa.Function][]Access{}
	}
	if a, ok := p.accesses[fn]; ok {
		return a
	}
	fi := p.Info(fn)
	var out []Access
	add := func(in ssa.Instruction, c Class, w bool, what string) {
		if c.IsNil() {
			return
		}
		out = append(out, Access{Fn: fn, Instr: in, Cls: c, Write: w, What: what})
	}
	addrCls := func(a ssa.Value) Class {
		switch a.(type) {
		case *ssa.FieldAddr, *ssa.IndexAddr:
			return fi.RefClass(a)
		}
		c := fi.RefClass(a)
		return c
	}
	for _, b := range fn.Blocks {
		for _, in := range b.Instrs {
			switch in := in.(type) {
			case *ssa.UnOp:
				if in.Op == token.MUL {
					add(in, addrCls(in.X), false, "load")
				}
			case *ssa.Store:
				add(in, addrCls(in.Addr), true, "store")
			case *ssa.MapUpdate:
				add(in, fi.RefClass(in.Map).add("[]"), true, "map update")
			case *ssa.Lookup:
				add(in, fi.RefClass(in.X).add("[]"), false, "lookup")
			case *ssa.Index:
				if isRefType(in.X.Type()) {
					add(in, fi.RefClass(in.X).add("[]"), false, "index")
				}
			case *ssa.Range:
				add(in, fi.RefClass(in.X).add("[]"), false, "range")
			case ssa.CallInstruction:
				c := in.Common()
				if bi, ok := c.Value.(*ssa.Builtin); ok {
					switch bi.Name() {
					case "len", "cap":
						// len of a slice reads the (already loaded) header, len
						// of a map reads the shared map object.
						if _, isMap := c.Args[0].Type().Underlying().(*types.Map); isMap {
							add(in, fi.RefClass(c.Args[0]).add("[]"), false, bi.Name())
						}
					case "append":
						add(in, fi.RefClass(c.Args[0]).add("[]"), true, "append (may write spare capacity)")
						if len(c.Args) > 1 && isRefType(c.Args[1].Type()) {
							add(in, fi.RefClass(c.Args[1]).add("[]"), false, "append source")
						}
					case "copy":
						add(in, fi.RefClass(c.Args[0]).add("[]"), true, "copy destination")
						add(in, fi.RefClass(c.Args[1]).add("[]"), false, "copy source")
					case "delete":
						add(in, fi.RefClass(c.Args[0]).add("[]"), true, "delete")
					}
				}
			}
		}
	}
	p.accesses[fn] = out
	return out
}

// GuardSpec describes what a lock protects.
type GuardSpec struct {
	Lock   string               // e.g. GCAServer.mu
	Roots  []Class              // class prefixes it protects, e.g. {T:GCAServer}
	Exempt func(c Class) string // returns a reason if the class is not guarded
}

func classUnder(c Class, prefix Class) bool {
	if c.Root != prefix.Root || len(c.Path) < len(prefix.Path) {
		return false
	}
	for i, p := range prefix.Path {
		if c.Path[i] != p {
			return false
		}
	}
	return true
}

// GuardedFinding is a LOCK-4 result for one access.
type GuardedFinding struct {
	Access Access
	OK     bool
	Why    string
	Chain  []string
}

// CheckGuarded verifies that every access to a guarded class happens with the
// lock held on every call path from every root (DESIGN.md LOCK-4).
// construction is the set of functions that only run in the construction phase.
func (p *Program) CheckGuarded(spec GuardSpec, scope []*ssa.Function, construction map[*ssa.Function]bool) []GuardedFinding {
	var out []GuardedFinding
	type key struct {
		fn *ssa.Function
	}
	// needCache: does fn (which never touches the lock) get the lock from all its callers?
	memo := map[*ssa.Function]*struct {
		ok    bool
		why   string
		chain []string
	}{}
	var callersHold func(fn *ssa.Function, depth int) (bool, string, []string)
	callersHold = func(fn *ssa.Function, depth int) (bool, string, []string) {
		if m, ok := memo[fn]; ok {
			return m.ok, m.why, m.chain
		}
		// provisional: assume ok to cut cycles
		memo[fn] = &struct {
			ok    bool
			why   string
			chain []string
		}{true, "recursive", nil}
		res := func(ok bool, why string, chain []string) (bool, string, []string) {
			memo[fn] = &struct {
				ok    bool
				why   string
				chain []string
			}{ok, why, chain}
			return ok, why, chain
		}
		if construction[fn] {
			return res(true, "runs only in the construction phase (before the object is shared)", nil)
		}
		sites := p.CallSites(fn)
		if fn.Parent() != nil && len(sites) == 0 {
			// a closure handed to a synchronous external call (sort.Slice and the
			// like) runs inside that call
			sites = closureArgSites(fn)
		}
		if fn.Parent() != nil && len(sites) == 0 {
			// closure that is never called synchronously: it is a root
			return res(false, "closure "+FuncName(fn)+" starts with no lock held", []string{FuncName(fn)})
		}
		isRoot := false
		for _, r := range p.allRoots() {
			if r.Fn == fn && r.Kind != "exported" {
				isRoot = true
			}
		}
		if isRoot {
			return res(false, FuncName(fn)+" is an entry point that starts with no lock held", []string{FuncName(fn)})
		}
		if len(sites) == 0 {
			if fn.Object() != nil && fn.Object().Exported() {
				return res(false, "exported function "+FuncName(fn)+" can be called with no lock held", []string{FuncName(fn)})
			}
			return res(true, "no callers (dead code)", nil)
		}
		for _, site := range sites {
			caller := site.Parent()
			lf := p.LockFlowOf(caller)
			st := lf.StateAt(site, spec.Lock)
			switch {
			case Held(st):
				continue
			case st == LsInherited:
				ok, why, chain := callersHold(caller, depth+1)
				if !ok {
					return res(false, why, append(chain, FuncName(fn)+" (called at "+p.Pos(site.Pos())+")"))
				}
			default:
				return res(false, fmt.Sprintf("called from %s at %s where %s is %s", FuncName(caller), p.Pos(site.Pos()), spec.Lock, lsName(st)),
					[]string{FuncName(caller), FuncName(fn)})
			}
		}
		return res(true, "every caller holds "+spec.Lock, nil)
	}
	for _, fn := range scope {
		lf := p.LockFlowOf(fn)
		for _, a := range p.AccessesOf(fn) {
			guarded := false
			for _, r := range spec.Roots {
				if classUnder(a.Cls, r) && len(a.Cls.Path) > len(r.Path) {
					guarded = true
				}
			}
			if !guarded {
				continue
			}
			if reason := spec.Exempt(a.Cls); reason != "" {
				continue
			}
			st := lf.StateAt(a.Instr, spec.Lock)
			switch {
			case Held(st):
				out = append(out, GuardedFinding{Access: a, OK: true, Why: spec.Lock + " is " + lsName(st) + " in this function"})
			case st == LsInherited:
				ok, why, chain := callersHold(fn, 0)
				if ok {
					out = append(out, GuardedFinding{Access: a, OK: true, Why: why})
				} else {
					out = append(out, GuardedFinding{Access: a, OK: false, Why: why, Chain: chain})
				}
			default:
				if construction[fn] {
					out = append(out, GuardedFinding{Access: a, OK: true, Why: "construction phase"})
					continue
				}
				out = append(out, GuardedFinding{Access: a, OK: false, Why: spec.Lock + " is " + lsName(st) + " at this access"})
			}
		}
	}
	return out
}

func (p *Program) allRoots() []Root {
	if p.rootsAll != nil {
		return p.rootsAll
	}
	for _, s := range []string{"server", "client", "glow"} {
		p.rootsAll = append(p.rootsAll, p.Roots(s)...)
	}
	return p.rootsAll
}

// LockOrderEdges returns L1 -> L2 edges: L2 may be acquired while L1 is held.
func (p *Program) LockOrderEdges(scope []*ssa.Function) map[string][]string {
	edges := map[string]map[string]string{}
	for _, fn := range scope {
		lf := p.LockFlowOf(fn)
		if len(lf.Locks) == 0 {
			continue
		}
		for _, b := range fn.Blocks {
			for _, in := range b.Instrs {
				ci, ok := in.(ssa.CallInstruction)
				if !ok {
					continue
				}
				if _, isGo := in.(*ssa.Go); isGo {
					continue
				}
				if _, isDefer := in.(*ssa.Defer); isDefer {
					continue
				}
				var acquired []string
				if id, op, ok := LockOp(ci.Common()); ok {
					if op == "Lock" {
						acquired = []string{id}
					}
				} else {
					for _, g := range p.Callees(ci) {
						if e := p.Effect(g); e != nil {
							for l := range e.Locks {
								acquired = append(acquired, l)
							}
						}
					}
				}
				if len(acquired) == 0 {
					continue
				}
				for _, held := range lf.Locks {
					if !Held(lf.StateAt(in, held)) {
						continue
					}
					for _, a := range acquired {
						if edges[held] == nil {
							edges[held] = map[string]string{}
						}
						if _, ok := edges[held][a]; !ok {
							edges[held][a] = FuncName(fn) + " at " + p.Pos(in.Pos())
						}
					}
				}
			}
		}
	}
	out := map[string][]string{}
	for a, m := range edges {
		for b, where := range m {
			out[a] = append(out[a], b+"@"+where)
		}
		sort.Strings(out[a])
	}
	return out
}

// BlockingUnderLock lists calls that may block while lock is held.
func (p *Program) BlockingUnderLock(scope []*ssa.Function, lock string) []Access {
	var out []Access
	for _, fn := range scope {
		lf := p.LockFlowOf(fn)
		hasLock := false
		for _, l := range lf.Locks {
			if l == lock {
				hasLock = true
			}
		}
		if !hasLock {
			continue
		}
		for _, b := range fn.Blocks {
			for _, in := range b.Instrs {
				ci, ok := in.(*ssa.Call)
				if !ok {
					continue
				}
				if !Held(lf.StateAt(in, lock)) {
					continue
				}
				var why []string
				name := CalleeName(ci.Common())
				if name != "" && externalSpec(name).blocks && !IsRepoFunc(ci.Common().StaticCallee()) {
					why = append(why, name)
				}
				for _, g := range p.Callees(ci) {
					if e := p.Effect(g); e != nil {
						for bname := range e.Blocks {
							why = append(why, FuncName(g)+" -> "+bname)
						}
					}
				}
				if len(why) > 0 {
					sort.Strings(why)
					out = append(out, Access{Fn: fn, Instr: in, What: strings.Join(why, ", ")})
				}
			}
		}
	}
	return out
}

// SyncReachExcept is SyncReach that does not enter the barrier functions.
func (p *Program) SyncReachExcept(barrier map[*ssa.Function]bool, from ...*ssa.Function) map[*ssa.Function]bool {
	seen := map[*ssa.Function]bool{}
	var walk func(fn *ssa.Function)
	walk = func(fn *ssa.Function) {
		if fn == nil || seen[fn] || !IsRepoFunc(fn) || barrier[fn] {
			return
		}
		seen[fn] = true
		for _, b := range fn.Blocks {
			for _, in := range b.Instrs {
				ci, ok := in.(ssa.CallInstruction)
				if !ok {
					continue
				}
				if _, isGo := in.(*ssa.Go); isGo {
					continue
				}
				for _, g := range p.Callees(ci) {
					walk(g)
				}
			}
		}
	}
	for _, f := range from {
		walk(f)
	}
	return seen
}

// Constructor finds the function of package short that allocates and returns
// a *typ (the constructor of the shared object).
func (p *Program) Constructor(short, typ string) *ssa.Function {
	n := p.Named(short, typ)
	if n == nil {
		return nil
	}
	for _, fn := range p.FuncsIn(short) {
		if fn.Parent() != nil {
			continue
		}
		res := fn.Signature.Results()
		returns := false
		for i := 0; i < res.Len(); i++ {
			if pt, ok := res.At(i).Type().(*types.Pointer); ok && types.Identical(pt.Elem(), n) {
				returns = true
			}
		}
		if !returns {
			continue
		}
		for _, b := range fn.Blocks {
			for _, in := range b.Instrs {
				if a, ok := in.(*ssa.Alloc); ok && a.Heap {
					if types.Identical(a.Type().(*types.Pointer).Elem(), n) {
						return fn
					}
				}
			}
		}
	}
	return nil
}

// ConstructionPhase returns the functions that run only while the object is
// being constructed: reachable synchronously from the constructor and from no
// other entry point (other entry points are explored without entering the
// constructor, whose callers merely create further objects).
func (p *Program) ConstructionPhase(short string, ctor *ssa.Function) map[*ssa.Function]bool {
	if ctor == nil {
		return map[*ssa.Function]bool{}
	}
	in := p.SyncReach(ctor)
	barrier := map[*ssa.Function]bool{ctor: true}
	var others []*ssa.Function
	for _, r := range p.Roots(short) {
		if r.Fn != ctor {
			others = append(others, r.Fn)
		}
	}
	// closures spawned by anything are roots too (already in Roots); main
	// functions of the binaries call the constructor only.
	out := p.SyncReachExcept(barrier, others...)
	res := map[*ssa.Function]bool{}
	for fn := range in {
		if !out[fn] {
			res[fn] = true
		}
	}
	return res
}

// WrittenOutside returns a predicate telling whether a class may be written by
// a function outside the given set (used for the construction-only exemption).
func (p *Program) WrittenOutside(scope []*ssa.Function, construction map[*ssa.Function]bool) func(Class) (bool, string) {
	type w struct {
		c     Class
		where string
	}
	var writes []w
	for _, fn := range scope {
		if construction[fn] {
			continue
		}
		for _, a := range p.AccessesOf(fn) {
			if a.Write {
				writes = append(writes, w{a.Cls, FuncName(fn)})
			}
		}
	}
	return func(c Class) (bool, string) {
		for _, x := range writes {
			if p.WriteAffects(x.c, c) {
				return true, x.where
			}
		}
		return false, ""
	}
}

// closureArgSites returns the synchronous calls that receive closure fn as an
// argument (not go statements and not the thread-group / mux registrations).
func closureArgSites(fn *ssa.Function) []ssa.CallInstruction {
	parent := fn.Parent()
	if parent == nil {
		return nil
	}
	var out []ssa.CallInstruction
	for _, b := range parent.Blocks {
		for _, in := range b.Instrs {
			mc, ok := in.(*ssa.MakeClosure)
			if !ok || mc.Fn != fn {
				continue
			}
			refs := mc.Referrers()
			if refs == nil {
				continue
			}
			for _, r := range *refs {
				call, ok := r.(*ssa.Call)
				if !ok {
					return nil // stored, deferred, spawned ...: not a plain synchronous use
				}
				if kind, _ := SpawnTarget(&call.Call); kind != "" {
					return nil
				}
				isArg := false
				for _, a := range call.Call.Args {
					if a == mc {
						isArg = true
					}
				}
				if !isArg {
					return nil
				}
				out = append(out, call)
			}
		}
	}
	return out
}
