package an

import (
	"go/types"
	"strings"

	"golang.org/x/tools/go/ssa"
)

// A Class is an abstract memory location: a root and an access path in which
// indices and map keys are erased ("[]"). Roots:
//
//	L:<id>   a local allocation (Alloc, MakeSlice, MakeMap, fresh call result)
//	T:<Name> any object of the named struct type Name reached through a pointer
//	G:<name> a package-level variable
//	P:<i>    the referent of the i-th parameter (non-struct pointer, slice, map)
//	O:<type> an object of unknown origin
//
// Two classes may alias if their roots are compatible and one path is a prefix
// of the other (DESIGN.md 1.3).
type Class struct {
	Root string
	Path []string
}

func (c Class) String() string {
	if len(c.Path) == 0 {
		return c.Root
	}
	var sb strings.Builder
	sb.WriteString(c.Root)
	for _, p := range c.Path {
		if p == "[]" {
			sb.WriteString("[]")
		} else {
			sb.WriteString(".")
			sb.WriteString(p)
		}
	}
	return sb.String()
}

func (c Class) add(p string) Class {
	np := make([]string, len(c.Path)+1)
	copy(np, c.Path)
	np[len(c.Path)] = p
	return Class{Root: c.Root, Path: np}
}

func (c Class) IsLocal() bool  { return strings.HasPrefix(c.Root, "L:") }
func (c Class) IsOpaque() bool { return strings.HasPrefix(c.Root, "O:") }
func (c Class) IsNil() bool    { return c.Root == "nil" }

// HasField reports whether the class is a field (possibly nested) of the named
// struct type typ, and returns the first field name.
func (c Class) FieldOf(typ string) (string, bool) {
	if c.Root == "T:"+typ && len(c.Path) > 0 && c.Path[0] != "[]" {
		return c.Path[0], true
	}
	return "", false
}

func pathPrefix(a, b []string) bool {
	n := len(a)
	if len(b) < n {
		n = len(b)
	}
	for i := 0; i < n; i++ {
		if a[i] != b[i] {
			return false
		}
	}
	return true
}

// namedStruct returns the named struct type behind t (through one pointer).
func namedStruct(t types.Type) *types.Named {
	if p, ok := t.Underlying().(*types.Pointer); ok {
		t = p.Elem()
	}
	if n, ok := t.(*types.Named); ok {
		if _, ok := n.Underlying().(*types.Struct); ok {
			return n
		}
	}
	return nil
}

func shortTypeName(n *types.Named) string {
	return n.Obj().Name()
}

// containsNamed reports whether struct type outer contains a value of named
// type inner (by value, transitively through structs and arrays).
func containsNamed(outer types.Type, inner string, depth int) bool {
	if depth > 6 {
		return false
	}
	if n, ok := outer.(*types.Named); ok {
		if n.Obj().Name() == inner {
			return true
		}
	}
	switch u := outer.Underlying().(type) {
	case *types.Struct:
		for i := 0; i < u.NumFields(); i++ {
			if containsNamed(u.Field(i).Type(), inner, depth+1) {
				return true
			}
		}
	case *types.Array:
		return containsNamed(u.Elem(), inner, depth+1)
	}
	return false
}

// MayAlias is the may-alias relation on classes. allocTypes gives the
// allocated type of L: roots that had their address passed to a call.
func (fi *FuncInfo) MayAlias(a, b Class) bool {
	if a.IsNil() || b.IsNil() {
		return false
	}
	if a.Root == b.Root {
		return pathPrefix(a.Path, b.Path)
	}
	al, bl := a.IsLocal(), b.IsLocal()
	if al && bl {
		return false
	}
	if al || bl {
		l, o := a, b
		if bl {
			l, o = b, a
		}
		// A local aliases a non-local class only if its address escaped to
		// code that could reach it through that class.
		at, esc := fi.localEscapes[l.Root]
		if !esc {
			return false
		}
		if o.IsOpaque() {
			return true
		}
		if strings.HasPrefix(o.Root, "T:") && at != nil {
			return containsNamed(at, strings.TrimPrefix(o.Root, "T:"), 0)
		}
		return false
	}
	if a.IsOpaque() || b.IsOpaque() {
		return true
	}
	at, bt := strings.HasPrefix(a.Root, "T:"), strings.HasPrefix(b.Root, "T:")
	if at && bt {
		// Different named types alias only if one contains the other by value.
		an, bn := fi.P.namedByShort(strings.TrimPrefix(a.Root, "T:")), fi.P.namedByShort(strings.TrimPrefix(b.Root, "T:"))
		if an != nil && bn != nil {
			if containsNamed(an, bn.Obj().Name(), 0) || containsNamed(bn, an.Obj().Name(), 0) {
				return true
			}
		}
		return false
	}
	// P: roots and G: roots are assumed not to alias T:/G:/other P: roots
	// (trusted-base assumption, printed in the evidence).
	return false
}

func (p *Program) namedByShort(name string) *types.Named {
	for _, short := range []string{"server", "client", "glow"} {
		if n := p.Named(short, name); n != nil {
			return n
		}
	}
	return nil
}

// ObjClass returns the class of the memory object that the pointer-like value
// v (pointer, slice, map) refers to.
func (fi *FuncInfo) ObjClass(v ssa.Value) Class {
	if c, ok := fi.objClass[v]; ok {
		return c
	}
	if fi.objVisiting[v] {
		return Class{Root: "nil"}
	}
	fi.objVisiting[v] = true
	c := fi.objClass0(v)
	delete(fi.objVisiting, v)
	fi.objClass[v] = c
	return c
}

func typeRoot(t types.Type) (Class, bool) {
	if n := namedStruct(t); n != nil {
		if _, isPtr := t.Underlying().(*types.Pointer); isPtr {
			return Class{Root: "T:" + shortTypeName(n)}, true
		}
	}
	return Class{}, false
}

func isRefType(t types.Type) bool {
	switch t.Underlying().(type) {
	case *types.Pointer, *types.Slice, *types.Map, *types.Interface, *types.Chan, *types.Signature:
		return true
	}
	return false
}

func (fi *FuncInfo) objClass0(v ssa.Value) Class {
	switch v := v.(type) {
	case *ssa.Alloc:
		return Class{Root: "L:" + fi.ID(v)}
	case *ssa.MakeSlice, *ssa.MakeMap, *ssa.MakeChan:
		return Class{Root: "L:" + fi.ID(v.(ssa.Instruction))}
	case *ssa.Const:
		return Class{Root: "nil"}
	case *ssa.Global:
		return Class{Root: "G:" + v.Pkg.Pkg.Name() + "." + v.Name()}
	case *ssa.Parameter:
		if c, ok := typeRoot(v.Type()); ok {
			return c
		}
		for i, p := range fi.Fn.Params {
			if p == v {
				return Class{Root: "P:" + itoa(i)}
			}
		}
	case *ssa.FreeVar:
		// Free variables are pointers to the enclosing function's locals or
		// copies of its values.
		if p, ok := v.Type().Underlying().(*types.Pointer); ok {
			if c, ok := typeRoot(p.Elem()); ok {
				// pointer to a pointer-to-struct variable: the cell itself
				_ = c
			}
		}
		if c, ok := typeRoot(v.Type()); ok {
			return c
		}
		return Class{Root: "O:fv:" + v.Name()}
	case *ssa.FieldAddr:
		return fi.AddrClass(v)
	case *ssa.IndexAddr:
		return fi.AddrClass(v)
	case *ssa.UnOp:
		if v.Op.String() == "*" {
			if c, ok := typeRoot(v.Type()); ok {
				return c
			}
			return fi.AddrClass(v.X)
		}
	case *ssa.Lookup:
		if c, ok := typeRoot(v.Type()); ok {
			return c
		}
		return fi.ObjClass(v.X).add("[]")
	case *ssa.Index:
		if c, ok := typeRoot(v.Type()); ok {
			return c
		}
		return fi.ObjClass(v.X).add("[]")
	case *ssa.Field:
		if c, ok := typeRoot(v.Type()); ok {
			return c
		}
		return Class{Root: "O:" + v.Type().String()}
	case *ssa.Slice:
		return fi.ObjClass(v.X)
	case *ssa.ChangeType:
		return fi.ObjClass(v.X)
	case *ssa.Convert:
		// string <-> []byte conversions copy.
		return Class{Root: "L:" + fi.ID(v)}
	case *ssa.MakeInterface:
		if isRefType(v.X.Type()) {
			return fi.ObjClass(v.X)
		}
		return Class{Root: "L:" + fi.ID(v)}
	case *ssa.TypeAssert:
		return fi.ObjClass(v.X)
	case *ssa.Extract:
		switch t := v.Tuple.(type) {
		case *ssa.Next:
			if c, ok := typeRoot(v.Type()); ok {
				return c
			}
			if r, ok := t.Iter.(*ssa.Range); ok {
				return fi.ObjClass(r.X).add("[]")
			}
		case *ssa.Lookup:
			if c, ok := typeRoot(v.Type()); ok {
				return c
			}
			return fi.ObjClass(t.X).add("[]")
		case *ssa.Call:
			if c, ok := typeRoot(v.Type()); ok {
				return c
			}
			if fi.P.callReturnsFresh(&t.Call) {
				return Class{Root: "L:" + fi.ID(t) + "#" + itoa(v.Index)}
			}
		case *ssa.TypeAssert:
			return fi.ObjClass(t.X)
		}
		if c, ok := typeRoot(v.Type()); ok {
			return c
		}
	case *ssa.Call:
		if b, ok := v.Call.Value.(*ssa.Builtin); ok && b.Name() == "append" {
			c := fi.ObjClass(v.Call.Args[0])
			if c.IsNil() {
				return Class{Root: "L:" + fi.ID(v)}
			}
			return c
		}
		if c, ok := typeRoot(v.Type()); ok {
			return c
		}
		if fi.P.callReturnsFresh(&v.Call) {
			return Class{Root: "L:" + fi.ID(v)}
		}
	case *ssa.Phi:
		var res Class
		have := false
		for _, e := range v.Edges {
			c := fi.ObjClass(e)
			if c.IsNil() {
				continue
			}
			if !have {
				res, have = c, true
			} else if res.String() != c.String() {
				return Class{Root: "O:" + v.Type().String()}
			}
		}
		if have {
			return res
		}
		return Class{Root: "L:" + fi.ID(v)}
	case *ssa.MakeClosure:
		return Class{Root: "L:" + fi.ID(v)}
	case *ssa.Function:
		return Class{Root: "nil"}
	}
	if c, ok := typeRoot(v.Type()); ok {
		return c
	}
	return Class{Root: "O:" + v.Type().String()}
}

// AddrClass returns the class of the location addressed by the pointer a.
func (fi *FuncInfo) AddrClass(a ssa.Value) Class {
	switch a := a.(type) {
	case *ssa.FieldAddr:
		st := a.X.Type().Underlying().(*types.Pointer).Elem().Underlying().(*types.Struct)
		return fi.ObjClass(a.X).add(st.Field(a.Field).Name())
	case *ssa.IndexAddr:
		return fi.ObjClass(a.X).add("[]")
	}
	return fi.ObjClass(a)
}

func itoa(i int) string {
	if i == 0 {
		return "0"
	}
	neg := i < 0
	if neg {
		i = -i
	}
	var b [20]byte
	n := len(b)
	for i > 0 {
		n--
		b[n] = byte('0' + i%10)
		i /= 10
	}
	if neg {
		n--
		b[n] = '-'
	}
	return string(b[n:])
}
