package an

import (
	"go/types"
	"strings"

	"golang.org/x/tools/go/ssa"
)

// A Class is an abstract memory location: a root and an access path in which
// indices and map keys are erased ("[]"). Roots:
//
//	L:<id>   a local allocation (Alloc, MakeSlice, MakeMap, fresh call result)
//	T:<Name> any object of the named struct type Name reached through a pointer
//	G:<name> a package-level variable
//	P:<i>    the referent of the i-th parameter (non-struct pointer, slice, map)
//	O:<type> an object of unknown origin
//
// Two classes may alias if their roots are compatible and one path is a prefix
// of the other (DESIGN.md 1.3).
type Class struct {
	Root string
	Path []string
}

func (c Class) String() string {
	if len(c.Path) == 0 {
		return c.Root
	}
	var sb strings.Builder
	sb.WriteString(c.Root)
	for _, p := range c.Path {
		if p == "[]" {
			sb.WriteString("[]")
		} else {
			sb.WriteString(".")
			sb.WriteString(p)
		}
	}
	return sb.String()
}

func (c Class) add(p string) Class {
	np := make([]string, len(c.Path)+1)
	copy(np, c.Path)
	np[len(c.Path)] = p
	return Class{Root: c.Root, Path: np}
}

func (c Class) IsLocal() bool  { return strings.HasPrefix(c.Root, "L:") }
func (c Class) IsOpaque() bool { return strings.HasPrefix(c.Root, "O:") }
func (c Class) IsNil() bool    { return c.Root == "nil" }

// HasField reports whether the class is a field (possibly nested) of the named
// struct type typ, and returns the first field name.
func (c Class) FieldOf(typ string) (string, bool) {
	if c.Root == "T:"+typ && len(c.Path) > 0 && c.Path[0] != "[]" {
		return c.Path[0], true
	}
	return "", false
}

func pathPrefix(a, b []string) bool {
	n := len(a)
	if len(b) < n {
		n = len(b)
	}
	for i := 0; i < n; i++ {
		if a[i] != b[i] {
			return false
		}
	}
	return true
}

// namedStruct returns the named struct type behind t (through one pointer).
func namedStruct(t types.Type) *types.Named {
	if p, ok := t.Underlying().(*types.Pointer); ok {
		t = p.Elem()
	}
	if n, ok := t.(*types.Named); ok {
		if _, ok := n.Underlying().(*types.Struct); ok {
			return n
		}
	}
	return nil
}

func shortTypeName(n *types.Named) string {
	return n.Obj().Name()
}

// containsNamed reports whether struct type outer contains a value of named
// type inner (by value, transitively through structs and arrays).
func containsNamed(outer types.Type, inner string, depth int) bool {
	if depth > 6 {
		return false
	}
	if n, ok := outer.(*types.Named); ok {
		if n.Obj().Name() == inner {
			return true
		}
	}
	switch u := outer.Underlying().(type) {
	case *types.Struct:
		for i := 0; i < u.NumFields(); i++ {
			if containsNamed(u.Field(i).Type(), inner, depth+1) {
				return true
			}
		}
	case *types.Array:
		return containsNamed(u.Elem(), inner, depth+1)
	}
	return false
}

// MayAlias is the may-alias relation on classes. allocTypes gives the
// allocated type of L: roots that had their address passed to a call.
func (fi *FuncInfo) MayAlias(a, b Class) bool {
	if a.IsNil() || b.IsNil() {
		return false
	}
	if a.Root == b.Root {
		return pathPrefix(a.Path, b.Path)
	}
	al, bl := a.IsLocal(), b.IsLocal()
	if al && bl {
		return false
	}
	if al || bl {
		l, o := a, b
		if bl {
			l, o = b, a
		}
		// A local aliases a non-local class only if its address escaped to
		// code that could reach it through that class.
		at, esc := fi.localEscapes[l.Root]
		if !esc {
			return false
		}
		if o.IsOpaque() {
			return true
		}
		if strings.HasPrefix(o.Root, "T:") && at != nil {
			return containsNamed(at, strings.TrimPrefix(o.Root, "T:"), 0)
		}
		return false
	}
	if a.IsOpaque() || b.IsOpaque() {
		return true
	}
	at, bt := strings.HasPrefix(a.Root, "T:"), strings.HasPrefix(b.Root, "T:")
	if at && bt {
		// Different named types alias only if one contains the other by value.
		an, bn := fi.P.namedByShort(strings.TrimPrefix(a.Root, "T:")), fi.P.namedByShort(strings.TrimPrefix(b.Root, "T:"))
		if an != nil && bn != nil {
			if containsNamed(an, bn.Obj().Name(), 0) || containsNamed(bn, an.Obj().Name(), 0) {
				return true
			}
		}
		return false
	}
	// P: roots and G: roots are assumed not to alias T:/G:/other P: roots
	// (trusted-base assumption, printed in the evidence).
	return false
}

func (p *Program) namedByShort(name string) *types.Named {
	for _, short := range []string{"server", "client", "glow"} {
		if n := p.Named(short, name); n != nil {
			return n
		}
	}
	return nil
}

// ObjClass returns the class of the memory object that the pointer-like value
// v (pointer, slice, map) refers to.
func (fi *FuncInfo) ObjClass(v ssa.Value) Class {
	if c, ok := fi.objClass[v]; ok {
		return c
	}
	if fi.objVisiting[v] {
		return Class{Root: "nil"}
	}
	fi.objVisiting[v] = true
	c := fi.objClass0(v)
	delete(fi.objVisiting, v)
	fi.objClass[v] = c
	return c
}

func typeRoot(t types.Type) (Class, bool) {
	if n := namedStruct(t); n != nil {
		if _, isPtr := t.Underlying().(*types.Pointer); isPtr {
			return Class{Root: "T:" + shortTypeName(n)}, true
		}
	}
	return Class{}, false
}

func isRefType(t types.Type) bool {
	switch t.Underlying().(type) {
	case *types.Pointer, *types.Slice, *types.Map, *types.Interface, *types.Chan, *types.Signature:
		return true
	}
	return false
}

func (fi *FuncInfo) objClass0(v ssa.Value) Class {
	switch v := v.(type) {
	case *ssa.Alloc:
		return Class{Root: "L:" + fi.ID(v)}
	case *ssa.MakeSlice, *ssa.MakeMap, *ssa.MakeChan:
		return Class{Root: "L:" + fi.ID(v.(ssa.Instruction))}
	case *ssa.Const:
		return Class{Root: "nil"}
	case *ssa.Global:
		return Class{Root: "G:" + v.Pkg.Pkg.Name() + "." + v.Name()}
	case *ssa.Parameter:
		if c, ok := typeRoot(v.Type()); ok {
			return c
		}
		for i, p := range fi.Fn.Params {
			if p == v {
				return Class{Root: "P:" + itoa(i)}
			}
		}
	case *ssa.FreeVar:
		// Free variables are pointers to the enclosing function's locals or
		// copies of its values.
		if p, ok := v.Type().Underlying().(*types.Pointer); ok {
			if c, ok := typeRoot(p.Elem()); ok {
				// pointer to a pointer-to-struct variable: the cell itself
				_ = c
			}
		}
		if c, ok := typeRoot(v.Type()); ok {
			return c
		}
		return Class{Root: "O:fv:" + v.Name()}
	case *ssa.FieldAddr:
		return fi.AddrClass(v)
	case *ssa.IndexAddr:
		return fi.AddrClass(v)
	case *ssa.UnOp:
		if v.Op.String() == "*" {
			if c, ok := typeRoot(v.Type()); ok {
				return c
			}
			return fi.AddrClass(v.X)
		}
	case *ssa.Lookup:
		if c, ok := typeRoot(v.Type()); ok {
			return c
		}
		return fi.ObjClass(v.X).add("[]")
	case *ssa.Index:
		if c, ok := typeRoot(v.Type()); ok {
			return c
		}
		return fi.ObjClass(v.X).add("[]")
	case *ssa.Field:
		if c, ok := typeRoot(v.Type()); ok {
			return c
		}
		return Class{Root: "O:" + v.Type().String()}
	case *ssa.Slice:
		return fi.ObjClass(v.X)
	case *ssa.ChangeType:
		return fi.ObjClass(v.X)
	case *ssa.ChangeInterface:
		return fi.ObjClass(v.X)
	case *ssa.Convert:
		// string <-> []byte conversions copy.
		return Class{Root: "L:" + fi.ID(v)}
	case *ssa.MakeInterface:
		if isRefType(v.X.Type()) {
			return fi.ObjClass(v.X)
		}
		return Class{Root: "L:" + fi.ID(v)}
	case *ssa.TypeAssert:
		return fi.ObjClass(v.X)
	case *ssa.Extract:
		switch t := v.Tuple.(type) {
		case *ssa.Next:
			if c, ok := typeRoot(v.Type()); ok {
				return c
			}
			if r, ok := t.Iter.(*ssa.Range); ok {
				return fi.ObjClass(r.X).add("[]")
			}
		case *ssa.Lookup:
			if c, ok := typeRoot(v.Type()); ok {
				return c
			}
			return fi.ObjClass(t.X).add("[]")
		case *ssa.Call:
			if c, ok := typeRoot(v.Type()); ok {
				return c
			}
			if fi.P.callReturnsFresh(&t.Call) {
				return Class{Root: "L:" + fi.ID(t) + "#" + itoa(v.Index)}
			}
		case *ssa.TypeAssert:
			return fi.ObjClass(t.X)
		}
		if c, ok := typeRoot(v.Type()); ok {
			return c
		}
	case *ssa.Call:
		if b, ok := v.Call.Value.(*ssa.Builtin); ok && b.Name() == "append" {
			c := fi.ObjClass(v.Call.Args[0])
			if c.IsNil() {
				return Class{Root: "L:" + fi.ID(v)}
			}
			return c
		}
		// library append helpers return their first slice argument extended (like the builtin):
		// binary.LittleEndian.AppendUint16(buf, v), strconv.AppendInt(buf, ..), fmt.Appendf(buf, ..)
		if name := CalleeName(&v.Call); strings.HasPrefix(name, "(encoding/binary.") && strings.Contains(name, ").AppendUint") && len(v.Call.Args) >= 2 {
			c := fi.ObjClass(v.Call.Args[1])
			if c.IsNil() {
				return Class{Root: "L:" + fi.ID(v)}
			}
			return c
		} else if (strings.HasPrefix(name, "strconv.Append") || strings.HasPrefix(name, "fmt.Append")) && len(v.Call.Args) >= 1 {
			c := fi.ObjClass(v.Call.Args[0])
			if c.IsNil() {
				return Class{Root: "L:" + fi.ID(v)}
			}
			return c
		}
		if c, ok := typeRoot(v.Type()); ok {
			return c
		}
		if fi.P.callReturnsFresh(&v.Call) {
			return Class{Root: "L:" + fi.ID(v)}
		}
	case *ssa.Phi:
		var res Class
		have := false
		for _, e := range v.Edges {
			c := fi.ObjClass(e)
			if c.IsNil() {
				continue
			}
			if !have {
				res, have = c, true
			} else if res.String() != c.String() {
				if res.IsLocal() && c.IsLocal() {
					continue // different fresh allocations of this function: still local
				}
				return Class{Root: "O:" + v.Type().String()}
			}
		}
		if have {
			return res
		}
		return Class{Root: "L:" + fi.ID(v)}
	case *ssa.MakeClosure:
		return Class{Root: "L:" + fi.ID(v)}
	case *ssa.Function:
		return Class{Root: "nil"}
	}
	if c, ok := typeRoot(v.Type()); ok {
		return c
	}
	return Class{Root: "O:" + v.Type().String()}
}

// AddrClass returns the class of the location addressed by the pointer a.
func (fi *FuncInfo) AddrClass(a ssa.Value) Class {
	switch a := a.(type) {
	case *ssa.FieldAddr:
		st := a.X.Type().Underlying().(*types.Pointer).Elem().Underlying().(*types.Struct)
		return fi.ObjClass(a.X).add(st.Field(a.Field).Name())
	case *ssa.IndexAddr:
		return fi.ObjClass(a.X).add("[]")
	}
	return fi.ObjClass(a)
}

func itoa(i int) string {
	if i == 0 {
		return "0"
	}
	neg := i < 0
	if neg {
		i = -i
	}
	var b [20]byte
	n := len(b)
	for i > 0 {
		n--
		b[n] = byte('0' + i%10)
		i /= 10
	}
	if neg {
		n--
		b[n] = '-'
	}
	return string(b[n:])
}

// RefClass refines ObjClass/AddrClass for pointers, slices and addresses that
// were obtained through a local variable: it follows the stores that reach the
// load of the local (flow-sensitively) so that a slice header copied out of
// shared state keeps the class of the shared backing store ("origin tags",
// DESIGN.md 1.10).
func (fi *FuncInfo) RefClass(v ssa.Value) Class {
	base := fi.ObjClass(v)
	if _, isAddr := v.(*ssa.FieldAddr); isAddr {
		base = fi.AddrClass(v)
	}
	if _, isAddr := v.(*ssa.IndexAddr); isAddr {
		base = fi.AddrClass(v)
	}
	if !base.IsLocal() {
		return base
	}
	var rev []string
	cur := v
walk:
	for {
		switch x := cur.(type) {
		case *ssa.Slice:
			cur = x.X
		case *ssa.ChangeType:
			cur = x.X
		case *ssa.IndexAddr:
			rev = append(rev, "[]")
			cur = x.X
		case *ssa.FieldAddr:
			rev = append(rev, fieldName(x.X.Type(), x.Field))
			cur = x.X
		case *ssa.Index:
			rev = append(rev, "[]")
			cur = x.X
		case *ssa.Lookup:
			rev = append(rev, "[]")
			cur = x.X
		case *ssa.Field:
			rev = append(rev, fieldName(x.X.Type(), x.Field))
			cur = x.X
		default:
			break walk
		}
	}
	ld, ok := cur.(*ssa.UnOp)
	if !ok || ld.Op.String() != "*" {
		return base
	}
	lcls := fi.AddrClass(ld.X)
	if !lcls.IsLocal() {
		return base
	}
	if fi.refVisiting == nil {
		fi.refVisiting = map[ssa.Value]bool{}
	}
	if fi.refVisiting[ld] {
		return base // loop-carried value: the other reaching stores decide
	}
	fi.refVisiting[ld] = true
	defer delete(fi.refVisiting, ld)
	root, ok := fi.contentOrigin(ld, lcls, 0)
	if !ok || root.IsLocal() || root.IsNil() {
		return base
	}
	out := root
	for i := len(rev) - 1; i >= 0; i-- {
		out = out.add(rev[i])
	}
	return out
}

// contentOrigin finds the non-local class (if any) that the value loaded by ld
// from the local class lcls may refer to.
func (fi *FuncInfo) contentOrigin(ld *ssa.UnOp, lcls Class, depth int) (Class, bool) {
	if depth > 4 {
		return Class{Root: "O:deep"}, true
	}
	fi.ensureMem()
	reach := fi.ReachingAt(ld)
	var found *Class
	for d := range reach {
		if !fi.MayAlias(d.Cls, lcls) {
			continue
		}
		st, isStore := d.Instr.(*ssa.Store)
		if !isStore {
			// written by a call or builtin (copy, append in place): unknown
			// content unless it only copies values without references.
			continue
		}
		scls := fi.AddrClass(st.Addr)
		// path of the loaded location relative to the stored location
		var rel []string
		if len(lcls.Path) > len(scls.Path) {
			rel = lcls.Path[len(scls.Path):]
		}
		c := fi.valueOrigin(st.Val, rel, depth)
		if c.IsLocal() || c.IsNil() {
			continue
		}
		if found == nil {
			cc := c
			found = &cc
		} else if found.String() != c.String() {
			return Class{Root: "O:" + ld.Type().String()}, true
		}
	}
	if found == nil {
		return Class{Root: "nil"}, true
	}
	return *found, true
}

// valueOrigin returns the class referred to by component rel of value v.
func (fi *FuncInfo) valueOrigin(v ssa.Value, rel []string, depth int) Class {
	switch x := v.(type) {
	case *ssa.UnOp:
		if x.Op.String() == "*" {
			ac := fi.RefClass(x.X)
			if _, isFA := x.X.(*ssa.FieldAddr); !isFA {
				if _, isIA := x.X.(*ssa.IndexAddr); !isIA {
					ac = fi.AddrClass(x.X)
				}
			}
			if ac.IsLocal() {
				c, _ := fi.contentOrigin(x, Class{Root: ac.Root, Path: append(append([]string{}, ac.Path...), rel...)}, depth+1)
				return c
			}
			for _, r := range rel {
				ac = ac.add(r)
			}
			return ac
		}
	case *ssa.Const:
		return Class{Root: "nil"}
	case *ssa.Extract:
		if call, ok := x.Tuple.(*ssa.Call); ok {
			if fi.P.callResultFresh(&call.Call, x.Index) {
				return Class{Root: "nil"}
			}
			return Class{Root: "O:" + v.Type().String()}
		}
	case *ssa.Call:
		if fi.P.callResultFresh(&x.Call, 0) {
			return Class{Root: "nil"}
		}
		if len(rel) == 0 {
			return fi.RefClass(v)
		}
		return Class{Root: "O:" + v.Type().String()}
	case *ssa.Field:
		return fi.valueOrigin(x.X, append([]string{fieldName(x.X.Type(), x.Field)}, rel...), depth)
	case *ssa.Phi:
		var res *Class
		for _, e := range x.Edges {
			c := fi.valueOrigin(e, rel, depth+1)
			if c.IsLocal() || c.IsNil() {
				continue
			}
			if res == nil {
				cc := c
				res = &cc
			} else if res.String() != c.String() {
				return Class{Root: "O:" + v.Type().String()}
			}
		}
		if res == nil {
			return Class{Root: "nil"}
		}
		return *res
	}
	if len(rel) == 0 && isRefType(v.Type()) {
		return fi.RefClass(v)
	}
	if !typeHasRefs(v.Type(), 0) {
		return Class{Root: "nil"}
	}
	return Class{Root: "O:" + v.Type().String()}
}

// typeHasRefs reports whether values of type t contain pointers, slices, maps
// or other references (so that copying the value can create an alias).
func typeHasRefs(t types.Type, depth int) bool {
	if depth > 6 {
		return true
	}
	switch u := t.Underlying().(type) {
	case *types.Basic:
		return u.Kind() == types.UnsafePointer
	case *types.Struct:
		for i := 0; i < u.NumFields(); i++ {
			if typeHasRefs(u.Field(i).Type(), depth+1) {
				return true
			}
		}
		return false
	case *types.Array:
		return typeHasRefs(u.Elem(), depth+1)
	}
	return true
}

// callResultFresh reports whether result i of the call is freshly allocated
// (deeply: it does not reference shared storage).
func (p *Program) callResultFresh(c *ssa.CallCommon, i int) bool {
	if sc := c.StaticCallee(); sc != nil && IsRepoFunc(sc) {
		e := p.effects[sc]
		return e != nil && i < len(e.Fresh) && e.Fresh[i]
	}
	name := CalleeName(c)
	if name == "" {
		return false
	}
	return externalSpec(name).fresh
}

// pathCrossings walks a T:-rooted class from its named struct type and
// reports, for every path component, whether consuming it goes through a
// reference (pointer, slice or map): the storage after a crossing is a
// different object from the one that holds the reference.
func (p *Program) pathCrossings(c Class) ([]bool, bool) {
	if !strings.HasPrefix(c.Root, "T:") {
		return nil, false
	}
	n := p.namedByShort(strings.TrimPrefix(c.Root, "T:"))
	if n == nil {
		return nil, false
	}
	var t types.Type = n
	out := make([]bool, len(c.Path))
	for i, comp := range c.Path {
		crossed := false
		// dereference pointers implicitly
		for {
			if pt, ok := t.Underlying().(*types.Pointer); ok {
				t = pt.Elem()
				crossed = true
				continue
			}
			break
		}
		switch u := t.Underlying().(type) {
		case *types.Struct:
			if comp == "[]" {
				return nil, false
			}
			found := false
			for k := 0; k < u.NumFields(); k++ {
				if u.Field(k).Name() == comp {
					t = u.Field(k).Type()
					found = true
					break
				}
			}
			if !found {
				return nil, false
			}
		case *types.Array:
			if comp != "[]" {
				return nil, false
			}
			t = u.Elem()
		case *types.Slice:
			if comp != "[]" {
				return nil, false
			}
			t = u.Elem()
			crossed = true
		case *types.Map:
			if comp != "[]" {
				return nil, false
			}
			t = u.Elem()
			crossed = true
		default:
			return nil, false
		}
		out[i] = crossed
	}
	return out, true
}

// WriteAffects reports whether a write to class w can change what a read of
// class c observes (both are prefix related): the longer path's extra
// components must be stored inline, not behind a reference.
func (p *Program) WriteAffects(w, c Class) bool {
	if w.Root != c.Root || !pathPrefix(w.Path, c.Path) {
		return false
	}
	long, short := c, w
	if len(w.Path) > len(c.Path) {
		long, short = w, c
	}
	cross, ok := p.pathCrossings(long)
	if !ok {
		return true
	}
	for i := len(short.Path); i < len(long.Path); i++ {
		if cross[i] {
			return false
		}
	}
	return true
}
