package an

import (
	"go/types"
	"sort"
	"strings"

	"golang.org/x/tools/go/ssa"
)

// Effect is the bottom-up summary of what a function may do (DESIGN.md 1.3).
type Effect struct {
	Writes   map[string]Class       // non-local classes that may be written
	Locks    map[string]bool        // abstract locks that may be acquired
	Blocks   map[string]bool        // blocking operations that may be performed (callee names)
	FileOps  map[string]bool        // file-system mutating externals that may be called
	Nondet   bool                   // may read a clock, randomness, the network or the file system
	Panics   bool                   // contains an explicit panic or Fatal call (transitively)
	Fresh    []bool                 // result i is freshly allocated on every return
	Spawns   map[*ssa.Function]bool // functions started asynchronously (go, tg.Launch, AfterFunc)
	Callees  map[*ssa.Function]bool // synchronous repository callees (transitive)
	ExtCalls map[string]bool        // external callees (transitive, by name)
}

func newEffect() *Effect {
	return &Effect{Writes: map[string]Class{}, Locks: map[string]bool{}, Blocks: map[string]bool{},
		FileOps: map[string]bool{}, Spawns: map[*ssa.Function]bool{}, Callees: map[*ssa.Function]bool{}, ExtCalls: map[string]bool{}}
}

func (e *Effect) size() int {
	n := len(e.Writes) + len(e.Locks) + len(e.Blocks) + len(e.FileOps) + len(e.Spawns) + len(e.Callees) + len(e.ExtCalls)
	if e.Nondet {
		n++
	}
	if e.Panics {
		n++
	}
	for _, f := range e.Fresh {
		if f {
			n++
		}
	}
	return n
}

// WritesSorted lists the written classes.
func (e *Effect) WritesSorted() []string {
	var out []string
	for k := range e.Writes {
		out = append(out, k)
	}
	sort.Strings(out)
	return out
}

// Pure reports whether the function has no externally visible effect and a
// deterministic result (given its arguments and the memory it reads).
func (e *Effect) Pure() bool {
	return len(e.Writes) == 0 && len(e.Locks) == 0 && len(e.Blocks) == 0 && len(e.FileOps) == 0 && !e.Nondet && len(e.Spawns) == 0
}

// ---- external function tables -------------------------------------------------

// CalleeName returns a printable, type-resolved name of the callee of a call:
// "pkg.Func", "(*pkg.T).Method", "(pkg.I).Method" for interface calls,
// "builtin.len" for builtins, "" for calls of function values.
func CalleeName(c *ssa.CallCommon) string {
	if c.IsInvoke() {
		return "(" + types.TypeString(c.Value.Type(), nil) + ")." + c.Method.Name()
	}
	switch v := c.Value.(type) {
	case *ssa.Builtin:
		return "builtin." + v.Name()
	case *ssa.Function:
		return v.String()
	case *ssa.MakeClosure:
		return v.Fn.String()
	}
	return ""
}

type extSpec struct {
	writes  []int // argument indices (in ssa Args order, receiver first) whose referents are written; nil = none
	all     bool  // writes every reference argument (default for unknown externals)
	blocks  bool
	fileOp  bool
	nondet  bool
	fresh   bool // results are freshly allocated
	noPanic bool
}

// readOnlyPkgs lists external packages whose functions never write through
// their arguments unless listed in extWriters. The classification was done by
// reading the godoc of every external function the repository calls.
var readOnlyPkgs = []string{
	"fmt.", "errors.", "strconv.", "strings.", "bytes.", "encoding/hex.", "time.", "math.", "math/big.", "math/rand.",
	"path/filepath.", "path.", "os.", "io/ioutil.", "io.", "io/fs.", "net.", "net/http.", "net/url.", "encoding/json.",
	"encoding/binary.", "encoding/csv.", "crypto/rand.", "sort.", "sync.", "sync/atomic.", "archive/zip.", "log.", "bufio.",
	"runtime.", "context.", "os/signal.", "syscall.", "unicode", "reflect.",
	"github.com/ethereum/go-ethereum/crypto.", "github.com/ethereum/go-ethereum/common.", "github.com/glowlabs-org/threadgroup.",
}

// extWriters: external functions that write through an argument.
var extWriters = map[string][]int{
	"(encoding/binary.littleEndian).PutUint16": {1},
	"(encoding/binary.littleEndian).PutUint32": {1},
	"(encoding/binary.littleEndian).PutUint64": {1},
	"(encoding/binary.bigEndian).PutUint16":    {1},
	"(encoding/binary.bigEndian).PutUint32":    {1},
	"(encoding/binary.bigEndian).PutUint64":    {1},
	"encoding/binary.Read":                     {0, 2},
	"encoding/binary.Write":                    {0},
	"io.ReadFull":                              {0, 1},
	"io.ReadAll":                               {0},
	"io.Copy":                                  {0, 1},
	"(*os.File).Read":                          {1},
	"(*os.File).ReadAt":                        {1},
	"(io.Reader).Read":                         {0, 1},
	"(net.Conn).Read":                          {1},
	"(*net.UDPConn).ReadFromUDP":               {1},
	"(*encoding/json.Decoder).Decode":          {0, 1},
	"encoding/json.Unmarshal":                  {1},
	"crypto/rand.Read":                         {0},
	"sort.Slice":                               {0},
	"sync/atomic.StoreUint32":                  {0},
	"sync/atomic.StoreUint64":                  {0},
	"sync/atomic.AddUint64":                    {0},
	"(*sync/atomic.Bool).Store":                {0},
	"(*bytes.Buffer).Write":                    {0},
	"(*bytes.Buffer).WriteByte":                {0},
	"(*bytes.Buffer).WriteString":              {0},
	"(*bytes.Buffer).Next":                     {0},
	"(*bytes.Reader).Read":                     {0, 1},
	"(*bytes.Reader).ReadByte":                 {0},
	"(*strings.Builder).WriteString":           {0},
	"(*bufio.Scanner).Scan":                    {0},
	"(*encoding/csv.Reader).Read":              {0},
	"(net/http.Header).Set":                    {0},
	"(*net/http.Request).SetBasicAuth":         {0},
	"(net/url.Values).Add":                     {0},
	"(*archive/zip.Writer).CreateHeader":       {0},
	"(*archive/zip.Writer).Close":              {0},
	"(io.Writer).Write":                        {0},
	"(net/http.ResponseWriter).Write":          {0},
	"runtime.Stack":                            {0},
	"(*math/big.Int).SetBytes":                 {0},
}

var extBlocking = map[string]bool{
	"net.Dial": true, "io.ReadFull": true, "(net.Conn).Read": true, "(net.Conn).Write": true,
	"(net.Listener).Accept": true, "(*net.UDPConn).ReadFromUDP": true,
	"net/http.Post": true, "net/http.Get": true, "(*net/http.Client).Do": true,
	"time.Sleep": true, "(*github.com/glowlabs-org/threadgroup.ThreadGroup).Sleep": true,
	"(*github.com/glowlabs-org/threadgroup.ThreadGroup).Stop": true,
	"(*net/http.Server).Serve":                                true, "(*net/http.Server).Shutdown": true,
	"io.ReadAll": true, "io.Copy": true,
	// the reply to an HTTP client: it blocks for as long as the peer does not read (the server sets no write timeout)
	"(net/http.ResponseWriter).Write": true, "net/http.Error": true, "(*encoding/json.Encoder).Encode": true,
}

var extFileOps = map[string]bool{
	"os.Create": true, "os.OpenFile": true, "os.WriteFile": true, "io/ioutil.WriteFile": true,
	"(*os.File).Write": true, "(*os.File).WriteAt": true, "(*os.File).WriteString": true, "(*os.File).Truncate": true,
	"os.Remove": true, "os.Rename": true, "os.MkdirAll": true, "os.RemoveAll": true, "os.Truncate": true,
}

var extNondetPrefixes = []string{
	"time.Now", "time.Since", "crypto/rand.", "math/rand.", "os.", "io/ioutil.", "net.", "net/http.", "(net.", "(*net", "(*os.File)",
	"io.ReadFull", "io.ReadAll", "io.Copy", "sync/atomic.Load", "runtime.", "(*github.com/glowlabs-org/threadgroup",
	"github.com/ethereum/go-ethereum/crypto.GenerateKey", "(io.Reader)", "(*encoding/json.Decoder)", "(*encoding/json.Encoder)", "os/signal.",
}

var extFreshResults = []string{
	"os.ReadFile", "io/ioutil.ReadFile", "io.ReadAll", "encoding/hex.DecodeString", "encoding/json.Marshal", "fmt.", "errors.",
	"strconv.", "strings.", "(*bytes.Buffer).Bytes", "(*bytes.Buffer).Next", "(*encoding/csv.Reader).Read", "(*bufio.Scanner).Text",
	"github.com/ethereum/go-ethereum/crypto.", "(github.com/ethereum/go-ethereum/common.Hash).Bytes", "math/big.", "crypto/rand.Int",
	"net.", "os.", "bytes.New", "time.", "net/http.", "net/url.", "encoding/csv.NewReader", "bufio.NewScanner", "archive/zip.",
}

func probe0(name string) string { return strings.TrimLeft(name, "(*") }

func externalSpec(name string) extSpec {
	var s extSpec
	if w, ok := extWriters[name]; ok {
		s.writes = w
	} else {
		ro := false
		probe := strings.TrimLeft(name, "(*")
		for _, p := range readOnlyPkgs {
			if strings.HasPrefix(probe, p) {
				ro = true
				break
			}
		}
		if !ro {
			s.all = true
		}
	}
	s.blocks = extBlocking[name]
	s.fileOp = extFileOps[name]
	for _, p := range extNondetPrefixes {
		if strings.HasPrefix(name, p) {
			s.nondet = true
		}
	}
	for _, p := range extFreshResults {
		if strings.HasPrefix(name, p) || strings.HasPrefix(probe0(name), strings.TrimLeft(p, "(*")) {
			s.fresh = true
		}
	}
	return s
}

// ---- lock identification -------------------------------------------------------

// LockOp classifies a call as Lock/Unlock on an abstract lock. The lock id is
// "<StructType>.<field>" of the struct that holds the mutex field.
func LockOp(c *ssa.CallCommon) (id string, op string, ok bool) {
	fn, isFn := c.Value.(*ssa.Function)
	if !isFn || c.IsInvoke() {
		return "", "", false
	}
	switch fn.String() {
	case "(*sync.Mutex).Lock", "(*sync.RWMutex).Lock":
		op = "Lock"
	case "(*sync.Mutex).Unlock", "(*sync.RWMutex).Unlock":
		op = "Unlock"
	default:
		return "", "", false
	}
	if len(c.Args) == 0 {
		return "", "", false
	}
	fa, isFA := c.Args[0].(*ssa.FieldAddr)
	if !isFA {
		return "?", op, true
	}
	st := fa.X.Type().Underlying().(*types.Pointer).Elem()
	name := "?"
	if n, ok := st.(*types.Named); ok {
		name = n.Obj().Name()
	}
	fld := st.Underlying().(*types.Struct).Field(fa.Field).Name()
	return name + "." + fld, op, true
}

// ---- computation ------------------------------------------------------------------

// IsRepoFunc reports whether fn belongs to the repository under analysis and
// has a body.
func IsRepoFunc(fn *ssa.Function) bool {
	return fn != nil && fn.Blocks != nil && fn.Pkg != nil && strings.HasPrefix(fn.Pkg.Pkg.Path(), ModulePath)
}

// SpawnTarget resolves the function started asynchronously by a call to
// tg.Launch / tg.AfterFunc, or registered with tg.OnStop / tg.AfterStop /
// mux.HandleFunc. kind is "launch", "onstop", "afterstop", "handle" or "".
func SpawnTarget(c *ssa.CallCommon) (kind string, fn ssa.Value) {
	name := CalleeName(c)
	switch name {
	case "(*github.com/glowlabs-org/threadgroup.ThreadGroup).Launch":
		return "launch", c.Args[1]
	case "(*github.com/glowlabs-org/threadgroup.ThreadGroup).AfterFunc":
		return "launch", c.Args[2]
	case "(*github.com/glowlabs-org/threadgroup.ThreadGroup).OnStop":
		return "onstop", c.Args[1]
	case "(*github.com/glowlabs-org/threadgroup.ThreadGroup).AfterStop":
		return "afterstop", c.Args[1]
	case "(*net/http.ServeMux).HandleFunc":
		return "handle", c.Args[2]
	}
	return "", nil
}

// FuncOfValue resolves a function value (closure, function, bound method) to
// the SSA function that runs.
func FuncOfValue(v ssa.Value) *ssa.Function {
	switch v := v.(type) {
	case *ssa.Function:
		return v
	case *ssa.MakeClosure:
		fn, _ := v.Fn.(*ssa.Function)
		if fn != nil && fn.Synthetic != "" && strings.Contains(fn.Synthetic, "bound method") {
			// bound method wrapper: find the single static call inside
			for _, b := range fn.Blocks {
				for _, in := range b.Instrs {
					if c, ok := in.(ssa.CallInstruction); ok {
						if sc := c.Common().StaticCallee(); sc != nil {
							return sc
						}
					}
				}
			}
		}
		return fn
	case *ssa.ChangeType:
		return FuncOfValue(v.X)
	}
	return nil
}

// Callees returns the possible callees of a call instruction: the static
// callee if there is one, otherwise the call graph's answer.
func (p *Program) Callees(site ssa.CallInstruction) []*ssa.Function {
	c := site.Common()
	if sc := c.StaticCallee(); sc != nil {
		return []*ssa.Function{sc}
	}
	if _, ok := c.Value.(*ssa.Builtin); ok {
		return nil
	}
	node := p.CG.Nodes[site.Parent()]
	if node == nil {
		return nil
	}
	var out []*ssa.Function
	seen := map[*ssa.Function]bool{}
	for _, e := range node.Out {
		if e.Site == site && e.Callee != nil && !seen[e.Callee.Func] {
			seen[e.Callee.Func] = true
			out = append(out, e.Callee.Func)
		}
	}
	sort.Slice(out, func(i, j int) bool { return out[i].String() < out[j].String() })
	return out
}

func (p *Program) callReturnsFresh(c *ssa.CallCommon) bool {
	if sc := c.StaticCallee(); sc != nil {
		if IsRepoFunc(sc) {
			e := p.effects[sc]
			if e == nil || len(e.Fresh) == 0 {
				return false
			}
			for _, f := range e.Fresh {
				if !f {
					return false
				}
			}
			return true
		}
	}
	name := CalleeName(c)
	if name == "" {
		return false
	}
	return externalSpec(name).fresh
}

// Effects computes (once) the effect summaries of every repository function.
func (p *Program) Effects() {
	if len(p.effects) > 0 {
		return
	}
	for _, fn := range p.srcFuncs {
		p.effects[fn] = newEffect()
	}
	for iter := 0; iter < 40; iter++ {
		changed := false
		for _, fn := range p.srcFuncs {
			before := p.effects[fn].size()
			// Class computation depends on callee freshness, so recompute.
			fi := p.newFuncInfoLite(fn)
			p.effectOf(fi, p.effects[fn])
			if p.effects[fn].size() != before {
				changed = true
			}
		}
		if !changed {
			break
		}
	}
}

// Effect returns the summary of fn (nil for external functions).
func (p *Program) Effect(fn *ssa.Function) *Effect {
	p.Effects()
	return p.effects[fn]
}

// CallWrites lists the non-local classes (in the caller's terms) that a call
// instruction may write, and the blocking / locking behaviour of its callees.
func (fi *FuncInfo) CallWrites(site ssa.CallInstruction) (writes []Class) {
	c := site.Common()
	if b, ok := c.Value.(*ssa.Builtin); ok {
		switch b.Name() {
		case "append":
			return []Class{fi.ObjClass(c.Args[0]).add("[]")}
		case "copy":
			return []Class{fi.ObjClass(c.Args[0]).add("[]")}
		case "delete":
			return []Class{fi.ObjClass(c.Args[0]).add("[]")}
		}
		return nil
	}
	if id, _, ok := LockOp(c); ok {
		// Acquiring or releasing a lock lets other goroutines change
		// everything the lock protects: treat it as a write to the whole
		// object (this is what makes facts from an earlier critical
		// section unusable in a later one).
		typ := strings.SplitN(id, ".", 2)[0]
		return []Class{{Root: "T:" + typ}}
	}
	callees := fi.P.Callees(site)
	args := c.Args
	if c.IsInvoke() {
		args = append([]ssa.Value{c.Value}, c.Args...)
	}
	handledRepo := false
	for _, g := range callees {
		if !IsRepoFunc(g) {
			continue
		}
		handledRepo = true
		e := fi.P.effects[g]
		if e == nil {
			continue
		}
		for _, w := range e.Writes {
			if strings.HasPrefix(w.Root, "P:") {
				idx := atoi(strings.TrimPrefix(w.Root, "P:"))
				if idx < len(args) {
					base := fi.ObjClass(args[idx])
					nc := Class{Root: base.Root, Path: append(append([]string{}, base.Path...), w.Path...)}
					writes = append(writes, nc)
				}
				continue
			}
			writes = append(writes, w)
		}
	}
	if !handledRepo || len(callees) == 0 || !c.IsInvoke() && c.StaticCallee() == nil {
		// external or unresolved
		name := CalleeName(c)
		spec := externalSpec(name)
		if name == "" && len(callees) == 0 {
			spec.all = true
		}
		if len(callees) > 0 && !handledRepo {
			// resolved to external implementations only
			if c.IsInvoke() {
				spec = externalSpec(name)
			}
		}
		if spec.all {
			for _, a := range args {
				if isRefType(a.Type()) {
					writes = append(writes, fi.ObjClass(a))
				}
			}
		} else {
			for _, i := range spec.writes {
				if i < len(args) && isRefType(args[i].Type()) {
					writes = append(writes, fi.ObjClass(args[i]))
				}
			}
		}
	}
	return writes
}

func atoi(s string) int {
	n := 0
	for _, c := range s {
		if c < '0' || c > '9' {
			break
		}
		n = n*10 + int(c-'0')
	}
	return n
}

func (p *Program) effectOf(fi *FuncInfo, e *Effect) {
	fn := fi.Fn
	addWrite := func(c Class) {
		if c.IsLocal() || c.IsNil() {
			return
		}
		e.Writes[c.String()] = c
	}
	for _, b := range fn.Blocks {
		for _, in := range b.Instrs {
			switch in := in.(type) {
			case *ssa.Store:
				addWrite(fi.AddrClass(in.Addr))
			case *ssa.MapUpdate:
				addWrite(fi.ObjClass(in.Map).add("[]"))
			case *ssa.Panic:
				e.Panics = true
			case *ssa.Go:
				for _, g := range p.Callees(in) {
					e.Spawns[g] = true
				}
				if g := FuncOfValue(in.Call.Value); g != nil {
					e.Spawns[g] = true
				}
			case ssa.CallInstruction: // *ssa.Call, *ssa.Defer
				c := in.Common()
				if kind, fv := SpawnTarget(c); kind != "" {
					if g := FuncOfValue(fv); g != nil {
						e.Spawns[g] = true
					}
				}
				if id, op, ok := LockOp(c); ok {
					if op == "Lock" {
						e.Locks[id] = true
					}
				}
				for _, w := range fi.CallWrites(in) {
					// lock pseudo-writes are not real writes
					if _, _, isLock := LockOp(c); isLock {
						continue
					}
					addWrite(w)
				}
				name := CalleeName(c)
				if name != "" && !strings.HasPrefix(name, "builtin.") {
					if sc := c.StaticCallee(); sc == nil || !IsRepoFunc(sc) {
						spec := externalSpec(name)
						e.ExtCalls[name] = true
						if spec.blocks {
							e.Blocks[name] = true
						}
						if spec.fileOp {
							e.FileOps[name] = true
						}
						if spec.nondet {
							e.Nondet = true
						}
					}
				}
				if strings.HasSuffix(name, ".Logger).Fatal") || strings.HasSuffix(name, ".Logger).Fatalf") {
					e.Panics = true
				}
				for _, g := range p.Callees(in) {
					if !IsRepoFunc(g) {
						continue
					}
					ge := p.effects[g]
					if ge == nil {
						continue
					}
					e.Callees[g] = true
					for k := range ge.Callees {
						e.Callees[k] = true
					}
					for k := range ge.Locks {
						e.Locks[k] = true
					}
					for k := range ge.Blocks {
						e.Blocks[k] = true
					}
					for k := range ge.FileOps {
						e.FileOps[k] = true
					}
					for k := range ge.ExtCalls {
						e.ExtCalls[k] = true
					}
					for k := range ge.Spawns {
						e.Spawns[k] = true
					}
					if ge.Nondet {
						e.Nondet = true
					}
					if ge.Panics {
						e.Panics = true
					}
				}
			}
		}
	}
	// Freshness of results.
	nres := fn.Signature.Results().Len()
	if len(e.Fresh) != nres {
		e.Fresh = make([]bool, nres)
	}
	for i := 0; i < nres; i++ {
		if !typeHasRefs(fn.Signature.Results().At(i).Type(), 0) {
			e.Fresh[i] = true
			continue
		}
		fresh := true
		found := false
		for _, b := range fn.Blocks {
			if len(b.Instrs) == 0 {
				continue
			}
			ret, ok := b.Instrs[len(b.Instrs)-1].(*ssa.Return)
			if !ok || i >= len(ret.Results) {
				continue
			}
			found = true
			if !fi.valueFresh(ret.Results[i], 0) {
				fresh = false
			}
		}
		e.Fresh[i] = fresh && found
	}
}

// valueFresh reports whether v references only storage allocated by this
// function (deeply, for struct values assembled in a local).
func (fi *FuncInfo) valueFresh(v ssa.Value, depth int) bool {
	if depth > 4 {
		return false
	}
	if !typeHasRefs(v.Type(), 0) {
		return true
	}
	if isRefType(v.Type()) {
		if types.IsInterface(v.Type()) {
			if mi, ok := v.(*ssa.MakeInterface); ok {
				return fi.valueFresh(mi.X, depth+1)
			}
			if c, ok := v.(*ssa.Const); ok && c.Value == nil {
				return true
			}
			// error values and the like: treated as fresh (they are never
			// written through)
			return true
		}
		c := fi.ObjClass(v)
		return c.IsLocal() || c.IsNil()
	}
	// struct or array value containing references
	switch x := v.(type) {
	case *ssa.Const:
		return true
	case *ssa.UnOp:
		if x.Op.String() == "*" {
			ac := fi.AddrClass(x.X)
			if !ac.IsLocal() {
				return false
			}
			if fi.freshVisiting == nil {
				fi.freshVisiting = map[string]bool{}
			}
			if fi.freshVisiting[ac.Root] {
				return true // copying a local onto itself
			}
			fi.freshVisiting[ac.Root] = true
			defer delete(fi.freshVisiting, ac.Root)
			// every store into that local must store fresh values
			for _, b := range fi.Fn.Blocks {
				for _, in := range b.Instrs {
					st, ok := in.(*ssa.Store)
					if !ok {
						continue
					}
					sc := fi.AddrClass(st.Addr)
					if sc.Root != ac.Root {
						continue
					}
					if !fi.valueFresh(st.Val, depth+1) {
						return false
					}
				}
			}
			return true
		}
	case *ssa.Call:
		return fi.P.callResultFresh(&x.Call, 0)
	case *ssa.Extract:
		if call, ok := x.Tuple.(*ssa.Call); ok {
			return fi.P.callResultFresh(&call.Call, x.Index)
		}
	case *ssa.Phi:
		for _, e := range x.Edges {
			if !fi.valueFresh(e, depth+1) {
				return false
			}
		}
		return true
	}
	return false
}

// SpawnArg returns the closure (if any) registered or started by a spawn site.
func SpawnArg(site ssa.Instruction) (*ssa.MakeClosure, bool) {
	ci, ok := site.(ssa.CallInstruction)
	if !ok {
		return nil, false
	}
	if g, isGo := site.(*ssa.Go); isGo {
		mc, ok := g.Call.Value.(*ssa.MakeClosure)
		return mc, ok
	}
	_, fv := SpawnTarget(ci.Common())
	mc, ok := fv.(*ssa.MakeClosure)
	return mc, ok
}

// ResolveFreeVar maps a value used inside closure mc.Fn (a free variable, or a
// load of a by-reference free variable) to the value it has in the enclosing
// function: the binding itself, or the single value stored into the captured
// variable. Values that are not free variables are returned unchanged.
func ResolveFreeVar(v ssa.Value, mc *ssa.MakeClosure) ssa.Value {
	if mc == nil {
		return v
	}
	fn, _ := mc.Fn.(*ssa.Function)
	if fn == nil {
		return v
	}
	idxOf := func(fv *ssa.FreeVar) int {
		for i, f := range fn.FreeVars {
			if f == fv {
				return i
			}
		}
		return -1
	}
	switch x := v.(type) {
	case *ssa.FreeVar:
		if i := idxOf(x); i >= 0 {
			return mc.Bindings[i]
		}
	case *ssa.UnOp:
		if fv, ok := x.X.(*ssa.FreeVar); ok && x.Op.String() == "*" {
			i := idxOf(fv)
			if i < 0 {
				return nil
			}
			al, ok := mc.Bindings[i].(*ssa.Alloc)
			if !ok {
				return nil
			}
			var stored ssa.Value
			n := 0
			if refs := al.Referrers(); refs != nil {
				for _, r := range *refs {
					if st, ok := r.(*ssa.Store); ok && st.Addr == al {
						stored = st.Val
						n++
					}
				}
			}
			if n == 1 {
				return stored
			}
			return nil
		}
	case *ssa.ChangeInterface:
		return ResolveFreeVar(x.X, mc)
	case *ssa.MakeInterface:
		return ResolveFreeVar(x.X, mc)
	}
	return v
}
