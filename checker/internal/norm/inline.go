// Package norm produces a semantically equivalent normal form of the repository's source: every unexported function
// or method that is called from exactly one place (and is never used as a value) is inlined at that place and removed.
//
// The checks decide their properties on the program as written. When a check does not succeed there, the driver
// decides it again on this normal form: extracting a sequence of statements into a helper that only one function
// calls (or the reverse) does not change the normal form, so rules that enumerate "the statements of the saver" see
// the same statements again. The transformation is source to source (go/ast + go/types, result handed to go/packages
// as an overlay and type-checked again); nothing is executed.
//
// Shape of an inlined call  a, err := recv.g(x, y) :
//
//	var __in7_0 *T = recv; var __in7_1 X = x; var __in7_2 Y = y   // evaluated once, in call order
//	var __out7_0 A; var __out7_1 error
//	__inl7:
//	switch {
//	default:
//		r, p, q := __in7_0, __in7_1, __in7_2                     // the callee's own parameter names
//		... body of g, every `return e1, e2` replaced by { __out7_0, __out7_1 = e1, e2; break __inl7 } ...
//		break __inl7
//	}
//	a, err := __out7_0, __out7_1
//
// A callee is left alone if it defers, recovers, uses labels or goto, is variadic or generic, or if its single call
// is not in one of the supported positions (statement, assignment, if-initialiser, simple if-condition, return).
package norm

import (
	"bytes"
	"fmt"
	"go/ast"
	"go/format"
	"go/parser"
	"go/printer"
	"go/token"
	"go/types"
	"os"
	"path/filepath"
	"sort"
	"strings"

	"golang.org/x/tools/go/ast/astutil"
	"golang.org/x/tools/go/packages"
)

// Result is the normal form as an overlay (absolute file name -> contents) and a log of what was inlined.
type Result struct {
	done    map[string]bool
	Overlay map[string][]byte
	Inlined []string // "pkg.callee -> caller (file:line)"
	Skipped []string
}

type edit struct {
	start, end int // byte offsets in the file
	text       string
}

// Cand is a function that the normal form would inline: its single caller and itself.
type Cand struct {
	Callee string   // types.Func.FullName
	Caller string   // FullName-style name of the function that contains the call ("" for package-level code)
	Files  []string // base names of the files of the helper's declaration and of the call
}

// dryRun, when set, records candidates instead of editing.
var dryRun *[]Cand

// Candidates lists the functions that Inline would inline in its first round (leaf helpers) together with the helpers
// that become inlinable in later rounds.
func Candidates(dir string, env []string, buildFlags []string, modulePath string, patterns ...string) ([]Cand, error) {
	var out []Cand
	dryRun = &out
	defer func() { dryRun = nil }()
	_, err := Inline(dir, env, buildFlags, modulePath, patterns...)
	return out, err
}

// KeepDecls keeps the declarations of inlined functions (validation aid: test files that call them still compile).
var KeepDecls = false

// Only, when non-nil, restricts inlining to the functions whose full name (types.Func.FullName) it accepts.
var Only func(fullName string) bool

// Inline computes the normal form of the packages patterns of the module in dir.
func Inline(dir string, env []string, buildFlags []string, modulePath string, patterns ...string) (*Result, error) {
	res := &Result{Overlay: map[string][]byte{}, done: map[string]bool{}}
	counter := 0
	pendingImports = map[string]map[string]string{}
	for round := 0; round < 8; round++ {
		fset := token.NewFileSet()
		cfg := &packages.Config{
			Mode:       packages.NeedName | packages.NeedFiles | packages.NeedCompiledGoFiles | packages.NeedSyntax | packages.NeedTypes | packages.NeedTypesInfo | packages.NeedImports,
			Dir:        dir,
			Env:        env,
			Fset:       fset,
			BuildFlags: buildFlags,
			Overlay:    res.Overlay,
		}
		pkgs, err := packages.Load(cfg, patterns...)
		if err != nil {
			return nil, err
		}
		for _, p := range pkgs {
			for _, e := range p.Errors {
				return nil, fmt.Errorf("normal form round %d: %s: %v", round, p.PkgPath, e)
			}
		}
		edits := map[string][]edit{}
		n := 0
		// the name under which each file's package knows its imports (local name -> path), for fixing imports of files
		// that receive or lose code
		importNames := map[string]map[string]string{} // directory -> name -> path
		for _, p := range pkgs {
			if !strings.HasPrefix(p.PkgPath, modulePath) {
				continue
			}
			for _, f := range p.Syntax {
				dirOf := filepath.Dir(fset.File(f.Pos()).Name())
				if importNames[dirOf] == nil {
					importNames[dirOf] = map[string]string{}
				}
				for _, im := range f.Imports {
					path := strings.Trim(im.Path.Value, `"`)
					name := ""
					if im.Name != nil {
						name = im.Name.Name
					} else if ip := p.Imports[path]; ip != nil {
						name = ip.Name
					}
					if name != "" && name != "_" && name != "." {
						importNames[dirOf][name] = path
					}
				}
			}
			n += inlinePackage(p, fset, res, edits, &counter)
		}
		if n == 0 {
			break
		}
		for dir, m := range pendingImports {
			if importNames[dir] == nil {
				importNames[dir] = map[string]string{}
			}
			for n, pth := range m {
				if _, have := importNames[dir][n]; !have {
					importNames[dir][n] = pth
				}
			}
		}
		for file, es := range edits {
			src, ok := res.Overlay[file]
			if !ok {
				b, err := os.ReadFile(file)
				if err != nil {
					return nil, err
				}
				src = b
			}
			sort.Slice(es, func(i, j int) bool { return es[i].start > es[j].start })
			out := append([]byte{}, src...)
			for _, e := range es {
				out = append(append(append([]byte{}, out[:e.start]...), []byte(e.text)...), out[e.end:]...)
			}
			fixed, err := fixImports(file, out, importNames)
			if err != nil {
				return nil, fmt.Errorf("normal form: %s does not parse after inlining: %v", file, err)
			}
			res.Overlay[file] = fixed
		}
	}
	return res, nil
}

type candidate struct {
	decl *ast.FuncDecl
	obj  *types.Func
	file *ast.File
	// the call being inlined (one of sites), with its enclosing nodes and file
	call  *ast.CallExpr
	stack []ast.Node
	cfile *ast.File
	sites []site
	lit   *ast.FuncLit // the literal, for an immediately invoked function literal (no declaration to remove)
}

type site struct {
	call  *ast.CallExpr
	stack []ast.Node
	cfile *ast.File
}

// pendingImports: packages that inlined declarations need and that no file of the directory imports yet (dir -> name -> path)
var pendingImports = map[string]map[string]string{}

// MaxSites is the largest number of call sites a helper may have to be inlined (at each of them).
const MaxSites = 3

func inlinePackage(p *packages.Package, fset *token.FileSet, res *Result, edits map[string][]edit, counter *int) int {
	info := p.TypesInfo
	decls := map[*types.Func]*candidate{}
	for _, f := range p.Syntax {
		for _, d := range f.Decls {
			fd, ok := d.(*ast.FuncDecl)
			if !ok || fd.Body == nil || fd.Name.IsExported() || fd.Name.Name == "init" || fd.Name.Name == "main" || fd.Name.Name == "_" {
				continue
			}
			obj, ok := info.Defs[fd.Name].(*types.Func)
			if !ok {
				continue
			}
			decls[obj] = &candidate{decl: fd, obj: obj, file: f}
		}
	}
	calls := map[*types.Func]int{}
	values := map[*types.Func]int{}
	litOf := map[*ast.FuncLit]*candidate{}
	for _, f := range p.Syntax {
		var stack []ast.Node
		ast.Inspect(f, func(n ast.Node) bool {
			if n == nil {
				stack = stack[:len(stack)-1]
				return true
			}
			stack = append(stack, n)
			// an immediately invoked function literal (found := func() bool { ... }()) is a helper with one call site
			if ce, isCall := n.(*ast.CallExpr); isCall {
				if lit, isLit := astutil.Unparen(ce.Fun).(*ast.FuncLit); isLit {
					if sig, ok := info.TypeOf(lit).(*types.Signature); ok && p.Types != nil {
						pos := fset.Position(lit.Pos())
						name := fmt.Sprintf("lit@%s:%d", filepath.Base(pos.Filename), pos.Line)
						obj := types.NewFunc(lit.Pos(), p.Types, name, sig)
						fd := &ast.FuncDecl{Name: ast.NewIdent(name), Type: lit.Type, Body: lit.Body}
						lc := &candidate{decl: fd, obj: obj, file: f, lit: lit}
						lc.sites = append(lc.sites, site{ce, append([]ast.Node{}, stack...), f})
						decls[obj] = lc
						calls[obj] = 1
						litOf[lit] = lc
					}
				}
			}
			id, ok := n.(*ast.Ident)
			if !ok {
				return true
			}
			obj, ok := info.Uses[id].(*types.Func)
			if !ok {
				return true
			}
			c := decls[obj]
			if c == nil {
				return true
			}
			// is this identifier the function of a call?
			var call *ast.CallExpr
			k := len(stack) - 2
			if k >= 0 {
				if sel, ok := stack[k].(*ast.SelectorExpr); ok && sel.Sel == id {
					k--
				}
			}
			if k >= 0 {
				if ce, ok := stack[k].(*ast.CallExpr); ok {
					fun := ast.Expr(id)
					if k+1 < len(stack)-1 {
						fun = stack[k+1].(ast.Expr)
					}
					if ce.Fun == fun {
						call = ce
					}
				}
			}
			if call == nil {
				values[obj]++
				return true
			}
			calls[obj]++
			c.sites = append(c.sites, site{call, append([]ast.Node{}, stack[:k+1]...), f})
			return true
		})
	}
	// candidates: few calls, no value use (done as it was when the round began: a helper inlined in this round still
	// counts as a candidate for its callers, whose bodies are being edited and so must wait for the next round)
	doneBefore := map[string]bool{}
	for k, v := range res.done {
		doneBefore[k] = v
	}
	isCand := func(c *candidate) bool {
		return calls[c.obj] >= 1 && calls[c.obj] <= MaxSites && values[c.obj] == 0 && len(c.sites) == calls[c.obj] && !doneBefore[c.obj.FullName()] &&
			(Only == nil || Only(c.obj.FullName()))
	}
	n := 0
	var names []*candidate
	for _, c := range decls {
		if isCand(c) && (Only == nil || Only(c.obj.FullName())) {
			names = append(names, c)
		}
	}
	sort.Slice(names, func(i, j int) bool { return names[i].decl.Pos() < names[j].decl.Pos() })
	usedStmt := map[ast.Node]bool{}
	if dryRun != nil {
		for _, c := range names {
			bad := false
			for _, st := range c.sites {
				c.call, c.stack, c.cfile = st.call, st.stack, st.cfile
				why := calleeObstacle(c, info, decls, isCand)
				if why != "" && why != "calls another candidate (next round)" {
					bad = true
				}
			}
			if bad {
				continue
			}
			for _, st := range c.sites {
				caller := ""
				for _, n := range st.stack {
					if fd, ok := n.(*ast.FuncDecl); ok {
						if o, ok := info.Defs[fd.Name].(*types.Func); ok {
							caller = o.FullName()
						}
					}
				}
				*dryRun = append(*dryRun, Cand{Callee: c.obj.FullName(), Caller: caller, Files: []string{
					filepath.Base(filepath.Dir(fset.File(c.decl.Pos()).Name())) + "/" + filepath.Base(fset.File(c.decl.Pos()).Name()),
					filepath.Base(filepath.Dir(fset.File(st.call.Pos()).Name())) + "/" + filepath.Base(fset.File(st.call.Pos()).Name())}})
			}
		}
		return 0
	}
	for _, c := range names {
		why := ""
		for _, st := range c.sites {
			c.call, c.stack, c.cfile = st.call, st.stack, st.cfile
			if w := calleeObstacle(c, info, decls, isCand); w != "" {
				why = w
			}
		}
		if why != "" {
			res.Skipped = append(res.Skipped, fmt.Sprintf("%s.%s: %s", p.Name, c.obj.Name(), why))
			continue
		}
		// every call site must be inlinable: the edits are committed only if all succeed
		trial := map[string][]edit{}
		trialUsed := map[ast.Node]bool{}
		for k := range usedStmt {
			trialUsed[k] = true
		}
		okAll := true
		var where []string
		for i, st := range c.sites {
			c.call, c.stack, c.cfile = st.call, st.stack, st.cfile
			*counter++
			ok, w := inlineOne(c, p, fset, trial, *counter, trialUsed, i == len(c.sites)-1 && c.lit == nil)
			if !ok {
				okAll, why = false, w
				break
			}
			where = append(where, fset.Position(st.call.Pos()).String())
		}
		if !okAll {
			res.Skipped = append(res.Skipped, fmt.Sprintf("%s.%s: %s", p.Name, c.obj.Name(), why))
			continue
		}
		for f, es := range trial {
			edits[f] = append(edits[f], es...)
		}
		for k := range trialUsed {
			usedStmt[k] = true
		}
		n++
		res.done[c.obj.FullName()] = true
		res.Inlined = append(res.Inlined, fmt.Sprintf("%s.%s at %s", p.Name, c.obj.FullName(), strings.Join(where, ", ")))
	}
	return n
}

// calleeObstacle says why the callee cannot be inlined (in this round), or "".
func calleeObstacle(c *candidate, info *types.Info, decls map[*types.Func]*candidate, isCand func(*candidate) bool) string {
	sig := c.obj.Type().(*types.Signature)
	if sig.Variadic() {
		return "variadic"
	}
	if sig.TypeParams() != nil || sig.RecvTypeParams() != nil {
		return "generic"
	}
	why := ""
	var inspect func(n ast.Node, top bool)
	ast.Inspect(c.decl.Body, func(n ast.Node) bool {
		switch x := n.(type) {
		case *ast.DeferStmt:
			if w := deferObstacle(c.decl.Body); w != "" {
				why = w
			}
		case *ast.BranchStmt:
			// labels of the body (also those of helpers already inlined into it) are renamed per call site by
			// rewriteBody; a goto is not supported
			if x.Tok == token.GOTO {
				why = "goto"
			}
		case *ast.CallExpr:
			if id, ok := x.Fun.(*ast.Ident); ok && id.Name == "recover" {
				why = "recover"
			}
			if lit, isLit := astutil.Unparen(x.Fun).(*ast.FuncLit); isLit {
				for _, d := range decls {
					if d.lit == lit && d != c && isCand(d) {
						why = "calls another candidate (next round)"
					}
				}
			}
			// leaf first: calls of other candidates are inlined in an earlier round
			var fid *ast.Ident
			switch f := x.Fun.(type) {
			case *ast.Ident:
				fid = f
			case *ast.SelectorExpr:
				fid = f.Sel
			}
			if fid != nil {
				if obj, ok := info.Uses[fid].(*types.Func); ok {
					if obj == c.obj {
						why = "recursive"
					} else if d := decls[obj]; d != nil && isCand(d) {
						why = "calls another candidate (next round)"
					}
				}
			}
		}
		return true
	})
	_ = inspect
	if why != "" {
		return why
	}
	// the call must not be inside the callee, a go or a defer statement
	for _, n := range c.stack {
		switch x := n.(type) {
		case *ast.GoStmt:
			if x.Call == c.call {
				return "called by go"
			}
		case *ast.DeferStmt:
			if x.Call == c.call {
				return "called by defer"
			}
		case *ast.FuncDecl:
			if x == c.decl {
				return "recursive"
			}
		}
	}
	for _, a := range c.call.Args {
		if t, ok := info.TypeOf(a).(*types.Tuple); ok && t.Len() > 1 {
			return "multi-value argument"
		}
	}
	// no capture: a name the body uses for something declared outside it (a package-level object, an import, a
	// universe name) must mean the same thing at the call site (path := path.Join(..) in the caller shadows the import)
	if pkg := c.obj.Pkg(); pkg != nil {
		inner := pkg.Scope().Innermost(c.call.Pos())
		captured := ""
		ast.Inspect(c.decl.Body, func(n ast.Node) bool {
			id, ok := n.(*ast.Ident)
			if !ok || captured != "" {
				return true
			}
			obj := info.Uses[id]
			if obj == nil {
				return true
			}
			if obj.Pos().IsValid() && obj.Pos() >= c.decl.Pos() && obj.Pos() <= c.decl.End() {
				return true // declared by the callee itself (parameters, results, locals)
			}
			if _, isField := obj.(*types.Var); isField && obj.(*types.Var).IsField() {
				return true
			}
			if obj.Parent() == nil {
				return true // methods and fields are found through their receiver
			}
			if inner == nil {
				return true
			}
			_, at := inner.LookupParent(id.Name, c.call.Pos())
			switch {
			case at == obj:
			case at == nil:
				// an import of another file: fixed by fixImports
			default:
				pa, okA := at.(*types.PkgName)
				pb, okB := obj.(*types.PkgName)
				if !(okA && okB && pa.Imported() == pb.Imported()) {
					captured = id.Name
				}
			}
			return true
		})
		if captured != "" {
			return "the name " + captured + " means something else at the call site"
		}
	}
	return ""
}

func inlineOne(c *candidate, p *packages.Package, fset *token.FileSet, edits map[string][]edit, id int, usedStmt map[ast.Node]bool, removeDecl bool) (bool, string) {
	info := p.TypesInfo
	sig := c.obj.Type().(*types.Signature)
	// the statement that contains the call
	var stmt ast.Stmt
	si := -1
	for i := len(c.stack) - 1; i >= 0; i-- {
		if s, ok := c.stack[i].(ast.Stmt); ok {
			stmt, si = s, i
			break
		}
	}
	if stmt == nil {
		return false, "call outside a statement"
	}
	// an initialiser of an if: the if statement is replaced
	target := ast.Node(stmt)
	mode := ""
	switch s := stmt.(type) {
	case *ast.ExprStmt:
		if s.X == ast.Expr(c.call) {
			mode = "expr"
		}
	case *ast.AssignStmt:
		if len(s.Rhs) == 1 && s.Rhs[0] == ast.Expr(c.call) && (s.Tok == token.DEFINE || s.Tok == token.ASSIGN) {
			mode = "assign"
		}
	case *ast.ReturnStmt:
		if len(s.Results) == 1 && s.Results[0] == ast.Expr(c.call) {
			mode = "return"
		}
	case *ast.IfStmt:
		// call inside the condition
		if s.Init == nil && simpleCondWith(s.Cond, c.call) {
			mode = "cond"
		}
	}
	if mode == "" {
		// nested in the expression of a simple statement (i += f(x); g(f(x)); return g(f(x))): the call is hoisted in
		// front of the statement when it is the first call the statement evaluates and is evaluated unconditionally
		switch stmt.(type) {
		case *ast.ExprStmt, *ast.AssignStmt, *ast.ReturnStmt:
			if hoistable(stmt, c.call, c.stack[si:], info) {
				mode = "nested"
			}
		}
	}
	if mode == "" {
		return false, "call position not supported"
	}
	if mode == "nested" {
		if si == 0 {
			return false, "no enclosing node"
		}
		switch c.stack[si-1].(type) {
		case *ast.BlockStmt, *ast.CaseClause, *ast.CommClause:
		default:
			return false, "statement position not supported"
		}
	}
	if mode == "expr" || mode == "assign" {
		// statement of a block / case list, or initialiser of an if
		if si == 0 {
			return false, "no enclosing node"
		}
		switch par := c.stack[si-1].(type) {
		case *ast.BlockStmt, *ast.CaseClause, *ast.CommClause:
		case *ast.IfStmt:
			if par.Init != stmt {
				return false, "statement position not supported"
			}
			target = par
			mode = "ifinit:" + mode
		default:
			return false, "statement position not supported"
		}
	}
	if usedStmt[target] {
		return false, "another call is inlined into the same statement in this round"
	}
	// no edit may overlap the callee's own declaration (call inside a function that is removed in this round)
	qual := func(pk *types.Package) string {
		if pk == p.Types {
			return ""
		}
		// the name the caller's file uses for this import
		for _, im := range c.cfile.Imports {
			if strings.Trim(im.Path.Value, `"`) == pk.Path() {
				if im.Name != nil {
					return im.Name.Name
				}
				return pk.Name()
			}
		}
		// not imported in the caller's file (io/fs behind os.FileInfo): imported under its own name when that name is
		// free at the call site
		if inner := p.Types.Scope().Innermost(c.call.Pos()); inner != nil {
			if _, at := inner.LookupParent(pk.Name(), c.call.Pos()); at == nil {
				dir := filepath.Dir(fset.File(c.cfile.Pos()).Name())
				if pendingImports[dir] == nil {
					pendingImports[dir] = map[string]string{}
				}
				if have, ok := pendingImports[dir][pk.Name()]; !ok || have == pk.Path() {
					pendingImports[dir][pk.Name()] = pk.Path()
					return pk.Name()
				}
			}
		}
		return "\x00" + pk.Path()
	}
	ts := func(t types.Type) string { return types.TypeString(t, qual) }
	var b bytes.Buffer
	src := func(n ast.Node) string {
		var sb bytes.Buffer
		printer.Fprint(&sb, fset, n)
		return sb.String()
	}
	in := func(k int) string { return fmt.Sprintf("__in%d_%d", id, k) }
	out := func(k int) string { return fmt.Sprintf("__out%d_%d", id, k) }
	label := fmt.Sprintf("__inl%d", id)
	// receiver and arguments
	var inNames, calleeNames []string
	k := 0
	if recv := sig.Recv(); recv != nil {
		sel, ok := c.call.Fun.(*ast.SelectorExpr)
		if !ok {
			return false, "method value call"
		}
		if s := info.Selections[sel]; s == nil || len(s.Index()) != 1 {
			return false, "promoted method"
		}
		x := src(sel.X)
		_, wantPtr := recv.Type().Underlying().(*types.Pointer)
		_, havePtr := info.TypeOf(sel.X).Underlying().(*types.Pointer)
		switch {
		case wantPtr && !havePtr:
			x = "&(" + x + ")"
		case !wantPtr && havePtr:
			x = "*(" + x + ")"
		}
		fmt.Fprintf(&b, "var %s %s = %s\n", in(k), ts(recv.Type()), x)
		inNames = append(inNames, in(k))
		name := "_"
		if c.decl.Recv != nil && len(c.decl.Recv.List) == 1 && len(c.decl.Recv.List[0].Names) == 1 {
			name = c.decl.Recv.List[0].Names[0].Name
		}
		calleeNames = append(calleeNames, name)
		k++
	}
	if len(c.call.Args) != sig.Params().Len() {
		return false, "argument count"
	}
	for i, a := range c.call.Args {
		fmt.Fprintf(&b, "var %s %s = %s\n", in(k), ts(sig.Params().At(i).Type()), src(a))
		inNames = append(inNames, in(k))
		name := sig.Params().At(i).Name()
		if name == "" {
			name = "_"
		}
		calleeNames = append(calleeNames, name)
		k++
	}
	nres := sig.Results().Len()
	var outNames []string
	for i := 0; i < nres; i++ {
		fmt.Fprintf(&b, "var %s %s\n", out(i), ts(sig.Results().At(i).Type()))
		outNames = append(outNames, out(i))
	}
	if strings.Contains(b.String(), "\x00") {
		return false, "a parameter or result type is not importable in the caller's file"
	}
	for _, nme := range inNames {
		fmt.Fprintf(&b, "_ = %s\n", nme)
	}
	fmt.Fprintf(&b, "%s:\nswitch {\ndefault:\n", label)
	// bind the callee's parameter names
	var lhs, rhs []string
	for i, nme := range calleeNames {
		if nme != "_" {
			lhs = append(lhs, nme)
			rhs = append(rhs, inNames[i])
		}
	}
	if len(lhs) > 0 {
		fmt.Fprintf(&b, "%s := %s\n", strings.Join(lhs, ", "), strings.Join(rhs, ", "))
		fmt.Fprintf(&b, "%s = %s\n", strings.Repeat("_, ", len(lhs)-1)+"_", strings.Join(lhs, ", "))
	}
	// named results are ordinary variables of the body
	var named []string
	for i := 0; i < nres; i++ {
		if nme := sig.Results().At(i).Name(); nme != "" && nme != "_" {
			fmt.Fprintf(&b, "var %s %s\n_ = %s\n", nme, ts(sig.Results().At(i).Type()), nme)
			named = append(named, nme)
		} else if nme == "_" {
			named = append(named, "")
		}
	}
	if len(named) != 0 && len(named) != nres {
		return false, "partly named results"
	}
	body, err := rewriteBody(src(c.decl.Body), outNames, named, label)
	if err != nil {
		return false, "body: " + err.Error()
	}
	b.WriteString(body)
	fmt.Fprintf(&b, "\nbreak %s\n}\n", label)
	prelude := b.String()
	outs := strings.Join(outNames, ", ")
	blanks := ""
	if nres > 0 {
		blanks = strings.Repeat("_, ", nres-1) + "_ = " + outs + "\n"
	}
	var text string
	switch mode {
	case "expr":
		text = prelude + blanks
	case "assign":
		s := stmt.(*ast.AssignStmt)
		var l []string
		for _, e := range s.Lhs {
			l = append(l, src(e))
		}
		text = prelude + strings.Join(l, ", ") + " " + s.Tok.String() + " " + outs + "\n"
	case "return":
		text = prelude + "return " + outs + "\n"
	case "nested":
		if nres != 1 {
			return false, "nested call with several results"
		}
		stText := src(stmt)
		callText := src(c.call)
		if strings.Count(stText, callText) != 1 {
			return false, "statement text not unique"
		}
		text = prelude + strings.Replace(stText, callText, outNames[0], 1) + "\n"
	case "cond":
		s := stmt.(*ast.IfStmt)
		if nres != 1 {
			return false, "condition call with several results"
		}
		ifText := src(s)
		callText := src(c.call)
		if strings.Count(ifText, callText) != 1 {
			return false, "condition text not unique"
		}
		text = "{\n" + prelude + strings.Replace(ifText, callText, outNames[0], 1) + "\n}\n"
	case "ifinit:expr", "ifinit:assign":
		par := target.(*ast.IfStmt)
		ifText := src(par)
		initText := src(par.Init)
		if strings.Count(ifText, initText) < 1 || !strings.HasPrefix(ifText, "if "+initText) {
			return false, "if initialiser text not found"
		}
		newInit := ""
		if mode == "ifinit:assign" {
			s := stmt.(*ast.AssignStmt)
			var l []string
			for _, e := range s.Lhs {
				l = append(l, src(e))
			}
			newInit = strings.Join(l, ", ") + " " + s.Tok.String() + " " + outs
		} else {
			newInit = ""
			prelude += blanks
		}
		rest := strings.TrimPrefix(ifText, "if "+initText)
		rest = strings.TrimPrefix(rest, ";")
		if newInit != "" {
			text = "{\n" + prelude + "if " + newInit + ";" + rest + "\n}\n"
		} else {
			text = "{\n" + prelude + "if " + rest + "\n}\n"
		}
	}
	usedStmt[target] = true
	cf := fset.File(target.Pos())
	fileName := cf.Name()
	edits[fileName] = append(edits[fileName], edit{cf.Offset(target.Pos()), cf.Offset(target.End()), text})
	if KeepDecls || !removeDecl {
		return true, ""
	}
	// remove the callee
	df := fset.File(c.decl.Pos())
	start := c.decl.Pos()
	if c.decl.Doc != nil {
		start = c.decl.Doc.Pos()
	}
	edits[df.Name()] = append(edits[df.Name()], edit{df.Offset(start), df.Offset(c.decl.End()), ""})
	return true, ""
}

// hoistable: call, nested in stmt (path is the chain of nodes from stmt down to call), can be evaluated in front of the
// statement: no other call, receive or function literal comes lexically before it in the statement (Go evaluates calls
// and receives in lexical order; conversions and len/cap are not calls), it is not under the right operand of && or ||,
// and the statement does not declare what the call reads.
func hoistable(stmt ast.Stmt, call *ast.CallExpr, path []ast.Node, info *types.Info) bool {
	for i, n := range path {
		switch x := n.(type) {
		case *ast.BinaryExpr:
			if (x.Op == token.LAND || x.Op == token.LOR) && i+1 < len(path) && path[i+1] == ast.Node(x.Y) {
				return false
			}
		case *ast.FuncLit:
			return false
		}
	}
	ok := true
	ast.Inspect(stmt, func(n ast.Node) bool {
		if n == nil || !ok {
			return false
		}
		if n.Pos() >= call.Pos() && n.End() <= call.End() {
			return false // the call itself and its arguments
		}
		switch x := n.(type) {
		case *ast.FuncLit:
			ok = false
		case *ast.UnaryExpr:
			if x.Op == token.ARROW && x.Pos() < call.Pos() {
				ok = false
			}
		case *ast.CallExpr:
			if x.Pos() <= call.Pos() && x.End() >= call.End() {
				return true // an enclosing call: evaluated after its arguments
			}
			if x.Pos() < call.Pos() {
				if tv, have := info.Types[x.Fun]; have && tv.IsType() {
					return true
				}
				if id, isId := x.Fun.(*ast.Ident); isId {
					if _, isB := info.Uses[id].(*types.Builtin); isB && (id.Name == "len" || id.Name == "cap") {
						return true
					}
				}
				ok = false
			}
		}
		return true
	})
	return ok
}

// fixImports adds the imports that moved code needs (by the names the package's files use for them) and drops the
// imports that are no longer used.
func fixImports(file string, src []byte, importNames map[string]map[string]string) ([]byte, error) {
	fset := token.NewFileSet()
	f, err := parser.ParseFile(fset, file, src, parser.ParseComments)
	if err != nil {
		return nil, err
	}
	names := importNames[filepath.Dir(file)]
	used := map[string]bool{}
	ast.Inspect(f, func(n ast.Node) bool {
		if sel, ok := n.(*ast.SelectorExpr); ok {
			if id, ok := sel.X.(*ast.Ident); ok && id.Obj == nil {
				used[id.Name] = true
			}
		}
		return true
	})
	have := map[string]bool{}
	for _, im := range f.Imports {
		path := strings.Trim(im.Path.Value, `"`)
		name := ""
		if im.Name != nil {
			name = im.Name.Name
		} else {
			for n, pth := range names {
				if pth == path {
					name = n
				}
			}
			if name == "" {
				name = path[strings.LastIndex(path, "/")+1:]
			}
		}
		if name == "_" || name == "." {
			continue
		}
		if !used[name] {
			if im.Name != nil {
				astutil.DeleteNamedImport(fset, f, im.Name.Name, path)
			} else {
				astutil.DeleteImport(fset, f, path)
			}
			continue
		}
		have[name] = true
	}
	var need []string
	for n := range used {
		if !have[n] && names[n] != "" {
			need = append(need, n)
		}
	}
	sort.Strings(need)
	for _, n := range need {
		path := names[n]
		if path[strings.LastIndex(path, "/")+1:] == n {
			astutil.AddImport(fset, f, path)
		} else {
			astutil.AddNamedImport(fset, f, n, path)
		}
	}
	var out bytes.Buffer
	if err := format.Node(&out, fset, f); err != nil {
		return nil, err
	}
	return out.Bytes(), nil
}

// simpleCondWith: cond is call, !call, or call <op> <operand without calls>.
func simpleCondWith(cond ast.Expr, call *ast.CallExpr) bool {
	switch x := cond.(type) {
	case *ast.CallExpr:
		return x == call
	case *ast.ParenExpr:
		return simpleCondWith(x.X, call)
	case *ast.UnaryExpr:
		return x.Op == token.NOT && simpleCondWith(x.X, call)
	case *ast.BinaryExpr:
		if x.X == ast.Expr(call) {
			hasCall := false
			ast.Inspect(x.Y, func(n ast.Node) bool {
				if _, ok := n.(*ast.CallExpr); ok {
					hasCall = true
				}
				return true
			})
			return !hasCall && x.Op != token.LAND && x.Op != token.LOR
		}
	}
	return false
}

// rewriteBody parses the text of a function body and replaces its return statements (not those of nested function
// literals) by assignments to the result variables and a break out of the inlined block. A defer statement at the top
// level of the body splits it: what follows the defer runs in a nested block, and the deferred call is made when that
// block is left (its operands must not be reassigned in between, see deferObstacle).
func rewriteBody(bodyText string, outs []string, named []string, label string) (string, error) {
	fset := token.NewFileSet()
	f, err := parser.ParseFile(fset, "body.go", "package p\nfunc _() "+bodyText, parser.ParseComments)
	if err != nil {
		return "", err
	}
	fd := f.Decls[0].(*ast.FuncDecl)
	// labels are function-scoped: the body's own labels get a name that is unique to this call site
	ownLabels := map[string]bool{}
	ast.Inspect(fd.Body, func(n ast.Node) bool {
		if ls, ok := n.(*ast.LabeledStmt); ok {
			ownLabels[ls.Label.Name] = true
		}
		return true
	})
	if len(ownLabels) > 0 {
		ast.Inspect(fd.Body, func(n ast.Node) bool {
			switch x := n.(type) {
			case *ast.LabeledStmt:
				x.Label.Name = x.Label.Name + "_" + label
			case *ast.BranchStmt:
				if x.Label != nil && ownLabels[x.Label.Name] {
					x.Label.Name = x.Label.Name + "_" + label
				}
			}
			return true
		})
	}
	var visit func(s ast.Stmt, label string) ast.Stmt
	rewrite := func(list []ast.Stmt, label string) []ast.Stmt {
		for i, s := range list {
			list[i] = visit(s, label)
		}
		return list
	}
	visit = func(s ast.Stmt, label string) ast.Stmt {
		mkBreak := func() ast.Stmt { return &ast.BranchStmt{Tok: token.BREAK, Label: ast.NewIdent(label)} }
		switch x := s.(type) {
		case *ast.ReturnStmt:
			var stmts []ast.Stmt
			var lhs []ast.Expr
			for _, o := range outs {
				lhs = append(lhs, ast.NewIdent(o))
			}
			switch {
			case len(outs) == 0:
			case len(x.Results) > 0:
				stmts = append(stmts, &ast.AssignStmt{Lhs: lhs, Tok: token.ASSIGN, Rhs: x.Results})
			default:
				// bare return: the named results
				var rhs []ast.Expr
				for i, nme := range named {
					if nme == "" {
						rhs = append(rhs, ast.NewIdent(outs[i]))
					} else {
						rhs = append(rhs, ast.NewIdent(nme))
					}
				}
				stmts = append(stmts, &ast.AssignStmt{Lhs: lhs, Tok: token.ASSIGN, Rhs: rhs})
			}
			stmts = append(stmts, mkBreak())
			return &ast.BlockStmt{List: stmts}
		case *ast.BlockStmt:
			x.List = rewrite(x.List, label)
		case *ast.IfStmt:
			x.Body.List = rewrite(x.Body.List, label)
			if x.Else != nil {
				x.Else = visit(x.Else, label)
			}
		case *ast.ForStmt:
			x.Body.List = rewrite(x.Body.List, label)
		case *ast.RangeStmt:
			x.Body.List = rewrite(x.Body.List, label)
		case *ast.SwitchStmt:
			x.Body.List = rewrite(x.Body.List, label)
		case *ast.TypeSwitchStmt:
			x.Body.List = rewrite(x.Body.List, label)
		case *ast.SelectStmt:
			x.Body.List = rewrite(x.Body.List, label)
		case *ast.CaseClause:
			x.Body = rewrite(x.Body, label)
		case *ast.CommClause:
			x.Body = rewrite(x.Body, label)
		case *ast.LabeledStmt:
			x.Stmt = visit(x.Stmt, label)
		}
		return s
	}
	var emit func(list []ast.Stmt, label string, depth int) (string, error)
	emit = func(list []ast.Stmt, label string, depth int) (string, error) {
		var sb bytes.Buffer
		for i, s := range list {
			if d, ok := s.(*ast.DeferStmt); ok {
				inner := fmt.Sprintf("%s_d%d", label, depth+1)
				rest, err := emit(list[i+1:], inner, depth+1)
				if err != nil {
					return "", err
				}
				var cb bytes.Buffer
				if err := printer.Fprint(&cb, fset, d.Call); err != nil {
					return "", err
				}
				fmt.Fprintf(&sb, "%s:\nswitch {\ndefault:\n%s\nbreak %s\n}\n%s\nbreak %s\n", inner, rest, inner, cb.String(), label)
				return sb.String(), nil
			}
			s = visit(s, label)
			if err := printer.Fprint(&sb, fset, s); err != nil {
				return "", err
			}
			sb.WriteString("\n")
		}
		return sb.String(), nil
	}
	return emit(fd.Body.List, label, 0)
}

// deferObstacle: the defers of a callee can be reproduced at the exits of the inlined block if they are direct
// statements of the body (not nested in a branch or loop), call a plain function or method (no function literal), and
// their operands are variables that are not assigned after the defer statement.
func deferObstacle(body *ast.BlockStmt) string {
	top := map[*ast.DeferStmt]int{}
	for i, s := range body.List {
		if d, ok := s.(*ast.DeferStmt); ok {
			top[d] = i
		}
	}
	why := ""
	ast.Inspect(body, func(n ast.Node) bool {
		if _, ok := n.(*ast.FuncLit); ok {
			return false
		}
		d, ok := n.(*ast.DeferStmt)
		if !ok {
			return true
		}
		idx, isTop := top[d]
		if !isTop {
			why = "defer inside a branch or loop"
			return true
		}
		if _, isLit := d.Call.Fun.(*ast.FuncLit); isLit {
			why = "deferred function literal"
			return true
		}
		// operands: identifiers (and selector chains); collect the identifiers
		used := map[string]bool{}
		okOperands := true
		var collect func(e ast.Expr)
		collect = func(e ast.Expr) {
			switch x := e.(type) {
			case *ast.Ident:
				used[x.Name] = true
			case *ast.SelectorExpr:
				collect(x.X)
			case *ast.BasicLit:
			case *ast.UnaryExpr:
				if x.Op == token.AND {
					collect(x.X)
				} else {
					okOperands = false
				}
			default:
				okOperands = false
			}
		}
		if sel, ok := d.Call.Fun.(*ast.SelectorExpr); ok {
			collect(sel.X)
		}
		for _, a := range d.Call.Args {
			collect(a)
		}
		if !okOperands {
			why = "deferred call with computed operands"
			return true
		}
		for _, s := range body.List[idx+1:] {
			ast.Inspect(s, func(m ast.Node) bool {
				switch y := m.(type) {
				case *ast.AssignStmt:
					for _, l := range y.Lhs {
						if id, ok := l.(*ast.Ident); ok && used[id.Name] {
							why = "operand of a deferred call is assigned later"
						}
					}
				case *ast.IncDecStmt:
					if id, ok := y.X.(*ast.Ident); ok && used[id.Name] {
						why = "operand of a deferred call is assigned later"
					}
				}
				return true
			})
		}
		return true
	})
	return why
}
