package props

import (
	"strings"

	"gcacheck/internal/an"

	"golang.org/x/tools/go/ssa"
)

// contigResult describes the CONTIG invariant offset == 2016 * len(archive).
type contigResult struct {
	OK        bool
	Rotations []*ssa.Function
	Loaders   []*ssa.Function
}

// archiveAppend recognises  s.equipmentStatsHistory = append(s.equipmentStatsHistory, X)
// and returns the term of X.
func archiveAppend(fi *an.FuncInfo, st *ssa.Store) (*an.Term, bool) {
	cls := fi.RefClass(st.Addr)
	f, ok := cls.FieldOf("GCAServer")
	if !ok || f != "equipmentStatsHistory" || len(cls.Path) != 1 {
		return nil, false
	}
	call, ok := st.Val.(*ssa.Call)
	if !ok {
		return nil, false
	}
	b, ok := call.Call.Value.(*ssa.Builtin)
	if !ok || b.Name() != "append" || len(call.Call.Args) != 2 {
		return nil, false
	}
	// base must be the same field
	base := fi.RefClass(call.Call.Args[0])
	if bf, ok := base.FieldOf("GCAServer"); !ok || bf != "equipmentStatsHistory" {
		return nil, false
	}
	// the appended element: slice of a one-element array holding X
	sl, ok := call.Call.Args[1].(*ssa.Slice)
	if !ok {
		return nil, false
	}
	al, ok := sl.X.(*ssa.Alloc)
	if !ok {
		return nil, false
	}
	var elem ssa.Value
	if refs := al.Referrers(); refs != nil {
		for _, r := range *refs {
			if ia, ok := r.(*ssa.IndexAddr); ok {
				if irefs := ia.Referrers(); irefs != nil {
					for _, r2 := range *irefs {
						if s2, ok := r2.(*ssa.Store); ok && s2.Addr == ia {
							elem = s2.Val
						}
					}
				}
			}
		}
	}
	if elem == nil {
		return nil, false
	}
	return fi.Term(elem), true
}

// contig establishes that the window offset is always 2016 times the length
// of the archive: every writer of the offset is either the rotation (archive
// the stats built for the current offset, then offset += 2016) or the history
// loader (offset = appended.TimeslotOffset + 2016), and nothing else writes the
// offset, the archive list or the archive origin.
func contig(c *an.Ctx, rule string) contigResult {
	p := c.P
	res := contigResult{OK: true}
	scope := p.FuncsIn("server")
	type wr struct {
		fn *ssa.Function
		st *ssa.Store
	}
	var offsetStores, archiveStores, originStores []wr
	for _, fn := range scope {
		fi := p.Info(fn)
		for _, b := range fn.Blocks {
			for _, in := range b.Instrs {
				st, ok := in.(*ssa.Store)
				if !ok {
					continue
				}
				cls := fi.RefClass(st.Addr)
				f, ok := cls.FieldOf("GCAServer")
				if !ok || len(cls.Path) != 1 {
					continue
				}
				switch f {
				case "equipmentReportsOffset":
					offsetStores = append(offsetStores, wr{fn, st})
				case "equipmentStatsHistory":
					archiveStores = append(archiveStores, wr{fn, st})
				case "equipmentHistoryOffset":
					originStores = append(originStores, wr{fn, st})
				}
			}
		}
	}
	c.Count(rule, len(offsetStores)+len(archiveStores))
	for _, w := range originStores {
		c.Violated(rule, w.fn, w.st.Pos(), an.KeyOf(w.fn, "store:equipmentHistoryOffset"), "the archive origin (equipmentHistoryOffset) is written; the archive index assumes it stays 0", "WHO-MAY(equipmentHistoryOffset) must be empty")
		res.OK = false
	}
	// every archive store is an append; remember the appended element per function
	appended := map[*ssa.Function][]struct {
		st   *ssa.Store
		elem *an.Term
	}{}
	for _, w := range archiveStores {
		fi := p.Info(w.fn)
		elem, ok := archiveAppend(fi, w.st)
		key := an.KeyOf(w.fn, "store:equipmentStatsHistory")
		if !ok {
			c.Violated(rule, w.fn, w.st.Pos(), key, "the archive list is written by something other than append(archive, record)", "archived weeks must never be replaced, removed or reordered")
			res.OK = false
			continue
		}
		appended[w.fn] = append(appended[w.fn], struct {
			st   *ssa.Store
			elem *an.Term
		}{w.st, elem})
	}
	usedAppend := map[*ssa.Store]bool{}
	for _, w := range offsetStores {
		fi := p.Info(w.fn)
		vt := fi.Term(w.st.Val)
		key := an.KeyOf(w.fn, "store:equipmentReportsOffset")
		// value must be X + 2016
		if vt.K != an.KBin || vt.S != "+" || len(vt.A) != 2 {
			c.Violated(rule, w.fn, w.st.Pos(), key, "window offset is set to "+short(vt.Key())+", not to <something> + 2016", "WHO-MAY(equipmentReportsOffset): every writer must be the rotation or the history loader")
			res.OK = false
			continue
		}
		var other *an.Term
		if k, ok := vt.A[0].IsConst(); ok && k == "2016" {
			other = vt.A[1]
		} else if k, ok := vt.A[1].IsConst(); ok && k == "2016" {
			other = vt.A[0]
		}
		if other == nil {
			c.Violated(rule, w.fn, w.st.Pos(), key, "window offset advances by something other than 2016: "+short(vt.Key()), "one week is 2016 slots")
			res.OK = false
			continue
		}
		matched := false
		for _, ap := range appended[w.fn] {
			// loader shape: offset = appended.TimeslotOffset + 2016, same block
			if other.K == an.KField && other.S == "TimeslotOffset" && other.A[0].Key() == ap.elem.Key() && ap.st.Block() == w.st.Block() {
				matched = true
				usedAppend[ap.st] = true
				res.Loaders = append(res.Loaders, w.fn)
				c.Proved(rule, w.fn, w.st.Pos(), key, "history loader: offset = appended.TimeslotOffset + 2016, paired with the append of the same record in the same block", "record "+short(ap.elem.Key()))
				break
			}
			// rotation shape: other is a load of the offset, appended element is result 0 of
			// the stats builder called with a load of the offset of the same version.
			if f, _, ok := mapFieldOfTerm(other); ok && f == "equipmentReportsOffset" {
				if okB, why := builtForOffset(p, ap.elem, other); okB {
					// same critical section: lock held at both, offset version unchanged
					lf := p.LockFlowOf(w.fn)
					if an.Held(lf.StateAt(w.st, "GCAServer.mu")) && an.Held(lf.StateAt(ap.st, "GCAServer.mu")) {
						matched = true
						usedAppend[ap.st] = true
						res.Rotations = append(res.Rotations, w.fn)
						c.Proved(rule, w.fn, w.st.Pos(), key, "rotation: the record built for the pre-increment offset is appended, then offset += 2016, in one critical section", why)
						break
					}
				}
			}
		}
		if !matched {
			c.Violated(rule, w.fn, w.st.Pos(), key, "window offset is advanced without archiving the week it leaves behind (no paired append of the record for that offset)",
				"offset must stay equal to 2016 * len(archive); value stored: "+short(vt.Key()))
			res.OK = false
		}
	}
	for _, w := range archiveStores {
		if _, isAppend := archiveAppend(p.Info(w.fn), w.st); isAppend && !usedAppend[w.st] {
			c.Violated(rule, w.fn, w.st.Pos(), an.KeyOf(w.fn, "append:equipmentStatsHistory"), "a record is appended to the archive without advancing the window offset by 2016", "offset must stay equal to 2016 * len(archive)")
			res.OK = false
		} else if isAppend {
			c.Proved(rule, w.fn, w.st.Pos(), an.KeyOf(w.fn, "append:equipmentStatsHistory"), "every append to the archive is paired with the advance of the window offset by 2016", "paired with a store of the offset (see store:equipmentReportsOffset)")
		}
	}
	if len(offsetStores) == 0 {
		res.OK = false
	}
	return res
}

// builtForOffset: elem is result 0 of a call to a builder whose second
// argument is offLoad (same term, hence same version), and the builder labels
// its result with that argument.
func builtForOffset(p *an.Program, elem, offLoad *an.Term) (bool, string) {
	if elem.K != an.KExt || elem.S != "0" || len(elem.A) != 1 {
		return false, ""
	}
	call := elem.A[0]
	if call.K != an.KPure && call.K != an.KCall {
		return false, ""
	}
	found := false
	for _, a := range call.A {
		if a.Key() == offLoad.Key() {
			found = true
		}
	}
	if !found {
		return false, ""
	}
	sc, ok := call.Val.(*ssa.Call)
	if !ok {
		return false, ""
	}
	callee := sc.Call.StaticCallee()
	if callee == nil {
		return false, ""
	}
	// which parameter receives the offset?
	pi := -1
	for i, a := range sc.Call.Args {
		fi := p.Info(sc.Parent())
		if fi.Term(a).Key() == offLoad.Key() {
			pi = i
		}
	}
	if pi < 0 {
		return false, ""
	}
	if !labelsResultWithParam(p, callee, pi) {
		return false, ""
	}
	return true, "record = " + strings.TrimPrefix(an.FuncName(callee), "") + "(offset) with the same offset value; the builder stores that argument in TimeslotOffset"
}

// labelsResultWithParam: on every return with a nil error, result 0's
// TimeslotOffset field holds parameter pi.
func labelsResultWithParam(p *an.Program, fn *ssa.Function, pi int) bool {
	fi := p.Info(fn)
	okAny := false
	for _, b := range fn.Blocks {
		if len(b.Instrs) == 0 {
			continue
		}
		ret, ok := b.Instrs[len(b.Instrs)-1].(*ssa.Return)
		if !ok || len(ret.Results) < 2 {
			continue
		}
		if c, isConst := ret.Results[1].(*ssa.Const); !isConst || c.Value != nil {
			continue // error return
		}
		rt := fi.Term(ret.Results[0])
		var ft *an.Term
		if rt.K == an.KLoad {
			ft = fi.FieldOfTerm(rt, "TimeslotOffset")
		} else {
			return false
		}
		// the field must forward to the parameter
		want := "$p" + itoaP(pi)
		if ft.Key() != want {
			// try resolving the single reaching store
			v := fi.ResolveLocalField(rt, "TimeslotOffset", ret)
			if v == nil || v.Key() != want {
				return false
			}
		}
		okAny = true
	}
	return okAny
}

func itoaP(i int) string {
	return strings.TrimSpace(strings.Replace(" "+string(rune('0'+i)), " ", "", 1))
}
