package props

import (
	"fmt"
	"go/types"
	"sort"
	"strings"

	"gcacheck/internal/an"

	"golang.org/x/tools/go/ssa"
)

// rootsOf returns the roots of a package with one of the given kinds.
func rootsOf(p *an.Program, short string, kinds ...string) []an.Root {
	var out []an.Root
	for _, r := range p.Roots(short) {
		for _, k := range kinds {
			if r.Kind == k {
				out = append(out, r)
			}
		}
	}
	return out
}

func rootFns(rs []an.Root) []*ssa.Function {
	var out []*ssa.Function
	for _, r := range rs {
		out = append(out, r.Fn)
	}
	return out
}

func sortedFns(m map[*ssa.Function]bool) []*ssa.Function {
	var out []*ssa.Function
	for f := range m {
		out = append(out, f)
	}
	sort.Slice(out, func(i, j int) bool { return out[i].String() < out[j].String() })
	return out
}

// udpRoot finds the function launched from the loop that calls ReadFromUDP.
func udpRoot(p *an.Program) (handler *ssa.Function, listener *ssa.Function) {
	for _, r := range rootsOf(p, "server", "launch") {
		if r.Site == nil {
			continue
		}
		parent := r.Site.Parent()
		if e := p.Effect(parent); e != nil {
			direct := false
			for _, b := range parent.Blocks {
				for _, in := range b.Instrs {
					if c, ok := in.(*ssa.Call); ok && an.CalleeName(&c.Call) == "(*net.UDPConn).ReadFromUDP" {
						direct = true
					}
				}
			}
			if direct {
				return r.Fn, parent
			}
		}
	}
	return nil, nil
}

// tcpRoot finds the function launched from the loop that calls Accept.
func tcpRoot(p *an.Program) (handler *ssa.Function, listener *ssa.Function) {
	for _, r := range rootsOf(p, "server", "launch") {
		if r.Site == nil {
			continue
		}
		parent := r.Site.Parent()
		for _, b := range parent.Blocks {
			for _, in := range b.Instrs {
				if c, ok := in.(*ssa.Call); ok && an.CalleeName(&c.Call) == "(net.Listener).Accept" {
					return r.Fn, parent
				}
			}
		}
	}
	return nil, nil
}

// unwrapClosure: a launched closure that only calls one method is represented
// by that method for reporting purposes.
func firstRepoCallee(p *an.Program, fn *ssa.Function) *ssa.Function {
	for _, b := range fn.Blocks {
		for _, in := range b.Instrs {
			if c, ok := in.(*ssa.Call); ok {
				if sc := c.Call.StaticCallee(); sc != nil && an.IsRepoFunc(sc) {
					return sc
				}
			}
		}
	}
	return nil
}

// boundRule runs the BOUND obligations of the functions in scope. classify may
// reclassify a failing obligation: it returns (verdict, reason) where verdict
// is an.Proved (a lemma discharges it), an.Note, or "" to keep the violation.
func boundRule(c *an.Ctx, rule string, fns []*ssa.Function, classify func(o an.BoundObl) (string, string)) (total, failed int) {
	p := c.P
	for _, fn := range fns {
		for _, o := range p.BoundObligations(fn) {
			total++
			key := an.KeyOf(fn, o.Kind+":"+o.Expr)
			if o.OK {
				c.Proved(rule, fn, o.Instr.Pos(), key, o.Kind+": "+o.Desc, o.Why)
				continue
			}
			verdict, why := "", ""
			if classify != nil {
				verdict, why = classify(o)
			}
			switch verdict {
			case an.Proved:
				c.Proved(rule, fn, o.Instr.Pos(), key, o.Kind+": "+o.Desc, why)
			case an.Note:
				c.Note(rule, fn, o.Instr.Pos(), key, o.Kind+": "+o.Desc+" -- not proved ("+o.Why+"); "+why)
			default:
				failed++
				c.Violated(rule, fn, o.Instr.Pos(), key, o.Kind+": "+o.Desc, o.Why)
			}
		}
	}
	c.Count(rule, total)
	return
}

// isWindowArray reports whether an obligation indexes one of the 4032-slot
// window arrays (by type: *[4032]T).
func isWindowArrayIndex(o an.BoundObl) bool {
	ia, ok := o.Instr.(*ssa.IndexAddr)
	if !ok {
		return false
	}
	t := ia.X.Type()
	if pt, ok := t.Underlying().(*types.Pointer); ok {
		t = pt.Elem()
	}
	if at, ok := t.Underlying().(*types.Array); ok {
		return at.Len() == 4032
	}
	return false
}

// sortSliceLemma discharges index obligations inside a comparison closure that
// is only ever passed to sort.Slice(x, less) where x is the very variable the
// closure indexes: sort.Slice calls less(i, j) with 0 <= i, j < len(x).
func sortSliceLemma(p *an.Program, o an.BoundObl) (bool, string) {
	fn := o.Fn
	if fn.Parent() == nil || len(fn.Params) != 2 {
		return false, ""
	}
	ia, ok := o.Instr.(*ssa.IndexAddr)
	if !ok {
		return false, ""
	}
	// index must be one of the two parameters
	if ia.Index != fn.Params[0] && ia.Index != fn.Params[1] {
		return false, ""
	}
	// indexed slice must be a load of a captured variable
	ld, ok := ia.X.(*ssa.UnOp)
	if !ok {
		return false, ""
	}
	fv, ok := ld.X.(*ssa.FreeVar)
	if !ok {
		return false, ""
	}
	fvIdx := -1
	for i, f := range fn.FreeVars {
		if f == fv {
			fvIdx = i
		}
	}
	if fvIdx < 0 {
		return false, ""
	}
	// the closure does not write the captured variable
	if refs := fv.Referrers(); refs != nil {
		for _, r := range *refs {
			if st, ok := r.(*ssa.Store); ok && st.Addr == fv {
				return false, ""
			}
		}
	}
	// every MakeClosure of fn is used only as the less argument of sort.Slice(load of the same variable, closure)
	parent := fn.Parent()
	uses := 0
	for _, b := range parent.Blocks {
		for _, in := range b.Instrs {
			mc, ok := in.(*ssa.MakeClosure)
			if !ok || mc.Fn != fn {
				continue
			}
			refs := mc.Referrers()
			if refs == nil {
				return false, ""
			}
			for _, r := range *refs {
				call, ok := r.(*ssa.Call)
				if !ok || an.CalleeName(&call.Call) != "sort.Slice" || len(call.Call.Args) != 2 || call.Call.Args[1] != mc {
					return false, ""
				}
				// arg0 is MakeInterface(load of the captured alloc)
				x := call.Call.Args[0]
				if mi, ok := x.(*ssa.MakeInterface); ok {
					x = mi.X
				}
				l2, ok := x.(*ssa.UnOp)
				if !ok || l2.X != mc.Bindings[fvIdx] {
					return false, ""
				}
				uses++
			}
		}
	}
	if uses == 0 {
		return false, ""
	}
	return true, "sort.Slice(x, less) calls less(i, j) only with 0 <= i, j < len(x) (godoc), and the closure is used only as that argument for the same variable"
}

func describeRoots(rs []an.Root) string {
	var out []string
	for _, r := range rs {
		out = append(out, r.Kind+":"+an.FuncName(r.Fn))
	}
	sort.Strings(out)
	return strings.Join(out, ", ")
}

func pluralS(n int) string {
	if n == 1 {
		return ""
	}
	return "s"
}

var _ = fmt.Sprintf
