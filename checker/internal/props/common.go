package props

import (
	"fmt"
	"go/types"
	"sort"
	"strconv"
	"strings"

	"gcacheck/internal/an"

	"golang.org/x/tools/go/ssa"
)

// rootsOf returns the roots of a package with one of the given kinds.
func rootsOf(p *an.Program, short string, kinds ...string) []an.Root {
	var out []an.Root
	for _, r := range p.Roots(short) {
		for _, k := range kinds {
			if r.Kind == k {
				out = append(out, r)
			}
		}
	}
	return out
}

func rootFns(rs []an.Root) []*ssa.Function {
	var out []*ssa.Function
	for _, r := range rs {
		out = append(out, r.Fn)
	}
	return out
}

func sortedFns(m map[*ssa.Function]bool) []*ssa.Function {
	var out []*ssa.Function
	for f := range m {
		out = append(out, f)
	}
	sort.Slice(out, func(i, j int) bool { return out[i].String() < out[j].String() })
	return out
}

// udpRoot finds the function launched from the loop that calls ReadFromUDP.
func udpRoot(p *an.Program) (handler *ssa.Function, listener *ssa.Function) {
	for _, r := range rootsOf(p, "server", "launch") {
		if r.Site == nil {
			continue
		}
		parent := r.Site.Parent()
		if e := p.Effect(parent); e != nil {
			direct := false
			for _, b := range parent.Blocks {
				for _, in := range b.Instrs {
					if c, ok := in.(*ssa.Call); ok && an.CalleeName(&c.Call) == "(*net.UDPConn).ReadFromUDP" {
						direct = true
					}
				}
			}
			if direct {
				return r.Fn, parent
			}
		}
	}
	return nil, nil
}

// tcpRoot finds the function launched from the loop that calls Accept.
func tcpRoot(p *an.Program) (handler *ssa.Function, listener *ssa.Function) {
	for _, r := range rootsOf(p, "server", "launch") {
		if r.Site == nil {
			continue
		}
		parent := r.Site.Parent()
		for _, b := range parent.Blocks {
			for _, in := range b.Instrs {
				if c, ok := in.(*ssa.Call); ok && an.CalleeName(&c.Call) == "(net.Listener).Accept" {
					return r.Fn, parent
				}
			}
		}
	}
	return nil, nil
}

// unwrapClosure: a launched closure that only calls one method is represented
// by that method for reporting purposes.
func firstRepoCallee(p *an.Program, fn *ssa.Function) *ssa.Function {
	for _, b := range fn.Blocks {
		for _, in := range b.Instrs {
			if c, ok := in.(*ssa.Call); ok {
				if sc := c.Call.StaticCallee(); sc != nil && an.IsRepoFunc(sc) {
					return sc
				}
			}
		}
	}
	return nil
}

// boundRule runs the BOUND obligations of the functions in scope. classify may
// reclassify a failing obligation: it returns (verdict, reason) where verdict
// is an.Proved (a lemma discharges it), an.Note, or "" to keep the violation.
func boundRule(c *an.Ctx, rule string, fns []*ssa.Function, classify func(o an.BoundObl) (string, string)) (total, failed int) {
	p := c.P
	for _, fn := range fns {
		for _, o := range p.BoundObligations(fn) {
			total++
			key := an.KeyOf(fn, o.Kind+":"+o.Expr)
			if o.OK {
				c.Proved(rule, fn, o.Instr.Pos(), key, o.Kind+": "+o.Desc, o.Why)
				continue
			}
			verdict, why := "", ""
			if classify != nil {
				verdict, why = classify(o)
			}
			switch verdict {
			case an.Proved:
				c.Proved(rule, fn, o.Instr.Pos(), key, o.Kind+": "+o.Desc, why)
			case an.Note:
				c.Note(rule, fn, o.Instr.Pos(), key, o.Kind+": "+o.Desc+" -- not proved ("+o.Why+"); "+why)
			default:
				failed++
				c.Violated(rule, fn, o.Instr.Pos(), key, o.Kind+": "+o.Desc, o.Why)
			}
		}
	}
	c.Count(rule, total)
	return
}

// isWindowArray reports whether an obligation indexes one of the 4032-slot
// window arrays (by type: *[4032]T).
func isWindowArrayIndex(o an.BoundObl) bool {
	ia, ok := o.Instr.(*ssa.IndexAddr)
	if !ok {
		return false
	}
	t := ia.X.Type()
	if pt, ok := t.Underlying().(*types.Pointer); ok {
		t = pt.Elem()
	}
	if at, ok := t.Underlying().(*types.Array); ok {
		return at.Len() == 4032
	}
	return false
}

// sortSliceLemma discharges index obligations inside a comparison closure that
// is only ever passed to sort.Slice(x, less) where x is the very variable the
// closure indexes: sort.Slice calls less(i, j) with 0 <= i, j < len(x).
func sortSliceLemma(p *an.Program, o an.BoundObl) (bool, string) {
	fn := o.Fn
	if fn.Parent() == nil || len(fn.Params) != 2 {
		return false, ""
	}
	ia, ok := o.Instr.(*ssa.IndexAddr)
	if !ok {
		return false, ""
	}
	// index must be one of the two parameters
	if ia.Index != fn.Params[0] && ia.Index != fn.Params[1] {
		return false, ""
	}
	// indexed slice must be a load of a captured variable
	ld, ok := ia.X.(*ssa.UnOp)
	if !ok {
		return false, ""
	}
	fv, ok := ld.X.(*ssa.FreeVar)
	if !ok {
		return false, ""
	}
	fvIdx := -1
	for i, f := range fn.FreeVars {
		if f == fv {
			fvIdx = i
		}
	}
	if fvIdx < 0 {
		return false, ""
	}
	// the closure does not write the captured variable
	if refs := fv.Referrers(); refs != nil {
		for _, r := range *refs {
			if st, ok := r.(*ssa.Store); ok && st.Addr == fv {
				return false, ""
			}
		}
	}
	// every MakeClosure of fn is used only as the less argument of sort.Slice(load of the same variable, closure)
	parent := fn.Parent()
	uses := 0
	for _, b := range parent.Blocks {
		for _, in := range b.Instrs {
			mc, ok := in.(*ssa.MakeClosure)
			if !ok || mc.Fn != fn {
				continue
			}
			refs := mc.Referrers()
			if refs == nil {
				return false, ""
			}
			for _, r := range *refs {
				call, ok := r.(*ssa.Call)
				if !ok || an.CalleeName(&call.Call) != "sort.Slice" || len(call.Call.Args) != 2 || call.Call.Args[1] != mc {
					return false, ""
				}
				// arg0 is MakeInterface(load of the captured alloc)
				x := call.Call.Args[0]
				if mi, ok := x.(*ssa.MakeInterface); ok {
					x = mi.X
				}
				l2, ok := x.(*ssa.UnOp)
				if !ok || l2.X != mc.Bindings[fvIdx] {
					return false, ""
				}
				uses++
			}
		}
	}
	if uses == 0 {
		return false, ""
	}
	return true, "sort.Slice(x, less) calls less(i, j) only with 0 <= i, j < len(x) (godoc), and the closure is used only as that argument for the same variable"
}

func describeRoots(rs []an.Root) string {
	var out []string
	for _, r := range rs {
		out = append(out, r.Kind+":"+an.FuncName(r.Fn))
	}
	sort.Strings(out)
	return strings.Join(out, ", ")
}

func pluralS(n int) string {
	if n == 1 {
		return ""
	}
	return "s"
}

var _ = fmt.Sprintf

// signingCoverage checks that the signing-bytes builder of a struct type
// writes every field of the struct except the signature field(s) at its full
// width (a necessary condition of "the signature covers exactly these
// fields"): a field that is missing or narrowed can be altered without
// invalidating the signature. It is a coverage rule, not a layout rule:
// order, offsets and prefix are free (C15 decides those).
func signingCoverage(c *an.Ctx, rule, short, typ string, exempt ...string) {
	p := c.P
	n := p.Named(short, typ)
	sb := p.Method(short, typ, "SigningBytes")
	if n == nil || sb == nil {
		c.Undecided(rule, nil, 0, "signing-coverage:"+typ, typ+".SigningBytes not found", "anchor missing")
		return
	}
	st, ok := n.Underlying().(*types.Struct)
	if !ok {
		return
	}
	c.Scope(sb)
	// events of the builder and of the repo functions it delegates to (Serialize)
	evs := p.CodecEvents(sb)
	for _, b := range sb.Blocks {
		for _, in := range b.Instrs {
			if call, ok := in.(*ssa.Call); ok {
				if sc := call.Call.StaticCallee(); sc != nil && an.IsRepoFunc(sc) && sc != sb {
					evs = append(evs, p.CodecEvents(sc)...)
				}
			}
		}
	}
	isExempt := func(f string) bool {
		for _, e := range exempt {
			if e == f {
				return true
			}
		}
		return false
	}
	cnt := 0
	var cover func(st *types.Struct, owner string, exemptTop bool)
	cover = func(st *types.Struct, owner string, exemptTop bool) {
		for i := 0; i < st.NumFields(); i++ {
			f := st.Field(i)
			if exemptTop && isExempt(f.Name()) {
				continue
			}
			// a slice or array of repository structs: every field of the element must be covered
			var elem types.Type
			switch u := f.Type().Underlying().(type) {
			case *types.Slice:
				elem = u.Elem()
			case *types.Array:
				elem = u.Elem()
			}
			if elem != nil {
				if est, isSt := elem.Underlying().(*types.Struct); isSt {
					if en, isN := elem.(*types.Named); isN {
						// delegated to the element's own Serialize: covered there (the element type has its own coverage rule)
						deleg := false
						for _, e := range evs {
							if e.Op == "W" && e.Field == "Serialize("+f.Name()+")" {
								deleg = true
							}
						}
						if deleg {
							cnt++
							ser := p.Method(en.Obj().Pkg().Name(), en.Obj().Name(), "Serialize")
							okAll := ser != nil
							missing := []string{}
							if ser != nil {
								sevs := p.CodecEvents(ser)
								for j := 0; j < est.NumFields(); j++ {
									found := false
									for _, e := range sevs {
										if e.Op == "W" && (e.Field == est.Field(j).Name() || coversBool(p, e, est.Field(j))) {
											found = true
										}
									}
									if !found {
										okAll = false
										missing = append(missing, est.Field(j).Name())
									}
								}
							}
							c.Check(okAll, rule, sb, sb.Pos(), an.KeyOf(sb, "signed-field:"+owner+f.Name()), fmt.Sprintf("%s.SigningBytes covers every element of %s through the element's Serialize, which writes every field of the element", typ, f.Name()), "fields not written by the element serializer: "+strings.Join(missing, ","))
							continue
						}
					}
					cover(est, owner+f.Name()+".", false)
					// the number of elements must be covered too for a slice
					if _, isSl := f.Type().Underlying().(*types.Slice); isSl {
						okLen := false
						for _, e := range evs {
							if e.Op == "W" && e.Field == "len("+f.Name()+")" && e.Width > 0 {
								okLen = true
							}
						}
						cnt++
						c.Check(okLen, rule, sb, sb.Pos(), an.KeyOf(sb, "signed-field:len("+owner+f.Name()+")"), fmt.Sprintf("%s.SigningBytes covers the number of elements of %s", typ, f.Name()), "length write")
					}
					continue
				}
			}
			want := fixedSize(f.Type())
			got := []string{}
			ok := false
			for _, e := range evs {
				if e.Op != "W" {
					continue
				}
				if coversBool(p, e, f) {
					ok = true
					got = append(got, e.Sig()+"(under a test of "+f.Name()+")")
					continue
				}
				if e.Field == f.Name() || e.Field == "len("+f.Name()+")" {
					got = append(got, e.Sig())
					if e.Field == f.Name() && (want < 0 || e.Width == want || (e.Width > 0 && want%e.Width == 0 && want > 8)) {
						ok = true
					}
				}
			}
			cnt++
			c.Check(ok, rule, sb, sb.Pos(), an.KeyOf(sb, "signed-field:"+owner+f.Name()), fmt.Sprintf("%s.SigningBytes covers field %s%s at its full width (%s): the field cannot be altered under a valid signature", typ, owner, f.Name(), sizeText(want)), "writes involving the field: "+strings.Join(got, " "))
		}
	}
	cover(st, "", true)
	// every fixed-width copy into the signed buffer has room for the whole field (copy silently truncates)
	for _, e := range p.CodecEvents(sb) {
		call, isCall := e.Instr.(*ssa.Call)
		if e.Op != "W" || e.Width <= 0 || !isCall || call.Parent() != sb || e.Off == "" {
			continue // (a codec that advances a cursor in a loop is sized by C15's CODEC-SIZE rule)
		}
		if bi, ok := call.Call.Value.(*ssa.Builtin); !ok || bi.Name() != "copy" {
			continue
		}
		fi0 := p.Info(sb)
		dst := fi0.Term(call.Call.Args[0])
		sys := fi0.SysFor(call)
		okFit := sys.ProveGE(an.LenTerm(dst), int64(e.Width))
		cnt++
		c.Check(okFit, rule, sb, call.Pos(), an.KeyOf(sb, "copy-fits:"+e.Field), fmt.Sprintf("the buffer region that receives %s has room for all its %d bytes (copy would silently drop the rest, leaving them unsigned)", e.Field, e.Width), "len(destination) "+sys.Describe(an.LenTerm(dst)))
	}
	// no write into the signed buffer lands on bytes that another write of the builder already filled (a cursor that
	// was not advanced): the overwritten field would no longer be covered
	{
		type region struct {
			lo, hi int
			ev     an.CodecEvent
		}
		var regs []region
		for _, e := range p.CodecEvents(sb) {
			in, isIn := e.Instr.(ssa.Instruction)
			if e.Op != "W" || e.Width <= 0 || !isIn || in.Parent() != sb || !strings.HasPrefix(e.Off, "#") {
				continue
			}
			lo, err := strconv.Atoi(e.Off[1:])
			if err != nil {
				continue
			}
			regs = append(regs, region{lo, lo + e.Width, e})
		}
		for i := range regs {
			for j := i + 1; j < len(regs); j++ {
				a, b := regs[i], regs[j]
				if a.ev.Instr == b.ev.Instr || (a.ev.Field == b.ev.Field && a.lo == b.lo && a.hi == b.hi) {
					continue // the two arms of one conditional write
				}
				if a.lo < b.hi && b.lo < a.hi {
					cnt++
					c.Violated(rule, sb, b.ev.Instr.Pos(), an.KeyOf(sb, "no-overwrite:"+a.ev.Field+"/"+b.ev.Field), fmt.Sprintf("%s.SigningBytes writes %s over bytes %d..%d that hold %s: the overwritten field is not covered by the signature", typ, b.ev.Field, a.lo, a.hi, a.ev.Field), fmt.Sprintf("%s at %d..%d, %s at %d..%d", a.ev.Sig(), a.lo, a.hi, b.ev.Sig(), b.lo, b.hi))
				}
			}
		}
	}
	// a builder of the form Serialize()[:H] with a constant H: every field outside the signature must lie below the cut
	{
		fi0 := p.Info(sb)
		for _, b := range sb.Blocks {
			for _, in := range b.Instrs {
				sl, isSl := in.(*ssa.Slice)
				if !isSl || sl.High == nil {
					continue
				}
				t := fi0.Term(sl)
				base := t.A[0]
				if (base.K != an.KPure && base.K != an.KCall) || !strings.HasSuffix(base.Callee(), ").Serialize") {
					continue
				}
				if hv, isC := t.A[2].IsConst(); isC && hv == "end" {
					continue
				}
				if isLenMinus(t.A[2], 64) {
					continue // the len-K form is decided by the signed-span rule below
				}
				// the cut as constant + symbolic part (34 + len(Location) + 4)
				hc, hs, okH := linearOffset(an.OffsetKey(t.A[2]))
				if !okH {
					continue
				}
				ser := p.Method(short, typ, "Serialize")
				if ser == nil {
					continue
				}
				for _, e := range p.CodecEvents(ser) {
					if e.Op != "W" || e.Width <= 0 || isExempt(e.Field) || e.Off == "" {
						continue
					}
					oc, os, okO := linearOffset(e.Off)
					if !okO || os != hs {
						continue
					}
					cnt++
					c.Check(oc+e.Width <= hc, rule, sb, sl.Pos(), an.KeyOf(sb, "below-cut:"+e.Field), fmt.Sprintf("%s.SigningBytes keeps the serialized bytes of %s (offset %d%s, %d bytes) inside the part it signs", typ, e.Field, oc, symText(os), e.Width), fmt.Sprintf("the serialization is cut at byte %d%s", hc, symText(hs)))
				}
			}
		}
	}
	// a builder of the form Serialize()[:len-K]: K must be exactly the size of
	// the exempt (signature) fields and those must be the last thing serialized
	fi := p.Info(sb)
	for _, b := range sb.Blocks {
		for _, in := range b.Instrs {
			sl, isSl := in.(*ssa.Slice)
			if !isSl || sl.High == nil {
				continue
			}
			ht := fi.Term(sl.High)
			if ht.K != an.KBin || ht.S != "-" || ht.A[0].K != an.KLen || ht.A[1].K != an.KConst {
				continue
			}
			kv, okc := ht.A[1].IsConst()
			if !okc {
				continue
			}
			k, _ := strconv.Atoi(kv)
			want := 0
			for i := 0; i < st.NumFields(); i++ {
				if isExempt(st.Field(i).Name()) {
					want += fixedSize(st.Field(i).Type())
				}
			}
			last := ""
			if ser := p.Method(short, typ, "Serialize"); ser != nil {
				for _, e := range p.CodecEvents(ser) {
					if e.Op == "W" {
						last = e.Field
					}
				}
			}
			cnt++
			c.Check(int(k) == want && isExempt(last), rule, sb, sl.Pos(), an.KeyOf(sb, "signed-span"), fmt.Sprintf("%s.SigningBytes cuts exactly the trailing signature (%d bytes) off the serialization: every other serialized byte is signed", typ, want), fmt.Sprintf("cuts %d bytes; last serialized field %s", k, last))
		}
	}
	c.Count(rule, cnt)
}

// coversBool: the write e stores a constant under a branch on the boolean field f.
func coversBool(p *an.Program, e an.CodecEvent, f *types.Var) bool {
	b, isB := f.Type().Underlying().(*types.Basic)
	if !isB || b.Kind() != types.Bool || e.Instr == nil || e.Width != 1 {
		return false
	}
	fi := p.Info(e.Instr.Parent())
	mentions := func(fs []an.Fact) bool {
		for _, fct := range fs {
			k := fct.T.Key()
			if strings.Contains(k, "."+f.Name()) || strings.Contains(k, "fld:"+f.Name()+"(") {
				return true
			}
		}
		return false
	}
	if mentions(fi.FactsAt(e.Instr).Sorted()) {
		return true
	}
	// the byte was chosen beforehand: a phi of constants, each arriving over an edge decided by the field
	var chosen ssa.Value
	if st, ok := e.Instr.(*ssa.Store); ok {
		chosen = st.Val
	} else if e.ByteVal != nil {
		chosen = e.ByteVal
	}
	if chosen != nil {
		if ph, ok := chosen.(*ssa.Phi); ok {
			for i := range ph.Edges {
				pred := ph.Block().Preds[i]
				if mentions(fi.EdgeFacts(pred, ph.Block())) || mentions(fi.FactsAtBlock(pred).Sorted()) {
					return true
				}
			}
		}
	}
	return false
}

func sizeText(n int) string {
	if n < 0 {
		return "variable length"
	}
	return fmt.Sprintf("%d bytes", n)
}

// fixedSize is the encoded size of a fixed-width type, -1 for variable ones.
func fixedSize(t types.Type) int {
	switch u := t.Underlying().(type) {
	case *types.Basic:
		switch u.Kind() {
		case types.Bool, types.Uint8, types.Int8:
			return 1
		case types.Uint16, types.Int16:
			return 2
		case types.Uint32, types.Int32, types.Float32:
			return 4
		case types.Uint64, types.Int64, types.Float64:
			return 8
		}
		return -1
	case *types.Array:
		e := fixedSize(u.Elem())
		if e < 0 {
			return -1
		}
		return e * int(u.Len())
	}
	return -1
}

// linearOffset splits a canonical offset key ("#34", "len(x)", "bin:+(#34,len(x))") into its constant and its symbolic part.
func linearOffset(k string) (int, string, bool) {
	switch {
	case strings.HasPrefix(k, "#"):
		v, err := strconv.Atoi(k[1:])
		return v, "", err == nil
	case strings.HasPrefix(k, "bin:+(#"):
		rest := k[len("bin:+(#"):]
		i := strings.Index(rest, ",")
		if i < 0 || !strings.HasSuffix(rest, ")") {
			return 0, "", false
		}
		v, err := strconv.Atoi(rest[:i])
		return v, rest[i+1 : len(rest)-1], err == nil
	case k == "":
		return 0, "", false
	}
	return 0, k, true
}

func symText(s string) string {
	if s == "" {
		return ""
	}
	return "+" + s
}
