package props

import (
	"fmt"
	"strings"

	"gcacheck/internal/an"

	"golang.org/x/tools/go/ssa"
)

func init() {
	register(&an.PropertyCheck{
		ID:      "C17",
		Title:   "Server lists and GCA migration follow the GCA's signatures; bans are monotone",
		Engines: "AUTH (dominating Verify facts), WHO-MAY (discovered writers), dominance, must-pass-through (persist what you adopt)",
		Explanation: "Decided: SERVER SIDE the authorized-server list is written only in the POST handler; both the append of a new entry and the replacement of an existing one are dominated by glow.Verify(registered GCA key read under the lock, entry.SigningBytes(), entry.GCAAuthorization) " +
			"for the entry that is stored; a replacement additionally by old.PublicKey == new.PublicKey, !old.Banned and new.Banned (an entry only ever changes to become banned; banned never reverts; a duplicate with other ports is ignored); once an entry with the same key is found the handler returns without reaching the append; " +
			"a migration order is stored only after the validator returned nil, whose summary holds Verify(registered GCA key, order.SigningBytes(), order.Signature) and which rejects any inner server not signed by the order's new GCA. " +
			"CLIENT SIDE (with C10 and C11): the GCA key, device id and server map are assigned only values returned by the sync parser, under its err == nil result, and only in the branch where the new GCA is non-zero and differs from the current one; " +
			"each of the three assignments is preceded, on every path, by a successful write of the same value to the file its loader reads (gcaPubKey.dat, shortID.dat little-endian, gcaServers.dat via the map encoder), so a restart resumes with what was adopted. " +
			"COVER the signing bytes of AuthorizedServer and EquipmentMigration cover every field (elements of NewServers through their own Serialize) and cut exactly the trailing signature; the parser-acceptance rules of C10 and the MERGE/PERSIST rules of C11 for the client server map are re-run here because this property states them too. what the client persists it also adopts in memory before releasing the lock; no field of a listed server entry is changed in place. Nothing in the client deletes from its server map. NOT decided: sequences of posts as such; that the three client files are updated atomically with respect to a crash (the code documents that risk itself).",
		Assumptions: append([]string{"glow.Verify is sound (trusted)"}, baseAssumptions...),
		Run:         runC17,
	})
}

func runC17(c *an.Ctx) {
	p := c.P
	signingCoverage(c, "COVER", "server", "AuthorizedServer", "GCAAuthorization")
	signingCoverage(c, "COVER", "server", "EquipmentMigration", "Signature")
	post := serverListAuth(c)
	if post != nil {
		c.Scope(post)
		// after a key match the handler never reaches the append
		fi := p.Info(post)
		var appendStore *ssa.Store
		for _, b := range post.Blocks {
			for _, in := range b.Instrs {
				if st, ok := in.(*ssa.Store); ok {
					if call, ok := st.Val.(*ssa.Call); ok {
						if bi, ok := call.Call.Value.(*ssa.Builtin); ok && bi.Name() == "append" && strings.Contains(fi.RefClass(st.Addr).String(), "gcaServers.servers") {
							appendStore = st
						}
					}
				}
			}
		}
		if appendStore != nil {
			okNo := true
			matched := 0
			for _, b := range post.Blocks {
				for _, f := range fi.FactsAtBlock(b) {
					if !f.Neg && f.T.K == an.KBin && f.T.S == "==" && strings.Contains(f.T.Key(), "PublicKey") && strings.Contains(f.T.Key(), "gcaServers.servers") {
						matched++
						if reachable(b, appendStore.Block()) {
							okNo = false
						}
					}
				}
			}
			c.Check(okNo && matched > 0, "DEDUP", post, appendStore.Pos(), an.KeyOf(post, "no-append-after-match"), "once an existing entry with the same public key is found, the handler cannot reach the append (no duplicate entries, updates are ignored unless they ban)", "blocks under the key-match fact do not reach the append")
			// the append is reached only after the search loop is exhausted
			exhausted := false
			for _, f := range fi.FactsAt(appendStore) {
				if !f.Neg && f.T.K == an.KBin && f.T.S == "<=" && f.T.A[0].K == an.KLen && strings.Contains(f.T.A[0].Key(), "gcaServers.servers") {
					exhausted = true
				}
			}
			c.Check(exhausted, "DEDUP", post, appendStore.Pos(), an.KeyOf(post, "append-after-search"), "a new entry is appended only after the search over the whole list found no entry with that key", "loop exit condition len(list) <= i dominates the append")
		}
	}
	migrationStore(c)
	clientAdoption(c)
	// premises owned by C10 and C11, re-run: the parser accepts only authentic replies for the device's own key,
	// and every change of the client's server map is merged monotonically and written to disk before the lock is released
	parserAcceptance(c)
	clientMergeRule(c)
}

// serverListAuth: every write of the authorized-server list happens in the one
// POST handler and under a GCA signature on the very entry that is written.
func serverListAuth(c *an.Ctx) *ssa.Function {
	p := c.P
	// ---- server list writers ----
	n := 0
	var post *ssa.Function
	for _, fn := range p.FuncsIn("server") {
		fi := p.Info(fn)
		for _, a := range p.AccessesOf(fn) {
			if !a.Write {
				continue
			}
			cs := a.Cls.String()
			if !strings.HasPrefix(cs, "T:GCAServer.gcaServers.servers") && !strings.HasPrefix(cs, "T:AuthorizedServers.servers") {
				continue
			}
			st, isStore := a.Instr.(*ssa.Store)
			if !isStore {
				continue // the append builtin itself is reported at the store of its result
			}
			n++
			if post == nil {
				post = fn
			}
			c.Check(fn == post, "WHO-MAY", fn, st.Pos(), an.KeyOf(fn, "list-write:"+cs), "the authorized-server list is written only by the POST handler", "writer "+an.FuncName(fn))
			serverListStore(c, fn, fi, st, a.Cls)
		}
	}
	c.Count("WHO-MAY", n)
	c.Floor("WHO-MAY", 2)
	return post
}

func reachable(from, to *ssa.BasicBlock) bool {
	seen := map[*ssa.BasicBlock]bool{}
	var walk func(b *ssa.BasicBlock) bool
	walk = func(b *ssa.BasicBlock) bool {
		if b == to {
			return true
		}
		if seen[b] {
			return false
		}
		seen[b] = true
		for _, s := range b.Succs {
			if walk(s) {
				return true
			}
		}
		return false
	}
	return walk(from)
}

func serverListStore(c *an.Ctx, fn *ssa.Function, fi *an.FuncInfo, st *ssa.Store, cls an.Class) {
	facts := fi.FactsAt(st)
	lf := c.P.LockFlowOf(fn)
	c.Check(an.Held(lf.StateAt(st, "AuthorizedServers.mu")), "LOCK", fn, st.Pos(), an.KeyOf(fn, "list-write-locked:"+cls.String()), "the list is written with AuthorizedServers.mu held", "lock state at the store")
	// the entry being stored
	var entry *an.Term
	isElem := strings.HasSuffix(cls.String(), "[]")
	if isElem {
		entry = fi.Term(st.Val)
	} else if call, ok := st.Val.(*ssa.Call); ok {
		// append(list, entry): element stored into the vararg array
		if es := an.VarargElems(call.Call.Args[1]); len(es) == 1 && es[0] != nil {
			entry = fi.Term(es[0])
		}
	}
	if entry == nil {
		// a store into a FIELD of an element: the entry is altered piecemeal, so the GCA signature kept in the entry no
		// longer covers what the entry says (it cannot be re-verified by the devices that receive it)
		if strings.Contains(cls.String(), "servers[].") {
			c.Violated("AUTH", fn, st.Pos(), an.KeyOf(fn, "list-write-piecemeal:"+cls.String()), "a field of a listed server entry is changed in place ("+cls.String()+"): entries enter the list only whole, together with the GCA signature over them", "the stored entry would no longer verify under the GCA key")
			return
		}
		c.Undecided("AUTH", fn, st.Pos(), an.KeyOf(fn, "list-write-shape"), "the value written to the server list is neither an element assignment nor append(list, entry)", "shape not recognised")
		return
	}
	okV := false
	for _, va := range verifyFacts(facts) {
		f, _, isF := mapFieldOfTerm(va[0])
		if !isF || f != "gcaPubkey" {
			continue
		}
		if !loadUnderLock(c.P, fn, va[0], "GCAServer.mu") {
			continue
		}
		if isSigningBytesOf(va[1], entry) && va[2].Key() == fi.FieldOfTerm(entry, "GCAAuthorization").Key() {
			okV = true
		}
	}
	kind := "append"
	if isElem {
		kind = "replace"
	}
	c.Check(okV, "AUTH", fn, st.Pos(), an.KeyOf(fn, "list-"+kind+":verify"), "a server entry enters the list ("+kind+") only under glow.Verify(registered GCA key read under the lock, entry.SigningBytes(), entry.GCAAuthorization) for that very entry", "entry "+short(entry.Key())+"; facts "+factList(facts))
	if isElem {
		sameKey, oldNotBanned, newBanned := false, false, false
		for _, f := range facts {
			t := f.T
			if !f.Neg && t.K == an.KBin && t.S == "==" && strings.Contains(t.Key(), "PublicKey") {
				for i := 0; i < 2; i++ {
					if t.A[i].Key() == fi.FieldOfTerm(entry, "PublicKey").Key() && strings.Contains(t.A[1-i].Key(), "gcaServers.servers") {
						sameKey = true
					}
				}
			}
			if t.K == an.KLoad && len(t.A) == 1 && t.A[0].K == an.KFA && t.A[0].S == "Banned" {
				if strings.Contains(t.Key(), "gcaServers.servers") && f.Neg {
					oldNotBanned = true
				}
			}
			if !f.Neg && t.Key() == fi.FieldOfTerm(entry, "Banned").Key() {
				newBanned = true
			}
		}
		c.Check(sameKey, "MONO", fn, st.Pos(), an.KeyOf(fn, "replace:same-key"), "an existing entry is replaced only by an entry with the same public key", "facts "+factList(facts))
		c.Check(oldNotBanned, "MONO", fn, st.Pos(), an.KeyOf(fn, "replace:old-not-banned"), "a banned entry is never replaced (banned never reverts)", "facts "+factList(facts))
		c.Check(newBanned, "MONO", fn, st.Pos(), an.KeyOf(fn, "replace:new-banned"), "an existing entry is replaced only to become banned (other updates are ignored)", "facts "+factList(facts))
	}
}

// migrationStore: equipmentMigrations[k] = order only after the validator accepted the order.
func migrationStore(c *an.Ctx) {
	p := c.P
	n := 0
	for _, fn := range p.FuncsIn("server") {
		fi := p.Info(fn)
		for _, b := range fn.Blocks {
			for _, in := range b.Instrs {
				mu, ok := in.(*ssa.MapUpdate)
				if !ok {
					continue
				}
				cls := fi.RefClass(mu.Map)
				if f, ok := cls.FieldOf("GCAServer"); !ok || f != "equipmentMigrations" {
					continue
				}
				n++
				order := fi.Term(mu.Value)
				okV := false
				var validator *ssa.Function
				for _, f := range fi.FactsAt(mu) {
					// err == nil of a call whose summary contains Verify(gcaPubkey, order.SigningBytes(), order.Signature)
					if f.Neg || f.T.K != an.KBin || f.T.S != "==" {
						continue
					}
					for _, a := range f.T.A {
						if (a.K == an.KCall || a.K == an.KPure) && len(a.A) >= 2 {
							if call, ok := a.Val.(*ssa.Call); ok {
								if sc := call.Call.StaticCallee(); sc != nil && an.IsRepoFunc(sc) {
									validator = sc
								}
							}
						}
					}
				}
				for _, va := range verifyFacts(fi.FactsAt(mu)) {
					if f, _, isF := mapFieldOfTerm(va[0]); isF && f == "gcaPubkey" && isSigningBytesOf(va[1], order) && va[2].Key() == fi.FieldOfTerm(order, "Signature").Key() {
						okV = true
					}
				}
				c.Check(okV, "AUTH", fn, mu.Pos(), an.KeyOf(fn, "migration-store:verify"), "a migration order is stored only under glow.Verify(registered GCA key, order.SigningBytes(), order.Signature) for that very order", "facts "+factList(fi.FactsAt(mu)))
				keyT := fi.Term(mu.Key)
				c.Check(keyT.Key() == fi.FieldOfTerm(order, "Equipment").Key(), "AUTH", fn, mu.Pos(), an.KeyOf(fn, "migration-store:key"), "the order is stored under the equipment key it names", "key "+short(keyT.Key()))
				if validator != nil {
					innerServersVerified(c, validator)
				} else {
					c.Violated("AUTH", fn, mu.Pos(), an.KeyOf(fn, "migration-store:validator"), "no validator call with a nil result dominates the store of a migration order", "facts "+factList(fi.FactsAt(mu)))
				}
			}
		}
	}
	c.Count("AUTH-migration", n)
	c.Floor("AUTH-migration", 1)
}

// innerServersVerified: in the validator, a loop over order.NewServers returns an error unless
// Verify(order.NewGCA, server.SigningBytes(), server.GCAAuthorization).
func innerServersVerified(c *an.Ctx, v *ssa.Function) {
	p := c.P
	fi := p.Info(v)
	found := false
	var seen []string
	for _, b := range v.Blocks {
		for _, in := range b.Instrs {
			call, ok := in.(*ssa.Call)
			if !ok {
				continue
			}
			// a direct glow.Verify call, or a call of a straight-line helper whose value is one (term-level inlining)
			vt := fi.Term(call)
			if (vt.K != an.KPure && vt.K != an.KCall) || !strings.HasSuffix(vt.Callee(), "glow.Verify") || len(vt.A) != 3 {
				continue
			}
			kt := vt.A[0]
			if kt.K != an.KField || kt.S != "NewGCA" {
				continue
			}
			dt := vt.A[1]
			st := vt.A[2]
			if (dt.K != an.KPure && dt.K != an.KCall) || !strings.HasSuffix(dt.Callee(), ").SigningBytes") {
				continue
			}
			e := dt.A[0]
			if e.K == an.KRef {
				e = e.A[0]
			}
			// e must be an element of order.NewServers and st its GCAAuthorization
			// (the element by value, or through its address: as := &order.NewServers[i]; as.GCAAuthorization)
			sameElem := st.Key() == fi.FieldOfTerm(e, "GCAAuthorization").Key()
			if !sameElem && e.K == an.KIA && st.K == an.KLoad && len(st.A) > 0 && st.A[0].K == an.KFA && st.A[0].S == "GCAAuthorization" && len(st.A[0].A) > 0 && st.A[0].A[0].Key() == e.Key() {
				sameElem = true
			}
			// (an element of the whole list: not of a part of it, order.NewServers[:1])
			partial := e.Contains(func(y *an.Term) bool { return y.K == an.KSlice })
			if !strings.Contains(e.Key(), "NewServers") || !sameElem || partial {
				seen = append(seen, "data "+short(e.Key())+" signature "+short(st.Key())+" expected "+short(fi.FieldOfTerm(e, "GCAAuthorization").Key()))
				continue
			}
			// the false edge returns an error
			rejects := falseEdgeReturnsError(fi, call)
			found = found || rejects
		}
	}
	// and the nil return is after the loop over all NewServers
	exhausted := false
	for _, o := range fi.OutcomesByEdge() {
		if len(o.Results) == 0 {
			continue
		}
		if k, isC := o.Results[len(o.Results)-1].IsConst(); isC && k == "nil" {
			for _, f := range o.Facts {
				if !f.Neg && f.T.K == an.KBin && f.T.S == "<=" && f.T.A[0].K == an.KLen && strings.Contains(f.T.A[0].Key(), "NewServers") &&
					!f.T.A[0].Contains(func(y *an.Term) bool { return y.K == an.KSlice }) {
					exhausted = true
				}
			}
		}
	}
	c.Check(found && exhausted, "AUTH", v, v.Pos(), an.KeyOf(v, "inner-servers"), "the validator accepts an order only if every server in it is signed by the order's new GCA (the loop rejects on the first bad signature and the nil return follows the exhausted loop)", "Verify(order.NewGCA, s.SigningBytes(), s.GCAAuthorization) per element"+func() string {
		if len(seen) > 0 && !found {
			return "; other Verify calls: " + strings.Join(seen, "; ")
		}
		return ""
	}())
}

// clientNeverForgets: the client's server map only grows (and entries only become banned): nothing deletes from it. A
// server that is forgotten - a banned one dropped at start-up, say - is "new" when a reply lists it again and would be
// re-added with whatever flag that (possibly older) entry carries.
func clientNeverForgets(c *an.Ctx) {
	p := c.P
	n := 0
	for _, fn := range p.FuncsIn("client") {
		fi := p.Info(fn)
		for _, b := range fn.Blocks {
			for _, in := range b.Instrs {
				call, ok := in.(*ssa.Call)
				if !ok {
					continue
				}
				bi, isB := call.Call.Value.(*ssa.Builtin)
				if !isB || bi.Name() != "delete" || len(call.Call.Args) != 2 {
					continue
				}
				n++
				cls := fi.RefClass(call.Call.Args[0])
				f, isF := cls.FieldOf("Client")
				c.Check(!(isF && f == "gcaServers"), "MONO", fn, call.Pos(), an.KeyOf(fn, "client-delete:"+cls.String()), "the client never deletes an entry of its server map (a forgotten banned server could come back unbanned)", "delete from "+cls.String())
			}
		}
	}
	c.Proved("MONO", nil, 0, "client-map-grows-only", "no function of package client deletes from Client.gcaServers", fmt.Sprintf("%d delete statements examined", n))
}

// clientAdoption: identity stores in the client come from the parser and are persisted first.
func clientAdoption(c *an.Ctx) {
	clientNeverForgets(c)
	p := c.P
	parser := findSyncParser(p)
	if parser == nil {
		c.Undecided("ANCHOR", nil, 0, "sync-parser", "client sync parser not found", "anchor missing")
		return
	}
	ctor := p.Constructor("client", "Client")
	construction := p.ConstructionPhase("client", ctor)
	files := map[string]string{"gcaPubKey": "gcaPubKey.dat", "shortID": "shortID.dat", "gcaServers": "gcaServers.dat"}
	n := 0
	for _, fn := range p.FuncsIn("client") {
		if construction[fn] {
			continue
		}
		fi := p.Info(fn)
		for _, b := range fn.Blocks {
			for _, in := range b.Instrs {
				st, ok := in.(*ssa.Store)
				if !ok {
					continue
				}
				fa, ok := st.Addr.(*ssa.FieldAddr)
				if !ok || namedOfPtr(fa.X.Type()) != "Client" {
					continue
				}
				field := fieldNameOf(fa)
				file, tracked := files[field]
				if !tracked {
					continue
				}
				n++
				vt := fi.Term(st.Val)
				facts := fi.FactsAt(st)
				key := func(s string) string { return an.KeyOf(fn, "adopt:"+field+":"+s) }
				// (a) the parser succeeded
				okParser := false
				for _, f := range facts {
					if !f.Neg && f.T.K == an.KBin && f.T.S == "==" {
						for _, a := range f.T.A {
							if a.K == an.KExt && strings.HasSuffix(a.A[0].Callee(), an.FuncName(parser)[strings.LastIndex(an.FuncName(parser), ".")+1:]) {
								okParser = true
							}
							if a.K == an.KPhi {
								// err variable assigned in the retry loop: the loop is left through the err == nil edge
								if ph, ok := a.Val.(*ssa.Phi); ok {
									for _, e := range ph.Edges {
										if ex, ok := e.(*ssa.Extract); ok {
											if call, ok := ex.Tuple.(*ssa.Call); ok && call.Call.StaticCallee() == parser {
												okParser = true
											}
										}
									}
								}
							}
						}
					}
				}
				if !okParser {
					okParser = parserSuccessDominates(p, fi, st, parser)
				}
				c.Check(okParser, "ADOPT", fn, st.Pos(), key("parser-ok"), "the client's "+field+" is assigned only after the sync parser returned a nil error", "facts "+factList(facts))
				// (b) migration branch
				nNe := 0
				for _, f := range facts {
					if !f.Neg && f.T.K == an.KBin && f.T.S == "!=" {
						nNe++
					}
				}
				c.Check(nNe >= 2, "ADOPT", fn, st.Pos(), key("migration-branch"), "identity changes happen only when the reply names a new GCA that is non-zero and differs from the current one", "facts "+factList(facts))
				// (c) value comes from the parser
				fromParser := derivesFromCall(fi, st.Val, parser, 0)
				c.Check(fromParser, "ADOPT", fn, st.Pos(), key("from-parser"), "the assigned value is a result of the sync parser (for its own key, verified by C10's rules)", "value "+short(vt.Key()))
				// (d) persisted first
				persisted := false
				why := "no successful write of the same value to " + file + " dominates the assignment"
				for _, b2 := range fn.Blocks {
					for _, in2 := range b2.Instrs {
						call, ok := in2.(*ssa.Call)
						if !ok || an.CalleeName(&call.Call) != "os.WriteFile" || fi.PathFileName(call.Call.Args[0]) != file {
							continue
						}
						if !an.Dominates(call, st) {
							continue
						}
						// err == nil (the failure edge panics or returns)
						okErr := false
						for _, f := range facts {
							if !f.Neg && f.T.K == an.KBin && f.T.S == "==" {
								for _, a := range f.T.A {
									if a.Val == ssa.Value(call) {
										okErr = true
									}
								}
							}
						}
						if !okErr {
							continue
						}
						if writesValue(fi, call.Call.Args[1], st.Val, field) {
							persisted = true
							why = "os.WriteFile(" + file + ", <same value>) at " + p.Pos(call.Pos()) + " succeeded before the assignment"
						}
					}
				}
				c.Check(persisted, "ADOPT", fn, st.Pos(), key("persisted"), "what the client adopts as its "+field+" was written to "+file+" first (a restart resumes with the same identity and list)", why)
			}
		}
	}
	c.Count("ADOPT", n)
	c.Floor("ADOPT", 2)
	// the converse: whatever identity file a (non-construction) function rewrites, it also adopts in memory on every
	// path that wrote it, so that memory and disk do not disagree until the next restart
	fields := map[string]string{"gcaPubKey.dat": "gcaPubKey", "shortID.dat": "shortID", "gcaServers.dat": "gcaServers"}
	for _, fn := range p.FuncsIn("client") {
		if construction[fn] {
			continue
		}
		fi := p.Info(fn)
		for _, op := range p.FileOps(fn) {
			field, tracked := fields[op.File]
			if !tracked || (op.Kind != "writefile" && op.Kind != "write" && op.Kind != "open-trunc" && op.Kind != "create") {
				continue
			}
			if op.File == "gcaServers.dat" {
				continue // the map is mutated in place and rewritten afterwards (MERGE / PERSIST rules)
			}
			adopted := false
			for _, b := range fn.Blocks {
				for _, in := range b.Instrs {
					st, ok := in.(*ssa.Store)
					if !ok {
						continue
					}
					if fa, ok := st.Addr.(*ssa.FieldAddr); ok && namedOfPtr(fa.X.Type()) == "Client" && fieldNameOf(fa) == field {
						if an.Dominates(op.Call, st) {
							// and the store is on every path from the write to the function's exits or unlock
							if mustPassThrough(op.Call, st, func(i ssa.Instruction) bool {
								if cc, ok := i.(*ssa.Call); ok {
									if id, o, ok := an.LockOp(&cc.Call); ok && id == "Client.mu" && o == "Unlock" {
										return true
									}
								}
								_, r := i.(*ssa.Return)
								return r
							}) {
								adopted = true
							}
						}
					}
				}
			}
			_ = fi
			c.Check(adopted, "ADOPT", fn, op.Call.Pos(), an.KeyOf(fn, "adopts-what-it-persists:"+field), "after "+op.File+" is rewritten the client also adopts the new "+field+" in memory before it releases the lock (what is persisted is what was adopted, without waiting for a restart)", "store to Client."+field+" on every path after the write")
		}
	}
}

func parserSuccessDominates(p *an.Program, fi *an.FuncInfo, at ssa.Instruction, parser *ssa.Function) bool {
	// the block of 'at' is only reachable from the parser call through an edge where its error is nil:
	// look for a dominating If on (err == nil) whose err is the parser's last result.
	for _, b := range fi.Fn.Blocks {
		if len(b.Instrs) == 0 {
			continue
		}
		iff, ok := b.Instrs[len(b.Instrs)-1].(*ssa.If)
		if !ok {
			continue
		}
		ct := fi.Term(iff.Cond)
		if ct.K != an.KBin || (ct.S != "==" && ct.S != "!=") {
			continue
		}
		isParserErr := false
		for _, a := range ct.A {
			if a.K == an.KExt {
				if call, ok := a.A[0].Val.(*ssa.Call); ok && call.Call.StaticCallee() == parser {
					isParserErr = true
				}
			}
		}
		if !isParserErr {
			continue
		}
		succ := b.Succs[0]
		if ct.S == "!=" {
			succ = b.Succs[1]
		}
		if succ.Dominates(at.Block()) {
			return true
		}
	}
	return false
}

func derivesFromCall(fi *an.FuncInfo, v ssa.Value, callee *ssa.Function, depth int) bool {
	if depth > 8 {
		return false
	}
	switch x := v.(type) {
	case *ssa.Extract:
		if call, ok := x.Tuple.(*ssa.Call); ok && call.Call.StaticCallee() == callee {
			return true
		}
	case *ssa.Phi:
		ok := false
		for _, e := range x.Edges {
			if k, isC := e.(*ssa.Const); isC {
				_ = k
				continue
			}
			if !derivesFromCall(fi, e, callee, depth+1) {
				return false
			}
			ok = true
		}
		return ok
	case *ssa.UnOp:
		t := fi.Term(x)
		if t.Val != nil && t.Val != ssa.Value(x) {
			return derivesFromCall(fi, t.Val, callee, depth+1)
		}
		// a local variable assigned only results of the callee (or zero values)
		if al, ok := x.X.(*ssa.Alloc); ok {
			n := 0
			allOK := true
			for _, r := range *al.Referrers() {
				if st, ok := r.(*ssa.Store); ok && st.Addr == al {
					if _, isC := st.Val.(*ssa.Const); isC {
						continue
					}
					if _, isMap := st.Val.(*ssa.MakeMap); isMap {
						continue
					}
					n++
					if !derivesFromCall(fi, st.Val, callee, depth+1) {
						allOK = false
					}
				}
			}
			if n > 0 && allOK {
				return true
			}
		}
		// a local map filled from the parser's server list
		return localMapFromCall(fi, x, callee)
	case *ssa.MakeMap:
		return mapFilledFrom(fi, x, callee)
	}
	return false
}

func localMapFromCall(fi *an.FuncInfo, ld *ssa.UnOp, callee *ssa.Function) bool {
	al, ok := ld.X.(*ssa.Alloc)
	if !ok {
		return false
	}
	for _, r := range *al.Referrers() {
		if st, ok := r.(*ssa.Store); ok && st.Addr == al {
			if mm, ok := st.Val.(*ssa.MakeMap); ok {
				return mapFilledFrom(fi, mm, callee)
			}
		}
	}
	return false
}

// mapFilledFrom: every update of the map stores fields of elements of a slice returned by callee.
func mapFilledFrom(fi *an.FuncInfo, mm *ssa.MakeMap, callee *ssa.Function) bool {
	refs := mm.Referrers()
	if refs == nil {
		return false
	}
	n := 0
	for _, r := range *refs {
		mu, ok := r.(*ssa.MapUpdate)
		if !ok {
			continue
		}
		n++
		kt := fi.Term(mu.Key)
		ok2 := false
		kt.Walk(func(t *an.Term) {
			if t.K == an.KExt {
				if call, ok := t.A[0].Val.(*ssa.Call); ok && call.Call.StaticCallee() == callee {
					ok2 = true
				}
			}
			if t.K == an.KPhi {
				if ph, ok := t.Val.(*ssa.Phi); ok && derivesFromCall(fi, ph, callee, 0) {
					ok2 = true
				}
			}
		})
		if !ok2 {
			return false
		}
	}
	return n > 0
}

// writesValue: the data argument of the file write is the serialization of the adopted value.
func writesValue(fi *an.FuncInfo, data ssa.Value, val ssa.Value, field string) bool {
	dt := fi.Term(data)
	vt := fi.Term(val)
	switch field {
	case "gcaPubKey":
		// newGCA[:] : slice of the local array holding the value
		if dt.K == an.KSlice && dt.A[0].K == an.KAlloc {
			if al, ok := dt.A[0].Val.(*ssa.Alloc); ok {
				return fi.ContentAt(al, data.(ssa.Instruction)).Key() == vt.Key()
			}
		}
	case "shortID":
		// bytes of PutUint32(buf, newShortID)
		if dt.K == an.KSlice && dt.A[0].K == an.KAlloc {
			al, _ := dt.A[0].Val.(*ssa.Alloc)
			for _, b := range fi.Fn.Blocks {
				for _, in := range b.Instrs {
					call, ok := in.(*ssa.Call)
					if !ok || an.CalleeName(&call.Call) != "(encoding/binary.littleEndian).PutUint32" {
						continue
					}
					if sl, ok := call.Call.Args[1].(*ssa.Slice); ok && sl.X == ssa.Value(al) && fi.Term(call.Call.Args[2]).Key() == vt.Key() {
						return true
					}
				}
			}
		}
	case "gcaServers":
		found := false
		dt.Walk(func(t *an.Term) {
			if strings.HasSuffix(t.Callee(), "client.SerializeGCAServerMap") && len(t.A) == 1 && t.A[0].Key() == vt.Key() {
				found = true
			}
		})
		return found
	}
	return false
}

// falseEdgeReturnsError: the boolean result of call feeds a branch (possibly through !) whose
// "call is false" edge leads to a return with a non-nil error.
func falseEdgeReturnsError(fi *an.FuncInfo, call *ssa.Call) bool {
	check := func(iff *ssa.If, falseSucc int) bool {
		fb := iff.Block().Succs[falseSucc]
		if len(fb.Instrs) == 0 {
			return false
		}
		// every way on from the false edge ends in an error return (directly, or err = ...; break; return err)
		if abortsOnly(fi, iff.Block(), fb) {
			return true
		}
		if ret, ok := fb.Instrs[len(fb.Instrs)-1].(*ssa.Return); ok && len(ret.Results) > 0 {
			if k, isC := fi.Term(ret.Results[len(ret.Results)-1]).IsConst(); !isC || k != "nil" {
				return true
			}
		}
		return false
	}
	refs := call.Referrers()
	if refs == nil {
		return false
	}
	for _, r := range *refs {
		switch x := r.(type) {
		case *ssa.If:
			if check(x, 1) {
				return true
			}
		case *ssa.UnOp:
			if x.Op.String() == "!" && x.Referrers() != nil {
				for _, r2 := range *x.Referrers() {
					if iff, ok := r2.(*ssa.If); ok && check(iff, 0) {
						return true
					}
				}
			}
		}
	}
	return false
}
