package props

import (
	"go/token"
	"go/types"
	"strings"

	"gcacheck/internal/an"

	"golang.org/x/tools/go/ssa"
)

func init() {
	register(&an.PropertyCheck{
		ID:      "C16",
		Title:   "Energy readings become report values by fixed rules, for every file content",
		Engines: "BOUND on the two file readers, PRED (decision structure of the value rule as terms over the parsed reading), dataflow (which parse feeds which field)",
		Explanation: "Decided on client.staticReadEnergyFile and client.readCTSettingsFile: BOUND every index into a CSV row and every other index/slice in both readers is proved in range (a row with too few columns cannot be indexed); " +
			"the value rule is exactly: unparseable reading => 3; -24 < reading < 24 => 2 (both bounds strict, constants 24 and -24); otherwise uint64(multiplier * reading / divider) with the conversion applied last to a float expression " +
			"(scale before cast) and no arithmetic after it; the record's timeslot is UnixToTimeslot of the same row's first column and rows whose timestamp does not parse or predates genesis are skipped without producing a record; " +
			"only parse failures and short rows skip, nothing returns an error or panics after the file was read; calibration: the multiplier is the ParseFloat of the text after exactly one Scan, the divider after exactly two. " +
			"readings and calibration settings are parsed with bitSize 64 (no rounding to float32). A calibration value is installed only under the nil error of the ParseFloat call that produced it; no row is read and discarded outside the row loop. NOT decided: the numeric result of float64->uint64 conversion for negative, NaN, infinite or overflowing values (implementation-defined by the Go specification; two's complement on amd64/arm64 as compiled), truncation semantics of the conversion itself, and encoding/csv's own parsing rules.",
		Assumptions: append([]string{"encoding/csv, strconv.ParseFloat/ParseInt and bufio.Scanner behave as documented", "float64 -> uint64 conversion of in-range values truncates toward zero (Go specification)"}, baseAssumptions...),
		Run:         runC16,
	})
}

func runC16(c *an.Ctx) {
	p := c.P
	var reader, calib *ssa.Function
	// role discovery: the energy reader is the client function that calls csv.Reader.Read;
	// the calibration reader is the one that stores energyMultiplier from a parsed float.
	for _, fn := range p.FuncsIn("client") {
		for _, b := range fn.Blocks {
			for _, in := range b.Instrs {
				if call, ok := in.(*ssa.Call); ok && an.CalleeName(&call.Call) == "(*encoding/csv.Reader).Read" {
					reader = fn
				}
				if st, ok := in.(*ssa.Store); ok {
					if fa, ok := st.Addr.(*ssa.FieldAddr); ok && fieldNameOf(fa) == "energyMultiplier" {
						if _, isConst := st.Val.(*ssa.Const); !isConst {
							calib = fn
						}
					}
				}
			}
		}
	}
	if reader == nil || calib == nil {
		c.Undecided("ANCHOR", nil, 0, "energy-reader", "energy file reader or calibration reader not found", "anchor missing")
		return
	}
	c.Scope(reader, calib)
	boundRule(c, "BOUND", []*ssa.Function{reader, calib}, nil)
	c.Floor("BOUND", 4)
	energyValueRule(c, reader)
	calibrationRule(c, calib)
}

func energyValueRule(c *an.Ctx, fn *ssa.Function) {
	p := c.P
	fi := p.Info(fn)
	// every row of the file is visited: the row loop is left only when the csv reader reports an error (io.EOF included)
	for _, b := range fn.Blocks {
		for _, in := range b.Instrs {
			call, ok := in.(*ssa.Call)
			if !ok || an.CalleeName(&call.Call) != "(*encoding/csv.Reader).Read" {
				continue
			}
			l := innermostLoopOf(fn, call.Block())
			if l == nil {
				// a row read outside the row loop: if nothing is done with it, that row is lost whatever it contains
				used := false
				if refs := call.Referrers(); refs != nil {
					for _, r := range *refs {
						if ex, ok := r.(*ssa.Extract); ok && ex.Index == 0 && ex.Referrers() != nil && len(*ex.Referrers()) > 0 {
							used = true
						}
					}
				}
				if used && primesRowLoop(fn, call) {
					continue // record, err := r.Read(); for ; err == nil; record, err = r.Read() { .. }: the first row enters the loop like every other
				}
				if !used {
					c.Violated("PRED", fn, call.Pos(), an.KeyOf(fn, "row-consumed-unprocessed"), "a row of the energy file is read and discarded outside the row loop: a well-formed first row (a file without header line) yields no record", "the record result of this Read call is never used")
				} else {
					c.Undecided("PRED", fn, call.Pos(), an.KeyOf(fn, "row-loop"), "the csv Read call is not inside a loop", "shape not recognised")
				}
				continue
			}
			rerr := fi.FieldlessExtract(call, 1)
			// the loop may test the error through the variable that both reads assign (a phi of their error results)
			var rerrPhi *an.Term
			if refs := call.Referrers(); refs != nil {
				for _, r := range *refs {
					if ex, ok := r.(*ssa.Extract); ok && ex.Index == 1 && ex.Referrers() != nil {
						for _, r2 := range *ex.Referrers() {
							if ph, ok := r2.(*ssa.Phi); ok && readErrPhi(ph) {
								rerrPhi = fi.Term(ph)
							}
						}
					}
				}
			}
			okEx, where, nEx := true, "", 0
			for _, u := range fn.Blocks {
				if !l.body[u] {
					continue
				}
				for _, v := range u.Succs {
					if l.body[v] {
						continue
					}
					nEx++
					fs := an.FactSet{}
					for k, f := range fi.FactsAtBlock(u) {
						fs[k] = f
					}
					for _, f := range fi.EdgeFacts(u, v) {
						fs[f.Key()] = f
					}
					isErr := fs.Has(an.NormBin("!=", rerr, an.ConstTerm("nil")).Key())
					if rerrPhi != nil && fs.Has(an.NormBin("!=", rerrPhi, an.ConstTerm("nil")).Key()) {
						isErr = true
					}
					for _, f := range fs {
						// err == io.EOF (a non-nil sentinel)
						if !f.Neg && f.T.K == an.KBin && f.T.S == "==" {
							for k := 0; k < 2; k++ {
								if f.T.A[k].Key() == rerr.Key() && strings.Contains(f.T.A[1-k].Key(), "io.EOF") {
									isErr = true
								}
							}
						}
					}
					if !isErr {
						okEx = false
						for _, i2 := range u.Instrs {
							if i2.Pos().IsValid() {
								where = p.Pos(i2.Pos())
							}
						}
					}
				}
			}
			c.Check(okEx && nEx > 0, "PRED", fn, call.Pos(), an.KeyOf(fn, "all-rows"), "the row loop is left only when the csv reader returns an error (end of file included): a bad row is skipped, never ends the scan", "exit near "+where)
		}
	}
	// the ways the Energy field of the appended record gets its value: the incoming edges of the phi that is stored into
	// it, or the stores into the field of a record that is filled field by field in the branches of the rule
	type energyCase struct {
		val   ssa.Value
		facts an.FactSet
	}
	var cases []energyCase
	var casePos token.Pos
	var tsVal ssa.Value
	for _, b := range fn.Blocks {
		for _, in := range b.Instrs {
			st, ok := in.(*ssa.Store)
			if !ok {
				continue
			}
			fa, ok := st.Addr.(*ssa.FieldAddr)
			if !ok || namedOfPtr(fa.X.Type()) != "EnergyRecord" {
				continue
			}
			switch fieldNameOf(fa) {
			case "Energy":
				casePos = st.Pos()
				if ph, isPhi := st.Val.(*ssa.Phi); isPhi {
					for k, e := range ph.Edges {
						pred := ph.Block().Preds[k]
						facts := an.FactSet{}
						for key, f := range fi.FactsAtBlock(pred) {
							facts[key] = f
						}
						for _, f := range fi.EdgeFacts(pred, ph.Block()) {
							facts[f.Key()] = f
						}
						cases = append(cases, energyCase{e, facts})
					}
				} else {
					cases = append(cases, energyCase{st.Val, fi.FactsAt(st)})
				}
			case "Timeslot":
				tsVal = st.Val
			}
		}
	}
	if len(cases) == 0 || tsVal == nil {
		c.Undecided("PRED", fn, fn.Pos(), an.KeyOf(fn, "value-rule-shape"), "the record's Energy is not a three-way choice (phi) or Timeslot is not set", "shape not recognised")
		return
	}
	c.Count("PRED", len(cases))
	// the parsed reading
	var reading *an.Term
	for _, b := range fn.Blocks {
		for _, in := range b.Instrs {
			if call, ok := in.(*ssa.Call); ok && an.CalleeName(&call.Call) == "strconv.ParseFloat" {
				reading = fi.FieldlessExtract(call, 0)
				bs, isC := fi.Term(call.Call.Args[1]).IsConst()
				c.Check(isC && bs == "64", "PRED", fn, call.Pos(), an.KeyOf(fn, "reading-precision"), "the reading is parsed with bitSize 64 (no rounding to float32 before the rules are applied)", "bitSize "+bs)
			}
		}
	}
	if reading == nil {
		c.Violated("PRED", fn, fn.Pos(), an.KeyOf(fn, "reading"), "the reading is not parsed with strconv.ParseFloat (fractional and exponent readings are well-formed; only an unparseable reading gives the sentinel 3)", "no strconv.ParseFloat call found")
		return
	}
	parseErr := func() *an.Term {
		for _, b := range fn.Blocks {
			for _, in := range b.Instrs {
				if call, ok := in.(*ssa.Call); ok && an.CalleeName(&call.Call) == "strconv.ParseFloat" {
					return fi.FieldlessExtract(call, 1)
				}
			}
		}
		return nil
	}()
	seen := map[string]bool{}
	for _, cs := range cases {
		e, facts := cs.val, cs.facts
		et := fi.Term(e)
		errNonNil := an.NormBin("!=", parseErr, an.ConstTerm("nil")).Key()
		errNil := an.NormBin("==", parseErr, an.ConstTerm("nil")).Key()
		lowA := an.NormBin("<", an.ConstTerm("-24"), reading).Key()
		lowB := an.NormBin("<", reading, an.ConstTerm("24")).Key()
		kc, isConst := et.IsConst()
		switch {
		case isConst && kc == "3":
			seen["3"] = true
			c.Check(facts.Has(errNonNil), "PRED", fn, e.Pos(), an.KeyOf(fn, "value:3"), "sentinel 3 is assigned exactly when the reading does not parse (spec sentinels.parseError)", "edge condition ParseFloat error != nil")
		case isConst && kc == "2":
			seen["2"] = true
			ok := facts.Has(errNil) && facts.Has(lowA) && facts.Has(lowB)
			c.Check(ok, "PRED", fn, e.Pos(), an.KeyOf(fn, "value:2"), "sentinel 2 is assigned exactly when the reading parses and -24 < reading < 24 (spec C16.low, both bounds strict)", "edge facts: "+factList(facts))
		default:
			seen["scaled"] = true
			// uint64( mult * reading / div )
			okShape := et.K == an.KConv && strings.HasSuffix(et.S, "uint64")
			var inner *an.Term
			if okShape {
				inner = et.A[0]
				_, _, isInt := isIntTyp(inner.Typ)
				okShape = !isInt
			}
			usesReading, usesMult, usesDiv := false, false, false
			shapeDiv := false
			if inner != nil {
				inner.Walk(func(t *an.Term) {
					if t.Key() == reading.Key() {
						usesReading = true
					}
					if f, _, ok := mapFieldOfTerm(t); ok {
						if f == "energyMultiplier" {
							usesMult = true
						}
						if f == "energyDivider" {
							usesDiv = true
						}
					}
				})
				// (mult * reading) / div
				if inner.K == an.KBin && inner.S == "/" {
					if f, _, ok := mapFieldOfTerm(inner.A[1]); ok && f == "energyDivider" {
						num := inner.A[0]
						if num.K == an.KBin && num.S == "*" {
							shapeDiv = true
						}
					}
				}
			}
			// on this edge the reading parsed and is not in the dead band:  !( -24 < r && r < 24 ) is the or-fact
			negLow := an.OrKey(an.NormBin("<=", reading, an.ConstTerm("-24")), an.NormBin("<=", an.ConstTerm("24"), reading))
			okCond := facts.Has(errNil) && (facts.Has(negLow) || facts.Has(an.NormBin("<=", reading, an.ConstTerm("-24")).Key()) || facts.Has(an.NormBin("<=", an.ConstTerm("24"), reading).Key()))
			c.Check(okShape && usesReading && usesMult && usesDiv && shapeDiv, "PRED", fn, e.Pos(), an.KeyOf(fn, "value:scaled"),
				"otherwise the value is uint64(multiplier * reading / divider): the float expression is scaled first and converted last (scale before cast), with no integer arithmetic after the conversion", "stored term "+short(et.Key()))
			c.Check(okCond, "PRED", fn, e.Pos(), an.KeyOf(fn, "value:scaled-cond"), "the scaled value is used exactly when the reading parses and is outside (-24, 24)", "edge facts: "+factList(facts))
		}
	}
	if !(seen["2"] && seen["3"] && seen["scaled"]) {
		c.Violated("PRED", fn, casePos, an.KeyOf(fn, "value-rule-cases"), "the value rule does not have the three cases 3 / 2 / scaled", "cases found: "+keysOf(seen))
	}
	// timeslot of the same row
	tt := fi.Term(tsVal)
	if in, ok := tsVal.(ssa.Instruction); ok {
		tt = fi.RefineAt(tt, in)
	}
	okTS := false
	if tt.K == an.KExt && tt.S == "0" && strings.HasSuffix(tt.A[0].Callee(), "glow.UnixToTimeslot") {
		arg := tt.A[0].A[0]
		if arg.K == an.KExt && arg.S == "0" && arg.A[0].Callee() == "strconv.ParseInt" {
			// first column of the same row as the reading
			col0 := arg.A[0].A[0]
			okTS = col0.K == an.KLoad && col0.A[0].K == an.KIA && isConstTerm(col0.A[0].A[1], "0") && sameRow(col0, reading)
			// parsed as a decimal 64-bit integer: a timestamp at or after 2^31 seconds is a well-formed row too
			if len(arg.A[0].A) == 3 {
				base, isB := arg.A[0].A[1].IsConst()
				bits, isS := arg.A[0].A[2].IsConst()
				c.Check(isB && base == "10" && isS && bits == "64", "PRED", fn, tsVal.Pos(), an.KeyOf(fn, "timestamp-width"), "the row's timestamp is parsed as a base-10, 64-bit integer (every timestamp UnixToTimeslot accepts is a well-formed row)", "ParseInt(col0, "+base+", "+bits+")")
			}
		}
	}
	// the reading is the SECOND column of the row
	okCol := false
	if reading.K == an.KExt && reading.S == "0" && len(reading.A[0].A) > 0 {
		col1 := reading.A[0].A[0]
		okCol = col1.K == an.KLoad && col1.A[0].K == an.KIA && isConstTerm(col1.A[0].A[1], "1")
	}
	c.Check(okCol, "PRED", fn, tsVal.Pos(), an.KeyOf(fn, "reading-column"), "the reading is parsed from the second column of the row (timestamp,reading)", "parsed text "+short(reading.Key()))
	c.Check(okTS, "PRED", fn, tsVal.Pos(), an.KeyOf(fn, "timeslot"), "the record's timeslot is UnixToTimeslot(ParseInt(first column)) of the same row as the reading", "term "+short(tt.Key()))
	// the append of the record is dominated by successful timestamp parse and conversion
	for _, b := range fn.Blocks {
		for _, in := range b.Instrs {
			call, ok := in.(*ssa.Call)
			if !ok {
				continue
			}
			bi, ok := call.Call.Value.(*ssa.Builtin)
			if !ok || bi.Name() != "append" {
				continue
			}
			if sl, ok := call.Type().Underlying().(*types.Slice); !ok || !strings.HasSuffix(sl.Elem().String(), "EnergyRecord") {
				continue
			}
			facts := fi.FactsAt(call)
			n := 0
			for _, f := range facts {
				if f.T.K == an.KBin && f.T.S == "==" {
					for _, a := range f.T.A {
						if a.K == an.KExt && a.S == "1" && (a.A[0].Callee() == "strconv.ParseInt" || strings.HasSuffix(a.A[0].Callee(), "glow.UnixToTimeslot")) {
							n++
						}
					}
				}
			}
			c.Check(n >= 2, "PRED", fn, call.Pos(), an.KeyOf(fn, "skip-unusable"), "a record is produced only for rows whose timestamp parses and is at or after genesis (both error results nil); other rows are skipped", "dominating facts: "+factList(facts))
		}
	}
}

func isConstTerm(t *an.Term, k string) bool {
	v, ok := t.IsConst()
	return ok && v == k
}

// sameRow: both terms are derived from the same csv record value.
func sameRow(a, b *an.Term) bool {
	rowOf := func(x *an.Term) string {
		r := ""
		x.Walk(func(t *an.Term) {
			if t.K == an.KExt && t.S == "0" && t.A[0].Callee() == "(*encoding/csv.Reader).Read" {
				r = t.Key()
			}
			// the row variable that a priming read and the read at the end of the loop body both assign
			if ph, ok := t.Val.(*ssa.Phi); ok && t.K == an.KPhi && len(ph.Edges) > 0 {
				all := true
				for _, e := range ph.Edges {
					ex, ok := e.(*ssa.Extract)
					if !ok || ex.Index != 0 {
						all = false
						break
					}
					if cl, ok := ex.Tuple.(*ssa.Call); !ok || an.CalleeName(&cl.Call) != "(*encoding/csv.Reader).Read" {
						all = false
					}
				}
				if all {
					r = t.Key()
				}
			}
		})
		return r
	}
	ra, rb := rowOf(a), rowOf(b)
	return ra != "" && ra == rb
}

// readErrPhi: every incoming value of the phi is the error result of a csv Read call.
func readErrPhi(ph *ssa.Phi) bool {
	for _, e := range ph.Edges {
		ex, ok := e.(*ssa.Extract)
		if !ok || ex.Index != 1 {
			return false
		}
		if cl, ok := ex.Tuple.(*ssa.Call); !ok || an.CalleeName(&cl.Call) != "(*encoding/csv.Reader).Read" {
			return false
		}
	}
	return len(ph.Edges) > 0
}

// primesRowLoop: the results of this Read (outside any loop) only feed phis at the header of a loop that itself
// contains a Read feeding the same phis.
func primesRowLoop(fn *ssa.Function, call *ssa.Call) bool {
	refs := call.Referrers()
	if refs == nil {
		return false
	}
	ok := false
	for _, r := range *refs {
		ex, isEx := r.(*ssa.Extract)
		if !isEx || ex.Referrers() == nil {
			continue
		}
		for _, r2 := range *ex.Referrers() {
			ph, isPhi := r2.(*ssa.Phi)
			if !isPhi {
				return false
			}
			inLoopRead := false
			for _, e := range ph.Edges {
				if e2, isE := e.(*ssa.Extract); isE && e2.Index == ex.Index {
					if cl, isC := e2.Tuple.(*ssa.Call); isC && cl != call && an.CalleeName(&cl.Call) == "(*encoding/csv.Reader).Read" && innermostLoopOf(fn, cl.Block()) != nil {
						inLoopRead = true
					}
				}
			}
			if !inLoopRead {
				return false
			}
			ok = true
		}
	}
	return ok
}

func keysOf(m map[string]bool) string {
	var out []string
	for k := range m {
		out = append(out, k)
	}
	return strings.Join(out, ",")
}

func isIntTyp(t types.Type) (int, bool, bool) {
	if t == nil {
		return 0, false, false
	}
	b, ok := t.Underlying().(*types.Basic)
	if !ok {
		return 0, false, false
	}
	return 0, false, b.Info()&types.IsInteger != 0
}

// calibrationRule: multiplier <- ParseFloat(text after 1 Scan), divider <- after 2 Scans.
func calibrationRule(c *an.Ctx, fn *ssa.Function) {
	p := c.P
	fi := p.Info(fn)
	var scans []*ssa.Call
	for _, b := range fn.Blocks {
		for _, in := range b.Instrs {
			if call, ok := in.(*ssa.Call); ok && an.CalleeName(&call.Call) == "(*bufio.Scanner).Scan" {
				scans = append(scans, call)
			}
		}
	}
	want := map[string]int{"energyMultiplier": 1, "energyDivider": 2}
	n := 0
	for _, b := range fn.Blocks {
		for _, in := range b.Instrs {
			st, ok := in.(*ssa.Store)
			if !ok {
				continue
			}
			fa, ok := st.Addr.(*ssa.FieldAddr)
			if !ok {
				continue
			}
			w, ok := want[fieldNameOf(fa)]
			if !ok {
				continue
			}
			if _, isConst := st.Val.(*ssa.Const); isConst {
				// defaults: only when the settings file does not exist (any other failure to read it is an error, not
				// "calibration absent")
				absent := false
				for _, f := range fi.FactsAt(st) {
					if f.Neg {
						continue
					}
					cn := f.T.Callee()
					if cn == "os.IsNotExist" || (cn == "errors.Is" && strings.Contains(f.T.Key(), "ErrNotExist")) {
						absent = true
					}
				}
				c.Check(absent, "PRED", fn, st.Pos(), an.KeyOf(fn, "calibration-default:"+fieldNameOf(fa)), "the default "+fieldNameOf(fa)+" is installed only when the settings file does not exist (os.IsNotExist of the read error)", "facts "+factList(fi.FactsAt(st)))
				continue
			}
			n++
			vt := fi.RefineAt(fi.Term(st.Val), st)
			okShape := false
			nScans := -1
			if vt.K == an.KExt && vt.S == "0" && vt.A[0].Callee() == "strconv.ParseFloat" {
				// the Text() call that produced the argument
				if pc, ok := vt.A[0].Val.(*ssa.Call); ok {
					// full precision: bitSize 64 (a 32-bit parse rounds the setting to float32)
					bs, isC := fi.Term(pc.Call.Args[1]).IsConst()
					c.Check(isC && bs == "64", "PRED", fn, pc.Pos(), an.KeyOf(fn, "calibration-precision:"+fieldNameOf(fa)), fieldNameOf(fa)+" is parsed with bitSize 64: the setting is read exactly as written (to float64 precision)", "bitSize "+bs)
					if tc, ok := pc.Call.Args[0].(*ssa.Call); ok && an.CalleeName(&tc.Call) == "(*bufio.Scanner).Text" {
						okShape = true
						nScans = 0
						for _, s := range scans {
							if an.Dominates(s, tc) {
								nScans++
							}
						}
					}
				}
			}
			c.Check(okShape && nScans == w, "PRED", fn, st.Pos(), an.KeyOf(fn, "calibration:"+fieldNameOf(fa)),
				fieldNameOf(fa)+" is the ParseFloat of the scanner text after exactly "+itoaP(w)+" Scan call(s) (first line multiplier, second line divider)", "value "+short(vt.Key()))
			// the setting is installed only if its own parse succeeded (a parse error that is overwritten before it is
			// tested lets "whoops" through as 0 and "1e999" as +Inf)
			okErr := false
			if vt.K == an.KExt && len(vt.A) == 1 {
				for _, f := range fi.FactsAt(st) {
					if f.Neg || f.T.K != an.KBin || f.T.S != "==" {
						continue
					}
					for k := 0; k < 2; k++ {
						a, b := f.T.A[k], f.T.A[1-k]
						if isConstTerm(b, "nil") && a.K == an.KExt && a.S == "1" && a.A[0].Key() == vt.A[0].Key() {
							okErr = true
						}
					}
				}
			}
			c.Check(okErr, "PRED", fn, st.Pos(), an.KeyOf(fn, "calibration-parsed-ok:"+fieldNameOf(fa)), fieldNameOf(fa)+" is installed only under the nil error of the very ParseFloat call that produced it (a malformed setting is an error, not a silent 0 or Inf)", "facts "+factList(fi.FactsAt(st)))
		}
	}
	c.Count("PRED-calibration", n)
	c.Floor("PRED-calibration", 2)
}
