package props

import (
	"fmt"
	"go/types"
	"math/big"
	"strings"

	"gcacheck/internal/an"

	"golang.org/x/tools/go/ssa"
)

func init() {
	register(&an.PropertyCheck{
		ID:      "C09",
		Title:   "A device never signs two different reports for the same timeslot",
		Engines: "WHO-MAY (writers of the history file), dominance (write-once slot), sibling comparison (slot address in saver and loader), PRED (address arithmetic on its domain), dominance (send after save)",
		Explanation: "Decided on package client: WHO-MAY the history file is written only by the history saver (one WriteAt of 4 bytes) and read at the same address by the history loader; WRITE-ONCE the write is dominated by 'the stored value is 0' and by 'the stored value differs from the new one' being excluded " +
			"(equal => no write, different non-zero => error), for the value just loaded from the same slot; a timeslot before the history origin is refused; ADDRESS saver and loader compute the byte offset 4*(1 + timeslot - origin) with the same term, exact (no wrap-around) for timeslot - origin up to 2^30-2, " +
			"which covers every timeslot UnixToTimeslot can produce; SEND-AFTER-SAVE in the reporting loop a report for a new reading is sent only after the saver returned nil for (record.Timeslot, uint32(record.Energy)) of the very record that is sent; the start-up pass saves and never sends; " +
			"the resend pass sends only values returned by the history loader; every datagram is built by one sender function from (id, timeslot, value) and signed over SigningBytes of that same structure, so equal (timeslot, value) give byte-identical datagrams (deterministic signing, trusted). " +
			"a reading is sent only under E == uint64(int32(uint32(E))) (what a re-send reconstructs from the 32-bit history); the saver returns nil after the write only if WriteAt succeeded; the loader answers \"empty\" only under err == io.EOF (or before the origin) and a value only when the read succeeded. STORE at every call of the history saver a 64-bit reading is narrowed to 32 bits only under E == uint64(int32(uint32(E))). NOT decided: the evolution of the energy file as such; two rows whose values differ only above bit 31 (the saver compares 32 bits while the first send carries 64: noted).",
		Assumptions: append([]string{"(*os.File).WriteAt/ReadAt address the same bytes for the same offset", "glow.Sign is deterministic (RFC 6979, trusted)"}, baseAssumptions...),
		Run:         runC09,
	})
}

func historyFuncs(p *an.Program) (saver, loader *ssa.Function) {
	for _, fn := range p.FuncsIn("client") {
		for _, b := range fn.Blocks {
			for _, in := range b.Instrs {
				if call, ok := in.(*ssa.Call); ok {
					switch an.CalleeName(&call.Call) {
					case "(*os.File).WriteAt":
						saver = fn
					case "(*os.File).ReadAt":
						if fn.Signature.Results().Len() == 2 {
							loader = fn
						}
					}
				}
			}
		}
	}
	// the write step may live in a helper that only the saver calls: the saver is the function that consults the loader
	if saver != nil && loader != nil {
		callsLoader := func(fn *ssa.Function) bool {
			for _, s := range p.CallSites(loader) {
				if s.Parent() == fn {
					return true
				}
			}
			return false
		}
		if !callsLoader(saver) {
			for _, s := range p.CallSites(saver) {
				if up := s.Parent(); callsLoader(up) && calledOnlyFrom(p, saver, up) {
					saver = up
					break
				}
			}
		}
	}
	return
}

// histWrite is the write of a reading into the history file as the saver sees it: the WriteAt call itself, or the call
// of a helper (called only by the saver) that performs it.
type histWrite struct {
	at    *ssa.Call     // in the saver
	inner *ssa.Call     // the WriteAt call
	infn  *ssa.Function // the function that contains inner
}

func findHistWrite(p *an.Program, saver *ssa.Function) *histWrite {
	find := func(fn *ssa.Function) *ssa.Call {
		for _, b := range fn.Blocks {
			for _, in := range b.Instrs {
				if call, ok := in.(*ssa.Call); ok && an.CalleeName(&call.Call) == "(*os.File).WriteAt" {
					return call
				}
			}
		}
		return nil
	}
	if w := find(saver); w != nil {
		return &histWrite{w, w, saver}
	}
	for _, b := range saver.Blocks {
		for _, in := range b.Instrs {
			if call, ok := in.(*ssa.Call); ok {
				if sc := call.Call.StaticCallee(); sc != nil && sc.Pkg == saver.Pkg && calledOnlyFrom(p, sc, saver) {
					if w := find(sc); w != nil {
						return &histWrite{call, w, sc}
					}
				}
			}
		}
	}
	return nil
}

// term of argument k of the WriteAt call in the saver's vocabulary
func (hw *histWrite) arg(p *an.Program, saver *ssa.Function, k int) *an.Term {
	if hw.at == hw.inner {
		return p.Info(saver).Term(hw.inner.Call.Args[k])
	}
	t := p.Info(saver).InstantiateTerm(p.Info(hw.infn).Term(hw.inner.Call.Args[k]), hw.at)
	if t == nil {
		return an.ConstTerm("?")
	}
	return t
}

// succeededAt: the facts at instruction `at` of the saver say that the write succeeded.
func (hw *histWrite) succeededAt(p *an.Program, saver *ssa.Function, at ssa.Instruction) bool {
	return hw.succeededIn(p, saver, p.Info(saver).FactsAt(at))
}

func (hw *histWrite) succeededIn(p *an.Program, saver *ssa.Function, facts an.FactSet) bool {
	for _, f := range facts {
		if f.Neg || f.T.K != an.KBin || f.T.S != "==" {
			continue
		}
		for _, a := range f.T.A {
			if hw.at == hw.inner {
				if a.K == an.KExt && a.S == "1" && a.A[0].Val == ssa.Value(hw.inner) {
					return true
				}
			} else if a.Val == ssa.Value(hw.at) {
				// the helper's error is nil, and the helper returns nil only after a successful WriteAt
				hfi := p.Info(hw.infn)
				ok := true
				for _, b := range hw.infn.Blocks {
					if len(b.Instrs) == 0 || b == hw.infn.Recover {
						continue
					}
					ret, isRet := b.Instrs[len(b.Instrs)-1].(*ssa.Return)
					if !isRet || len(ret.Results) == 0 || !isConstTerm(hfi.Term(ret.Results[len(ret.Results)-1]), "nil") {
						continue
					}
					succ := false
					for _, hf := range hfi.FactsAt(ret) {
						if !hf.Neg && hf.T.K == an.KBin && hf.T.S == "==" {
							for _, x := range hf.T.A {
								if x.K == an.KExt && x.S == "1" && x.A[0].Val == ssa.Value(hw.inner) {
									succ = true
								}
							}
						}
					}
					if !succ {
						ok = false
					}
				}
				return ok
			}
		}
	}
	return false
}

func runC09(c *an.Ctx) {
	p := c.P
	saver, loader := historyFuncs(p)
	if saver == nil || loader == nil {
		c.Undecided("ANCHOR", nil, 0, "history", "history saver or loader not found", "anchor missing")
		return
	}
	c.Scope(saver, loader)
	sfi, lfi := p.Info(saver), p.Info(loader)
	// WHO-MAY: WriteAt only in the saver, on the history file handle
	n := 0
	for _, fn := range p.FuncsIn("client") {
		for _, op := range p.FileOps(fn) {
			if op.Kind == "writeat" || op.Kind == "truncate" {
				n++
				c.Check(fn == saver || calledOnlyFrom(p, fn, saver), "WHO-MAY", fn, op.Call.Pos(), an.KeyOf(fn, "history-write"), "the history file is written in place only by the history saver (or a helper only it calls)", an.FuncName(fn))
			}
			if (op.Kind == "open-rw" || op.Kind == "open-trunc" || op.Kind == "open-append" || op.Kind == "writefile" || op.Kind == "create") && op.File == "history.dat" {
				n++
				c.Check(op.Kind == "open-rw", "WHO-MAY", fn, op.Call.Pos(), an.KeyOf(fn, "history-open:"+op.Kind), "history.dat is opened read-write without truncation", "kind "+op.Kind)
			}
		}
	}
	c.Count("WHO-MAY", n)
	c.Floor("WHO-MAY", 2)
	write, facts, tsS := writeOnce(c, saver, loader)
	if write == nil {
		return
	}
	valS := sfi.Term(saver.Params[2])
	// refusal before origin
	okRef := false
	for _, f := range facts {
		if !f.Neg && f.T.K == an.KBin && f.T.S == "<=" && f.T.A[1].Key() == tsS.Key() {
			if fl, _, ok := mapFieldOfTerm(f.T.A[0]); ok && fl == "staticHistoryOffset" {
				okRef = true
			}
		}
	}
	c.Check(okRef, "ADDRESS", saver, write.Pos(), an.KeyOf(saver, "origin-refusal"), "a timeslot before the history origin is refused, not misplaced (origin <= timeslot dominates the write)", "facts "+factList(facts))
	// data: 4 bytes LE of the value
	dataOK := false
	hw := findHistWrite(p, saver)
	wfi := p.Info(hw.infn)
	dt := wfi.Term(hw.inner.Call.Args[1])
	if dt.K == an.KSlice && dt.A[0].K == an.KAlloc {
		for _, b := range hw.infn.Blocks {
			for _, in := range b.Instrs {
				if call, ok := in.(*ssa.Call); ok && an.CalleeName(&call.Call) == "(encoding/binary.littleEndian).PutUint32" {
					vt := wfi.Term(call.Call.Args[2])
					if hw.at != hw.inner {
						vt = sfi.InstantiateTerm(vt, hw.at)
					}
					if vt != nil && vt.Key() == valS.Key() && an.Dominates(call, hw.inner) {
						dataOK = true
					}
				}
			}
		}
	}
	if !dataOK && dt.K == an.KSlice && dt.A[0].K == an.KAlloc {
		// the array filled by hand: data[k] = byte(reading >> 8k)
		if al, isAl := dt.A[0].Val.(*ssa.Alloc); isAl {
			if vt, order, stores, ok := wfi.ShiftEncodedArray(al); ok && order == "LE" && len(stores) == 4 {
				if hw.at != hw.inner {
					vt = sfi.InstantiateTerm(vt, hw.at)
				}
				all := vt != nil && vt.Key() == valS.Key()
				for _, st := range stores {
					if !an.Dominates(st, hw.inner) {
						all = false
					}
				}
				dataOK = all
			}
		}
	}
	c.Check(dataOK, "ADDRESS", saver, write.Pos(), an.KeyOf(saver, "data"), "the 4 bytes written are the little-endian encoding of the reading", "data "+short(dt.Key()))
	// address term: same in saver and loader, and exact on its domain
	offS := hw.arg(p, saver, 2)
	var read *ssa.Call
	for _, b := range loader.Blocks {
		for _, in := range b.Instrs {
			if call, ok := in.(*ssa.Call); ok && an.CalleeName(&call.Call) == "(*os.File).ReadAt" {
				read = call
			}
		}
	}
	offL := lfi.Term(read.Call.Args[2])
	c.Check(an.StripVolatile(offS.Key()) == an.StripVolatile(offL.Key()), "ADDRESS", saver, write.Pos(), an.KeyOf(saver, "same-address"), "saver and loader address the slot of a timeslot with the same expression", "saver "+short(offS.Key())+"; loader "+short(offL.Key()))
	// exactness: int64(4*(1+ts-origin)) == 4*(1+ts-origin) mathematically for ts-origin <= 2^30-2
	var org *an.Term
	offS.Walk(func(t *an.Term) {
		if fl, _, ok := mapFieldOfTerm(t); ok && fl == "staticHistoryOffset" {
			org = t
		}
	})
	if org == nil {
		c.Violated("ADDRESS", saver, write.Pos(), an.KeyOf(saver, "address-formula"), "the slot address does not depend on the history origin", short(offS.Key()))
	} else {
		bad := ""
		pts := 0
		for _, os := range []string{"0", "1000", "2^31"} {
			o := an.Big(os)
			for _, ds := range []string{"0", "1", "2", "4031", "14316557", "2^30-3", "2^30-2"} {
				d := an.Big(ds)
				ts := new(big.Int).Add(o, d)
				if ts.Cmp(an.Big("2^32-1")) > 0 {
					continue
				}
				got, err := an.EvalInt(offS, an.Env{tsS.Key(): ts, org.Key(): o}, p.IntBits)
				pts++
				if err != nil {
					bad = err.Error()
					break
				}
				want := new(big.Int).Mul(big.NewInt(4), new(big.Int).Add(big.NewInt(1), d))
				if got.Cmp(want) != 0 {
					bad = fmt.Sprintf("ts=%s origin=%s: offset %s, expected %s", ts, o, got, want)
				}
			}
		}
		c.Check(bad == "", "ADDRESS", saver, write.Pos(), an.KeyOf(saver, "address-formula"), "the byte offset is exactly 4*(1 + timeslot - origin) for every timeslot up to origin + 2^30 - 2 (beyond what UnixToTimeslot can produce): distinct slots never share bytes, none overlaps the origin word", fmt.Sprintf("%d cells evaluated; term %s %s", pts, short(offS.Key()), bad))
		c.Note("ADDRESS", saver, write.Pos(), an.KeyOf(saver, "address-wrap"), "the uint32 offset arithmetic wraps for timeslot - origin >= 2^30 - 1; unreachable from the energy file because UnixToTimeslot yields at most (2^32-1)/300")
	}
	sendAfterSave(c, saver, loader)
}

// findSender: the client function that builds, signs and sends a report.
// writeOnce: the history saver writes a slot only when the value just read
// from it is 0, treats an equal value as a no-op and refuses a different one.
func writeOnce(c *an.Ctx, saver, loader *ssa.Function) (*ssa.Call, an.FactSet, *an.Term) {
	sfi := c.P.Info(saver)
	// the write
	var write *ssa.Call
	hw := findHistWrite(c.P, saver)
	if hw != nil {
		write = hw.at
		c.Scope(hw.infn)
	}
	if write == nil {
		c.Violated("WRITE-ONCE", saver, saver.Pos(), an.KeyOf(saver, "no-write"), "the history saver does not write the history file", "no WriteAt in the saver or in a helper only it calls")
		return nil, nil, nil
	}
	tsS := sfi.Term(saver.Params[1])
	valS := sfi.Term(saver.Params[2])
	facts := sfi.FactsAt(write)
	// current = result 0 of the loader for the same timeslot
	var cur *an.Term
	for _, b := range saver.Blocks {
		for _, in := range b.Instrs {
			if call, ok := in.(*ssa.Call); ok && call.Call.StaticCallee() == loader {
				if sfi.Term(call.Call.Args[1]).Key() == tsS.Key() {
					cur = sfi.FieldlessExtract(call, 0)
				}
			}
		}
	}
	if cur == nil {
		cur = inlineSlotRead(c.P, saver, hw)
	}
	if cur == nil {
		c.Violated("WRITE-ONCE", saver, saver.Pos(), an.KeyOf(saver, "reads-slot"), "the saver does not read the slot it is about to write", "no call of the history loader for the same timeslot")
	} else {
		empty := facts.Has(an.NormBin("==", cur, an.ConstTerm("0")).Key())
		differs := facts.Has(an.NormBin("!=", cur, valS).Key())
		c.Check(empty, "WRITE-ONCE", saver, write.Pos(), an.KeyOf(saver, "slot-empty"), "the slot is written only if the value just read from it is 0 (a stored reading is never overwritten)", "facts "+factList(facts))
		c.Check(differs, "WRITE-ONCE", saver, write.Pos(), an.KeyOf(saver, "idempotent"), "saving the value that is already stored is a no-op (no write, no error)", "facts "+factList(facts))
		// different non-zero => error return
		okErr := false
		for _, b := range saver.Blocks {
			if len(b.Instrs) == 0 {
				continue
			}
			ret, ok := b.Instrs[len(b.Instrs)-1].(*ssa.Return)
			if !ok {
				continue
			}
			if k, isC := sfi.Term(ret.Results[0]).IsConst(); isC && k == "nil" {
				continue
			}
			f2 := sfi.FactsAt(ret)
			if f2.Has(an.NormBin("!=", cur, an.ConstTerm("0")).Key()) && f2.Has(an.NormBin("!=", cur, valS).Key()) {
				okErr = true
			}
		}
		c.Check(okErr, "WRITE-ONCE", saver, saver.Pos(), an.KeyOf(saver, "conflict-error"), "a different value for an occupied slot makes the saver return an error (so the caller does not send it)", "error return under stored != 0 and stored != new")
	}
	// the saver reports success only when the write succeeded (a reading that is not on disk must not be sent):
	// every nil return that the write can reach is dominated by WriteAt's error being nil
	if write != nil {
		okW := true
		where := ""
		for _, o := range sfi.OutcomesByEdge() {
			if len(o.Results) == 0 || !isConstTerm(o.Results[len(o.Results)-1], "nil") {
				continue
			}
			from := o.Ret.Block()
			if o.From != nil {
				from = o.From
			}
			if !(write.Block() == from || reachable(write.Block(), from)) {
				continue // a way on which nothing was written (the reading is on disk already)
			}
			if !hw.succeededIn(c.P, saver, o.Facts) {
				okW = false
				where = c.P.Pos(o.Ret.Pos())
			}
		}
		c.Check(okW, "WRITE-ONCE", saver, write.Pos(), an.KeyOf(saver, "success-means-written"), "the saver returns nil after the write only if WriteAt returned a nil error (the caller sends only what is on disk)", "nil return at "+where+" is not dominated by the write's success")
	}
	// the loader answers 'empty' (0, nil) only for a slot before the origin or beyond the end of the file (io.EOF);
	// any other read failure is an error, never 'empty' (otherwise an occupied slot could be overwritten)
	lfi := c.P.Info(loader)
	var readAt *ssa.Call
	for _, b := range loader.Blocks {
		for _, in := range b.Instrs {
			if call, ok := in.(*ssa.Call); ok && an.CalleeName(&call.Call) == "(*os.File).ReadAt" {
				readAt = call
			}
		}
	}
	if readAt != nil {
		okL := true
		why := ""
		for _, o := range lfi.OutcomesByEdge() {
			if len(o.Results) != 2 || !isConstTerm(o.Results[1], "nil") {
				continue
			}
			from := o.Ret.Block()
			if o.From != nil {
				from = o.From
			}
			if !(readAt.Block() == from || reachable(readAt.Block(), from)) {
				continue // before the read: the before-origin answer
			}
			eof, good := false, false
			for _, f := range o.Facts {
				if f.Neg || f.T.K != an.KBin || f.T.S != "==" {
					continue
				}
				for k := 0; k < 2; k++ {
					a, ot := f.T.A[k], f.T.A[1-k]
					if a.K == an.KExt && a.S == "1" && a.A[0].Val == ssa.Value(readAt) {
						if isConstTerm(ot, "nil") {
							good = true
						}
						if strings.Contains(ot.Key(), "io.EOF") {
							eof = true
						}
					}
				}
			}
			vz := isConstTerm(o.Results[0], "0")
			switch {
			case vz && !eof && !good:
				okL = false
				why = "return 0, nil at " + c.P.Pos(o.Ret.Pos()) + " without err == io.EOF"
			case !vz && !good:
				okL = false
				why = "a value is returned at " + c.P.Pos(o.Ret.Pos()) + " although the read may have failed"
			}
		}
		c.Check(okL, "WRITE-ONCE", loader, readAt.Pos(), an.KeyOf(loader, "empty-only-eof"), "the history loader answers 'empty' only when the slot lies beyond the end of the file (err == io.EOF) and a value only when the read succeeded; every other read failure is returned as an error", why)
	}
	return write, facts, tsS
}

func findSender(p *an.Program) *ssa.Function {
	for _, fn := range p.FuncsIn("client") {
		for _, b := range fn.Blocks {
			for _, in := range b.Instrs {
				if call, ok := in.(*ssa.Call); ok && strings.HasSuffix(an.CalleeName(&call.Call), "glow.SendUDPReport") {
					return fn
				}
			}
		}
	}
	return nil
}

func sendAfterSave(c *an.Ctx, saver, loader *ssa.Function) {
	p := c.P
	sender := findSender(p)
	if sender == nil {
		c.Undecided("SEND", nil, 0, "sender", "report sender not found", "anchor missing")
		return
	}
	c.Scope(sender)
	// single sender: SendUDPReport is called only there
	n := 0
	for _, fn := range p.FuncsIn("client") {
		for _, b := range fn.Blocks {
			for _, in := range b.Instrs {
				if call, ok := in.(*ssa.Call); ok && strings.HasSuffix(an.CalleeName(&call.Call), "glow.SendUDPReport") {
					n++
					c.Check(fn == sender, "SEND", fn, call.Pos(), an.KeyOf(fn, "single-sender"), "datagrams leave the client only through the one sender function", an.FuncName(fn))
				}
			}
		}
	}
	// sender: builds the report from its argument, signs SigningBytes of the same struct, sends Serialize of it
	sfi := p.Info(sender)
	var signCall, sendCall *ssa.Call
	for _, b := range sender.Blocks {
		for _, in := range b.Instrs {
			if call, ok := in.(*ssa.Call); ok {
				name := an.CalleeName(&call.Call)
				if strings.HasSuffix(name, "glow.Sign") {
					signCall = call
				}
				if strings.HasSuffix(name, "glow.SendUDPReport") {
					sendCall = call
				}
			}
		}
	}
	okBuild := false
	if signCall != nil && sendCall != nil {
		dt := sfi.Term(signCall.Call.Args[0])
		st := sfi.Term(sendCall.Call.Args[0])
		// the struct's fields come from the record argument
		er := sfi.Term(sender.Params[2])
		// the report is assembled in a local: resolve its fields at the two calls
		fieldIs := func(call *ssa.Call, t *an.Term, field, from string) bool {
			if len(t.A) != 1 {
				return false
			}
			x := t.A[0]
			if x.K == an.KRef {
				x = x.A[0]
			}
			v := sfi.ResolveLocalField(x, field, call)
			return v != nil && v.Key() == sfi.FieldOfTerm(er, from).Key()
		}
		sigIs := func(call *ssa.Call, t *an.Term) bool {
			if len(t.A) != 1 {
				return false
			}
			v := sfi.ResolveLocalField(t.A[0], "Signature", call)
			return v != nil && v.Val == ssa.Value(signCall)
		}
		okBuild = strings.HasSuffix(dt.Callee(), "EquipmentReport).SigningBytes") && strings.HasSuffix(st.Callee(), "EquipmentReport).Serialize") &&
			fieldIs(signCall, dt, "Timeslot", "Timeslot") && fieldIs(signCall, dt, "PowerOutput", "Energy") &&
			fieldIs(sendCall, st, "Timeslot", "Timeslot") && fieldIs(sendCall, st, "PowerOutput", "Energy") && sigIs(sendCall, st)
		kt := sfi.Term(signCall.Call.Args[1])
		f, _, isF := mapFieldOfTerm(kt)
		okBuild = okBuild && isF && f == "staticPrivKey"
	}
	c.Check(okBuild, "SEND", sender, sender.Pos(), an.KeyOf(sender, "datagram"), "the datagram is Serialize() of the report built from (id, record.Timeslot, record.Energy), signed with the device key over SigningBytes() of that same report: equal (timeslot, value) give identical datagrams", "sign and send arguments")
	// call sites of the sender
	for _, s := range p.CallSites(sender) {
		call, ok := s.(*ssa.Call)
		if !ok {
			continue
		}
		fn := call.Parent()
		fi := p.Info(fn)
		rec := fi.Term(call.Call.Args[2])
		key := an.KeyOf(fn, "send-site:"+short(rec.Key()))
		// class 1: a record read from the energy file: must follow a successful save of the same record
		savedOK := false
		for _, f := range fi.FactsAt(call) {
			if f.Neg || f.T.K != an.KBin || f.T.S != "==" {
				continue
			}
			for _, a := range f.T.A {
				if (a.K == an.KCall || a.K == an.KPure) && strings.HasSuffix(a.Callee(), an.FuncName(saver)[strings.LastIndex(an.FuncName(saver), ".")+1:]) && len(a.A) == 3 {
					tsOK := a.A[1].Key() == fi.FieldOfTerm(rec, "Timeslot").Key()
					v := a.A[2]
					valOK := v.K == an.KConv && strings.HasSuffix(v.S, "uint32") && v.A[0].Key() == fi.FieldOfTerm(rec, "Energy").Key()
					if tsOK && valOK {
						savedOK = true
					}
				}
			}
		}
		// class 2: a value returned by the history loader
		fromHistory := false
		rec.Walk(func(t *an.Term) {
			if t.K == an.KExt && t.S == "0" {
				if cc, ok := t.A[0].Val.(*ssa.Call); ok && cc.Call.StaticCallee() == loader {
					fromHistory = true
				}
			}
		})
		if !fromHistory {
			// the record is a local struct whose Energy is derived from the loader
			if rec.K == an.KLoad {
				if e := fi.ResolveLocalField(rec, "Energy", call); e != nil {
					e.Walk(func(t *an.Term) {
						if t.K == an.KExt && t.S == "0" {
							if cc, ok := t.A[0].Val.(*ssa.Call); ok && cc.Call.StaticCallee() == loader {
								fromHistory = true
								// the report must carry the very slot whose reading was loaded
								ts := fi.ResolveLocalField(rec, "Timeslot", call)
								sameSlot := ts != nil && ts.Key() == fi.Term(cc.Call.Args[1]).Key()
								c.Check(sameSlot, "SEND", fn, call.Pos(), key+":same-slot", "a reading loaded from the history is sent under the timeslot it was loaded from (otherwise the device signs, for that other slot, a value that differs from the slot's own first report)", "record.Timeslot "+keyOrNone(ts)+", loaded slot "+short(fi.Term(cc.Call.Args[1]).Key()))
							}
						}
					})
				}
			}
		}
		c.Check(savedOK || fromHistory, "SEND", fn, call.Pos(), key, "a report is sent only for a reading that was just saved successfully in the history (first value wins) or that was read back from the history", fmt.Sprintf("saved-first %v, from-history %v; facts %s", savedOK, fromHistory, factList(fi.FactsAt(call))))
		if savedOK && !fromHistory {
			// the history keeps uint32(E) and a re-send reconstructs uint64(int32(stored)): what is sent first must be
			// exactly what that reconstruction gives, otherwise the first datagram and a later re-send differ (and a
			// value whose low 32 bits are 0 is not recorded at all, so a different later value would be accepted)
			e := fi.FieldOfTerm(rec, "Energy")
			okRep := representableFact(fi.FactsAt(call), e)
			c.Check(okRep, "SEND", fn, call.Pos(), key+":representable", "a reading is sent only if it survives the round trip through the 32-bit history unchanged (E == uint64(int32(uint32(E)))): every datagram for the slot, first send or re-send, then carries the same value", "facts "+factList(fi.FactsAt(call)))
		}
	}
	c.Count("SEND", n)
	c.Floor("SEND", 1)
	// what is stored: a 64-bit reading is narrowed to the 32 bits of the history only if nothing is lost, at every call
	// of the saver (start-up pass and reporting loop alike); otherwise the history holds a value that was never read
	nStore := 0
	for _, site := range p.CallSites(saver) {
		call, ok := site.(*ssa.Call)
		if !ok || len(call.Call.Args) < 3 {
			continue
		}
		cfi := p.Info(call.Parent())
		vt := cfi.Term(call.Call.Args[2])
		if vt.K != an.KConv || !strings.HasSuffix(vt.S, "uint32") || len(vt.A) != 1 {
			continue
		}
		if bits, _, isInt := intBits(vt.A[0].Typ); !isInt || bits <= 32 {
			continue
		}
		nStore++
		c.Scope(call.Parent())
		c.Check(representableFact(cfi.FactsAt(call), vt.A[0]), "SEND", call.Parent(), call.Pos(), an.KeyOf(call.Parent(), "store-representable"),
			"a reading is stored in the 32-bit history only if it survives the round trip unchanged (E == uint64(int32(uint32(E)))): the history never holds a value the meter did not report, and a value whose low 32 bits are zero is never mistaken for an empty slot",
			"facts "+factList(cfi.FactsAt(call)))
	}
	c.Count("STORE", nStore)
	c.Floor("STORE", 1)
	// the start-up pass (the function that launches the reporting loop) saves but does not send
	for _, fn := range p.FuncsIn("client") {
		callsSaver, callsSender, launches := false, false, false
		for _, b := range fn.Blocks {
			for _, in := range b.Instrs {
				if ci, ok := in.(ssa.CallInstruction); ok {
					if sc := ci.Common().StaticCallee(); sc == saver {
						callsSaver = true
					} else if sc == sender {
						callsSender = true
					}
					if k, _ := an.SpawnTarget(ci.Common()); k == "launch" {
						launches = true
					}
				}
			}
		}
		if callsSaver && launches && fn.Parent() == nil && p.ConstructionPhase("client", p.Constructor("client", "Client"))[fn] {
			c.Check(!callsSender, "SEND", fn, fn.Pos(), an.KeyOf(fn, "startup-no-send"), "the start-up pass records the existing readings in the history and sends nothing", "no call of the sender")
		}
	}
}

func intBits(t types.Type) (int, bool, bool) {
	if t == nil {
		return 0, false, false
	}
	b, ok := t.Underlying().(*types.Basic)
	if !ok || b.Info()&types.IsInteger == 0 {
		return 0, false, false
	}
	switch b.Kind() {
	case types.Int8, types.Uint8:
		return 8, b.Kind() == types.Int8, true
	case types.Int16, types.Uint16:
		return 16, b.Kind() == types.Int16, true
	case types.Int32, types.Uint32:
		return 32, b.Kind() == types.Int32, true
	}
	return 64, b.Info()&types.IsUnsigned == 0, true
}

// representableFact: the facts contain E == uint64(int32(uint32(E))).
func representableFact(fs an.FactSet, e *an.Term) bool {
	for _, f := range fs {
		if f.Neg || f.T.K != an.KBin || f.T.S != "==" {
			continue
		}
		for k := 0; k < 2; k++ {
			a, b := f.T.A[k], f.T.A[1-k]
			if a.Key() != e.Key() {
				continue
			}
			if b.K == an.KConv && strings.HasSuffix(b.S, "uint64") && b.A[0].K == an.KConv && strings.HasSuffix(b.A[0].S, "int32") &&
				b.A[0].A[0].K == an.KConv && strings.HasSuffix(b.A[0].A[0].S, "uint32") && b.A[0].A[0].A[0].Key() == e.Key() {
				return true
			}
		}
	}
	return false
}

// inlineSlotRead: the saver reads the slot itself instead of calling the loader: a ReadAt of the history file at the byte
// offset of the write, decoded with Uint32 from the buffer it filled. The value is that call, or the join of it (on the
// way on which the read succeeded) with the constant 0 on ways on which the read ended with io.EOF (nothing stored yet).
func inlineSlotRead(p *an.Program, saver *ssa.Function, hw *histWrite) *an.Term {
	if hw == nil || hw.at != hw.inner {
		return nil
	}
	sfi := p.Info(saver)
	stripConv := func(t *an.Term) *an.Term {
		for t.K == an.KConv && len(t.A) == 1 {
			t = t.A[0]
		}
		return t
	}
	offW := stripConv(sfi.Term(hw.inner.Call.Args[2])).Key()
	var readAt *ssa.Call
	for _, b := range saver.Blocks {
		for _, in := range b.Instrs {
			if call, ok := in.(*ssa.Call); ok && an.CalleeName(&call.Call) == "(*os.File).ReadAt" && len(call.Call.Args) == 3 {
				if stripConv(sfi.Term(call.Call.Args[2])).Key() == offW && sfi.Term(call.Call.Args[0]).Key() == sfi.Term(hw.inner.Call.Args[0]).Key() && an.Dominates(call, hw.inner) {
					readAt = call
				}
			}
		}
	}
	if readAt == nil {
		return nil
	}
	bufKey := an.StripVolatile(sfi.Term(readAt.Call.Args[1]).Key())
	rerr := sfi.FieldlessExtract(readAt, 1)
	for _, b := range saver.Blocks {
		for _, in := range b.Instrs {
			dec, ok := in.(*ssa.Call)
			if !ok || !strings.HasSuffix(an.CalleeName(&dec.Call), "littleEndian).Uint32") || !an.Dominates(readAt, dec) {
				continue
			}
			if an.StripVolatile(sfi.Term(dec.Call.Args[len(dec.Call.Args)-1]).Key()) != bufKey {
				continue
			}
			refs := dec.Referrers()
			if refs == nil {
				continue
			}
			for _, r := range *refs {
				ph, isPhi := r.(*ssa.Phi)
				if !isPhi {
					continue
				}
				okAll := true
				for i, e := range ph.Edges {
					pred := ph.Block().Preds[i]
					facts := an.FactSet{}
					if n := len(pred.Instrs); n > 0 {
						for k, f := range sfi.FactsAt(pred.Instrs[n-1]) {
							facts[k] = f
						}
					}
					for _, f := range sfi.EdgeFacts(pred, ph.Block()) {
						facts[f.Key()] = f
					}
					switch {
					case e == ssa.Value(dec):
						if !facts.Has(an.NormBin("==", rerr, an.ConstTerm("nil")).Key()) {
							okAll = false
						}
					case isConstTerm(sfi.Term(e), "0"):
						eof := false
						isEOF := func(t *an.Term) bool {
							return t.K == an.KBin && t.S == "==" && strings.Contains(t.Key(), "io.EOF") && strings.Contains(t.Key(), rerr.Key())
						}
						for _, f := range facts {
							if !f.Neg && isEOF(f.T) {
								eof = true
							}
							// err == nil || err == io.EOF together with err != nil
							if !f.Neg && f.T.K == an.KOr && len(f.T.A) == 2 {
								for k := 0; k < 2; k++ {
									o := f.T.A[1-k]
									if isEOF(f.T.A[k]) && o.K == an.KBin && o.S == "==" && len(o.A) == 2 && facts.Has(an.NormBin("!=", o.A[0], o.A[1]).Key()) {
										eof = true
									}
								}
							}
						}
						if !eof {
							okAll = false
						}
					default:
						okAll = false
					}
				}
				if okAll {
					return sfi.Term(ph)
				}
			}
			if sfi.FactsAt(dec).Has(an.NormBin("==", rerr, an.ConstTerm("nil")).Key()) {
				return sfi.Term(dec)
			}
		}
	}
	return nil
}
