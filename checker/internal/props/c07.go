package props

import (
	"fmt"
	"strings"

	"gcacheck/internal/an"

	"golang.org/x/tools/go/ssa"
)

func init() {
	register(&an.PropertyCheck{
		ID:      "C07",
		Title:   "GCA registration is one-shot, gated by the temporary key, and irreversible",
		Engines: "AUTH, WHO-MAY, LOCK (atomic check-and-set), BOUND (loader), classification of every Verify site by its key",
		Explanation: "Decided on package server: WHO-MAY the GCA key and its availability flag are stored only by the key saver and by the construction-phase key loader; gcaPubKey.dat is written only by the saver; the temporary key is written only during construction; " +
			"AUTH at every call of the key saver, with GCAServer.mu held from before the test to after the store (deferred unlock), the flag is known to be false and glow.Verify(gcaTempKey, gr.SigningBytes(), gr.Signature) holds for the registration that is saved " +
			"(check-and-set is atomic, so exactly one of any number of concurrent registrations succeeds and none succeeds afterwards); in the saver the file write of exactly gr.GCAKey succeeds before the key and the flag are set, the stored key is gr.GCAKey and the flag true; " +
			"the loader sets the flag only when the file holds exactly 32 bytes (so 'after restarts' reduces to the same one-shot rule); KEYS every glow.Verify call in the server is classified by its key: the registered GCA key (read under the lock), the temporary key (only in the registration function), " +
			"a looked-up device key, or the new GCA named inside a migration order already verified under the registered key; any other key is a violation; HONOURED the rules of C06 and C17 that every call of the authorization saver, every write of the authorized-server list and every store of a migration order is dominated by glow.Verify under the registered key over the signing bytes of the very object that is applied (re-run here). NOT decided: nothing structural; key strength is trusted.",
		Assumptions: append([]string{"glow.Verify is sound (trusted)"}, baseAssumptions...),
		Run:         runC07,
	})
}

func runC07(c *an.Ctx) {
	p := c.P
	signingCoverage(c, "COVER", "server", "GCARegistration", "Signature")
	ctor := p.Constructor("server", "GCAServer")
	construction := p.ConstructionPhase("server", ctor)
	var saver *ssa.Function
	n := 0
	for _, fn := range p.FuncsIn("server") {
		for _, a := range p.AccessesOf(fn) {
			if !a.Write {
				continue
			}
			f, ok := a.Cls.FieldOf("GCAServer")
			if !ok {
				continue
			}
			switch f {
			case "gcaPubkey", "gcaPubkeyAvailable":
				n++
				if construction[fn] {
					c.Proved("WHO-MAY", fn, a.Instr.Pos(), an.KeyOf(fn, "store:"+f), f+" is stored by the construction-phase key loader", "construction phase")
					continue
				}
				if saver == nil {
					saver = fn
				}
				c.Check(fn == saver, "WHO-MAY", fn, a.Instr.Pos(), an.KeyOf(fn, "store:"+f), f+" is stored only by the key saver (and the construction-phase loader)", "writer "+an.FuncName(fn))
			case "gcaTempKey":
				n++
				c.Check(construction[fn], "WHO-MAY", fn, a.Instr.Pos(), an.KeyOf(fn, "store:gcaTempKey"), "the temporary key is written only during construction", "writer "+an.FuncName(fn))
			}
		}
	}
	c.Count("WHO-MAY", n)
	c.Floor("WHO-MAY", 3)
	if saver == nil {
		c.Undecided("ANCHOR", nil, 0, "key-saver", "GCA key saver not found", "anchor missing")
		return
	}
	c.Scope(saver)
	// file writers
	for _, fn := range p.FuncsIn("server") {
		fi := p.Info(fn)
		for _, b := range fn.Blocks {
			for _, in := range b.Instrs {
				call, ok := in.(*ssa.Call)
				if !ok {
					continue
				}
				name := an.CalleeName(&call.Call)
				if name != "os.OpenFile" && name != "os.Create" && name != "os.WriteFile" && name != "io/ioutil.WriteFile" {
					continue
				}
				if fi.PathFileName(call.Call.Args[0]) != "gcaPubKey.dat" {
					continue
				}
				c.Check(fn == saver, "WHO-MAY", fn, call.Pos(), an.KeyOf(fn, "keyfile-write:"+name), "gcaPubKey.dat is written only by the key saver", an.FuncName(fn))
			}
		}
	}
	keySaverStructure(c, saver)
	registrationOneShot(c, saver)
	// loader: flag set only for a 32-byte file
	for fn := range construction {
		fi := p.Info(fn)
		for _, b := range fn.Blocks {
			for _, in := range b.Instrs {
				st, ok := in.(*ssa.Store)
				if !ok {
					continue
				}
				cls := fi.RefClass(st.Addr)
				if f, ok := cls.FieldOf("GCAServer"); !ok || f != "gcaPubkeyAvailable" {
					continue
				}
				// find the copy into gcaPubkey in the same function and its source
				okLen := false
				var desc string
				for _, b2 := range fn.Blocks {
					for _, in2 := range b2.Instrs {
						if call, ok := in2.(*ssa.Call); ok {
							if bi, ok := call.Call.Value.(*ssa.Builtin); ok && bi.Name() == "copy" {
								src := fi.Term(call.Call.Args[1])
								s := fi.SysFor(st)
								lt := an.LenTerm(src)
								if s.ProveGE(lt, 32) && s.ProveLE(lt, 32) {
									okLen = true
								}
								desc = "len(file) " + s.Describe(lt)
							}
						}
					}
				}
				c.Check(okLen, "PERSIST", fn, st.Pos(), an.KeyOf(fn, "loader-flag"), "the loader marks the server as registered only if gcaPubKey.dat holds exactly 32 bytes (an empty file left by a crash is 'not registered')", desc)
			}
		}
	}
	verifySites(c)
	// HONOURED: the three kinds of GCA-signed orders change state only under a
	// signature of the registered key (rules owned by C06 and C17, re-run here
	// because this property states them too)
	if saver := findAuthSaver(p); saver != nil {
		equipmentAuthSites(c, saver)
	} else {
		c.Undecided("ANCHOR", nil, 0, "auth-saver", "authorization saver not found", "anchor missing")
	}
	serverListAuth(c)
	migrationStore(c)
}

// registrationOneShot: every call of the key saver happens with the server lock held, with the availability flag known
// to be false in that same critical section, and under a temp-key signature over the registration that is saved: the
// key (and its file) is written at most once in the life of a server directory.
func registrationOneShot(c *an.Ctx, saver *ssa.Function) {
	p := c.P
	// the three conditions at one program point, for the registration value X
	type conds struct{ lock, flag, verify bool }
	condsAt := func(fn *ssa.Function, at ssa.Instruction, X *an.Term) (conds, an.FactSet) {
		fi := p.Info(fn)
		lf := p.LockFlowOf(fn)
		var cs conds
		st := lf.StateAt(at, "GCAServer.mu")
		cs.lock = st == an.LsDeferred || an.Held(st)
		facts := fi.FactsAt(at)
		for _, f := range facts {
			if !f.Neg {
				continue
			}
			if fld, ver, ok := mapFieldOfTerm(f.T); ok && fld == "gcaPubkeyAvailable" {
				if ver == fi.VersionAt(at, an.Class{Root: "T:GCAServer", Path: []string{"gcaPubkeyAvailable"}}) {
					cs.flag = true
				}
			}
		}
		for _, va := range verifyFacts(facts) {
			if f, _, ok := mapFieldOfTerm(va[0]); ok && f == "gcaTempKey" {
				if isSigningBytesOf(va[1], X) && va[2].Key() == fi.FieldOfTerm(X, "Signature").Key() {
					cs.verify = true
				}
			}
		}
		return cs, facts
	}
	// inside the saver, at the first write of the key (file or field)
	sfi := p.Info(saver)
	var first ssa.Instruction
	for _, b := range saver.Blocks {
		for _, in := range b.Instrs {
			isKeyWrite := false
			switch x := in.(type) {
			case *ssa.Call:
				name := an.CalleeName(&x.Call)
				isKeyWrite = (name == "io/ioutil.WriteFile" || name == "os.WriteFile") && sfi.PathFileName(x.Call.Args[0]) == "gcaPubKey.dat"
			case *ssa.Store:
				if f, ok := sfi.RefClass(x.Addr).FieldOf("GCAServer"); ok && (f == "gcaPubkey" || f == "gcaPubkeyAvailable") {
					isKeyWrite = true
				}
			}
			if isKeyWrite && (first == nil || an.Dominates(in, first)) {
				first = in
			}
		}
	}
	var inSaver conds
	if first != nil && len(saver.Params) > 0 {
		inSaver, _ = condsAt(saver, first, sfi.Term(saver.Params[len(saver.Params)-1]))
	}
	sites := p.CallSites(saver)
	c.Count("AUTH", len(sites))
	c.Floor("AUTH", 1)
	if inSaver.lock && inSaver.flag && inSaver.verify {
		// the saver checks everything itself (the check-and-set is one function): nothing is required of its callers
		key := func(x string) string { return an.KeyOf(saver, "register:"+x) }
		c.Proved("AUTH", saver, first.Pos(), key("lock"), "the key is written with GCAServer.mu held", "lock state at the first write of the key")
		c.Proved("AUTH", saver, first.Pos(), key("not-registered"), "the availability flag is known to be false in the same critical section as the store (atomic check-and-set: one winner, never replaced)", "facts at the first write of the key")
		c.Proved("AUTH", saver, first.Pos(), key("temp-key"), "glow.Verify(gcaTempKey, gr.SigningBytes(), gr.Signature) for the registration that is saved dominates the write", "facts at the first write of the key")
		return
	}
	for _, s := range sites {
		call, ok := s.(*ssa.Call)
		if !ok {
			continue
		}
		fn := call.Parent()
		fi := p.Info(fn)
		key := func(x string) string { return an.KeyOf(fn, "register:"+x) }
		X := fi.Term(call.Call.Args[len(call.Call.Args)-1])
		cs, facts := condsAt(fn, call, X)
		c.Check(cs.lock || inSaver.lock, "AUTH", fn, call.Pos(), key("lock"), "the key saver is called with GCAServer.mu held", "lock state at the call")
		c.Check(cs.flag || inSaver.flag, "AUTH", fn, call.Pos(), key("not-registered"), "the availability flag is known to be false in the same critical section as the store (atomic check-and-set: one winner, never replaced)", "facts "+factList(facts))
		c.Check(cs.verify || inSaver.verify, "AUTH", fn, call.Pos(), key("temp-key"), "glow.Verify(gcaTempKey, gr.SigningBytes(), gr.Signature) for the registration that is saved dominates the call", "facts "+factList(facts))
	}
}

func isErrorish(v ssa.Value) bool {
	return v.Type().String() == "error"
}

// findKeySaver: the non-construction function that stores the GCA key.
func findKeySaver(p *an.Program) *ssa.Function {
	ctor := p.Constructor("server", "GCAServer")
	construction := p.ConstructionPhase("server", ctor)
	for _, fn := range p.FuncsIn("server") {
		if construction[fn] {
			continue
		}
		for _, a := range p.AccessesOf(fn) {
			if f, ok := a.Cls.FieldOf("GCAServer"); ok && a.Write && (f == "gcaPubkey" || f == "gcaPubkeyAvailable") {
				return fn
			}
		}
	}
	return nil
}

// keySaverStructure: the key saver writes the file with exactly the registered key before it sets the key and the
// flag, and every successful return has set both.
func keySaverStructure(c *an.Ctx, saver *ssa.Function) {
	p := c.P
	// saver structure
	sfi := p.Info(saver)
	var write *ssa.Call
	for _, b := range saver.Blocks {
		for _, in := range b.Instrs {
			if call, ok := in.(*ssa.Call); ok {
				name := an.CalleeName(&call.Call)
				if (name == "io/ioutil.WriteFile" || name == "os.WriteFile") && sfi.PathFileName(call.Call.Args[0]) == "gcaPubKey.dat" {
					write = call
				}
			}
		}
	}
	GR := sfi.Term(saver.Params[len(saver.Params)-1])
	if write == nil {
		c.Violated("PERSIST", saver, saver.Pos(), an.KeyOf(saver, "keyfile"), "the key saver does not write gcaPubKey.dat", "registration would not survive a restart")
	} else {
		dt := sfi.Term(write.Call.Args[1])
		okData := strings.Contains(dt.Key(), "GCAKey") && dt.K == an.KSlice
		if !okData && dt.K == an.KSlice && dt.A[0].K == an.KAlloc {
			// a local copy of the key (key := gr.GCAKey; WriteFile(path, key[:], ..)): what the local holds at the write
			if al, ok := dt.A[0].Val.(*ssa.Alloc); ok {
				ct := sfi.ContentAt(al, write)
				lo, _ := dt.A[1].IsConst()
				hi, _ := dt.A[2].IsConst()
				okData = ct != nil && ct.Key() == sfi.FieldOfTerm(GR, "GCAKey").Key() && lo == "0" && hi == "end"
			}
		}
		c.Check(okData, "PERSIST", saver, write.Pos(), an.KeyOf(saver, "keyfile-data"), "the file receives exactly the registered key (gr.GCAKey[:])", "data "+short(dt.Key()))
		for _, b := range saver.Blocks {
			for _, in := range b.Instrs {
				st, ok := in.(*ssa.Store)
				if !ok {
					continue
				}
				cls := sfi.RefClass(st.Addr)
				f, ok := cls.FieldOf("GCAServer")
				if !ok || (f != "gcaPubkey" && f != "gcaPubkeyAvailable") {
					continue
				}
				okW := false
				for _, fct := range sfi.FactsAt(st) {
					if !fct.Neg && fct.T.K == an.KBin && fct.T.S == "==" {
						for _, a := range fct.T.A {
							if a.Val == ssa.Value(write) || (a.K == an.KExt && a.A[0].Val == ssa.Value(write)) {
								okW = true
							}
						}
					}
				}
				c.Check(okW, "PERSIST", saver, st.Pos(), an.KeyOf(saver, "persist-then-set:"+f), f+" is set only after the key file was written successfully", "facts "+factList(sfi.FactsAt(st)))
				vt := sfi.Term(st.Val)
				if f == "gcaPubkey" {
					c.Check(vt.Key() == sfi.FieldOfTerm(GR, "GCAKey").Key(), "PERSIST", saver, st.Pos(), an.KeyOf(saver, "stored-key"), "the key that is set is the registration's GCAKey", "value "+short(vt.Key()))
				} else {
					c.Check(isConstTerm(vt, "true"), "PERSIST", saver, st.Pos(), an.KeyOf(saver, "stored-flag"), "the availability flag is set to true", "value "+short(vt.Key()))
				}
			}
		}
	}
	// whether a registration is refused is decided from the in-memory flag (which start-up derives from a complete key
	// file) and the request, never from probing the disk: a crash inside the saver can leave an empty or partial key
	// file, start-up then comes up unregistered, and a refusal based on the file's existence would lock the GCA out
	probes := []string{"os.Stat", "os.Lstat", "os.Open", "os.OpenFile", "os.ReadFile", "io/ioutil.ReadFile"}
	regs := []*ssa.Function{saver}
	for _, s := range p.CallSites(saver) {
		regs = append(regs, s.Parent())
	}
	nRef := 0
	for _, fn := range regs {
		rfi := p.Info(fn)
		for _, b := range fn.Blocks {
			if len(b.Instrs) == 0 || b == fn.Recover {
				continue
			}
			ret, ok := b.Instrs[len(b.Instrs)-1].(*ssa.Return)
			if !ok || len(ret.Results) == 0 {
				continue
			}
			if !isErrorish(ret.Results[len(ret.Results)-1]) || isConstTerm(rfi.Term(ret.Results[len(ret.Results)-1]), "nil") {
				continue
			}
			nRef++
			cond, _, _ := controllingCondition(p, rfi, b)
			bad := ""
			for _, pr := range probes {
				if strings.Contains(cond, pr+"#") || strings.Contains(cond, pr+"(") {
					bad = pr
				}
			}
			c.Check(bad == "", "PERSIST", fn, ret.Pos(), an.KeyOf(fn, "refusal-not-from-disk-probe"), "a registration is refused because of the in-memory registration flag, the request or a failed write, never because a file exists on disk (after a crash inside the key write the file exists but start-up comes up unregistered: the GCA must still be able to register)", "refusal controlled by "+short(cond))
		}
	}
	c.Count("REFUSAL", nRef)
	// every successful return of the saver has set both the key and the flag
	for _, f := range []string{"gcaPubkey", "gcaPubkeyAvailable"} {
		var stores []*ssa.Store
		for _, b := range saver.Blocks {
			for _, in := range b.Instrs {
				if st, ok := in.(*ssa.Store); ok {
					if ff, ok := sfi.RefClass(st.Addr).FieldOf("GCAServer"); ok && ff == f {
						stores = append(stores, st)
					}
				}
			}
		}
		okSet := true
		nRet := 0
		for _, b := range saver.Blocks {
			if b == saver.Recover || len(b.Instrs) == 0 {
				continue
			}
			ret, isRet := b.Instrs[len(b.Instrs)-1].(*ssa.Return)
			if !isRet || len(ret.Results) == 0 {
				continue
			}
			if !isConstTerm(sfi.Term(ret.Results[len(ret.Results)-1]), "nil") {
				continue
			}
			nRet++
			dom := false
			for _, st := range stores {
				if st.Block().Dominates(b) {
					dom = true
				}
			}
			if !dom {
				okSet = false
			}
		}
		c.Check(okSet && nRet > 0, "PERSIST", saver, saver.Pos(), an.KeyOf(saver, "success-sets:"+f), "every successful return of the key saver has stored "+f+" (after a successful registration the server is registered: a second registration is refused and the key is in force)", fmt.Sprintf("%d stores, %d nil-error returns", len(stores), nRet))
	}
}

// verifySites classifies every glow.Verify call of the server by its key.
func verifySites(c *an.Ctx) {
	p := c.P
	n := 0
	for _, fn := range p.FuncsIn("server") {
		fi := p.Info(fn)
		for _, b := range fn.Blocks {
			for _, in := range b.Instrs {
				call, ok := in.(*ssa.Call)
				if !ok || !strings.HasSuffix(an.CalleeName(&call.Call), "glow.Verify") {
					continue
				}
				n++
				kt := fi.Term(call.Call.Args[0])
				key := an.KeyOf(fn, "verify-key:"+short(kt.Key()))
				class, okc, why := classifyVerifyKey(p, fn, call, kt, 0)
				if class == "" {
					c.Violated("KEYS", fn, call.Pos(), key, "glow.Verify is called with a key that is none of: registered GCA key, temporary key, looked-up device key, new GCA of a verified migration order", "key "+short(kt.Key()))
					continue
				}
				c.Check(okc, "KEYS", fn, call.Pos(), key, "Verify key class: "+class, why)
			}
		}
	}
	c.Count("KEYS", n)
	c.Floor("KEYS", 3)
}

// classifyVerifyKey names the class of the key of a glow.Verify call and says whether it is used legitimately.
// A key that is a parameter of a helper is classified at every call site of the helper.
func classifyVerifyKey(p *an.Program, fn *ssa.Function, call *ssa.Call, kt *an.Term, depth int) (class string, okc bool, why string) {
	fi := p.Info(fn)
	if kt.K == an.KParam && depth < 3 {
		idx := -1
		for i, prm := range fn.Params {
			if fi.Term(prm).Key() == kt.Key() {
				idx = i
			}
		}
		sites := p.CallSites(fn)
		if idx < 0 || len(sites) == 0 {
			return "", false, ""
		}
		okc = true
		for _, s := range sites {
			sc, isCall := s.(*ssa.Call)
			if !isCall || idx >= len(sc.Call.Args) {
				return "", false, ""
			}
			cfn := sc.Parent()
			cl, ok2, w := classifyVerifyKey(p, cfn, sc, p.Info(cfn).Term(sc.Call.Args[idx]), depth+1)
			if cl == "" {
				return "", false, ""
			}
			class, why = cl, w+" (key passed to the helper "+an.FuncName(fn)+" by "+an.FuncName(cfn)+")"
			okc = okc && ok2
		}
		return class, okc, why
	}
	if f, _, isF := mapFieldOfTerm(kt); isF {
		switch f {
		case "gcaPubkey":
			return "registered GCA key", loadUnderLock(p, fn, kt, "GCAServer.mu"), "read of gcaPubkey under GCAServer.mu"
		case "gcaTempKey":
			// only on the registration path: the function, or every caller of it, (transitively) stores the GCA key
			var onPath func(f *ssa.Function, d int) bool
			onPath = func(f *ssa.Function, d int) bool {
				for _, w := range p.Effect(f).WritesSorted() {
					if strings.Contains(w, "gcaPubkey") {
						return true
					}
				}
				sites := p.CallSites(f)
				if len(sites) == 0 || d >= 2 {
					return false
				}
				for _, s := range sites {
					if !onPath(s.Parent(), d+1) {
						return false
					}
				}
				return true
			}
			if onPath(fn, 0) {
				return "temporary key", true, "temporary key used only on the registration path"
			}
			if len(p.CallSites(fn)) == 0 && fn.Object() != nil && !fn.Object().Exported() {
				return "temporary key", true, "function has no callers (dead code)"
			}
			return "temporary key", false, "temporary key used only on the registration path"
		}
		return "", false, ""
	}
	if kt.K == an.KField && kt.S == "PublicKey" {
		kt.Walk(func(t *an.Term) {
			if t.K == an.KLkOK || t.K == an.KLookup {
				if f2, _, ok := mapFieldOfTerm(t.A[0]); ok && f2 == "equipment" {
					okc = true
				}
			}
		})
		return "looked-up device key", okc, "public key of equipment[id]"
	}
	if kt.K == an.KField && kt.S == "NewGCA" {
		// the outer order must be verified under the registered key first
		for _, va := range verifyFacts(fi.FactsAt(call)) {
			if kt2 := va[0]; kt2.Val != nil {
				if inFn, ok := kt2.Val.(ssa.Instruction); ok && inFn.Parent() == fn {
					okc = true
				}
			}
			if f, _, ok := mapFieldOfTerm(va[0]); ok && f == "gcaPubkey" {
				okc = true
			}
		}
		return "new GCA of a migration order", okc, "inner signatures are checked after the outer signature under the registered key"
	}
	return "", false, ""
}

// loadUnderLock: the load instruction that produced term t ran with the lock held.
func loadUnderLock(p *an.Program, fn *ssa.Function, t *an.Term, lock string) bool {
	in, ok := t.Val.(ssa.Instruction)
	if !ok || in.Parent() == nil {
		return false
	}
	// a fact imported from a callee's return summary carries the callee's load:
	// the lock state is the one at that load, in the function that performs it
	fn = in.Parent()
	lf := p.LockFlowOf(fn)
	st := lf.StateAt(in, lock)
	if an.Held(st) {
		return true
	}
	if st == an.LsInherited {
		// every caller holds it?
		for _, s := range p.CallSites(fn) {
			if !an.Held(p.LockFlowOf(s.Parent()).StateAt(s, lock)) {
				if !p.ConstructionPhase("server", p.Constructor("server", "GCAServer"))[s.Parent()] {
					return false
				}
			}
		}
		return len(p.CallSites(fn)) > 0
	}
	return false
}
