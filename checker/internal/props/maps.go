package props

import (
	"fmt"
	"go/types"
	"strings"

	"gcacheck/internal/an"

	"golang.org/x/tools/go/ssa"
)

// idKeyedSiblings are the GCAServer maps that must keep equal key sets
// (spec/spec.json anchors.server_fields.idKeyedSiblingMaps).
var idKeyedSiblings = []string{"equipment", "equipmentReports", "equipmentImpactRate"}

func isSibling(f string) bool {
	for _, s := range idKeyedSiblings {
		if s == f {
			return true
		}
	}
	return false
}

// mapFieldOfTerm: if t is a load of $X.<field> of a GCAServer, returns the field
// name and the load's version.
func mapFieldOfTerm(t *an.Term) (field, ver string, ok bool) {
	if t == nil || t.K != an.KLoad || len(t.A) != 1 || t.A[0].K != an.KFA {
		return "", "", false
	}
	return t.A[0].S, t.V, true
}

type mapOp struct {
	fn    *ssa.Function
	in    ssa.Instruction // the instruction in fn (for an operation performed by a straight-line helper: the call of the helper)
	field string
	kind  string // insert | delete
	key   *an.Term
	val   ssa.Value
	valT  *an.Term // the inserted value as a term of fn
	via   *ssa.Function
}

// serverMapOps lists the inserts and deletes on GCAServer map fields in fn,
// including those performed by straight-line helpers fn calls (a helper that
// only names a statement sequence - registerX(ea), banX(id, key) - is
// transparent: its operations are attributed to the call, with the helper's
// parameters replaced by the arguments).
func serverMapOps(p *an.Program, fn *ssa.Function, typ string) []mapOp {
	return serverMapOpsDepth(p, fn, typ, 0)
}

func serverMapOpsDepth(p *an.Program, fn *ssa.Function, typ string, depth int) []mapOp {
	fi := p.Info(fn)
	var out []mapOp
	for _, b := range fn.Blocks {
		for _, in := range b.Instrs {
			switch in := in.(type) {
			case *ssa.MapUpdate:
				cls := fi.RefClass(in.Map)
				if f, ok := cls.FieldOf(typ); ok && len(cls.Path) == 1 {
					out = append(out, mapOp{fn, in, f, "insert", fi.Term(in.Key), in.Value, fi.Term(in.Value), nil})
				}
			case *ssa.Call:
				if bi, ok := in.Call.Value.(*ssa.Builtin); ok && bi.Name() == "delete" {
					cls := fi.RefClass(in.Call.Args[0])
					if f, ok := cls.FieldOf(typ); ok && len(cls.Path) == 1 {
						out = append(out, mapOp{fn, in, f, "delete", fi.Term(in.Call.Args[1]), nil, nil, nil})
					}
					continue
				}
				sc := in.Call.StaticCallee()
				if sc == nil || depth >= 2 || sc == fn || sc.Pkg != fn.Pkg || !p.Transparent(sc) {
					continue
				}
				for _, op := range serverMapOpsDepth(p, sc, typ, depth+1) {
					k := fi.InstantiateTerm(op.key, in)
					if k == nil {
						continue
					}
					var vt *an.Term
					if op.valT != nil {
						vt = fi.InstantiateTerm(op.valT, in)
					}
					out = append(out, mapOp{fn, in, op.field, op.kind, k, op.val, vt, sc})
				}
			}
		}
	}
	return out
}

// keyset: every block that inserts into or deletes from one of the id-keyed
// sibling maps performs the same operation with the same key on the others.
func keyset(c *an.Ctx, scope []*ssa.Function, prop string) {
	p := c.P
	n := 0
	for _, fn := range scope {
		if isAttributedHelper(p, fn) {
			continue
		}
		ops := serverMapOps(p, fn, "GCAServer")
		for _, op := range ops {
			if !isSibling(op.field) {
				continue
			}
			n++
			for _, sib := range idKeyedSiblings {
				if sib == op.field {
					continue
				}
				found := false
				for _, o2 := range ops {
					if o2.field == sib && o2.kind == op.kind && o2.in.Block() == op.in.Block() && o2.key.Key() == op.key.Key() {
						found = true
					}
				}
				key := an.KeyOf(fn, fmt.Sprintf("keyset:%s:%s:%s", op.kind, op.field, sib))
				desc := fmt.Sprintf("%s on %s is paired with the same %s on %s (same key, same basic block)", op.kind, op.field, op.kind, sib)
				c.Check(found, "KEYSET", fn, op.in.Pos(), key, desc, "key term "+short(op.key.Key()))
			}
			// VAL-NONNIL: values stored into pointer-valued maps are fresh allocations
			if op.kind == "insert" {
				if _, isPtr := op.val.Type().Underlying().(*types.Pointer); isPtr {
					_, isAlloc := op.val.(*ssa.Alloc)
					if !isAlloc {
						// new(T) evaluated at a call site and passed in
						if op.valT != nil && op.valT.K == an.KAlloc {
							isAlloc = true
						}
					}
					c.Check(isAlloc, "KEYSET", fn, op.in.Pos(), an.KeyOf(fn, "nonnil:"+op.field),
						"value inserted into "+op.field+" is a new allocation (never nil)", "stored value: "+op.val.String())
				}
			}
		}
	}
	c.Count("KEYSET", n)
	c.Floor("KEYSET", 6)
}

func short(s string) string {
	s = strings.ReplaceAll(s, an.ModulePath+"/", "")
	if len(s) > 160 {
		return s[:157] + "..."
	}
	return s
}

// nilpGuardedMaps: a pointer obtained by looking up one of the pointer-valued
// sibling maps is dereferenced only if the key is known to be present in the
// same critical section (LOCK-6 / NILP).
func nilpGuardedMaps(c *an.Ctx, scope []*ssa.Function, prop string) {
	p := c.P
	n := 0
	for _, fn := range scope {
		fi := p.Info(fn)
		for _, b := range fn.Blocks {
			for _, in := range b.Instrs {
				lk, ok := in.(*ssa.Lookup)
				if !ok {
					continue
				}
				mt, isMap := lk.X.Type().Underlying().(*types.Map)
				if !isMap {
					continue
				}
				if _, isPtr := mt.Elem().Underlying().(*types.Pointer); !isPtr {
					continue
				}
				cls := fi.RefClass(lk.X)
				field, isSrv := cls.FieldOf("GCAServer")
				if !isSrv || !isSibling(field) {
					continue
				}
				// the pointer value and its dereferencing uses
				var ptr ssa.Value = lk
				if lk.CommaOk {
					ptr = nil
					if refs := lk.Referrers(); refs != nil {
						for _, r := range *refs {
							if e, ok := r.(*ssa.Extract); ok && e.Index == 0 {
								ptr = e
							}
						}
					}
					if ptr == nil {
						continue
					}
				}
				for _, use := range derefUses(ptr) {
					n++
					ok, why := keyPresent(p, fn, lk, use, 0)
					key := an.KeyOf(fn, "nilp:"+field+"["+short(fi.Term(lk.Index).Key())+"]")
					desc := "dereference of " + field + "[key] (pointer from a guarded map) requires the key to be present in the same critical section"
					if ok {
						c.Proved("NILP", fn, use.Pos(), key, desc, why)
					} else {
						c.Violated("NILP", fn, use.Pos(), key, desc, why)
					}
				}
			}
		}
	}
	c.Count("NILP", n)
	c.Floor("NILP", 4)
}

// derefUses returns the instructions that dereference pointer value v
// (following stores into locals and phis is not needed for this repository;
// a pointer that flows elsewhere is reported as a use at that instruction).
func derefUses(v ssa.Value) []ssa.Instruction {
	var out []ssa.Instruction
	seen := map[ssa.Value]bool{}
	var walk func(v ssa.Value)
	walk = func(v ssa.Value) {
		if seen[v] {
			return
		}
		seen[v] = true
		refs := v.Referrers()
		if refs == nil {
			return
		}
		for _, r := range *refs {
			switch r := r.(type) {
			case *ssa.IndexAddr:
				if r.X == v {
					out = append(out, r)
				}
			case *ssa.FieldAddr:
				if r.X == v {
					out = append(out, r)
				}
			case *ssa.UnOp:
				if r.X == v && r.Op.String() == "*" {
					out = append(out, r)
				}
			case *ssa.Slice:
				if r.X == v {
					out = append(out, r)
				}
			case *ssa.Range:
				out = append(out, r)
			case *ssa.Phi:
				walk(r)
			case *ssa.Store:
				if r.Val == v {
					// stored into a local: follow loads of that local
					if al, ok := r.Addr.(*ssa.Alloc); ok {
						if ar := al.Referrers(); ar != nil {
							for _, u := range *ar {
								if ld, ok := u.(*ssa.UnOp); ok && ld.Op.String() == "*" {
									walk(ld)
								}
							}
						}
					}
				}
			case *ssa.Call:
				if bi, ok := r.Call.Value.(*ssa.Builtin); ok && bi.Name() == "len" {
					continue // len of a nil *[N]T is N, no dereference
				}
			}
		}
	}
	walk(v)
	return out
}

// keyPresent tries to prove that the key of lookup lk is present when use runs.
func keyPresent(p *an.Program, fn *ssa.Function, lk *ssa.Lookup, use ssa.Instruction, depth int) (bool, string) {
	fi := p.Info(fn)
	mapT := fi.Term(lk.X)
	_, ver, ok := mapFieldOfTerm(mapT)
	if !ok {
		return false, "map term not recognised: " + short(mapT.Key())
	}
	keyT := fi.Term(lk.Index)
	facts := fi.FactsAt(use)
	// (a) comma-ok success on this map or a sibling, same key, same version
	for _, f := range facts {
		if f.Neg || f.T.K != an.KExt || f.T.S != "1" || f.T.A[0].K != an.KLkOK {
			continue
		}
		lkT := f.T.A[0]
		f2, v2, ok := mapFieldOfTerm(lkT.A[0])
		if !ok || !isSibling(f2) {
			continue
		}
		if lkT.A[1].Key() != keyT.Key() {
			continue
		}
		if v2 == ver && versionIsQuiescent(fi, ver) {
			return true, "comma-ok presence of the same key in " + f2 + " in the same critical section (version {" + ver + "})"
		}
	}
	// (b) key is the range key of a sibling map with the same version and we are inside the loop
	if keyT.K == an.KExt && keyT.S == "1" && keyT.A[0].K == an.KRange {
		if nx, ok := keyT.A[0].Val.(*ssa.Next); ok {
			if rg, ok := nx.Iter.(*ssa.Range); ok {
				f2, v2, ok := mapFieldOfTerm(fi.Term(rg.X))
				okT := "ext:0(" + keyT.A[0].Key() + ")"
				if ok && isSibling(f2) && v2 == ver && versionIsQuiescent(fi, ver) && facts.Has(okT) {
					return true, "key ranges over the keys of " + f2 + " in the same critical section (version {" + ver + "})"
				}
			}
		}
	}
	// (c) established by every caller (the function runs inside the caller's critical section)
	if ver == "" && depth < 3 {
		exportable := !keyT.Contains(func(t *an.Term) bool {
			switch t.K {
			case an.KCall, an.KPhi, an.KAlloc, an.KRange, an.KOpaque, an.KMake, an.KFree:
				return true
			case an.KLoad:
				return true
			}
			return false
		})
		sites := p.CallSites(fn)
		if exportable && len(sites) > 0 {
			var whys []string
			for _, site := range sites {
				call, isCall := site.(*ssa.Call)
				if !isCall {
					return false, "called through defer/go at " + p.Pos(site.Pos())
				}
				ok, why := callerEstablishes(p, call, keyT, depth)
				if !ok {
					return false, "caller " + an.FuncName(site.Parent()) + " at " + p.Pos(site.Pos()) + ": " + why
				}
				whys = append(whys, an.FuncName(site.Parent())+": "+why)
			}
			return true, "established by every caller: " + strings.Join(whys, " | ")
		}
	}
	return false, "no dominating presence check of key " + short(keyT.Key()) + " in the critical section that dereferences (map version {" + ver + "}); facts: " + factList(facts)
}

// versionIsQuiescent: the version consists only of lock operations (no map
// mutation of this function in between), so sibling key sets are equal.
func versionIsQuiescent(fi *an.FuncInfo, ver string) bool {
	if ver == "" {
		return true
	}
	for _, id := range strings.Split(ver, ",") {
		in := fi.InstrByID(id)
		if in == nil {
			return false
		}
		ci, ok := in.(ssa.CallInstruction)
		if !ok {
			return false
		}
		if _, _, isLock := an.LockOp(ci.Common()); !isLock {
			return false
		}
	}
	return true
}

func callerEstablishes(p *an.Program, call *ssa.Call, calleeKey *an.Term, depth int) (bool, string) {
	caller := call.Parent()
	fi := p.Info(caller)
	args := call.Call.Args
	bad := false
	keyT := calleeKey.Subst(func(t *an.Term) *an.Term {
		if t.K == an.KParam {
			i := 0
			fmt.Sscanf(t.S, "%d", &i)
			if i < len(args) {
				return fi.Term(args[i])
			}
			bad = true
		}
		if t.K == an.KField {
			return nil
		}
		return nil
	})
	if bad {
		return false, "cannot map the key to the caller"
	}
	// re-normalise field projections of loads
	keyT = fi.Renorm(keyT)
	facts := fi.FactsAt(call)
	for _, f := range facts {
		if f.Neg || f.T.K != an.KExt || f.T.S != "1" || f.T.A[0].K != an.KLkOK {
			continue
		}
		lkT := f.T.A[0]
		f2, v2, ok := mapFieldOfTerm(lkT.A[0])
		if !ok || !isSibling(f2) {
			continue
		}
		if lkT.A[1].Key() != keyT.Key() {
			continue
		}
		cur := fi.VersionAt(call, an.Class{Root: "T:GCAServer", Path: []string{f2}})
		if v2 == cur && versionIsQuiescent(fi, cur) {
			return true, "comma-ok presence in " + f2 + " holds at the call (version {" + cur + "})"
		}
	}
	return false, "no presence fact for key " + short(keyT.Key()) + " at the call; facts: " + factList(facts)
}

func factList(fs an.FactSet) string {
	var out []string
	for _, f := range fs.Sorted() {
		out = append(out, short(f.Key()))
	}
	if len(out) > 6 {
		out = append(out[:6], "...")
	}
	return "[" + strings.Join(out, "; ") + "]"
}

// isAttributedHelper: fn is a straight-line helper with callers, so its map operations are attributed to them.
func isAttributedHelper(p *an.Program, fn *ssa.Function) bool {
	return p.Transparent(fn) && len(p.CallSites(fn)) > 0
}
