// Package props holds the per-property rule sets (DESIGN.md section 2).
package props

import (
	"sort"

	"gcacheck/internal/an"
)

var registry []*an.PropertyCheck

func register(pc *an.PropertyCheck) { registry = append(registry, pc) }

// All returns the registered property checks sorted by id.
func All() []*an.PropertyCheck {
	sort.Slice(registry, func(i, j int) bool { return registry[i].ID < registry[j].ID })
	return registry
}

// Common trusted base entries.
var baseAssumptions = []string{
	"Go type checker and go/ssa builder of golang.org/x/tools v0.29.0; VTA call graph seeded with CHA, plus explicit resolution of closures passed to threadgroup.Launch/OnStop/AfterStop, go statements and ServeMux.HandleFunc",
	"external-function tables (which stdlib/third-party callees write through which argument, block, touch files, are deterministic) in checker/internal/an/effect.go, classified from godoc",
	"alias model: memory classes are access paths rooted at named struct types; distinct non-struct parameters are assumed not to alias; one instance of GCAServer/Client per process",
}
