package props

import (
	"fmt"
	"go/types"
	"strings"

	"gcacheck/internal/an"

	"golang.org/x/tools/go/ssa"
)

func init() {
	register(&an.PropertyCheck{
		ID:      "C11",
		Title:   "No server behaviour can crash, wedge or mislead the client",
		Engines: "BOUND (reply bytes as untrusted source), LOCK (balance on every path, no blocking under the lock), PANIC, dominance (ban tests, merge guard), must-pass-through (persist before unlock)",
		Explanation: "Decided on package client, for everything reachable from its background entry points: BOUND every index/slice on the sync reply and in the resend loop is proved in range from the length checks that dominate it " +
			"(so no byte string can make the parser panic); LOCK-1/2 every path of every function that locks Client.mu releases it (in particular every return of the sync round), no re-entry; LOCK-5 no network call or sleep while Client.mu is held; " +
			"PANIC the explicit panics are controlled only by local file-write errors and by the server-map encoder, whose single failure condition (a location longer than 65535 bytes) is excluded by LOCLEN: every location string the client creates " +
			"comes from an 8-bit or 16-bit length prefix; LIVE the reporting loop returns only after the thread group stopped, and the sync round runs in its own goroutine; BANNED every assignment of the primary server is dominated by !Banned of the same key; " +
			"MERGE an entry of the server map is written only if the key is new or the new entry is banned (ban knowledge is never lost), the map is replaced as a whole only in the verified-migration branch; PERSIST every mutation of the map is followed, " +
			"before the lock is released, by writing SerializeGCAServerMap(c.gcaServers) to the file the loader reads. " +
			"LIVE also: every round of the reporting loop passes a tg.Sleep. NOT decided: timing (how long a stalled server delays the next sync), the operating system's behaviour on partial writes, data races on Client.shortID (reported as a note; no listed property covers client races).",
		Assumptions: append([]string{"io.ReadFull err==nil => n==len(buf); crypto/rand.Int returns a value in [0,max)", "os.WriteFile either succeeds or returns an error"}, baseAssumptions...),
		Run:         runC11,
	})
}

func runC11(c *an.Ctx) {
	p := c.P
	roots := rootsOf(p, "client", "launch", "go")
	var rl []*ssa.Function
	for _, r := range roots {
		rl = append(rl, r.Fn)
	}
	c.Count("ROOTS", len(roots))
	c.Floor("ROOTS", 2)
	reach := p.SyncReach(rl...)
	var scope []*ssa.Function
	for _, fn := range sortedFns(reach) {
		path := fn.Pkg.Pkg.Path()
		if strings.HasSuffix(path, "/client") || strings.HasSuffix(path, "/glow") || strings.HasSuffix(path, "/server") {
			scope = append(scope, fn)
		}
	}
	c.Scope(scope...)
	clientFns := p.FuncsIn("client")

	// LOCK
	lockBalance(c, clientFns, nil, "C11")
	c.Floor("LOCK-1", 3)
	bl := p.BlockingUnderLock(clientFns, "Client.mu")
	for _, a := range bl {
		c.Violated("LOCK-5", a.Fn, a.Instr.Pos(), an.KeyOf(a.Fn, "blocking:"+a.What), "call that may block ("+a.What+") while Client.mu is held: the reporting loop waits for the network", "may-block effect summary")
	}
	if len(bl) == 0 {
		c.Proved("LOCK-5", nil, 0, "noblock:Client.mu", "no network call or sleep while Client.mu is held", "effect summaries of all callees under the lock")
	}

	// BOUND with the event-log lemmas for the logger the client uses
	acct, nonEmpty := true, true // established by C18 on the same tree; re-derived here cheaply
	{
		sub := an.NewCtx(p, "C18", c.Tier)
		acct = eventLogAccount(sub, eventLogScope(p))
		nonEmpty = eventLogNonEmpty(sub, eventLogScope(p))
	}
	boundRule(c, "BOUND", scope, func(o an.BoundObl) (string, string) {
		if v, why := eventLogLemmas(p, o, acct, nonEmpty); v != "" {
			return v, why
		}
		return "", ""
	})
	c.Floor("BOUND", 40)

	// NILP on error results
	nn := 0
	for _, fn := range scope {
		for _, o := range p.NilErrObligations(fn) {
			nn++
			key := an.KeyOf(fn, "nilerr:"+o.Expr)
			desc := "dereference of the pointer result of " + strings.TrimPrefix(o.Expr, an.ModulePath+"/") + " requires its error result to be nil"
			c.Check(o.OK, "NILP-ERR", fn, o.Use.Pos(), key, desc, o.Why)
		}
	}
	c.Count("NILP-ERR", nn)

	panicRule(c, scope, "client")
	locLen(c)
	clientLiveness(c, roots)
	clientBannedRule(c)
	clientMergeRule(c)

	// note: unlocked shortID reads
	cctor := p.Constructor("client", "Client")
	construction := p.ConstructionPhase("client", cctor)
	written := p.WrittenOutside(clientFns, construction)
	spec := an.GuardSpec{Lock: "Client.mu", Roots: []an.Class{{Root: "T:Client"}}, Exempt: func(cl an.Class) string {
		f := cl.Path[0]
		if f == "mu" || f == "tg" || strings.HasPrefix(f, "static") || f == "EventLog" {
			return "not guarded"
		}
		if w, _ := written(cl); !w {
			return "construction only"
		}
		return ""
	}}
	for _, f := range p.CheckGuarded(spec, clientFns, construction) {
		if !f.OK {
			c.Note("LOCK-4", f.Access.Fn, f.Access.Instr.Pos(), an.KeyOf(f.Access.Fn, "unlocked:"+f.Access.Cls.String()),
				"access to "+f.Access.Cls.String()+" without Client.mu ("+f.Why+"): a data race that no listed property covers (C13 is about the server)")
		}
	}
}

// locLen: every string that becomes a server Location in the client is at
// most 65535 bytes long, so SerializeGCAServerMap cannot fail.
func locLen(c *an.Ctx) {
	p := c.P
	n := 0
	for _, fn := range p.FuncsIn("client") {
		fi := p.Info(fn)
		for _, b := range fn.Blocks {
			for _, in := range b.Instrs {
				st, ok := in.(*ssa.Store)
				if !ok {
					continue
				}
				fa, ok := st.Addr.(*ssa.FieldAddr)
				if !ok || fieldNameOf(fa) != "Location" {
					continue
				}
				vt := fi.Term(st.Val)
				// copies of an existing Location field are covered by their own producer
				if f, _, isLd := mapFieldOfTerm(vt); isLd && f == "Location" {
					continue
				}
				if vt.K == an.KField && vt.S == "Location" {
					continue
				}
				if vt.K == an.KLoad && len(vt.A) == 1 && vt.A[0].K == an.KFA && vt.A[0].S == "Location" {
					continue
				}
				n++
				s := fi.SysFor(st)
				ok2 := s.ProveLE(an.LenTerm(vt), 65535)
				c.Check(ok2, "LOCLEN", fn, st.Pos(), an.KeyOf(fn, "location-len"), "a location string created from untrusted bytes is at most 65535 bytes long (its length comes from an 8- or 16-bit prefix), so the server-map encoder cannot fail and the panic guarding it is unreachable",
					"len "+s.Describe(an.LenTerm(vt))+" of "+short(vt.Key()))
			}
		}
	}
	c.Count("LOCLEN", n)
	c.Floor("LOCLEN", 2)
	// the encoder's only own error condition is the length test
	enc := p.Func("client", "SerializeGCAServerMap")
	if enc == nil {
		c.Undecided("LOCLEN", nil, 0, "SerializeGCAServerMap", "server-map encoder not found", "anchor missing")
		return
	}
	fi := p.Info(enc)
	for _, b := range enc.Blocks {
		if len(b.Instrs) == 0 {
			continue
		}
		ret, ok := b.Instrs[len(b.Instrs)-1].(*ssa.Return)
		if !ok || len(ret.Results) != 2 {
			continue
		}
		if k, isC := ret.Results[1].(*ssa.Const); isC && k.Value == nil {
			continue
		}
		// controlling condition of an error return: either len(Location) > 0xFFFF or an error of a bytes.Buffer write
		cond, _, _ := controllingCondition(p, fi, b)
		okc := strings.Contains(cond, "#65535") || strings.Contains(cond, "bytes.Buffer") || strings.Contains(cond, "encoding/binary.Write")
		if !okc {
			// the error of a helper (or closure) of the encoder that itself fails only when a buffer write fails
			for _, h := range append(append([]*ssa.Function{}, enc.AnonFuncs...), p.FuncsIn("client")...) {
				if h != enc && strings.Contains(cond, "call:"+h.String()+"#") && bufferErrorsOnly(p, h) {
					okc = true
				}
			}
		}
		c.Check(okc, "LOCLEN", enc, ret.Pos(), an.KeyOf(enc, "encoder-error:"+an.StripVolatile(short(cond))), "the encoder fails only for a location longer than 65535 bytes or when a write to its in-memory buffer fails (bytes.Buffer writes and binary.Write of fixed-size values never fail)", "condition "+short(cond))
	}
}

// bufferErrorsOnly: the function's last result is an error that is nil or the error of a bytes.Buffer write / binary.Write.
func bufferErrorsOnly(p *an.Program, fn *ssa.Function) bool {
	res := fn.Signature.Results()
	if res.Len() == 0 || res.At(res.Len()-1).Type().String() != "error" || len(fn.Blocks) == 0 {
		return false
	}
	fi := p.Info(fn)
	n := 0
	for _, b := range fn.Blocks {
		if len(b.Instrs) == 0 || b == fn.Recover {
			continue
		}
		ret, ok := b.Instrs[len(b.Instrs)-1].(*ssa.Return)
		if !ok {
			continue
		}
		n++
		t := fi.Term(ret.Results[len(ret.Results)-1])
		if isConstTerm(t, "nil") {
			continue
		}
		if t.K == an.KExt {
			t = t.A[0]
		}
		if (t.K == an.KCall || t.K == an.KPure) && (strings.HasPrefix(t.Callee(), "(*bytes.Buffer).") || t.Callee() == "encoding/binary.Write") {
			continue
		}
		return false
	}
	return n > 0
}

// clientLiveness: the reporting loop exits only when the thread group stopped;
// the sync round is started asynchronously.
func clientLiveness(c *an.Ctx, roots []an.Root) {
	p := c.P
	var loop *ssa.Function
	for _, r := range roots {
		fn := firstRepoCallee(p, r.Fn)
		if fn == nil {
			fn = r.Fn
		}
		// the loop is the launched function that itself launches another member
		if e := p.Effect(fn); e != nil && len(e.Spawns) > 0 && r.Kind == "launch" {
			direct := false
			for _, b := range fn.Blocks {
				for _, in := range b.Instrs {
					if ci, ok := in.(ssa.CallInstruction); ok {
						if k, _ := an.SpawnTarget(ci.Common()); k == "launch" {
							direct = true
						}
					}
				}
			}
			if direct {
				loop = fn
			}
		}
	}
	if loop == nil {
		c.Undecided("LIVE", nil, 0, "reporting-loop", "reporting loop (launched function that launches the sync round) not found", "anchor missing")
		return
	}
	fi := p.Info(loop)
	n := 0
	for _, b := range loop.Blocks {
		if len(b.Instrs) == 0 || b == loop.Recover {
			continue
		}
		ret, ok := b.Instrs[len(b.Instrs)-1].(*ssa.Return)
		if !ok {
			continue
		}
		n++
		okStop := false
		for _, f := range fi.FactsAt(ret) {
			callee := ""
			if f.T.K == an.KCall || f.T.K == an.KPure {
				callee = f.T.Callee()
			}
			if strings.HasSuffix(callee, "ThreadGroup).IsStopped") && !f.Neg {
				okStop = true
			}
			if strings.HasSuffix(callee, "ThreadGroup).Sleep") && f.Neg {
				okStop = true
			}
		}
		c.Check(okStop, "LIVE", loop, ret.Pos(), an.KeyOf(loop, "loop-exit"), "the reporting loop returns only when the thread group has been stopped (IsStopped() or !Sleep())", "facts at the return: "+factList(fi.FactsAt(ret)))
	}
	c.Count("LIVE", n)
	c.Floor("LIVE", 2)
	// every round of the reporting loop sleeps: no path goes around the tick (a `continue` above it would make the loop
	// spin without ever sending or syncing again)
	{
		var sleeps []*ssa.BasicBlock
		var outer *natLoop
		for _, b := range loop.Blocks {
			for _, in := range b.Instrs {
				if call, ok := in.(*ssa.Call); ok && strings.HasSuffix(an.CalleeName(&call.Call), "ThreadGroup).Sleep") {
					sleeps = append(sleeps, b)
				}
			}
		}
		for _, l := range loopsOf(loop) {
			// the reporting loop is the outermost loop that contains a sleep
			has := false
			for _, sb := range sleeps {
				if l.body[sb] {
					has = true
				}
			}
			if has && (outer == nil || len(l.body) > len(outer.body)) {
				outer = l
			}
		}
		if outer == nil {
			c.Violated("LIVE", loop, loop.Pos(), an.KeyOf(loop, "round-sleeps"), "the reporting loop has no round that sleeps", "no tg.Sleep inside a loop")
		} else {
			sleepSet := map[*ssa.BasicBlock]bool{}
			for _, sb := range sleeps {
				sleepSet[sb] = true
			}
			c.Check(outer.everyIterationThroughAny(sleepSet), "LIVE", loop, outer.header.Instrs[0].Pos(), an.KeyOf(loop, "round-sleeps"), "every round of the reporting loop passes a tg.Sleep (no path back to the top of the loop goes around the tick: the loop can neither spin nor skip scheduling the next sync)", fmt.Sprintf("%d sleep sites", len(sleeps)))
		}
	}
	// no panic / blocking network call directly in the loop other than the UDP send
	syncAsync := false
	for g := range p.Effect(loop).Spawns {
		if e := p.Effect(g); e != nil && e.Locks["Client.mu"] {
			syncAsync = true
		}
		if sub := firstRepoCallee(p, g); sub != nil {
			if e := p.Effect(sub); e != nil && e.Locks["Client.mu"] && e.Blocks["net.Dial"] {
				syncAsync = true
			}
		}
	}
	c.Check(syncAsync, "LIVE", loop, loop.Pos(), an.KeyOf(loop, "sync-async"), "the sync round (which dials servers) is started with tg.Launch, so a stalled server cannot stop the reporting loop", "spawn set of the loop")
}

// clientBannedRule: every store to primaryServer is dominated by !Banned of the same key.
func clientBannedRule(c *an.Ctx) {
	p := c.P
	n := 0
	for _, fn := range p.FuncsIn("client") {
		fi := p.Info(fn)
		for _, b := range fn.Blocks {
			for _, in := range b.Instrs {
				st, ok := in.(*ssa.Store)
				if !ok {
					continue
				}
				fa, ok := st.Addr.(*ssa.FieldAddr)
				if !ok || fieldNameOf(fa) != "primaryServer" || namedOfPtr(fa.X.Type()) != "Client" {
					continue
				}
				n++
				kt := fi.Term(st.Val)
				okB := false
				// values this function itself stored into c.gcaServers (loads of the field forward to them)
				stored := map[string]bool{}
				for _, b2 := range fn.Blocks {
					for _, in2 := range b2.Instrs {
						if s2, ok := in2.(*ssa.Store); ok {
							if fa2, ok := s2.Addr.(*ssa.FieldAddr); ok && fieldNameOf(fa2) == "gcaServers" && namedOfPtr(fa2.X.Type()) == "Client" && an.Dominates(s2, st) {
								stored[fi.Term(s2.Val).Key()] = true
							}
						}
					}
				}
				for _, f := range fi.FactsAt(st) {
					// !fld:Banned(lk(ld(gcaServers), K))   (possibly as the negation inside an or-fact is not enough)
					if !f.Neg {
						continue
					}
					t := f.T
					if t.K == an.KField && t.S == "Banned" && t.A[0].K == an.KLookup {
						if fld, _, ok := mapFieldOfTerm(t.A[0].A[0]); ok && fld == "gcaServers" && t.A[0].A[1].Key() == kt.Key() {
							okB = true
						}
						if stored[t.A[0].A[0].Key()] && t.A[0].A[1].Key() == kt.Key() {
							okB = true
						}
					}
				}
				c.Check(okB, "BANNED", fn, st.Pos(), an.KeyOf(fn, "primary"), "the primary server is assigned only a key whose entry is known not to be banned (!gcaServers[key].Banned dominates the assignment)", "key "+short(kt.Key())+"; facts "+factList(fi.FactsAt(st)))
			}
		}
	}
	c.Count("BANNED", n)
	c.Floor("BANNED", 2)
}

// clientMergeRule: MERGE and PERSIST.
func clientMergeRule(c *an.Ctx) {
	p := c.P
	nm := 0
	for _, fn := range p.FuncsIn("client") {
		fi := p.Info(fn)
		lf := p.LockFlowOf(fn)
		var mutations []ssa.Instruction
		storesField := false
		for _, b := range fn.Blocks {
			for _, in := range b.Instrs {
				if st, ok := in.(*ssa.Store); ok {
					if fa, ok := st.Addr.(*ssa.FieldAddr); ok && fieldNameOf(fa) == "gcaServers" && namedOfPtr(fa.X.Type()) == "Client" {
						storesField = true
					}
				}
			}
		}
		for _, b := range fn.Blocks {
			for _, in := range b.Instrs {
				switch x := in.(type) {
				case *ssa.MapUpdate:
					cls := fi.RefClass(x.Map)
					if f, ok := cls.FieldOf("Client"); !ok || f != "gcaServers" {
						// local maps that later replace the field are checked at the replacement
						if !storesField || !isLocalServerMap(fi, x.Map) {
							continue
						}
					}
					nm++
					keyT := fi.Term(x.Key)
					// the stored value's Banned field
					var banned *an.Term
					vt := fi.Term(x.Value)
					if vt.K == an.KLoad {
						banned = fi.ResolveLocalField(vt, "Banned", x)
					} else if vt.K == an.KStruct {
						// built by a straight-line helper (term-level inlining)
						if b := fi.FieldOfTerm(vt, "Banned"); b != nil && b.K != an.KField {
							banned = b
						}
					}
					okM := false
					if banned != nil {
						// or( !exists , banned )
						for _, f := range fi.FactsAt(x) {
							if f.T.K != an.KOr {
								continue
							}
							a, b2 := f.T.A[0], f.T.A[1]
							for _, pr := range [][2]*an.Term{{a, b2}, {b2, a}} {
								if pr[1].Key() != banned.Key() {
									continue
								}
								ne := pr[0]
								if ne.K == an.KUn && ne.S == "!" && ne.A[0].K == an.KExt && ne.A[0].S == "1" && ne.A[0].A[0].K == an.KLkOK && ne.A[0].A[0].A[1].Key() == keyT.Key() {
									okM = true
								}
							}
						}
					}
					c.Check(okM, "MERGE", fn, x.Pos(), an.KeyOf(fn, "merge"), "an entry of the server map is written only if the key is not yet present or the new entry is banned (!exists || new.Banned): an existing non-banned entry is never altered and banned never reverts",
						"facts "+factList(fi.FactsAt(x)))
					if f, ok := cls.FieldOf("Client"); ok && f == "gcaServers" {
						mutations = append(mutations, x)
					}
				case *ssa.Store:
					fa, ok := x.Addr.(*ssa.FieldAddr)
					if !ok || fieldNameOf(fa) != "gcaServers" || namedOfPtr(fa.X.Type()) != "Client" {
						continue
					}
					if p.ConstructionPhase("client", p.Constructor("client", "Client"))[fn] {
						continue
					}
					nm++
					mutations = append(mutations, x)
					// replacement only in the migration branch: newGCA != gcaPubKey && newGCA != blank dominate
					nNe := 0
					for _, f := range fi.FactsAt(x) {
						if f.T.K == an.KBin && f.T.S == "!=" {
							nNe++
						}
					}
					c.Check(nNe >= 2, "MERGE", fn, x.Pos(), an.KeyOf(fn, "replace"), "the server map is replaced as a whole only in the migration branch (new GCA differs from the current one and is not blank)", "facts "+factList(fi.FactsAt(x)))
				}
			}
		}
		// PERSIST: each mutation of c.gcaServers is followed by a write of the serialised map before the unlock
		for _, m := range mutations {
			persisted := false
			why := "no write of SerializeGCAServerMap(c.gcaServers) to the server-map file on every path from the mutation to the unlock"
			for _, b := range fn.Blocks {
				for _, in := range b.Instrs {
					call, ok := in.(*ssa.Call)
					if !ok || an.CalleeName(&call.Call) != "os.WriteFile" {
						continue
					}
					// data argument: ext:0(SerializeGCAServerMap(load c.gcaServers))
					dt := fi.Term(call.Call.Args[1])
					okData := false
					dt.Walk(func(t *an.Term) {
						if strings.HasSuffix(t.Callee(), "client.SerializeGCAServerMap") && len(t.A) == 1 {
							if f, _, ok := mapFieldOfTerm(t.A[0]); ok && f == "gcaServers" {
								okData = true
							}
						}
					})
					okPath := fi.PathFileName(call.Call.Args[0]) == "gcaServers.dat"
					if !okData || !okPath {
						continue
					}
					if !an.Held(lf.StateAt(call, "Client.mu")) {
						continue
					}
					if mustPassThrough(m, call, func(in ssa.Instruction) bool {
						if cc, ok := in.(*ssa.Call); ok {
							if id, op, ok := an.LockOp(&cc.Call); ok && id == "Client.mu" && op == "Unlock" {
								return true
							}
						}
						_, isRet := in.(*ssa.Return)
						return isRet
					}) {
						persisted = true
						why = "os.WriteFile(gcaServers.dat, SerializeGCAServerMap(c.gcaServers)) at " + p.Pos(call.Pos()) + " lies on every path to the unlock"
					}
				}
			}
			c.Check(persisted, "PERSIST", fn, m.Pos(), an.KeyOf(fn, "persist-map"), "every change of the server map is written to gcaServers.dat before the lock is released (ban knowledge survives a restart)", why)
		}
	}
	c.Count("MERGE", nm)
	c.Floor("MERGE", 2)
}

func isLocalServerMap(fi *an.FuncInfo, m ssa.Value) bool {
	mt, ok := m.Type().Underlying().(*types.Map)
	if !ok {
		return false
	}
	return strings.HasSuffix(mt.Elem().String(), "client.GCAServer") && fi.ObjClass(m).IsLocal()
}

// mustPassThrough: every path from instruction from to an instruction
// satisfying isExit passes through instruction through.
func mustPassThrough(from, through ssa.Instruction, isExit func(ssa.Instruction) bool) bool {
	type pos struct {
		b *ssa.BasicBlock
		i int
	}
	start := pos{from.Block(), an.InstrIndex(from) + 1}
	seen := map[*ssa.BasicBlock]bool{}
	var walk func(p pos) bool // returns false if an exit is reachable without passing through
	walk = func(p pos) bool {
		for i := p.i; i < len(p.b.Instrs); i++ {
			in := p.b.Instrs[i]
			if in == through {
				return true
			}
			if isExit(in) {
				return false
			}
			if _, isPanic := in.(*ssa.Panic); isPanic {
				return true // the process dies: nothing is released
			}
		}
		for _, s := range p.b.Succs {
			if seen[s] {
				continue
			}
			seen[s] = true
			if !walk(pos{s, 0}) {
				return false
			}
		}
		return true
	}
	return walk(start)
}
