package props

import (
	"fmt"
	"go/types"
	"sort"
	"strings"

	"gcacheck/internal/an"

	"golang.org/x/tools/go/ssa"
)

func init() {
	register(&an.PropertyCheck{
		ID:      "C13",
		Title:   "Concurrent operation is race-free, deadlock-free and equals a sequential run",
		Engines: "LOCK (per-function lock-state dataflow, guarded-by with call-path propagation, lock-order graph, may-block summaries), KEYSET, NILP with versioned facts",
		Explanation: "Decided on package server, in every build configuration of the tier: LOCK-1 every Lock is released on every control-flow path of every function that locks " +
			"(no leak, no double lock, no unlock of an unheld lock, equal state at joins, no explicit panic while held in a recovering context); LOCK-2 no call that may re-acquire a held lock; " +
			"LOCK-3 the lock-order graph is acyclic and the two server locks are never nested; LOCK-4 every read/write of a field guarded by GCAServer.mu or AuthorizedServers.mu " +
			"(README convention, minus static/construction-only fields) happens with that lock held on every call path from every entry point, including writes through slice/map " +
			"values copied out of shared state (origin classes); LOCK-5 no network/sleep call while a server lock is held; KEYSET the three id-keyed maps are inserted into and deleted " +
			"from together; LOCK-6 a pointer taken from a guarded map is dereferenced only if the key was validated in the same critical section (lock operations invalidate earlier facts). " +
			"LOCK-7 a guarded write is addressed (index, map key) only by values read in its own critical section - a value loaded from guarded state in an earlier section must be re-read (what an effectful call returns counts as new data); LOCK-8 a function that takes a lock does not return a slice, map or pointer into the storage that lock protects (it hands out a copy). LOCK-9 a guarded write (direct, or by a callee running inside the critical section) is not decided by a test of guarded state read in an earlier critical section (check-then-act across an unlock). NOT decided: that the final state equals the sequential result (linearizability is a claim about histories; these rules establish its precondition: every shared access is " +
			"inside one critical section and multi-section jobs re-validate), races inside dependencies, scheduler behaviour.",
		Assumptions: baseAssumptions,
		Run:         runC13,
	})
}

// serverGuardSpec builds the LOCK-4 specification for GCAServer.mu.
func serverGuardSpec(p *an.Program, scope []*ssa.Function, construction map[*ssa.Function]bool) (an.GuardSpec, map[string]string) {
	written := p.WrittenOutside(scope, construction)
	exemptions := map[string]string{}
	spec := an.GuardSpec{
		Lock:  "GCAServer.mu",
		Roots: []an.Class{{Root: "T:GCAServer"}},
		Exempt: func(c an.Class) string {
			f := c.Path[0]
			reason := ""
			switch {
			case f == "mu":
				reason = "the mutex itself"
			case f == "tg":
				reason = "thread group (has its own synchronisation)"
			case strings.HasPrefix(f, "static"):
				reason = "static field (README: never changes after construction)"
			case f == "gcaServers":
				reason = "nested object with its own mutex"
			default:
				if w, _ := written(c); !w {
					reason = "written only in the construction phase"
				}
			}
			if reason != "" {
				exemptions[f] = reason
			}
			return reason
		},
	}
	return spec, exemptions
}

func runC13(c *an.Ctx) {
	p := c.P
	scope := p.FuncsIn("server")
	c.Scope(scope...)
	ctor := p.Constructor("server", "GCAServer")
	if ctor == nil {
		c.Undecided("ANCHOR", nil, 0, "ctor:GCAServer", "constructor of server.GCAServer not found", "anchor missing")
		return
	}
	construction := p.ConstructionPhase("server", ctor)

	// HTTP handler reach: panics there are recovered by net/http.
	var httpRoots []*ssa.Function
	nRoots := map[string]int{}
	for _, r := range p.Roots("server") {
		nRoots[r.Kind]++
		if r.Kind == "http" {
			httpRoots = append(httpRoots, r.Fn)
		}
	}
	recovering := p.SyncReach(httpRoots...)
	c.Count("ROOTS-http", nRoots["http"])
	c.Count("ROOTS-launch", nRoots["launch"])
	c.Floor("ROOTS-http", 6)
	c.Floor("ROOTS-launch", 4)

	lockBalance(c, scope, recovering, "C13")
	c.Floor("LOCK-1", 8)

	// LOCK-3 order
	edges := p.LockOrderEdges(p.SrcFuncs())
	lockOrder(c, edges, [][2]string{{"GCAServer.mu", "AuthorizedServers.mu"}})

	// LOCK-4 guarded-by
	spec, exemptions := serverGuardSpec(p, scope, construction)
	guardedBy(c, spec, scope, construction)
	listSpec := an.GuardSpec{
		Lock:  "AuthorizedServers.mu",
		Roots: []an.Class{{Root: "T:GCAServer", Path: []string{"gcaServers"}}, {Root: "T:AuthorizedServers"}},
		Exempt: func(cl an.Class) string {
			if cl.Path[len(cl.Path)-1] == "mu" {
				return "the mutex itself"
			}
			return ""
		},
	}
	guardedBy(c, listSpec, scope, construction)
	c.Floor("LOCK-4", 30)
	var ex []string
	for f, r := range exemptions {
		ex = append(ex, f+": "+r)
	}
	sort.Strings(ex)
	c.Note("LOCK-4", ctor, 0, "exemptions", "fields of GCAServer not guarded by GCAServer.mu: "+strings.Join(ex, "; "))

	// LOCK-5 blocking under lock
	for _, lock := range []string{"GCAServer.mu", "AuthorizedServers.mu"} {
		bl := p.BlockingUnderLock(scope, lock)
		for _, a := range bl {
			c.Violated("LOCK-5", a.Fn, a.Instr.Pos(), an.KeyOf(a.Fn, "blocking:"+a.What), "call that may block ("+a.What+") while "+lock+" is held", "other requests wait for the network")
		}
		c.Count("LOCK-5", 1)
		if len(bl) == 0 {
			c.Proved("LOCK-5", nil, 0, "noblock:"+lock, "no call with a may-block effect (network dial/read/write, http, sleep) while "+lock+" is held", "effect summaries of all callees under the lock")
		}
	}

	// LOCK-8 references to guarded storage handed out of the critical section
	for _, sp := range []an.GuardSpec{spec, listSpec} {
		escapingReferences(c, sp, scope)
	}

	// LOCK-7 values carried from one critical section into the addressing of a later one
	staleAddressing(c, spec, scope)

	// KEYSET
	keyset(c, scope, "C13")

	// LOCK-6 / NILP: pointers from guarded maps
	nilpGuardedMaps(c, scope, "C13")
}

// lockBalance emits the LOCK-1 and LOCK-2 obligations for every function in scope.
func lockBalance(c *an.Ctx, scope []*ssa.Function, recovering map[*ssa.Function]bool, prop string) {
	p := c.P
	for _, fn := range scope {
		lf := p.LockFlowOf(fn)
		if len(lf.Locks) == 0 {
			continue
		}
		for _, lock := range lf.Locks {
			c.Count("LOCK-1", 1)
			bad := false
			for _, f := range lf.Findings {
				if f.Lock != lock {
					continue
				}
				key := an.KeyOf(fn, f.Kind+":"+lock)
				if f.Kind == "panic-held" {
					if recovering[fn] {
						c.Violated("LOCK-1", fn, f.Instr.Pos(), key, f.Desc+" in code reachable from an HTTP handler (net/http recovers the panic, the mutex stays held)", "deadlock of every later request")
						bad = true
					} else {
						c.Note("LOCK-1", fn, f.Instr.Pos(), key, f.Desc+" (the process dies; not in a recovering context)")
					}
					continue
				}
				bad = true
				c.Violated("LOCK-1", fn, f.Instr.Pos(), key, f.Desc, "lock-state dataflow over the CFG; entry "+an.FuncName(fn)+", offending instruction at "+p.Pos(f.Instr.Pos()))
			}
			if !bad {
				c.Proved("LOCK-1", fn, fn.Pos(), an.KeyOf(fn, "balance:"+lock), "every path through the function releases "+lock+" (state equal at all joins, not held at any return)",
					fmt.Sprintf("%d lock operations, %d blocks", lf.Ops, len(fn.Blocks)))
			}
		}
		// LOCK-2: calls that may re-acquire a held lock
		for _, b := range fn.Blocks {
			for _, in := range b.Instrs {
				call, ok := in.(*ssa.Call)
				if !ok {
					continue
				}
				if _, _, isLock := an.LockOp(&call.Call); isLock {
					continue
				}
				for _, lock := range lf.Locks {
					if !an.Held(lf.StateAt(in, lock)) {
						continue
					}
					for _, g := range p.Callees(call) {
						e := p.Effect(g)
						if e != nil && e.Locks[lock] {
							c.Violated("LOCK-2", fn, in.Pos(), an.KeyOf(fn, "reacquire:"+lock+":"+an.FuncName(g)),
								"call to "+an.FuncName(g)+", which may acquire "+lock+", while "+lock+" is held", "self-deadlock (sync.Mutex is not re-entrant)")
						}
					}
				}
			}
		}
		c.Count("LOCK-2", 1)
	}
	c.Proved("LOCK-2", nil, 0, "noreentry:"+prop, "summary 'may acquire L' was propagated bottom-up; every call made while L is held was checked against it", "see violations, if any")
}

func lockOrder(c *an.Ctx, edges map[string][]string, neverNested [][2]string) {
	// cycle detection
	adj := map[string][]string{}
	var keys []string
	for a, l := range edges {
		keys = append(keys, a)
		for _, bw := range l {
			b := strings.SplitN(bw, "@", 2)[0]
			adj[a] = append(adj[a], b)
		}
	}
	sort.Strings(keys)
	var desc []string
	for _, a := range keys {
		for _, bw := range edges[a] {
			desc = append(desc, a+" -> "+bw)
		}
	}
	color := map[string]int{}
	var cyc []string
	var dfs func(n string, path []string)
	dfs = func(n string, path []string) {
		color[n] = 1
		for _, m := range adj[n] {
			if color[m] == 1 {
				cyc = append(append([]string{}, path...), n, m)
				return
			}
			if color[m] == 0 {
				dfs(m, append(path, n))
				if cyc != nil {
					return
				}
			}
		}
		color[n] = 2
	}
	for _, a := range keys {
		if color[a] == 0 && cyc == nil {
			dfs(a, nil)
		}
	}
	c.Count("LOCK-3", 1)
	if cyc != nil {
		c.Violated("LOCK-3", nil, 0, "order-cycle", "lock-order cycle: "+strings.Join(cyc, " -> "), strings.Join(desc, "; "))
	} else {
		c.Proved("LOCK-3", nil, 0, "order-acyclic", "the lock-order graph over all packages is acyclic", "edges: "+strings.Join(desc, "; "))
	}
	for _, pair := range neverNested {
		for _, dir := range [][2]string{{pair[0], pair[1]}, {pair[1], pair[0]}} {
			nested := ""
			for _, bw := range edges[dir[0]] {
				if strings.HasPrefix(bw, dir[1]+"@") {
					nested = bw
				}
			}
			if nested != "" {
				c.Violated("LOCK-3", nil, 0, "nested:"+dir[0]+">"+dir[1], dir[1]+" is acquired while "+dir[0]+" is held ("+nested+")", "README: mutexes must not stack")
			} else {
				c.Proved("LOCK-3", nil, 0, "notnested:"+dir[0]+">"+dir[1], dir[1]+" is never acquired while "+dir[0]+" is held", "lock-order edges")
			}
		}
	}
}

func guardedBy(c *an.Ctx, spec an.GuardSpec, scope []*ssa.Function, construction map[*ssa.Function]bool) {
	p := c.P
	for _, f := range p.CheckGuarded(spec, scope, construction) {
		c.Count("LOCK-4", 1)
		a := f.Access
		kind := "read"
		if a.Write {
			kind = "write"
		}
		key := an.KeyOf(a.Fn, kind+":"+a.Cls.String())
		desc := fmt.Sprintf("%s of %s (%s) needs %s", kind, a.Cls, a.What, spec.Lock)
		if f.OK {
			c.Proved("LOCK-4", a.Fn, a.Instr.Pos(), key, desc, f.Why)
		} else {
			why := f.Why
			if len(f.Chain) > 0 {
				why += "; path: " + strings.Join(f.Chain, " -> ")
			}
			c.Violated("LOCK-4", a.Fn, a.Instr.Pos(), key, desc, why)
		}
	}
}

// staleAddressing (LOCK-7): a guarded write may not be addressed (index, map
// key) by a value that was loaded from guarded state in an EARLIER critical
// section of the same lock: between the two sections any other request may
// have changed that state, so the write lands where a sequential run would not
// put it (multi-section jobs must re-read after re-locking).
func staleAddressing(c *an.Ctx, spec an.GuardSpec, scope []*ssa.Function) {
	p := c.P
	guarded := func(cl an.Class) bool {
		for _, r := range spec.Roots {
			if cl.Root == r.Root && len(cl.Path) > 0 && spec.Exempt(cl) == "" {
				return true
			}
		}
		return false
	}
	n := 0
	for _, fn := range scope {
		lf := p.LockFlowOf(fn)
		has := false
		for _, l := range lf.Locks {
			if l == spec.Lock {
				has = true
			}
		}
		if !has || lf.Ops < 3 {
			continue // fewer than two critical sections
		}
		fi := p.Info(fn)
		section := func(at ssa.Instruction) string {
			var ids []string
			for d := range fi.ReachingAt(at) {
				if d.Havoc && d.Cls.Root == spec.Roots[0].Root {
					ids = append(ids, d.ID)
				}
			}
			sort.Strings(ids)
			return strings.Join(ids, ",")
		}
		for _, a := range p.AccessesOf(fn) {
			if !a.Write || !guarded(a.Cls) {
				continue
			}
			var addr ssa.Value
			switch x := a.Instr.(type) {
			case *ssa.Store:
				addr = x.Addr
			case *ssa.MapUpdate:
				addr = x.Key
			default:
				continue
			}
			n++
			cur := section(a.Instr)
			stale := ""
			// the values the address is COMPUTED from: arithmetic, conversions, field and
			// element selections and pure functions; what an effectful (network, file) call
			// returns is new data, not a stale copy of its arguments
			var walk func(t *an.Term)
			walk = func(t *an.Term) {
				if t == nil || stale != "" || t.K == an.KCall {
					return
				}
				if t.K == an.KLoad {
					if ld, ok := t.Val.(*ssa.UnOp); ok && ld.Parent() == fn && guarded(fi.RefClass(ld.X)) {
						if s := section(ld); s != cur {
							stale = "the value of " + short(t.Key()) + " loaded at " + p.Pos(ld.Pos()) + " (critical section " + s + ") addresses a write in critical section " + cur
							return
						}
					}
				}
				for _, a := range t.A {
					walk(a)
				}
			}
			walk(fi.Term(addr))
			// LOCK-9: ... nor decided by one: a fact that dominates the write and was established on guarded state
			// read in an earlier critical section is a check-then-act across an unlock (the state may have changed)
			if stale == "" {
				for _, f := range fi.FactsAt(a.Instr) {
					if stale != "" {
						break
					}
					walk(f.T)
				}
				if stale != "" {
					c.Violated("LOCK-9", fn, a.Instr.Pos(), an.KeyOf(fn, "stale-guard:"+a.Cls.String()), "a write of "+a.Cls.String()+" is decided by a test of guarded state that was read in an earlier critical section and not re-validated after re-locking (check-then-act across an unlock)", stale)
					continue
				}
			}
			if stale != "" {
				c.Violated("LOCK-7", fn, a.Instr.Pos(), an.KeyOf(fn, "stale-address:"+a.Cls.String()), "a write of "+a.Cls.String()+" is addressed by guarded state read in an earlier critical section (not re-read after re-locking): the result differs from every sequential run when the state changed in between", stale)
			} else {
				c.Proved("LOCK-7", fn, a.Instr.Pos(), an.KeyOf(fn, "fresh-address:"+a.Cls.String()), "the guarded write is addressed only by values read in its own critical section (or by unguarded/local values)", "sections of the loads inside the address term")
			}
		}
		// LOCK-9 for writes performed by a callee that runs inside this function's critical section
		for _, b := range fn.Blocks {
			for _, in := range b.Instrs {
				call, ok := in.(*ssa.Call)
				if !ok || !an.Held(lf.StateAt(call, spec.Lock)) {
					continue
				}
				sc := call.Call.StaticCallee()
				if sc == nil || !an.IsRepoFunc(sc) {
					continue
				}
				writes := false
				for _, w := range p.Effect(sc).Writes {
					if guarded(w) {
						writes = true
					}
				}
				if !writes {
					continue
				}
				n++
				cur := section(call)
				stale := ""
				var walk func(t *an.Term)
				walk = func(t *an.Term) {
					if t == nil || stale != "" || t.K == an.KCall {
						return
					}
					if t.K == an.KLoad {
						if ld, ok := t.Val.(*ssa.UnOp); ok && ld.Parent() == fn && guarded(fi.RefClass(ld.X)) {
							if s := section(ld); s != cur {
								stale = "the test of " + short(t.Key()) + " loaded at " + p.Pos(ld.Pos()) + " (critical section " + s + ") decides a write made in critical section " + cur
								return
							}
						}
					}
					for _, a := range t.A {
						walk(a)
					}
				}
				for _, f := range fi.FactsAt(call) {
					walk(f.T)
				}
				key := an.KeyOf(fn, "stale-guard:call:"+an.FuncName(sc))
				if stale != "" {
					c.Violated("LOCK-9", fn, call.Pos(), key, "the call of "+an.FuncName(sc)+", which writes guarded state, is decided by a test of guarded state read in an earlier critical section and not re-validated after re-locking (check-then-act across an unlock)", stale)
				} else {
					c.Proved("LOCK-9", fn, call.Pos(), key, "the guarded writes of "+an.FuncName(sc)+" are decided only by state read in the critical section they happen in", "sections of the loads inside the dominating facts")
				}
			}
		}
	}
	c.Count("LOCK-7", n)
}

// escapingReferences (LOCK-8): a function that takes the lock itself may not
// return a slice, map or pointer that refers to storage the lock protects:
// the caller would read (or write) it after the critical section has ended.
// Such functions must hand out a copy made under the lock.
func escapingReferences(c *an.Ctx, spec an.GuardSpec, scope []*ssa.Function) {
	p := c.P
	guarded := func(cl an.Class) bool {
		if len(cl.Path) == 0 {
			return false
		}
		for _, r := range spec.Roots {
			if cl.Root != r.Root || len(cl.Path) < len(r.Path) {
				continue
			}
			ok := true
			for i, x := range r.Path {
				if cl.Path[i] != x {
					ok = false
				}
			}
			if ok && spec.Exempt(cl) == "" {
				return true
			}
		}
		return false
	}
	n := 0
	for _, fn := range scope {
		lf := p.LockFlowOf(fn)
		has := false
		for _, l := range lf.Locks {
			if l == spec.Lock {
				has = true
			}
		}
		if !has {
			continue
		}
		fi := p.Info(fn)
		for _, b := range fn.Blocks {
			if b == fn.Recover || len(b.Instrs) == 0 {
				continue
			}
			ret, ok := b.Instrs[len(b.Instrs)-1].(*ssa.Return)
			if !ok {
				continue
			}
			for i, r := range ret.Results {
				switch r.Type().Underlying().(type) {
				case *types.Slice, *types.Map, *types.Pointer:
				default:
					continue
				}
				n++
				cl := fi.RefClass(r)
				key := an.KeyOf(fn, fmt.Sprintf("returns-ref:%d:%s", i, spec.Lock))
				if guarded(cl) {
					c.Violated("LOCK-8", fn, ret.Pos(), key, an.FuncName(fn)+" takes "+spec.Lock+" and returns a reference into the storage it protects ("+cl.String()+"): the caller uses it after the critical section has ended", "result "+fmt.Sprint(i)+" is not a copy made under the lock")
				} else {
					c.Proved("LOCK-8", fn, ret.Pos(), key, "the reference returned by a function that takes "+spec.Lock+" does not point into guarded storage (fresh copy or unguarded value)", "class of the result: "+cl.String())
				}
			}
		}
	}
	c.Count("LOCK-8", n)
}
