package props

import (
	"go/constant"
	"go/types"
	"strings"

	"gcacheck/internal/an"

	"golang.org/x/tools/go/ssa"
)

func init() {
	register(&an.PropertyCheck{
		ID:      "C14",
		Title:   "Archive download is a consistent, public-only snapshot",
		Engines: "PERSIST (writer protocols of the archived files), constant extraction (archive order), CFG order, WHO-MAY and value-origin (what reaches the zip writer), dominance (rate limiter)",
		Explanation: "Decided: ORDER the archive list PublicFiles (a constant literal, read in every configuration) is a linearisation 'dependents first' of the dependency order reports -> authorizations -> GCA key -> temporary key, with the statistics file before the server public key; " +
			"the handler adds the files in list order and the public-key pseudo file after the loop; APPEND every file whose records depend on another file is only ever written append-1 (one Write per whole record, C05), and every operation writes the record it depends on before it enables a dependent one " +
			"(authorization appended before the device can report, key written before any authorization is accepted: C06/C07 ORDER rules) - these are the premises of the README's argument that reading dependents first yields a dependency-closed, record-aligned snapshot; " +
			"SECRET the zip writer receives bytes only from (a) files named by ranging over PublicFiles, which does not contain server.keys, (b) the first result (public half) of the key loader, never the private half or the key file's tail, and (c) the constant README; " +
			"LIMIT the rate-limit test dominates the creation of the archive and uses the limiter constructed from apiArchiveLimit/apiArchiveRate (positive constants in every configuration), and the structural rules of the limiter itself (C19: expiry keeps exactly the timestamps inside the window, admission iff fewer than the limit remain, all under its mutex) are re-run here. " +
			"PREFIX the archive entry of a public file is io.Copy of the opened *os.File itself up to EOF (no limiting or offset reader), which with append-only writers is a record-aligned prefix. the device-table rules of C06 and the builder rules of C03 are re-run as premises of the closure argument. The one-shot registration rule of C07 (the key file is written at most once) and the saver rule of C03 (the archived record is written as signed) are re-run. ALIGN the report log is replayed only when its length is a multiple of 80 (or the loader cuts it back), so the log and its archived copy stay record-aligned. NOT decided: atomicity of a single write(2) against a concurrent read(2) (operating system, trusted); actual interleavings of writers with the archive loop.",
		Assumptions: append([]string{"an O_APPEND write of one buffer and a concurrent read see either none or all of the record (README: File Writing and Archiving)"}, baseAssumptions...),
		Run:         runC14,
	})
}

func publicFilesList(p *an.Program) ([]string, *ssa.Function) {
	initFn := p.Func("server", "init")
	if initFn == nil {
		return nil, nil
	}
	for _, b := range initFn.Blocks {
		for _, in := range b.Instrs {
			st, ok := in.(*ssa.Store)
			if !ok {
				continue
			}
			g, ok := st.Addr.(*ssa.Global)
			if !ok || g.Name() != "PublicFiles" {
				continue
			}
			var out []string
			for _, e := range an.VarargElems(st.Val) {
				k, ok := e.(*ssa.Const)
				if !ok || k.Value == nil || k.Value.Kind() != constant.String {
					return nil, initFn
				}
				out = append(out, constant.StringVal(k.Value))
			}
			return out, initFn
		}
	}
	return nil, initFn
}

func runC14(c *an.Ctx) {
	p := c.P
	list, initFn := publicFilesList(p)
	if len(list) == 0 {
		c.Undecided("ORDER", initFn, 0, "PublicFiles", "the archive list PublicFiles is not a literal of string constants", "shape not recognised")
		return
	}
	pos := map[string]int{}
	for i, f := range list {
		pos[f] = i
	}
	// dependency DAG from the property statement: X depends on Y => X must be archived before Y
	deps := [][2]string{
		{"equipment-reports.dat", "equipment-authorizations.dat"},
		{"equipment-authorizations.dat", "gcaPubKey.dat"},
		{"gcaPubKey.dat", "gcaTempPubKey.dat"},
	}
	for _, d := range deps {
		i, ok1 := pos[d[0]]
		j, ok2 := pos[d[1]]
		c.Check(ok1 && ok2 && i < j, "ORDER", initFn, 0, "order:"+d[0]+"<"+d[1], d[0]+" is archived before "+d[1]+", on which its records depend (dependents first)", "PublicFiles = "+strings.Join(list, ", "))
	}
	_, okStats := pos["allDeviceStats.dat"]
	c.Check(okStats, "ORDER", initFn, 0, "order:stats-present", "the statistics file is archived (before the server public key that signs it, which is added after the loop)", "PublicFiles = "+strings.Join(list, ", "))
	_, hasSecret := pos["server.keys"]
	c.Check(!hasSecret, "SECRET", initFn, 0, "secret:not-listed", "the key file server.keys is not in the archive list", "PublicFiles = "+strings.Join(list, ", "))
	c.Count("ORDER", len(deps)+1)
	alignedReportLog(c)

	// the handler
	var handler, addFile, addPub *ssa.Function
	var zipAdd *ssa.Function
	for _, fn := range p.FuncsIn("server") {
		if fn.Name() == "AddFile" && fn.Signature.Recv() != nil {
			zipAdd = fn
		}
	}
	if zipAdd == nil {
		c.Undecided("SECRET", nil, 0, "zip-add", "zip writer helper AddFile not found", "anchor missing")
		return
	}
	for _, r := range rootsOf(p, "server", "http") {
		if p.SyncReach(r.Fn)[zipAdd] {
			handler = r.Fn
		}
	}
	if handler == nil {
		c.Undecided("ORDER", nil, 0, "archive-handler", "archive handler not found", "anchor missing")
		return
	}
	c.Scope(handler, zipAdd)
	hfi := p.Info(handler)
	// callers of the zip writer
	var adders []*ssa.Function
	for _, s := range p.CallSites(zipAdd) {
		adders = append(adders, s.Parent())
	}
	c.Count("SECRET", len(adders))
	c.Floor("SECRET", 3)
	for _, s := range p.CallSites(zipAdd) {
		fn := s.Parent()
		fi := p.Info(fn)
		call := s.(*ssa.Call)
		reader := call.Call.Args[1]
		key := an.KeyOf(fn, "zip-source")
		rt := fi.Term(reader)
		switch {
		case strings.Contains(rt.Key(), "os.Open"):
			// file opened by name: the name parameter must come from ranging over PublicFiles
			addFile = fn
			okName := true
			for _, cs := range p.CallSites(fn) {
				cfi := p.Info(cs.Parent())
				nameT := cfi.Term(cs.Common().Args[1])
				if !strings.Contains(nameT.Key(), "PublicFiles") {
					okName = false
				}
			}
			// path = Join(baseDir, name)
			var open *ssa.Call
			for _, op := range p.FileOps(fn) {
				if op.Kind == "open-read" {
					open = op.Call
				}
			}
			okPath := false
			if open != nil {
				parts, _ := fi.PathOf(open.Call.Args[0])
				if len(parts) == 2 && parts[1].Key() == fi.Term(fn.Params[1]).Key() {
					okPath = true
				}
			}
			// the archive entry is fed by the opened file itself (read to EOF by the zip helper):
			// a wrapped, limited or offset reader would cut the entry at a point that is not a record boundary
			whole := rt.K == an.KExt && rt.S == "0" && rt.A[0].Callee() == "os.Open"
			fullCopy := false
			zfi := p.Info(zipAdd)
			for _, zb := range zipAdd.Blocks {
				for _, zin := range zb.Instrs {
					if zc, ok := zin.(*ssa.Call); ok && an.CalleeName(&zc.Call) == "io.Copy" && zfi.Term(zc.Call.Args[1]).Key() == zfi.Term(zipAdd.Params[1]).Key() {
						fullCopy = true
					}
				}
			}
			c.Check(whole && fullCopy, "PREFIX", fn, call.Pos(), key+":whole-file", "the archive entry of a public file is everything read from the opened file up to EOF (io.Copy of the *os.File itself): with append-only writers that is a record-aligned prefix; no limiting or offset reader is interposed", "reader "+short(rt.Key()))
			c.Check(okName && okPath && len(p.CallSites(fn)) > 0, "SECRET", fn, call.Pos(), key+":file", "a file is copied into the archive only under baseDir/<name> with <name> taken from ranging over PublicFiles", "name argument at the call sites and path components")
		case strings.Contains(rt.Key(), "bytes.NewReader"):
			addPub = fn
			// the bytes come from result 0 of the key loader
			okSrc := false
			var src *an.Term
			rt.Walk(func(t *an.Term) {
				if strings.HasSuffix(t.Callee(), "bytes.NewReader") && len(t.A) == 1 {
					src = t.A[0]
				}
			})
			if src != nil && src.K == an.KSlice {
				base := src.A[0]
				if base.K == an.KAlloc {
					if al, ok := base.Val.(*ssa.Alloc); ok {
						ct := fi.ContentAt(al, call)
						if ct.K == an.KExt && ct.S == "0" {
							if cc, ok := ct.A[0].Val.(*ssa.Call); ok {
								if sc := cc.Call.StaticCallee(); sc != nil {
									res := sc.Signature.Results()
									if res.Len() == 3 && strings.HasSuffix(res.At(0).Type().String(), "glow.PublicKey") && strings.HasSuffix(res.At(1).Type().String(), "glow.PrivateKey") {
										okSrc = true
									}
								}
							}
						}
					}
				}
			}
			c.Check(okSrc, "SECRET", fn, call.Pos(), key+":pubkey", "the server.pubkey pseudo file contains only the public half returned by the key loader (its first result); the private half never reaches the zip writer", "reader source "+short(rt.Key()))
			// the private result is discarded
			privUsed := false
			for _, b := range fn.Blocks {
				for _, in := range b.Instrs {
					if ex, ok := in.(*ssa.Extract); ok && ex.Index == 1 {
						if cc, ok := ex.Tuple.(*ssa.Call); ok {
							if sc := cc.Call.StaticCallee(); sc != nil && sc.Signature.Results().Len() == 3 {
								if ex.Referrers() != nil && len(*ex.Referrers()) > 0 {
									privUsed = true
								}
							}
						}
					}
				}
			}
			c.Check(!privUsed, "SECRET", fn, fn.Pos(), key+":private-unused", "the private key returned by the key loader is not used in the archive code", "no referrer of result 1")
		default:
			// constant readme
			okConst := strings.Contains(rt.Key(), "bytes.Buffer") || rt.K == an.KAlloc
			c.Check(okConst, "SECRET", fn, call.Pos(), key+":readme", "the remaining pseudo file is built from a constant string", "reader "+short(rt.Key()))
		}
	}
	// the function that builds the archive: the handler itself, or a helper that only the handler calls
	isCreate := func(call *ssa.Call) bool {
		sc := call.Call.StaticCallee()
		return sc != nil && an.IsRepoFunc(sc) && sc.Signature.Results().Len() == 1 && strings.Contains(sc.Signature.Results().At(0).Type().String(), "zipArchiveWriter")
	}
	creates := func(fn *ssa.Function) bool {
		for _, b := range fn.Blocks {
			for _, in := range b.Instrs {
				if call, ok := in.(*ssa.Call); ok && isCreate(call) {
					return true
				}
			}
		}
		return false
	}
	builder := handler
	var builderCall *ssa.Call
	if !creates(handler) {
		for _, b := range handler.Blocks {
			for _, in := range b.Instrs {
				if call, ok := in.(*ssa.Call); ok {
					if sc := call.Call.StaticCallee(); sc != nil && sc.Pkg == handler.Pkg && creates(sc) && calledOnlyFrom(p, sc, handler) {
						builder, builderCall = sc, call
					}
				}
			}
		}
		c.Scope(builder)
	}
	hfi = p.Info(builder)
	// handler order: range over PublicFiles calling addFile, pubkey after the loop
	var rng *ssa.Range
	var rngIdxPhi bool
	var addFileCall, addPubCall *ssa.Call
	for _, b := range builder.Blocks {
		for _, in := range b.Instrs {
			switch x := in.(type) {
			case *ssa.Range:
				rng = x
			case *ssa.Call:
				if sc := x.Call.StaticCallee(); sc != nil {
					if sc == addFile {
						addFileCall = x
					}
					if sc == addPub {
						addPubCall = x
					}
				}
			}
		}
	}
	_ = rng
	okLoop := false
	if addFileCall != nil {
		nt := hfi.Term(addFileCall.Call.Args[1])
		// element PublicFiles[i] with i the ascending range index
		if nt.K == an.KLoad && nt.A[0].K == an.KIA && strings.Contains(nt.A[0].A[0].Key(), "PublicFiles") {
			idx := nt.A[0].A[1]
			// range form: index is (range phi starting at -1) + 1; index-loop form: a phi with incoming values 0 and phi+1
			if idx.K == an.KBin && idx.S == "+" && isConstTerm(idx.A[0], "1") && idx.A[1].K == an.KPhi {
				if ph, ok := idx.A[1].Val.(*ssa.Phi); ok {
					for _, e := range ph.Edges {
						if isConstTerm(hfi.Term(e), "-1") {
							okLoop = true
						}
					}
				}
				rngIdxPhi = true
			}
			if idx.K == an.KPhi && fromZeroStepOne(hfi, idx) {
				okLoop = true
			}
			// every file of the list is added: no path through the loop skips the adder, and the loop is left early only by an error reply
			if l := innermostLoopOf(builder, addFileCall.Block()); l != nil && okLoop {
				okExit := true
				for _, e := range l.earlyExits() {
					// leaving after a failed add (the handler answers 500 and returns) is the only early exit
					if !addFileCall.Block().Dominates(e[0]) {
						okExit = false
					}
				}
				okLoop = l.everyIteration(addFileCall.Block()) && okExit
			}
		}
	}
	_ = rngIdxPhi
	c.Check(okLoop, "ORDER", handler, handler.Pos(), an.KeyOf(handler, "list-order"), "the handler adds PublicFiles[0], PublicFiles[1], ... in ascending order", "argument of the file adder")
	okAfter := addPubCall != nil && addFileCall != nil && !reachable(addPubCall.Block(), addFileCall.Block())
	if okAfter {
		// loop exit dominates the pubkey call
		okAfter = false
		for _, f := range hfi.FactsAt(addPubCall) {
			if !f.Neg && f.T.K == an.KBin && f.T.S == "<=" && f.T.A[0].K == an.KLen && strings.Contains(f.T.A[0].Key(), "PublicFiles") {
				okAfter = true
			}
		}
	}
	c.Check(okAfter, "ORDER", handler, handler.Pos(), an.KeyOf(handler, "pubkey-last"), "the server public key is added after every listed file (the other files are signed by it)", "loop exit dominates the public-key adder, which cannot reach the file adder again")

	// APPEND: dependent files are append-1
	roles, _ := fileRoles(c)
	for _, f := range []string{"equipment-reports.dat", "equipment-authorizations.dat", "allDeviceStats.dat"} {
		ok := len(roles[f].writers) > 0
		var protos []string
		for fn, proto := range roles[f].writers {
			protos = append(protos, an.FuncName(fn)+"="+proto)
			if proto != "append-1" && proto != "create-empty" {
				ok = false
			}
		}
		c.Check(ok, "APPEND", nil, 0, "append-only:"+f, f+" is only ever written append-1 (so a concurrent archive read sees a record-aligned prefix)", strings.Join(protos, ", "))
	}

	archiveLimitRules(c, handler, builderCall)
	// premises of the README's closure argument, owned by other properties and re-run: an authorization is on disk
	// before the device can report (C06 persist-first), and an archived week's record is signed over its final contents
	// (C03 builder rules), so every archived statistic verifies under the archived server key
	authTableRules(c, "C14")
	if b := findBuilder(p); b != nil {
		buildRules(c, b)
	}
	// the GCA key file is read without a lock, after the authorizations that it must verify: it is written once and
	// never again (one-shot registration, rule owned by C07), so whichever moment the archiver reads it, it holds the key
	// every archived authorization was accepted under
	if ks := findKeySaver(p); ks != nil {
		registrationOneShot(c, ks)
	}
	// the archived week that is written is the record that was signed (rule owned by C03)
	statsSaverRule(c)
	// the limiter's own sliding-window rules (owned by C19) are a premise of "no more than the configured number per window": re-run
	runC19(c)
}

// archiveLimitRules (LIMIT): the archive is built only after the limiter admitted the request, with the server's
// archive limiter, constructed from positive constants. Owned by C14; re-run by C19 for "enforced at the endpoint".
func archiveLimitRules(c *an.Ctx, handler *ssa.Function, builderCall *ssa.Call) {
	p := c.P
	hfi := p.Info(handler)
	isCreate := func(call *ssa.Call) bool {
		sc := call.Call.StaticCallee()
		return sc != nil && an.IsRepoFunc(sc) && sc.Signature.Results().Len() == 1 && strings.Contains(sc.Signature.Results().At(0).Type().String(), "zipArchiveWriter")
	}
	var allow *ssa.Call
	var newArchive *ssa.Call
	for _, b := range handler.Blocks {
		for _, in := range b.Instrs {
			if call, ok := in.(*ssa.Call); ok {
				name := an.CalleeName(&call.Call)
				if strings.HasSuffix(name, "RateLimiter).Allow") {
					allow = call
				}
				if isCreate(call) || call == builderCall {
					newArchive = call
				}
			}
		}
	}
	okLimit := false
	allowFi := hfi
	if allow != nil && newArchive != nil {
		okLimit = hfi.FactsAt(newArchive).Has(hfi.Term(allow).Key())
	}
	if allow == nil && newArchive != nil {
		// the admission guards may live in a helper that answers whether to go on: the archive is created only
		// under helper(...) == true, and every way the helper can answer true has passed Allow() == true
		for _, b := range handler.Blocks {
			for _, in := range b.Instrs {
				gc, ok := in.(*ssa.Call)
				if !ok {
					continue
				}
				g := gc.Call.StaticCallee()
				if g == nil || !an.IsRepoFunc(g) || g.Signature.Results().Len() != 1 || !hfi.FactsAt(newArchive).Has(hfi.Term(gc).Key()) {
					continue
				}
				gfi := p.Info(g)
				var ga *ssa.Call
				for _, gb := range g.Blocks {
					for _, gin := range gb.Instrs {
						if call, ok := gin.(*ssa.Call); ok && strings.HasSuffix(an.CalleeName(&call.Call), "RateLimiter).Allow") {
							ga = call
						}
					}
				}
				if ga == nil {
					continue
				}
				all, nRet := true, 0
				for _, gb := range g.Blocks {
					if len(gb.Instrs) == 0 || gb == g.Recover {
						continue
					}
					ret, ok := gb.Instrs[len(gb.Instrs)-1].(*ssa.Return)
					if !ok || len(ret.Results) != 1 {
						continue
					}
					if isConstTerm(gfi.Term(ret.Results[0]), "false") {
						continue
					}
					nRet++
					if !gfi.FactsAt(ret).Has(gfi.Term(ga).Key()) {
						all = false
					}
				}
				if all && nRet > 0 {
					allow, allowFi, okLimit = ga, gfi, true
					c.Scope(g)
				}
			}
		}
	}
	c.Check(okLimit, "LIMIT", handler, handler.Pos(), an.KeyOf(handler, "limiter-dominates"), "an archive is created only after the rate limiter admitted the request", "Allow() == true dominates the archive creation")
	// limiter field and constants
	if allow != nil {
		rt := allowFi.Term(allow.Call.Args[0])
		f, _, ok := mapFieldOfTerm(rt)
		c.Check(ok && f == "ApiArchiveRateLimiter", "LIMIT", handler, allow.Pos(), an.KeyOf(handler, "limiter-field"), "the limiter consulted is the server's archive limiter", short(rt.Key()))
	}
	for _, name := range []string{"apiArchiveLimit", "apiArchiveRate"} {
		k, ok := p.SSA["server"].Pkg.Scope().Lookup(name).(*types.Const)
		okv := ok && constant.Sign(k.Val()) > 0
		v := ""
		if ok {
			v = k.Val().ExactString()
		}
		c.Check(okv, "LIMIT", nil, 0, "const:"+name, name+" is a positive constant in this configuration", "value "+v)
	}
	// constructed with these constants
	ctor := p.Constructor("server", "GCAServer")
	if ctor != nil {
		okCtor := false
		for _, b := range ctor.Blocks {
			for _, in := range b.Instrs {
				if call, ok := in.(*ssa.Call); ok && strings.HasSuffix(an.CalleeName(&call.Call), "glow.NewRateLimiter") {
					_, c1 := call.Call.Args[0].(*ssa.Const)
					_, c2 := call.Call.Args[1].(*ssa.Const)
					okCtor = c1 && c2
				}
			}
		}
		c.Check(okCtor, "LIMIT", ctor, ctor.Pos(), an.KeyOf(ctor, "limiter-constructed"), "the archive limiter is constructed from the configured constants", "glow.NewRateLimiter(const, const)")
	}
}

// findArchiveHandler: the http root that reaches the zip writer, and (if the archive is built in a helper that only the
// handler calls) the call of that helper.
func findArchiveHandler(p *an.Program) (handler *ssa.Function, builderCall *ssa.Call) {
	var zipAdd *ssa.Function
	for _, fn := range p.FuncsIn("server") {
		if fn.Name() == "AddFile" && fn.Signature.Recv() != nil {
			zipAdd = fn
		}
	}
	if zipAdd == nil {
		return nil, nil
	}
	for _, r := range rootsOf(p, "server", "http") {
		if p.SyncReach(r.Fn)[zipAdd] {
			handler = r.Fn
		}
	}
	if handler == nil {
		return nil, nil
	}
	creates := func(fn *ssa.Function) bool {
		for _, b := range fn.Blocks {
			for _, in := range b.Instrs {
				if call, ok := in.(*ssa.Call); ok {
					if sc := call.Call.StaticCallee(); sc != nil && an.IsRepoFunc(sc) && sc.Signature.Results().Len() == 1 && strings.Contains(sc.Signature.Results().At(0).Type().String(), "zipArchiveWriter") {
						return true
					}
				}
			}
		}
		return false
	}
	if !creates(handler) {
		for _, b := range handler.Blocks {
			for _, in := range b.Instrs {
				if call, ok := in.(*ssa.Call); ok {
					if sc := call.Call.StaticCallee(); sc != nil && sc.Pkg == handler.Pkg && creates(sc) && calledOnlyFrom(p, sc, handler) {
						builderCall = call
					}
				}
			}
		}
	}
	return handler, builderCall
}

// alignedReportLog: the report log stays a sequence of whole 80-byte records: the loader that replays it parses records
// only under len(file) % 80 == 0 (a torn tail stops start-up instead of being skipped while the file keeps it - every
// later append would then sit behind the torn bytes and the archived file would no longer be record-aligned), unless the
// loader itself cuts the file back to the aligned prefix.
func alignedReportLog(c *an.Ctx) {
	p := c.P
	parse := p.Method("server", "GCAServer", "parseReport")
	if parse == nil {
		return
	}
	n := 0
	for _, site := range p.CallSites(parse) {
		fn := site.Parent()
		e := p.Effect(fn)
		if e == nil || innermostLoopOf(fn, site.Block()) == nil {
			continue // the datagram path parses one report per call; the replay parses them in a loop
		}
		n++
		fi := p.Info(fn)
		aligned := false
		for _, f := range fi.FactsAt(site) {
			if f.Neg || f.T.K != an.KBin || f.T.S != "==" {
				continue
			}
			for k := 0; k < 2; k++ {
				m := f.T.A[1-k]
				if isConstTerm(f.T.A[k], "0") && m.K == an.KBin && m.S == "%" && isConstTerm(m.A[1], "80") && m.A[0].K == an.KLen {
					aligned = true
				}
			}
		}
		truncates := e.FileOps["(*os.File).Truncate"] || e.FileOps["os.Truncate"]
		c.Check(aligned || truncates, "ALIGN", fn, site.Pos(), an.KeyOf(fn, "report-log-aligned"), "the report log is replayed only when its length is a multiple of 80 (or the loader cuts it back to whole records): the file stays record-aligned for every later append and for the archive", "facts "+factList(fi.FactsAt(site)))
	}
	c.Count("ALIGN", n)
	c.Floor("ALIGN", 1)
}
