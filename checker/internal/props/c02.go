package props

import (
	"fmt"
	"go/token"
	"math/big"
	"strings"

	"gcacheck/internal/an"

	"golang.org/x/tools/go/ssa"
)

func init() {
	register(&an.PropertyCheck{
		ID:      "C02",
		Title:   "One report per device-timeslot; equivocation or over-capacity bans the slot",
		Engines: "dominance over versioned access-path terms, PRED (interval-partition predicate equivalence), must-pass-through",
		Explanation: "Decided on the report integrator: ADDR every slot access uses the single address equipmentReports[r.ShortID][r.Timeslot-offset] (no effect on another device or slot); ABSORB every store into the slot is dominated by slot.PowerOutput != 1 " +
			"(a banned slot is never changed again) and by slot != report (an identical replay is a no-op); STORE the only values ever stored are the whole report, under slot.PowerOutput == 0 for the current slot value, and the constant 1 into PowerOutput; " +
			"on the path where a different report arrives for an occupied slot the constant 1 is stored; PRED the capacity ban is taken exactly when PowerOutput > Capacity*135/100 and PowerOutput <= 2^63-1 (compared cell by cell at limit, limit+1, 2^63-2, 2^63-1, 2^63, 2^64-1), " +
			"MaxCapacityBuffer is 135 in every configuration; RECORD every path that stores into the slot also appends the report to the recent list and calls the report saver. " +
			"Order-independence and 'a function of the set of reports' follow from these by a four-state argument (empty / holds r / banned; ban absorbing; replay idempotent); the checker decides the listed structural facts, not that argument. " +
			"the statistics builder publishes, for entry i of a week, slot x+i of that week (C03 builder rules, re-run), and a restart replays every persisted report through this integrator without skipping another device's records (C04 loader rules, re-run). Every device gets a report window and an impact-rate window of its own (the allocation sits inside every loop that contains the store). NOT decided: behaviour over long histories as such; Capacity*135 wrap-around for capacities above 2^64/135 (reported as a note).",
		Assumptions: baseAssumptions,
		Run:         runC02,
	})
}

// slotAccesses returns the element-address instructions into the report window arrays.
func slotAccesses(fn *ssa.Function) []*ssa.IndexAddr {
	var out []*ssa.IndexAddr
	for _, b := range fn.Blocks {
		for _, in := range b.Instrs {
			if ia, ok := in.(*ssa.IndexAddr); ok && isWindowArrayIndex(an.BoundObl{Instr: ia}) {
				if strings.HasSuffix(ia.Type().String(), "glow.EquipmentReport") {
					out = append(out, ia)
				}
			}
		}
	}
	return out
}

// reachesOnEveryPath: every path from block a to a return passes through block b.
func reachesOnEveryPath(a, b *ssa.BasicBlock) bool {
	if a == b {
		return true
	}
	seen := map[*ssa.BasicBlock]bool{}
	var walk func(x *ssa.BasicBlock) bool
	walk = func(x *ssa.BasicBlock) bool {
		if x == b {
			return true
		}
		if seen[x] {
			return true
		}
		seen[x] = true
		if len(x.Succs) == 0 {
			return false // left the function without passing b
		}
		for _, sx := range x.Succs {
			if !walk(sx) {
				return false
			}
		}
		return true
	}
	return walk(a)
}

func runC02(c *an.Ctx) {
	p := c.P
	integ := findIntegrator(p)
	if integ == nil {
		c.Undecided("ANCHOR", nil, 0, "integrator", "report integrator not found", "anchor missing")
		return
	}
	c.Scope(integ)
	fi := p.Info(integ)
	R := fi.Term(integ.Params[1])
	acc := slotAccesses(integ)
	c.Count("ADDR", len(acc))
	c.Floor("ADDR", 1)
	// ADDR
	wantKey := fi.FieldOfTerm(R, "ShortID").Key()
	var idxKey string
	for _, ia := range acc {
		xt, it := fi.Term(ia.X), fi.Term(ia.Index)
		ok := false
		if xt.K == an.KLookup {
			if f, _, isF := mapFieldOfTerm(xt.A[0]); isF && f == "equipmentReports" && xt.A[1].Key() == wantKey {
				// index = r.Timeslot - offset
				if it.K == an.KBin && it.S == "-" && it.A[0].Key() == fi.FieldOfTerm(R, "Timeslot").Key() {
					if f2, _, isF2 := mapFieldOfTerm(it.A[1]); isF2 && f2 == "equipmentReportsOffset" {
						ok = true
						k := an.StripVolatile(it.Key())
						if idxKey == "" {
							idxKey = k
						} else if idxKey != k {
							ok = false
						}
					}
				}
			}
		}
		c.Check(ok, "ADDR", integ, ia.Pos(), an.KeyOf(integ, "slot-addr:"+short(it.Key())), "the slot is addressed as equipmentReports[r.ShortID][r.Timeslot - offset] (one device, one slot)", "map key "+short(fi.Term(ia.X).Key())+", index "+short(it.Key()))
	}
	// slot stores
	type sst struct {
		st    *ssa.Store
		whole bool
		val   *an.Term
	}
	var stores []sst
	for _, b := range integ.Blocks {
		for _, in := range b.Instrs {
			st, ok := in.(*ssa.Store)
			if !ok {
				continue
			}
			cls := fi.RefClass(st.Addr)
			if f, isF := cls.FieldOf("GCAServer"); !isF || f != "equipmentReports" || len(cls.Path) < 3 {
				continue
			}
			stores = append(stores, sst{st, len(cls.Path) == 3, fi.Term(st.Val)})
		}
	}
	// a slot that is worked on in a local copy and written back (cur := slot; ...; cur = r / cur.PowerOutput = 1; ...;
	// slot = cur): the stores into the copy are the stores into the slot, provided the copy was taken from this very slot
	// and every store into it is followed by the write-back on every path
	{
		var out []sst
		for _, s := range stores {
			ld, isLd := s.st.Val.(*ssa.UnOp)
			var al *ssa.Alloc
			if isLd && ld.Op == token.MUL {
				al, _ = ld.X.(*ssa.Alloc)
			}
			if !s.whole || al == nil {
				out = append(out, s)
				continue
			}
			slotAddr := fi.Term(s.st.Addr)
			var virt []sst
			okCopy, okBack := false, true
			for _, r := range *al.Referrers() {
				var st *ssa.Store
				whole := false
				switch x := r.(type) {
				case *ssa.Store:
					if x.Addr == ssa.Value(al) {
						st, whole = x, true
					}
				case *ssa.FieldAddr:
					if x.Referrers() != nil {
						for _, r2 := range *x.Referrers() {
							if fs, ok := r2.(*ssa.Store); ok && fs.Addr == ssa.Value(x) {
								virt = append(virt, sst{fs, false, fi.Term(fs.Val)})
								if !reachesOnEveryPath(fs.Block(), s.st.Block()) {
									okBack = false
								}
							}
						}
					}
				}
				if st == nil {
					continue
				}
				vt := fi.Term(st.Val)
				if vt.K == an.KLoad && len(vt.A) == 1 && vt.A[0].Key() == slotAddr.Key() && an.Dominates(st, s.st) {
					okCopy = true // the initial copy of the slot
					continue
				}
				virt = append(virt, sst{st, whole, vt})
				if !reachesOnEveryPath(st.Block(), s.st.Block()) {
					okBack = false
				}
			}
			if okCopy && okBack && len(virt) > 0 {
				out = append(out, virt...)
			} else {
				out = append(out, s)
			}
		}
		stores = out
	}
	c.Count("STORE", len(stores))
	c.Floor("STORE", 2)
	for _, s := range stores {
		facts := fi.FactsAt(s.st)
		notBanned, notDup := false, false
		for _, f := range facts {
			t := f.T
			if f.Neg || t.K != an.KBin || t.S != "!=" {
				continue
			}
			for i := 0; i < 2; i++ {
				a, b := t.A[i], t.A[1-i]
				// slot.PowerOutput != 1
				if k, isC := a.IsConst(); isC && k == "1" && isSlotField(b, "PowerOutput") {
					notBanned = true
				}
				// slot != report
				if a.Key() == R.Key() && isSlotLoad(b) {
					notDup = true
				}
			}
		}
		key := an.KeyOf(integ, "slot-store:"+short(s.val.Key()))
		c.Check(notBanned, "ABSORB", integ, s.st.Pos(), key+":banned", "a store into the slot is dominated by slot.PowerOutput != 1 (a banned slot is never changed again)", "facts "+factList(facts))
		c.Check(notDup, "ABSORB", integ, s.st.Pos(), key+":duplicate", "a store into the slot is dominated by slot != report (an identical replay changes nothing and is not recorded again)", "facts "+factList(facts))
		// STORE
		switch {
		case s.whole:
			okVal := s.val.Key() == R.Key()
			okEmpty := false
			cur := fi.VersionAt(s.st, an.Class{Root: "T:GCAServer", Path: []string{"equipmentReports", "[]", "[]", "PowerOutput"}})
			for _, f := range facts {
				t := f.T
				if f.Neg || t.K != an.KBin || t.S != "==" {
					continue
				}
				for i := 0; i < 2; i++ {
					if k, isC := t.A[i].IsConst(); isC && k == "0" && isSlotField(t.A[1-i], "PowerOutput") && t.A[1-i].V == cur {
						okEmpty = true
					}
				}
			}
			c.Check(okVal && okEmpty, "STORE", integ, s.st.Pos(), key+":first", "the whole report is stored only while the slot is empty (slot.PowerOutput == 0 for the current slot value)", "value "+short(s.val.Key())+", facts "+factList(facts))
		default:
			cls := fi.RefClass(s.st.Addr)
			okF := cls.Path[len(cls.Path)-1] == "PowerOutput" && isConstTerm(s.val, "1")
			c.Check(okF, "STORE", integ, s.st.Pos(), key+":ban", "the only partial store into a slot writes the ban sentinel 1 into PowerOutput", "class "+cls.String()+" value "+short(s.val.Key()))
		}
	}
	// second-report ban: a store of 1 on the path where the slot is occupied by something else
	occupiedBan := false
	for _, s := range stores {
		if s.whole || !isConstTerm(s.val, "1") {
			continue
		}
		for _, alt := range fi.GuardAlternatives(s.st) {
			for _, f := range alt {
				t := f.T
				if !f.Neg && t.K == an.KBin && t.S == "!=" {
					for i := 0; i < 2; i++ {
						if k, isC := t.A[i].IsConst(); isC && k == "0" && isSlotField(t.A[1-i], "PowerOutput") {
							occupiedBan = true
						}
					}
				}
			}
		}
	}
	banFacts := ""
	if !occupiedBan {
		for _, s := range stores {
			if !s.whole && isConstTerm(s.val, "1") {
				banFacts += "; ban store under " + factList(fi.FactsAt(s.st))
			}
		}
	}
	c.Check(occupiedBan, "STORE", integ, integ.Pos(), an.KeyOf(integ, "second-report-bans"), "a different valid report for an occupied slot stores the ban sentinel (two distinct reports ban the slot, in either order)", "store of 1 under slot.PowerOutput != 0"+banFacts)

	capacityPredicate(c, integ, R)
	freshWindows(c)

	// RECORD: every slot store is followed by the recent-list append and the saver call
	var recentStore, saveCall ssa.Instruction
	for _, b := range integ.Blocks {
		for _, in := range b.Instrs {
			switch x := in.(type) {
			case *ssa.Store:
				cls := fi.RefClass(x.Addr)
				if f, ok := cls.FieldOf("GCAServer"); ok && f == "recentReports" && len(cls.Path) == 1 {
					if call, ok := x.Val.(*ssa.Call); ok {
						if bi, ok := call.Call.Value.(*ssa.Builtin); ok && bi.Name() == "append" && recentStore == nil {
							recentStore = x
						}
					}
				}
			case *ssa.Call:
				if sc := x.Call.StaticCallee(); sc != nil && an.IsRepoFunc(sc) {
					// a helper of the integrator that appends the report to the recent list
					if recentStore == nil && calledOnlyFrom(p, sc, integ) && len(x.Call.Args) == 2 && fi.Term(x.Call.Args[1]).Key() == R.Key() {
						for _, w := range p.Effect(sc).WritesSorted() {
							if strings.Contains(w, "recentReports") {
								recentStore = x
							}
						}
					}
					if e := p.Effect(sc); e != nil && e.FileOps["os.OpenFile"] && !strings.Contains(an.FuncName(sc), "Logger") {
						if len(x.Call.Args) == 2 && fi.Term(x.Call.Args[1]).Key() == R.Key() {
							saveCall = x
						}
					}
				}
			}
		}
	}
	if recentStore == nil || saveCall == nil {
		c.Violated("RECORD", integ, integ.Pos(), an.KeyOf(integ, "record"), "the integrator does not both append the report to the recent list and hand it to the report saver", "recent append or saver call missing")
	} else {
		isRet := func(in ssa.Instruction) bool { _, ok := in.(*ssa.Return); return ok }
		for _, s := range stores {
			key := an.KeyOf(integ, "record:"+short(s.val.Key()))
			c.Check(mustPassThrough(s.st, recentStore, isRet) || execBefore(recentStore, s.st), "RECORD", integ, s.st.Pos(), key+":recent", "every path from a slot store to the return appends the report to the recent list (or has appended it on the way to the store)", "append at "+p.Pos(recentStore.Pos()))
			c.Check(mustPassThrough(s.st, saveCall, isRet) || execBefore(saveCall, s.st), "RECORD", integ, s.st.Pos(), key+":save", "every path from a slot store to the return hands the report to the report saver (evidence of a ban is kept too)", "saver call at "+p.Pos(saveCall.Pos()))
		}
		// and nothing is recorded without a slot decision: the append is dominated by not-banned and not-duplicate
		facts := fi.FactsAt(recentStore)
		nb, nd := false, false
		for _, f := range facts {
			t := f.T
			if f.Neg || t.K != an.KBin || t.S != "!=" {
				continue
			}
			for i := 0; i < 2; i++ {
				if k, isC := t.A[i].IsConst(); isC && k == "1" && isSlotField(t.A[1-i], "PowerOutput") {
					nb = true
				}
				if t.A[i].Key() == R.Key() && isSlotLoad(t.A[1-i]) {
					nd = true
				}
			}
		}
		c.Check(nb && nd, "RECORD", integ, recentStore.Pos(), an.KeyOf(integ, "record-only-changes"), "a report is recorded (recent list, log) only if it was not for a banned slot and not an identical replay", "facts "+factList(facts))
	}
	// constant
	if v, ok := p.ConstValue("server", "MaxCapacityBuffer"); ok {
		c.Check(v == "135", "PRED", integ, integ.Pos(), "const:MaxCapacityBuffer", "MaxCapacityBuffer is 135 in this configuration", "value "+v)
	} else {
		c.Undecided("PRED", integ, integ.Pos(), "const:MaxCapacityBuffer", "constant MaxCapacityBuffer not found", "anchor missing")
	}
	// "the PUBLISHED value is a function of that slot's reports only": the statistics builder publishes slot x+i of the
	// requested week for entry i (rules owned by C03), and a restart replays every persisted report through this very
	// integrator without skipping another device's records (rules owned by C04)
	if b := findBuilder(p); b != nil {
		c.Scope(b)
		buildRules(c, b)
	}
	restartRules(c)
}

func isSlotLoad(t *an.Term) bool {
	if t.K != an.KLoad || len(t.A) != 1 {
		return false
	}
	a := t.A[0]
	if a.K != an.KIA {
		return false
	}
	base := a.A[0]
	if base.K != an.KLookup {
		return false
	}
	f, _, ok := mapFieldOfTerm(base.A[0])
	return ok && f == "equipmentReports"
}

func isSlotField(t *an.Term, field string) bool {
	if t.K != an.KLoad || len(t.A) != 1 || t.A[0].K != an.KFA || t.A[0].S != field {
		return false
	}
	a := t.A[0].A[0]
	if a.K != an.KIA || a.A[0].K != an.KLookup {
		return false
	}
	f, _, ok := mapFieldOfTerm(a.A[0].A[0])
	return ok && f == "equipmentReports"
}

// capacityPredicate: the block that stores the capacity ban is guarded by exactly
// po > cap*135/100 && po <= MaxInt64.
func capacityPredicate(c *an.Ctx, integ *ssa.Function, R *an.Term) {
	p := c.P
	fi := p.Info(integ)
	po := fi.FieldOfTerm(R, "PowerOutput")
	// find the store of 1 whose facts mention Capacity
	var site *ssa.Store
	var capT *an.Term
	var siteFacts an.FactSet
	for _, b := range integ.Blocks {
		for _, in := range b.Instrs {
			st, ok := in.(*ssa.Store)
			if !ok || !isConstTerm(fi.Term(st.Val), "1") {
				continue
			}
			// (a store behind a flag that several reasons set: the way on which the capacity comparison set it)
			for _, alt := range fi.GuardAlternatives(st) {
				for _, f := range alt {
					f.T.Walk(func(t *an.Term) {
						if t.K == an.KField && t.S == "Capacity" {
							capT = t
							site = st
							siteFacts = alt
						}
					})
				}
			}
		}
	}
	key := an.KeyOf(integ, "capacity-ban")
	if site == nil {
		c.Violated("PRED", integ, integ.Pos(), key, "no ban store is guarded by a comparison with the device's Capacity", "capacity rule missing")
		return
	}
	// the capacity must be that of the same device
	okDev := capT.A[0].K == an.KLookup && capT.A[0].A[1].Key() == fi.FieldOfTerm(R, "ShortID").Key()
	c.Check(okDev, "PRED", integ, site.Pos(), key+":device", "the capacity used is that of the reporting device (equipment[r.ShortID].Capacity)", short(capT.Key()))
	rel := an.RelevantFacts(siteFacts, map[string]bool{po.Key(): true, capT.Key(): true})
	var grid []map[string]*big.Int
	for _, cs := range []string{"0", "1", "100", "1000", "123456789", "2^40"} {
		capV := an.Big(cs)
		limit := new(big.Int).Div(new(big.Int).Mul(capV, big.NewInt(135)), big.NewInt(100))
		for _, d := range []int64{-1, 0, 1, 2} {
			v := new(big.Int).Add(limit, big.NewInt(d))
			if v.Sign() >= 0 {
				grid = append(grid, map[string]*big.Int{"po": v, "cap": capV})
			}
		}
		for _, vs := range []string{"0", "2", "2^63-2", "2^63-1", "2^63", "2^63+1", "2^64-1"} {
			grid = append(grid, map[string]*big.Int{"po": an.Big(vs), "cap": capV})
		}
	}
	pts, dis, err := an.ComparePredicate(rel, map[string]string{"po": po.Key(), "cap": capT.Key()}, grid, func(pt map[string]*big.Int) bool {
		limit := new(big.Int).Div(new(big.Int).Mul(pt["cap"], big.NewInt(135)), big.NewInt(100))
		return pt["po"].Cmp(limit) > 0 && pt["po"].Cmp(an.Big("2^63-1")) <= 0
	}, p.IntBits)
	switch {
	case err != nil:
		c.Undecided("PRED", integ, site.Pos(), key, "capacity guard could not be evaluated: "+err.Error(), "predicate outside the supported fragment")
	case len(dis) > 0:
		c.Violated("PRED", integ, site.Pos(), key, "the capacity ban differs from 'non-negative power above 135% of capacity'",
			fmt.Sprintf("%d of %d cells disagree, first: power=%s capacity=%s code bans=%v, specification bans=%v; guards: %s", len(dis), pts, dis[0].Env["po"], dis[0].Env["cap"], dis[0].Code, dis[0].Oracle, factsText(rel)))
	default:
		c.Proved("PRED", integ, site.Pos(), key, "the capacity ban is taken exactly when PowerOutput > Capacity*135/100 and PowerOutput <= 2^63-1", fmt.Sprintf("%d cells compared; guards: %s", pts, factsText(rel)))
	}
	c.Note("PRED", integ, site.Pos(), key+":overflow", "Capacity*135 is computed in uint64 and wraps for capacities above 2^64/135 (1.3e17 mWh per slot); not covered by the property's domain")
}

// execBefore: a is executed on every path from the function entry to b (a's block dominates b's, or a precedes b in
// their common block).
func execBefore(a, b ssa.Instruction) bool {
	if a.Block() == b.Block() {
		return an.InstrIndex(a) < an.InstrIndex(b)
	}
	return a.Block().Dominates(b.Block())
}

// freshWindows: the report window (and the impact-rate window) installed for a device is an array of its own: the
// allocation that is stored under the device's id happens once per store - inside every loop that contains the store -
// so no two devices share their slots ("reports for one device never affect another").
func freshWindows(c *an.Ctx) {
	p := c.P
	n := 0
	for _, fn := range p.FuncsIn("server") {
		fi := p.Info(fn)
		for _, b := range fn.Blocks {
			for _, in := range b.Instrs {
				mu, ok := in.(*ssa.MapUpdate)
				if !ok {
					continue
				}
				f, isF := fi.RefClass(mu.Map).FieldOf("GCAServer")
				if !isF || (f != "equipmentReports" && f != "equipmentImpactRate") {
					continue
				}
				n++
				// the allocation, or the call of a helper that returns one
				var def ssa.Instruction
				switch x := mu.Value.(type) {
				case *ssa.Alloc:
					def = x
				case *ssa.Call:
					def = x
				}
				key := an.KeyOf(fn, "fresh-window:"+f)
				if def == nil {
					c.Violated("ADDR", fn, mu.Pos(), key, "the window stored for a device is not a fresh allocation (it may be shared with another device)", "value "+short(fi.Term(mu.Value).Key()))
					continue
				}
				okLoops := true
				for _, l := range loopsOf(fn) {
					if l.body[mu.Block()] && !l.body[def.Block()] {
						okLoops = false
					}
				}
				c.Check(okLoops, "ADDR", fn, mu.Pos(), key, "every device gets a window of its own: the array is allocated once per store (inside every loop that contains the store)", "allocation at "+p.Pos(def.Pos()))
			}
		}
	}
	c.Count("ADDR-fresh", n)
	c.Floor("ADDR-fresh", 2)
}
