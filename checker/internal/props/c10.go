package props

import (
	"fmt"
	"go/token"
	"math/big"
	"sort"
	"strconv"
	"strings"

	"gcacheck/internal/an"

	"golang.org/x/tools/go/ssa"
)

func init() {
	register(&an.PropertyCheck{
		ID:      "C10",
		Title:   "Sync replies parse to the server's data and are accepted only when authentic",
		Engines: "CODEC (writer/reader layout agreement), AUTH (facts that dominate every successful return of the client parser), PRED (freshness window), effect summaries",
		Explanation: "Decided: CODEC the byte regions the client reads from a sync reply (key 0:32, offset 32:36 LE, bitfield 36:540, new GCA 540:572, new id 572:576 LE, server entries from 576, GCA signature len-136:len-72, time len-72:len-64 LE, server signature len-64:len) " +
			"equal the regions the server writes (shifted by its 2-byte length prefix), for both branches (server list and migration order); the per-server entry 32|1|1|n|2|2|2|64 is the same in the server's inline writer, AuthorizedServer.Serialize and the client's reader; " +
			"bit i of the bitfield is byte i/8, bit i%8 (LSB first) on both sides and is set iff the slot's PowerOutput > 0; an unknown id gets a single zero byte, which the client's 2-byte length read rejects. " +
			"SIGNED-SPAN what the server sends is B | Sign(B[2:], static key) for the very B sent, i.e. the signature covers exactly the span the client verifies; AUTH every return of the client parser with a nil error is dominated by: the freshness test (equivalent to |now - t| <= 86400 for clocks at least one day after the epoch), glow.Verify(contacted server's key, reply[:len-64], reply[len-64:]), " +
			"reply key == the device's own public key, (new GCA == 0) or glow.Verify(current GCA, 'EquipmentMigration' | key | reply[540:len-136], reply[len-136:len-72]), and, for every parsed server entry, glow.Verify(new GCA if present else current GCA, entry.SigningBytes(), entry.GCAAuthorization); " +
			"PURE the parser has no write effect on the client's state, and the caller uses its results only on the err == nil edge (C17). " +
			"every entry of the server list is appended to the reply on every path through the server loop (banned ones included) and the fields of an entry are written and read in the same order, width and byte order; on the client no path through the verification loop avoids the per-entry Verify and the loop is left only at its end or with an error. the window offset and the slots the bitfield summarises are read in one critical section; listed entries are GCA-signed wholes (C17 list rules re-run: no field of a listed entry is changed in place). The reply body is read with io.ReadFull into the whole buffer; GATE the round that calls the parser leaves its retry loop only with the parser's nil error, with the failure answer (also through a flag set in the loop), or over an edge BOUND refutes. NOT decided: behaviour for replies longer than the 16-bit length prefix allows (server-side truncation of the length; noted), cryptographic strength.",
		Assumptions: append([]string{"glow.Verify is sound (trusted)", "the system clock is at least one day after the Unix epoch (so now-86400 does not wrap in uint64)"}, baseAssumptions...),
		Run:         runC10,
	})
}

// findSyncParser: the client function that dials TCP and returns a [504]byte bitfield.
func findSyncParser(p *an.Program) *ssa.Function {
	for _, fn := range p.FuncsIn("client") {
		res := fn.Signature.Results()
		if res.Len() >= 5 && strings.Contains(res.At(1).Type().String(), "[504]byte") {
			return fn
		}
	}
	return nil
}

func runC10(c *an.Ctx) {
	parser, respBuf := parserAcceptance(c)
	if parser == nil {
		return
	}
	acceptGate(c, parser)
	replyLayout(c, parser, respBuf)
	bitOrder(c)
	// "the reply carries the server's data": the listed entries are GCA-signed wholes (rules owned by C17), and the
	// window offset and the slots the bitfield is built from are read in ONE critical section of GCAServer.mu
	serverListAuth(c)
	replyOneState(c)
}

// acceptGate: the round that calls the parser in a retry loop goes on to apply a reply only when the parser accepted one:
// every way out of the loop either carries the parser's nil error, or ends the round with a failure answer, or cannot
// be taken (BOUND).
func acceptGate(c *an.Ctx, parser *ssa.Function) {
	p := c.P
	n := 0
	for _, site := range p.CallSites(parser) {
		call, ok := site.(*ssa.Call)
		if !ok {
			continue
		}
		fn := call.Parent()
		fi := p.Info(fn)
		loop := innermostLoopOf(fn, call.Block())
		if loop == nil {
			continue
		}
		c.Scope(fn)
		errIdx := parser.Signature.Results().Len() - 1
		success := func(fs []an.Fact) bool {
			for _, f := range fs {
				if f.Neg || f.T.K != an.KBin || f.T.S != "==" {
					continue
				}
				for k := 0; k < 2; k++ {
					a, b := f.T.A[k], f.T.A[1-k]
					if isConstTerm(b, "nil") && a.K == an.KExt && a.S == fmt.Sprint(errIdx) && a.A[0].Val == ssa.Value(call) {
						return true
					}
				}
			}
			return false
		}
		// failsOnly: leaving over the edge u->v, the round ends with the answer false. Branches on a flag that the loop
		// sets (ok := false; ...; if err == nil { ok = true; break } ... if !ok { return false }) are followed with the
		// value the flag has on this edge.
		failsOnly := func(u, v *ssa.BasicBlock) bool {
			env := map[ssa.Value]string{}
			prev := u
			for steps := 0; steps < 6; steps++ {
				for _, in := range v.Instrs {
					if ph, ok := in.(*ssa.Phi); ok {
						for i, pr := range v.Preds {
							if pr == prev {
								if k, isC := ph.Edges[i].(*ssa.Const); isC && k.Value != nil {
									env[ph] = k.Value.ExactString()
								} else if val, known := env[ph.Edges[i]]; known {
									env[ph] = val
								}
							}
						}
					}
				}
				switch t := v.Instrs[len(v.Instrs)-1].(type) {
				case *ssa.Return:
					return len(t.Results) == 1 && isConstTerm(fi.Term(t.Results[0]), "false")
				case *ssa.Jump:
					prev, v = v, v.Succs[0]
				case *ssa.If:
					val, known := env[t.Cond]
					if un, isUn := t.Cond.(*ssa.UnOp); isUn && un.Op == token.NOT {
						if x, k2 := env[un.X]; k2 {
							known = true
							val = map[string]string{"true": "false", "false": "true"}[x]
						}
					}
					if !known {
						return false
					}
					if val == "true" {
						prev, v = v, v.Succs[0]
					} else {
						prev, v = v, v.Succs[1]
					}
				default:
					return false
				}
			}
			return false
		}
		for _, u := range fn.Blocks {
			if !loop.body[u] {
				continue
			}
			for _, v := range u.Succs {
				if loop.body[v] {
					continue
				}
				n++
				var fs []an.Fact
				if k := len(u.Instrs); k > 0 {
					fs = append(fs, fi.FactsAt(u.Instrs[k-1]).Sorted()...)
				}
				fs = append(fs, fi.EdgeFacts(u, v)...)
				ok := success(fs) || failsOnly(u, v)
				why := "carries the parser's nil error or ends the round with false"
				if !ok && fi.SysForEdge(u, v).Inconsistent() {
					ok = true
					why = "cannot be taken (BOUND: the loop condition always holds at the header)"
				}
				c.Check(ok, "AUTH", fn, u.Instrs[len(u.Instrs)-1].Pos(), an.KeyOf(fn, fmt.Sprintf("accept-gate:%d", n)), "the sync round leaves its retry loop only with an accepted reply (the parser's error is nil) or by giving up with a failure answer: state is never updated from a round in which every reply was rejected", why)
			}
		}
	}
	c.Count("GATE", n)
	c.Floor("GATE", 2)
}

// replyOneState: in the sync handler (and a bitfield helper it calls), every read of the report arrays and the read of
// the window offset happen with GCAServer.mu held, between the same Lock and Unlock.
func replyOneState(c *an.Ctx) {
	p := c.P
	h, _ := tcpRoot(p)
	if h == nil {
		return
	}
	handler := firstRepoCallee(p, h)
	if handler == nil {
		handler = h
	}
	fi := p.Info(handler)
	lf := p.LockFlowOf(handler)
	section := func(at ssa.Instruction) string {
		var ids []string
		for d := range fi.ReachingAt(at) {
			if d.Havoc && d.Cls.Root == "T:GCAServer" {
				ids = append(ids, d.ID)
			}
		}
		sort.Strings(ids)
		return strings.Join(ids, ",")
	}
	sec := ""
	ok := true
	why := ""
	n := 0
	note := func(at ssa.Instruction, what string) {
		n++
		if !an.Held(lf.StateAt(at, "GCAServer.mu")) {
			ok = false
			why = what + " at " + p.Pos(at.Pos()) + " is outside the critical section"
			return
		}
		s := section(at)
		if sec == "" {
			sec = s
		} else if s != sec {
			ok = false
			why = what + " at " + p.Pos(at.Pos()) + " is in a different critical section than the other reads"
		}
	}
	for _, a := range p.AccessesOf(handler) {
		f, isF := a.Cls.FieldOf("GCAServer")
		if !isF || a.Write {
			continue
		}
		if f == "equipmentReportsOffset" || (f == "equipmentReports" && len(a.Cls.Path) >= 2) {
			note(a.Instr, "read of "+a.Cls.String())
		}
	}
	// a helper that is handed the report array: its call must be in the same section
	for _, b := range handler.Blocks {
		for _, in := range b.Instrs {
			if call, okc := in.(*ssa.Call); okc {
				if sc := call.Call.StaticCallee(); sc != nil && sc.Pkg == handler.Pkg {
					for _, a := range call.Call.Args {
						if f, isF := fi.RefClass(a).FieldOf("GCAServer"); isF && f == "equipmentReports" {
							note(call, "call of "+an.FuncName(sc)+" on the report array")
						}
					}
				}
			}
		}
	}
	c.Check(ok && n >= 2, "CODEC", handler, handler.Pos(), an.KeyOf(handler, "reply-one-state"), "the window offset and the report slots that the bitfield summarises are read in one critical section of GCAServer.mu: bit i describes timeslot offset+i of one server state", fmt.Sprintf("%d reads; %s", n, why))
}

// parserAcceptance: the client's sync parser accepts a reply only when it is
// authentic in every respect, and changes nothing when it rejects (AUTH and PURE rules).
func parserAcceptance(c *an.Ctx) (*ssa.Function, *an.Term) {
	p := c.P
	parser := findSyncParser(p)
	if parser == nil {
		c.Undecided("ANCHOR", nil, 0, "sync-parser", "client sync parser not found", "anchor missing")
		return nil, nil
	}
	c.Scope(parser)
	fi := p.Info(parser)
	// PURE
	e := p.Effect(parser)
	pure := true
	for _, w := range e.WritesSorted() {
		if strings.HasPrefix(w, "T:Client") {
			pure = false
			c.Violated("PURE", parser, parser.Pos(), an.KeyOf(parser, "write:"+w), "the sync parser writes client state ("+w+"); a rejected reply must not change anything", "effect summary")
		}
	}
	if pure {
		c.Proved("PURE", parser, parser.Pos(), an.KeyOf(parser, "no-client-writes"), "the sync parser has no write effect on the client's state (rejection changes nothing)", "effect summary: "+strings.Join(e.WritesSorted(), ", "))
	}
	// the reply buffer and its length
	// the reply buffer: the byte slice made for the reply body, i.e. the made slice that a read from the connection fills
	var respBuf *an.Term
	var anyMake *an.Term
	for _, b := range parser.Blocks {
		for _, in := range b.Instrs {
			if ms, ok := in.(*ssa.MakeSlice); ok {
				anyMake = fi.Term(ms)
			}
			if call, ok := in.(*ssa.Call); ok {
				var dst ssa.Value
				switch {
				case call.Call.IsInvoke() && call.Call.Method.Name() == "Read" && len(call.Call.Args) == 1:
					dst = call.Call.Args[0]
				case (an.CalleeName(&call.Call) == "io.ReadFull" || an.CalleeName(&call.Call) == "io.ReadAtLeast") && len(call.Call.Args) >= 2:
					dst = call.Call.Args[1]
				}
				if dst != nil {
					dt := fi.Term(dst)
					if dt.K == an.KSlice {
						dt = dt.A[0]
					}
					if dt.K == an.KMake {
						respBuf = dt
					}
				}
			}
		}
	}
	if respBuf == nil {
		respBuf = anyMake
	}
	if respBuf == nil {
		c.Undecided("AUTH", parser, parser.Pos(), an.KeyOf(parser, "buffer"), "reply buffer not found", "shape not recognised")
		return nil, nil
	}
	// the reply is read completely: TCP delivers a reply in pieces, and a single Read returns what has arrived so far
	{
		nFill := 0
		for _, b := range parser.Blocks {
			for _, in := range b.Instrs {
				call, ok := in.(*ssa.Call)
				if !ok {
					continue
				}
				var dst ssa.Value
				full := false
				switch {
				case call.Call.IsInvoke() && call.Call.Method.Name() == "Read" && len(call.Call.Args) == 1:
					dst = call.Call.Args[0]
				case an.CalleeName(&call.Call) == "io.ReadFull" && len(call.Call.Args) == 2:
					dst, full = call.Call.Args[1], true
				case an.CalleeName(&call.Call) == "io.ReadAtLeast" && len(call.Call.Args) == 3:
					dst = call.Call.Args[1]
					full = fi.Term(call.Call.Args[2]).Key() == an.LenTerm(fi.Term(dst)).Key()
				default:
					continue
				}
				dt := fi.Term(dst)
				base := dt
				if dt.K == an.KSlice {
					base = dt.A[0]
				}
				whole := dt.K != an.KSlice || (isConstTerm(dt.A[1], "0") && isConstTerm(dt.A[2], "end"))
				if base.Key() != respBuf.Key() {
					continue
				}
				nFill++
				c.Check(full && whole, "CODEC", parser, call.Pos(), an.KeyOf(parser, "reply-read-completely"), "the reply body is read with io.ReadFull into the whole reply buffer (a genuine reply that arrives in several TCP segments is still parsed; a single Read may return only the first segment)", "read call "+an.CalleeName(&call.Call)+" into "+short(dt.Key()))
			}
		}
		if nFill == 0 {
			c.Violated("CODEC", parser, parser.Pos(), an.KeyOf(parser, "reply-read-completely"), "no read into the reply buffer found", "the buffer the parser decodes is never filled from the connection")
		}
	}
	serverKey := fi.Term(parser.Params[2])
	gcaKey := fi.Term(parser.Params[3])
	n := 0
	for _, b := range parser.Blocks {
		if len(b.Instrs) == 0 || b == parser.Recover {
			continue
		}
		ret, ok := b.Instrs[len(b.Instrs)-1].(*ssa.Return)
		if !ok {
			continue
		}
		errT := fi.Term(ret.Results[len(ret.Results)-1])
		if k, isC := errT.IsConst(); !isC || k != "nil" {
			continue
		}
		n++
		facts := fi.FactsAt(ret)
		key := func(s string) string { return an.KeyOf(parser, "accept:"+s) }
		// (1) server signature
		okSig := false
		for _, va := range verifyFacts(facts) {
			if va[0].Key() != serverKey.Key() {
				continue
			}
			d := va[1]
			if d.K == an.KSlice && d.A[0].Key() == respBuf.Key() && isConstTerm(d.A[1], "0") && isLenMinus(d.A[2], 64) {
				if sigFrom(fi, va[2], respBuf, 64, 0) {
					okSig = true
				}
			}
		}
		c.Check(okSig, "AUTH", parser, ret.Pos(), key("server-signature"), "a reply is accepted only if glow.Verify(contacted server's key, reply[:len-64], reply[len-64:]) holds", "facts "+factList(facts))
		// (2) key binding
		okKey := false
		for _, f := range facts {
			if f.Neg || f.T.K != an.KBin || f.T.S != "==" {
				continue
			}
			for i := 0; i < 2; i++ {
				if fld, _, ok := mapFieldOfTerm(f.T.A[i]); ok && fld == "staticPubKey" {
					if arrayFrom(fi, f.T.A[1-i], respBuf, 0, 32) {
						okKey = true
					}
				}
			}
		}
		c.Check(okKey, "AUTH", parser, ret.Pos(), key("own-key"), "a reply is accepted only if its equipment key (reply[0:32]) equals the device's own public key", "facts "+factList(facts))
		// (3) migration signature
		okMig := false
		for _, f := range facts {
			if f.T.K != an.KOr {
				continue
			}
			for _, pr := range [][2]*an.Term{{f.T.A[0], f.T.A[1]}, {f.T.A[1], f.T.A[0]}} {
				blank, ver := pr[0], pr[1]
				if blank.K != an.KBin || blank.S != "==" {
					continue
				}
				if (ver.K != an.KPure && ver.K != an.KCall) || !strings.HasSuffix(ver.Callee(), "glow.Verify") {
					continue
				}
				if ver.A[0].Key() != gcaKey.Key() {
					continue
				}
				// data: append("EquipmentMigration", append(key[:], reply[540:len-136]...)...)
				dk := ver.A[1].Key()
				if strings.Contains(dk, `#"EquipmentMigration"`) && strings.Contains(dk, "#540") && sigFrom(fi, ver.A[2], respBuf, 136, 72) {
					okMig = true
				}
			}
		}
		c.Check(okMig, "AUTH", parser, ret.Pos(), key("migration-signature"), "a reply naming a new GCA is accepted only if glow.Verify(current GCA, 'EquipmentMigration' | key | reply[540:len-136], reply[len-136:len-72]) holds", "facts "+factList(facts))
		// (4) freshness
		freshness(c, parser, ret, respBuf)
	}
	c.Count("AUTH", n)
	c.Floor("AUTH", 1)
	perServerVerify(c, parser, gcaKey)
	return parser, respBuf
}

// isLenMinus: the term is L - k for one symbolic quantity L (a length, or the parsed length prefix), in any arithmetic
// spelling ((L - 64) - 8 is L - 72).
func isLenMinus(t *an.Term, k int64) bool {
	f := linearize(t)
	if f.k != -k || len(f.co) != 1 {
		return false
	}
	for _, c := range f.co {
		if c != 1 {
			return false
		}
	}
	return true
}

// sigFrom: term t is a local array filled by copy(dst[:], buf[len-a : len-b]) (b == 0: to the end).
func sigFrom(fi *an.FuncInfo, t *an.Term, buf *an.Term, a, b int64) bool {
	return arrayCopiedFrom(fi, t, func(src *an.Term) bool {
		if src.K != an.KSlice || src.A[0].Key() != buf.Key() || !isLenMinus(src.A[1], a) {
			return false
		}
		if b == 0 {
			return isConstTerm(src.A[2], "end")
		}
		return isLenMinus(src.A[2], b)
	})
}

func arrayFrom(fi *an.FuncInfo, t *an.Term, buf *an.Term, lo, hi int64) bool {
	return arrayCopiedFrom(fi, t, func(src *an.Term) bool {
		return src.K == an.KSlice && src.A[0].Key() == buf.Key() && isConstTerm(src.A[1], fmt.Sprint(lo)) && isConstTerm(src.A[2], fmt.Sprint(hi))
	})
}

// arrayCopiedFrom: t is a load of a local array whose only writer is a copy from a source satisfying pred.
func arrayCopiedFrom(fi *an.FuncInfo, t *an.Term, pred func(src *an.Term) bool) bool {
	if t.K != an.KLoad || t.A[0].K != an.KAlloc {
		return false
	}
	al, ok := t.A[0].Val.(*ssa.Alloc)
	if !ok {
		return false
	}
	found := false
	for _, b := range fi.Fn.Blocks {
		for _, in := range b.Instrs {
			call, ok := in.(*ssa.Call)
			if !ok {
				continue
			}
			bi, ok := call.Call.Value.(*ssa.Builtin)
			if !ok || bi.Name() != "copy" {
				continue
			}
			if sl, ok := call.Call.Args[0].(*ssa.Slice); ok && sl.X == al {
				if pred(fi.Term(call.Call.Args[1])) {
					found = true
				} else {
					return false
				}
			}
		}
	}
	return found
}

func freshness(c *an.Ctx, parser *ssa.Function, ret *ssa.Return, respBuf *an.Term) {
	p := c.P
	fi := p.Info(parser)
	facts := fi.FactsAt(ret)
	var now, ts *an.Term
	for _, f := range facts {
		f.T.Walk(func(t *an.Term) {
			if strings.HasSuffix(t.Callee(), "(time.Time).Unix") {
				now = t
			}
			if t.K == an.KPure && strings.HasSuffix(t.Callee(), ".Uint64") && len(t.A) == 2 && t.A[1].K == an.KSlice && t.A[1].A[0].Key() == respBuf.Key() && isLenMinus(t.A[1].A[1], 72) {
				ts = t
			}
		})
	}
	key := an.KeyOf(parser, "accept:freshness")
	if now == nil || ts == nil {
		c.Violated("PRED", parser, ret.Pos(), key, "no comparison between the reply's signing time (reply[len-72:len-64], little-endian) and the clock dominates the successful return", "facts "+factList(facts))
		return
	}
	rel := an.RelevantFacts(facts, map[string]bool{now.Key(): true, ts.Key(): true})
	var grid []map[string]*big.Int
	for _, ns := range []string{"86400", "86401", "1000000000", "1700000000", "2^62"} {
		nv := an.Big(ns)
		for _, d := range []int64{-1000000, -86401, -86400, -86399, -1, 0, 1, 86399, 86400, 86401, 1000000} {
			t := new(big.Int).Add(nv, big.NewInt(d))
			if t.Sign() >= 0 {
				grid = append(grid, map[string]*big.Int{"now": nv, "t": t})
			}
		}
		grid = append(grid, map[string]*big.Int{"now": nv, "t": an.Big("0")}, map[string]*big.Int{"now": nv, "t": an.Big("2^64-1")})
	}
	pts, dis, err := an.ComparePredicate(rel, map[string]string{"now": now.Key(), "t": ts.Key()}, grid, func(pt map[string]*big.Int) bool {
		d := new(big.Int).Sub(pt["t"], pt["now"])
		return d.Cmp(big.NewInt(-86400)) >= 0 && d.Cmp(big.NewInt(86400)) <= 0
	}, p.IntBits)
	switch {
	case err != nil:
		c.Undecided("PRED", parser, ret.Pos(), key, "freshness guard could not be evaluated: "+err.Error(), "predicate outside the supported fragment")
	case len(dis) > 0:
		c.Violated("PRED", parser, ret.Pos(), key, "the freshness window differs from |now - t| <= 24h", fmt.Sprintf("%d of %d cells disagree, first: t=%s now=%s code accepts=%v; guards: %s", len(dis), pts, dis[0].Env["t"], dis[0].Env["now"], dis[0].Code, factsText(rel)))
	default:
		c.Proved("PRED", parser, ret.Pos(), key, "a reply is accepted only if its signing time is within 86400 s of the client's clock (for clocks at least a day after the epoch)", fmt.Sprintf("%d cells compared; guards: %s", pts, factsText(rel)))
	}
}

// perServerVerify: inside the loop over the parsed entries, Verify with the right key decides acceptance.
func perServerVerify(c *an.Ctx, parser *ssa.Function, gcaKey *an.Term) {
	p := c.P
	fi := p.Info(parser)
	n := 0
	var calls []*ssa.Call
	for _, b := range parser.Blocks {
		for _, in := range b.Instrs {
			call, ok := in.(*ssa.Call)
			if !ok || !strings.HasSuffix(an.CalleeName(&call.Call), "glow.Verify") {
				continue
			}
			dt := fi.Term(call.Call.Args[1])
			if (dt.K == an.KPure || dt.K == an.KCall) && strings.HasSuffix(dt.Callee(), "AuthorizedServer).SigningBytes") {
				calls = append(calls, call)
			}
		}
	}
	for _, call := range calls {
		n++
		kt := fi.Term(call.Call.Args[0])
		facts := fi.FactsAt(call)
		// is newGCA known non-blank here?
		nonBlank := false
		blank := false
		for _, f := range facts {
			if f.T.K == an.KBin && (f.T.S == "!=" || f.T.S == "==") && !f.Neg {
				for i := 0; i < 2; i++ {
					if k, isC := f.T.A[i].IsConst(); isC && k == "nil" && f.T.A[1-i].K == an.KLoad && f.T.A[1-i].A[0].K == an.KAlloc {
						if f.T.S == "!=" {
							nonBlank = true
						} else {
							blank = true
						}
					}
				}
			}
		}
		key := an.KeyOf(parser, "entry-verify:"+short(kt.Key()))
		// entry and its signature
		dt := fi.Term(call.Call.Args[1])
		st := fi.Term(call.Call.Args[2])
		entry := dt.A[0]
		if entry.K == an.KRef {
			entry = entry.A[0]
		}
		okSig := st.Key() == fi.FieldOfTerm(entry, "GCAAuthorization").Key()
		// the key may be chosen beforehand (signer := gcaKey; if newGCA != blank { signer = newGCA }): a phi whose
		// incoming values are the two keys, each arriving over the edge on which the matching case holds
		if ph, isPhi := kt.Val.(*ssa.Phi); isPhi && kt.K == an.KPhi && !nonBlank && !blank {
			okPhi := len(ph.Edges) == 2
			for i, e := range ph.Edges {
				pred := ph.Block().Preds[i]
				ef := an.FactSet{}
				for k, f := range fi.FactsAtBlock(pred) {
					ef[k] = f
				}
				for _, f := range fi.EdgeFacts(pred, ph.Block()) {
					ef[f.Key()] = f
				}
				eNonBlank, eBlank := false, false
				for _, f := range ef {
					if f.T.K == an.KBin && (f.T.S == "!=" || f.T.S == "==") && !f.Neg {
						for j := 0; j < 2; j++ {
							if k, isC := f.T.A[j].IsConst(); isC && k == "nil" && f.T.A[1-j].K == an.KLoad && f.T.A[1-j].A[0].K == an.KAlloc {
								if f.T.S == "!=" {
									eNonBlank = true
								} else {
									eBlank = true
								}
							}
						}
					}
				}
				et := fi.Term(e)
				switch {
				case et.Key() == gcaKey.Key():
					okPhi = okPhi && eBlank
				default:
					okPhi = okPhi && eNonBlank && et.K == an.KLoad
				}
			}
			c.Check(okPhi && okSig, "AUTH", parser, call.Pos(), key, "each server entry is verified with its own GCAAuthorization under a key chosen as: the NEW GCA's key when one is named, the CURRENT GCA's key otherwise", "key "+short(kt.Key())+" (phi of the two keys, each edge under its case)")
			goto rejectsCheck
		}
		switch {
		case nonBlank:
			c.Check(kt.Key() != gcaKey.Key() && okSig, "AUTH", parser, call.Pos(), key, "when a new GCA is named, each server entry is verified under the NEW GCA's key with its own GCAAuthorization", "key "+short(kt.Key()))
		case blank:
			c.Check(kt.Key() == gcaKey.Key() && okSig, "AUTH", parser, call.Pos(), key, "without a migration, each server entry is verified under the CURRENT GCA's key with its own GCAAuthorization", "key "+short(kt.Key()))
		default:
			c.Violated("AUTH", parser, call.Pos(), key, "a server entry is verified without distinguishing whether a new GCA is named", "facts "+factList(facts))
		}
	rejectsCheck:
		// a failed verification leads to an error return: the result feeds a branch whose false edge returns non-nil
		rejects := false
		var v ssa.Value = call
		for depth := 0; depth < 3 && !rejects; depth++ {
			refs := v.Referrers()
			if refs == nil {
				break
			}
			for _, r := range *refs {
				switch x := r.(type) {
				case *ssa.If:
					fb := x.Block().Succs[1]
					if len(fb.Instrs) > 0 {
						if ret, ok := fb.Instrs[len(fb.Instrs)-1].(*ssa.Return); ok {
							et := fi.Term(ret.Results[len(ret.Results)-1])
							if k, isC := et.IsConst(); !isC || k != "nil" {
								rejects = true
							}
						}
					}
				case *ssa.Phi:
					v = x
				}
			}
		}
		c.Check(rejects, "AUTH", parser, call.Pos(), key+":rejects", "an entry whose verification fails makes the parser return an error", "false edge of the branch on the verification result")
	}
	// every entry is verified: no path through the loop body avoids all the per-entry verifications, and the loop is not left early
	if len(calls) > 0 {
		vb := map[*ssa.BasicBlock]bool{}
		for _, call := range calls {
			vb[call.Block()] = true
		}
		if l := innermostLoopOf(parser, calls[0].Block()); l != nil {
			okExit, why := l.noSilentEarlyExit(fi)
			c.Check(l.everyIterationThroughAny(vb) && okExit, "AUTH", parser, calls[0].Pos(), an.KeyOf(parser, "entry-verify:every-entry"), "a GCA verification is executed for every entry of the list (no path through the loop body skips it, and the loop is left only at its end or with an error)", "no path from the loop header back to it avoids the Verify calls; "+why)
		} else {
			c.Undecided("AUTH", parser, calls[0].Pos(), an.KeyOf(parser, "entry-verify:every-entry"), "the per-entry verification is not inside a loop", "shape not recognised")
		}
	}
	c.Count("AUTH-entries", n)
	c.Floor("AUTH-entries", 1)
	// the successful return happens only after the verification loop ran over all parsed entries:
	// the loop ranges over the slice the parser returns
	okLoop := false
	nilReturns := 0
	for _, b := range parser.Blocks {
		if len(b.Instrs) == 0 {
			continue
		}
		ret, ok := b.Instrs[len(b.Instrs)-1].(*ssa.Return)
		if !ok {
			continue
		}
		if k, isC := fi.Term(ret.Results[len(ret.Results)-1]).IsConst(); !isC || k != "nil" {
			continue
		}
		servers := fi.Term(ret.Results[len(ret.Results)-2])
		thisRet := false
		for _, call := range calls {
			// the entry verified is an element of the returned slice
			dt := fi.Term(call.Call.Args[1])
			if strings.Contains(dt.Key(), servers.Key()) {
				thisRet = true
			}
		}
		// loop exit dominates the return: fact !(i < len(servers))
		exit := false
		for _, f := range fi.FactsAt(ret) {
			if f.T.K == an.KBin && f.T.S == "<=" && f.T.A[0].K == an.KLen && f.T.A[0].A[0].Key() == servers.Key() {
				exit = true
			}
		}
		// every successful return (an early one for replies that carry a migration order included)
		if nilReturns == 0 {
			okLoop = thisRet && exit
		} else {
			okLoop = okLoop && thisRet && exit
		}
		nilReturns++
	}
	c.Check(okLoop, "AUTH", parser, parser.Pos(), an.KeyOf(parser, "all-entries-verified"), "the successful return is reached only after the verification loop has run over every element of the returned server list", "loop exit condition dominates the return")
}

// replyLayout: the fixed regions the client reads.
func replyLayout(c *an.Ctx, parser *ssa.Function, respBuf *an.Term) {
	p := c.P
	// the fixed regions the client reads, from the decoder's read events (width, byte order, offset);
	// a decoder written with a running cursor has its offsets implied by the widths read so far
	regions := func(evs []an.CodecEvent, op string) map[string]bool {
		out := map[string]bool{}
		next := -1
		for _, e := range evs {
			if e.Op != op || e.Width <= 0 {
				if e.Op == op {
					next = -1
				}
				continue
			}
			off := -1
			if strings.HasPrefix(e.Off, "#") {
				if v, err := strconv.Atoi(e.Off[1:]); err == nil {
					off = v
				}
			} else if e.Off == "" && next >= 0 {
				off = next
			}
			if off < 0 {
				next = -1
				continue
			}
			out[fmt.Sprintf("%d:%d%s", off, e.Width, e.Order)] = true
			next = off + e.Width
		}
		return out
	}
	got := regions(p.CodecEvents(parser), "R")
	for _, w := range []string{"0:32", "32:4LE", "36:504", "540:32", "572:4LE"} {
		c.Check(got[w], "CODEC", parser, parser.Pos(), an.KeyOf(parser, "reads:"+w), "the client reads the fixed reply region offset:width(byte order) "+w+" (key 0:32, window offset 32:4 LE, bitfield 36:504, new GCA 540:32, new id 572:4 LE)", "fixed-offset reads of the reply: "+keysOf(got))
	}
	// the server writes the same regions shifted by 2
	var handler *ssa.Function
	h, _ := tcpRoot(p)
	if h != nil {
		handler = firstRepoCallee(p, h)
		if handler == nil {
			handler = h
		}
	}
	if handler == nil {
		c.Undecided("CODEC", nil, 0, "tcp-handler", "server sync handler not found", "anchor missing")
		return
	}
	hfi := p.Info(handler)
	wrote := regions(p.CodecEvents(handler), "W")
	for _, w := range []string{"2:32", "34:4LE", "38:504"} {
		c.Check(wrote[w], "CODEC", handler, handler.Pos(), an.KeyOf(handler, "writes:"+w), "the server writes the fixed reply region offset:width(byte order) "+w+" (the client's offset plus the 2-byte length prefix, same width and byte order)", "fixed-offset writes of the reply buffer: "+keysOf(wrote))
	}
	// the per-server entry: the fields the server's inline writer emits and the fields the client's inline reader
	// consumes agree in order, width and byte order (key | flag | length | location | http | tcp | udp | authorization)
	var entrySeq func(evs []an.CodecEvent, op string) []string
	entrySeq = func(evs []an.CodecEvent, op string) []string {
		var out []string
		for _, e := range evs {
			if e.Op != op {
				continue
			}
			// append(reply, s.Serialize()...): the entry is what the server type's own encoder writes
			if op == "W" && e.Delegate != nil && strings.Contains(an.FuncName(e.Delegate), "AuthorizedServer") {
				c.Scope(e.Delegate)
				out = append(out, entrySeq(p.CodecEvents(e.Delegate), "W")...)
				continue
			}
			switch e.Field {
			case "Location", "HttpPort", "TcpPort", "UdpPort", "GCAAuthorization":
				out = append(out, e.Sig())
			case "PublicKey":
				if op == "R" || e.Off == "#0" {
					out = append(out, e.Sig())
				}
			}
		}
		return out
	}
	ws, rs := entrySeq(p.CodecEvents(handler), "W"), entrySeq(p.CodecEvents(parser), "R")
	c.Check(len(ws) >= 6 && strings.Join(ws, " ") == strings.Join(rs, " "), "CODEC", handler, handler.Pos(), an.KeyOf(handler, "entry-fields-agree"), "server entry fields are written by the server and read by the client in the same order, width and byte order", "server writes ["+strings.Join(ws, " ")+"], client reads ["+strings.Join(rs, " ")+"]")
	c.Count("CODEC", 9)
	signedSpan(c, handler)
	// every element of the authorized-server list is appended to the reply
	okAll, nLoops := true, 0
	why := ""
	for _, l := range loopsOf(handler) {
		// the loop that ranges over gcaServers.servers: it contains an append to the reply whose data mentions the list element
		var app *ssa.Call
		for _, fb := range handler.Blocks {
			if !l.body[fb] {
				continue
			}
			for _, in := range fb.Instrs {
				if call, ok := in.(*ssa.Call); ok {
					if bi, ok := call.Call.Value.(*ssa.Builtin); ok && bi.Name() == "append" {
						if inner := innermostLoopOf(handler, fb); inner != nil && inner.header == l.header {
							app = call
						}
					}
				}
			}
		}
		if app == nil {
			continue
		}
		ranges := false
		for _, in := range l.header.Instrs {
			for _, op := range in.Operands(nil) {
				if *op != nil && strings.Contains(hfi.Term(*op).Key(), "gcaServers.servers") {
					ranges = true
				}
			}
		}
		if !ranges {
			continue
		}
		nLoops++
		okExit, w := l.noSilentEarlyExit(hfi)
		if !l.everyIteration(app.Block()) || !okExit {
			okAll = false
			why = "append at " + p.Pos(app.Pos()) + " is not on every path through the loop body; " + w
		}
	}
	c.Check(okAll && nLoops > 0, "CODEC", handler, handler.Pos(), an.KeyOf(handler, "all-servers-sent"), "every entry of the authorized-server list (banned ones included: the device must learn of bans) is appended to the reply: no path through the loop skips the append", fmt.Sprintf("%d list loops; %s", nLoops, why))
}

// signedSpan: what the server sends is B | S where S = Sign(B[2:], server key)
// for the very B that is sent: the signature covers every byte of the reply
// after the length prefix (which the client strips) and before the signature
// itself - the span the client verifies (reply[:len-64]).
func signedSpan(c *an.Ctx, handler *ssa.Function) {
	p := c.P
	fi := p.Info(handler)
	found := false
	for _, b := range handler.Blocks {
		for _, in := range b.Instrs {
			call, ok := in.(*ssa.Call)
			if !ok || !call.Call.IsInvoke() || call.Call.Method.Name() != "Write" || len(call.Call.Args) != 1 {
				continue
			}
			w := fi.Term(call.Call.Args[0])
			if w.K != an.KCall || w.Callee() != "builtin.append" || len(w.A) != 2 {
				continue
			}
			B, S := w.A[0], w.A[1]
			// S is a slice of a local array whose content is the result of glow.Sign
			if S.K != an.KSlice || S.A[0].K != an.KAlloc {
				continue
			}
			al, isAl := S.A[0].Val.(*ssa.Alloc)
			if !isAl {
				continue
			}
			var at ssa.Instruction = call
			if ai, ok := w.Val.(ssa.Instruction); ok {
				at = ai
			}
			ct := fi.ContentAt(al, at)
			if ct == nil || (ct.K != an.KPure && ct.K != an.KCall) || !strings.HasSuffix(ct.Callee(), "glow.Sign") {
				continue
			}
			found = true
			want := an.SliceTerm(B, an.ConstTerm("2"), nil)
			okSpan := ct.A[0].Key() == want.Key()
			okKey := strings.Contains(ct.A[1].Key(), "staticPrivateKey")
			c.Check(okSpan, "SIGNED-SPAN", handler, call.Pos(), an.KeyOf(handler, "reply-signed-span"), "the reply that is sent is B | Sign(B[2:]) for the very B that is sent: the signature covers every byte between the length prefix and the signature (the span the client verifies)", "signed "+short(ct.A[0].Key())+"; sent body "+short(B.Key()))
			c.Check(okKey, "SIGNED-SPAN", handler, call.Pos(), an.KeyOf(handler, "reply-signing-key"), "the reply is signed with the server's static private key (the key whose public half the GCA authorised)", "key "+short(ct.A[1].Key()))
		}
	}
	if !found {
		c.Undecided("SIGNED-SPAN", handler, handler.Pos(), an.KeyOf(handler, "reply-signed-span"), "no conn.Write of the form append(B, Sign(...)[:]) found in the sync handler", "shape not recognised")
	}
	c.Count("SIGNED-SPAN", 2)
}

// bitOrder: server sets bitfield[i/8] |= 1 << (i%8) iff PowerOutput > 0; client tests bitfield[i/8] & (1 << (i%8)).
func bitOrder(c *an.Ctx) {
	p := c.P
	check := func(fn *ssa.Function, side string) {
		fi := p.Info(fn)
		found := false
		for _, b := range fn.Blocks {
			for _, in := range b.Instrs {
				bo, ok := in.(*ssa.BinOp)
				if !ok || bo.Op.String() != "<<" {
					continue
				}
				t := fi.Term(bo)
				// 1 << (i % 8)
				one, _ := t.A[0].IsConst()
				sh := t.A[1]
				for sh.K == an.KConv {
					sh = sh.A[0]
				}
				okShift := one == "1" && sh.K == an.KBin && sh.S == "%" && isConstTerm(sh.A[1], "8")
				if !okShift {
					continue
				}
				iT := sh.A[0]
				// used with bitfield[i/8]
				usedWith := false
				for _, b2 := range fn.Blocks {
					for _, in2 := range b2.Instrs {
						ia, ok := in2.(*ssa.IndexAddr)
						if !ok {
							continue
						}
						it := fi.Term(ia.Index)
						for it.K == an.KConv {
							it = it.A[0]
						}
						if it.K == an.KBin && it.S == "/" && isConstTerm(it.A[1], "8") {
							base := it.A[0]
							for base.K == an.KConv {
								base = base.A[0]
							}
							if base.Key() == iT.Key() {
								usedWith = true
							}
						}
					}
				}
				found = true
				c.Check(usedWith, "CODEC", fn, bo.Pos(), an.KeyOf(fn, "bit-order"), side+": bit i of the bitfield is byte i/8, bit i%8 (least significant bit first)", "mask "+short(t.Key()))
			}
		}
		if !found {
			c.Violated("CODEC", fn, fn.Pos(), an.KeyOf(fn, "bit-order"), side+": no bit mask of the form 1 << (i % 8) found", "bit order cannot be matched with the other side")
		}
	}
	h, _ := tcpRoot(p)
	if h != nil {
		handler := firstRepoCallee(p, h)
		if handler == nil {
			handler = h
		}
		// the bitfield may be built by a helper of the handler (reportsBitfield(reports)): use the function that holds the mask
		hasMask := func(fn *ssa.Function) bool {
			for _, b := range fn.Blocks {
				for _, in := range b.Instrs {
					if bo, ok := in.(*ssa.BinOp); ok && bo.Op.String() == "<<" {
						return true
					}
				}
			}
			return false
		}
		if !hasMask(handler) {
			for _, b := range handler.Blocks {
				for _, in := range b.Instrs {
					if call, ok := in.(*ssa.Call); ok {
						if sc := call.Call.StaticCallee(); sc != nil && sc.Pkg == handler.Pkg && hasMask(sc) && strings.Contains(sc.Signature.Results().String(), "[504]byte") {
							// its result must be what the handler puts into the reply: the only [504]byte source of the handler
							handler = sc
							c.Scope(sc)
						}
					}
				}
			}
		}
		check(handler, "server")
		// set iff PowerOutput > 0
		hfi := p.Info(handler)
		okCond := false
		for _, b := range handler.Blocks {
			for _, in := range b.Instrs {
				st, ok := in.(*ssa.Store)
				if !ok {
					continue
				}
				vt := hfi.Term(st.Val)
				if vt.K == an.KBin && vt.S == "|" {
					for _, f := range hfi.FactsAt(st) {
						if !f.Neg && f.T.K == an.KBin && f.T.S == "<" && isConstTerm(f.T.A[0], "0") && strings.Contains(f.T.A[1].Key(), "PowerOutput") {
							// compared as the unsigned quantity it is stored as (a negative reading, carried as a large
							// unsigned value, is a held record too; int64(po) > 0 would leave its bit clear)
							if bits, signed, isInt := intBits(f.T.A[1].Typ); !isInt || !signed || bits == 0 {
								okCond = true
							}
						}
						// for an unsigned value, != 0 is > 0
						if !f.Neg && f.T.K == an.KBin && f.T.S == "!=" {
							for k := 0; k < 2; k++ {
								x := f.T.A[1-k]
								if bits, signed, isInt := intBits(x.Typ); isConstTerm(f.T.A[k], "0") && isInt && !signed && bits > 0 && strings.Contains(x.Key(), "PowerOutput") {
									okCond = true
								}
							}
						}
					}
				}
			}
		}
		c.Check(okCond, "CODEC", handler, handler.Pos(), an.KeyOf(handler, "bit-set-cond"), "the server sets bit i iff the slot's PowerOutput > 0 (a banned slot, value 1, counts as held)", "guard 0 < PowerOutput dominates the |= store")
	}
	// client: the function with the resend loop
	for _, fn := range p.FuncsIn("client") {
		uses := false
		for _, b := range fn.Blocks {
			for _, in := range b.Instrs {
				if bo, ok := in.(*ssa.BinOp); ok && bo.Op.String() == "&" {
					if _, isB := bo.X.Type().Underlying().(interface{ Kind() int }); isB {
						_ = isB
					}
					uses = uses || strings.Contains(p.Info(fn).Term(bo).Key(), "<<")
				}
			}
		}
		if uses {
			check(fn, "client")
		}
	}
}
