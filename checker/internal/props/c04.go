package props

import (
	"fmt"
	"strings"

	"gcacheck/internal/an"

	"golang.org/x/tools/go/ssa"
)

func init() {
	register(&an.PropertyCheck{
		ID:      "C04",
		Title:   "Restart preserves every accepted fact",
		Engines: "PERSIST (persist-on-accept, load order), sibling comparison of live transition and replay, MONOTONE-LOAD (what a loader's per-record abort may depend on), CODEC (round trip of persisted records, with C15)",
		Explanation: "Decided on package server: PERSIST-ON-ACCEPT every class of durable in-memory change is accompanied, on every path that performs it, by the write of the record that justifies it (authorization: append before the tables change; report: the integrator hands every recorded report to the report saver; " +
			"GCA key: file written before the key is set; archived week: record appended to the statistics file in the critical section that archives it); REPLAY the report loader feeds every persisted record through the same parser and the same integrator as the UDP path, " +
			"and the authorization loader applies the same case analysis as the live saver (C06's sibling rule); LOAD-ORDER the constructor calls the loaders in dependency order (server keys, temporary key, GCA key, authorizations, archived weeks - which set the window offset -, reports), each only after the previous one succeeded; " +
			"MONOTONE-LOAD a loader aborts start-up on a persisted record only for reasons that no later accepted operation can create: a failed verification under the write-once GCA key / the device's key; " +
			"an abort on 'id not in the device table' is allowed only after the record's id was looked up in the ban set (every deletion from the device table adds the id to the ban set), so reports of a since-banned device are skipped instead of making the restart fail; " +
			"the persisted encodings round-trip (C15). LOG every writer of a record log (authorizations, archived weeks, reports) appends or creates the file empty during construction; the report loader visits record i = 0,1,... while i < len/80 and, like every loop of the authorization and archive loaders, is left only at its end or by an error that aborts start-up. ROUNDTRIP the decoder of each persisted record type reads exactly what its encoder writes; the rotation rules of C03 (record on disk in the critical section that archives it, failure stops the process, disk before offset advance) are re-run; the constructor starts the rotation (catch-up included) only after the reports were replayed; the id looked up in the ban set while loading is the record's own little-endian ShortID. The key-saver rules of C07 (persist-then-set) and the cadence rules of C20 (the start-up catch-up rotates only from now - offset >= 4000 on, wrap-free) are re-run as premises. NOT decided: equality of the complete reloaded state with the pre-restart state as a behavioural claim over histories; live impact rates (not persisted by design). " +
			"Noted: replay re-appends each replayed, still-live report to the log (the observable state is equal, the file grows by at most one copy per restart).",
		Assumptions: append([]string{"the durable files are written by this server only (README: data on disk is trusted)"}, baseAssumptions...),
		Run:         runC04,
	})
}

func runC04(c *an.Ctx) {
	p := c.P
	ctor := p.Constructor("server", "GCAServer")
	if ctor == nil {
		c.Undecided("ANCHOR", nil, 0, "ctor", "constructor not found", "anchor missing")
		return
	}
	roles, construction := fileRoles(c)
	c.Scope(ctor)

	// ---- PERSIST-ON-ACCEPT (each rule is owned by the property that decides the operation; re-run here) ----
	if integ := findIntegrator(p); integ != nil {
		fi := p.Info(integ)
		R := fi.Term(integ.Params[1])
		// every slot store is followed by the saver call
		var saveCall ssa.Instruction
		for _, b := range integ.Blocks {
			for _, in := range b.Instrs {
				if call, ok := in.(*ssa.Call); ok {
					if sc := call.Call.StaticCallee(); sc != nil && an.IsRepoFunc(sc) && len(call.Call.Args) == 2 && fi.Term(call.Call.Args[1]).Key() == R.Key() {
						if proto, _ := p.WriterProtocol(sc, "equipment-reports.dat"); proto != "" {
							saveCall = call
						}
					}
				}
			}
		}
		n := 0
		for _, b := range integ.Blocks {
			for _, in := range b.Instrs {
				st, ok := in.(*ssa.Store)
				if !ok {
					continue
				}
				cls := fi.RefClass(st.Addr)
				if f, isF := cls.FieldOf("GCAServer"); !isF || f != "equipmentReports" || len(cls.Path) < 3 {
					continue
				}
				n++
				okp := saveCall != nil && mustPassThrough(st, saveCall, func(in ssa.Instruction) bool { _, r := in.(*ssa.Return); return r })
				c.Check(okp, "PERSIST", integ, st.Pos(), an.KeyOf(integ, "report-persisted:"+short(fi.Term(st.Val).Key())), "every change of a report slot is followed, before the integrator returns, by handing the report to the saver of equipment-reports.dat", "must-pass-through to the saver call")
			}
		}
		c.Count("PERSIST", n)
		// the saver's error is ignored: note
		if saveCall != nil {
			if v, ok := saveCall.(ssa.Value); ok && (v.Referrers() == nil || len(*v.Referrers()) == 0) {
				c.Note("PERSIST", integ, saveCall.Pos(), an.KeyOf(integ, "report-save-error-ignored"), "the error of the report saver is discarded: a failed log write leaves the report in memory but not on disk (after a restart the slot is empty again; the device's resend recovers it)")
			}
		}
	} else {
		c.Undecided("PERSIST", nil, 0, "integrator", "report integrator not found", "anchor missing")
	}
	// authorization: saver structure (persist-first) - reuse C06's rule
	var saver, authLoader *ssa.Function
	for fn, proto := range roles["equipment-authorizations.dat"].writers {
		if proto == "append-1" {
			saver = fn
		}
	}
	for _, fn := range roles["equipment-authorizations.dat"].loaders {
		authLoader = fn
	}
	if saver != nil {
		saverStructure(c, saver, false)
	} else {
		c.Violated("PERSIST", nil, 0, "auth-saver", "no append-1 writer of equipment-authorizations.dat found", "authorizations would not survive a restart")
	}
	if authLoader != nil {
		saverStructure(c, authLoader, true)
	}
	// no writer of a record log may destroy earlier records
	for file := range recordLogs {
		for fn, proto := range roles[file].writers {
			ok := proto == "append-1" || (proto == "create-empty" && construction[fn])
			c.Check(ok, "PERSIST", fn, fn.Pos(), an.KeyOf(fn, "log-append-only:"+file), "every writer of the record log "+file+" appends (or creates it empty during construction): earlier accepted facts stay in the file", "writer protocol "+proto)
		}
	}
	// archived week and key: owned by C03 / C07; require the writers to exist with the right protocol
	okStats := false
	for _, proto := range roles["allDeviceStats.dat"].writers {
		if proto == "append-1" {
			okStats = true
		}
	}
	c.Check(okStats, "PERSIST", nil, 0, "stats-writer", "archived weeks are appended to allDeviceStats.dat with one Write per record (the rotation's ordering is decided by C03)", "writer protocols of allDeviceStats.dat")
	okKey := false
	for _, proto := range roles["gcaPubKey.dat"].writers {
		if proto == "truncate-then-write" {
			okKey = true
		}
	}
	c.Check(okKey, "PERSIST", nil, 0, "key-writer", "the GCA key is written to gcaPubKey.dat (ordering decided by C07)", "writer protocols of gcaPubKey.dat")
	// the registered key the running server honours is the key a restart finds: persist-then-set (rules owned by C07)
	if ks := findKeySaver(p); ks != nil {
		keySaverStructure(c, ks)
	}
	// "a restart that needs no catch-up rotation changes nothing": the start-up catch-up rotates only when the running
	// server would long have rotated (threshold above the periodic trigger; rules owned by C20)
	cadence(c)

	loadOrder(c, ctor, roles)
	// what is read back is what was written (sibling agreement of the persisted codecs; layouts are C15's)
	roundTripPersisted(c)
	// an archived week is appended to the file in the critical section that archives it (rules owned by C03)
	rotateRules(c, contig(c, "CONTIG"))
	replayRule(c, roles, construction)
	for _, ld := range roles["allDeviceStats.dat"].loaders {
		lfi := p.Info(ld)
		for _, l := range loopsOf(ld) {
			okExit, why := l.noSilentEarlyExit(lfi)
			c.Check(okExit, "REPLAY", ld, ld.Pos(), an.KeyOf(ld, "no-early-exit:"+l.header.String()), "the record loop of the archive loader is left only when the whole file was consumed or by an error that aborts start-up", why)
		}
	}
	monotoneLoad(c, roles)
	c.Note("PERSIST", nil, 0, "replay-reappends", "load-time integration re-appends every replayed report that is still inside the live window to equipment-reports.dat (identical replays and already rotated weeks are not appended again): the file grows by at most one copy of the live window per restart, the observable state is equal")
}

// loadOrder: the constructor calls the loaders in dependency order, each after the previous succeeded.
func loadOrder(c *an.Ctx, ctor *ssa.Function, roles map[string]*fileRole) {
	p := c.P
	fi := p.Info(ctor)
	// a loader is called by the constructor directly, or by a wrapper the constructor calls (loadState() calling
	// several loaders in turn and returning the first error)
	type step struct {
		top   *ssa.Call // the call in the constructor
		inner *ssa.Call // the call of the loader itself (== top for a direct call)
	}
	callOf := func(file string) *step {
		for _, ld := range roles[file].loaders {
			for _, s := range p.CallSites(ld) {
				call, ok := s.(*ssa.Call)
				if !ok {
					continue
				}
				if call.Parent() == ctor {
					return &step{call, call}
				}
				for _, s2 := range p.CallSites(call.Parent()) {
					if top, ok := s2.(*ssa.Call); ok && top.Parent() == ctor {
						return &step{top, call}
					}
				}
			}
		}
		return nil
	}
	succeeded := func(f *an.FuncInfo, at ssa.Instruction, call *ssa.Call) bool {
		for _, fct := range f.FactsAt(at) {
			if !fct.Neg && fct.T.K == an.KBin && fct.T.S == "==" {
				for _, x := range fct.T.A {
					if x.Val == ssa.Value(call) || (x.K == an.KExt && x.A[0].Val == ssa.Value(call)) {
						return true
					}
				}
			}
		}
		return false
	}
	// every nil-error return of the wrapper that contains st.inner is reached only after st.inner succeeded
	wrapperPropagates := func(st *step) bool {
		if st.top == st.inner {
			return true
		}
		w := st.inner.Parent()
		wfi := p.Info(w)
		n := 0
		for _, b := range w.Blocks {
			if len(b.Instrs) == 0 || b == w.Recover {
				continue
			}
			ret, ok := b.Instrs[len(b.Instrs)-1].(*ssa.Return)
			if !ok || len(ret.Results) == 0 || !isConstTerm(wfi.Term(ret.Results[len(ret.Results)-1]), "nil") {
				continue
			}
			n++
			if !succeeded(wfi, ret, st.inner) {
				return false
			}
		}
		return n > 0
	}
	order := [][2]string{
		{"gcaPubKey.dat", "equipment-authorizations.dat"},
		{"equipment-authorizations.dat", "equipment-reports.dat"},
		{"allDeviceStats.dat", "equipment-reports.dat"},
		{"server.keys", "equipment-reports.dat"},
	}
	n := 0
	for _, pr := range order {
		a, b := callOf(pr[0]), callOf(pr[1])
		key := "load-order:" + pr[0] + "<" + pr[1]
		if a == nil || b == nil {
			c.Undecided("LOAD-ORDER", ctor, ctor.Pos(), key, "loader call for "+pr[0]+" or "+pr[1]+" not found in the constructor", "anchor missing")
			continue
		}
		n++
		ok := false
		if a.top == b.top && a.top != a.inner {
			// both inside the same wrapper: order and success inside it
			wfi := p.Info(a.inner.Parent())
			ok = an.Dominates(a.inner, b.inner) && succeeded(wfi, b.inner, a.inner)
		} else {
			// b (or its wrapper) dominated by a (or its wrapper) and by its success, and a wrapper reports a's failure
			ok = an.Dominates(a.top, b.top) && succeeded(fi, b.top, a.top) && wrapperPropagates(a)
		}
		c.Check(ok, "LOAD-ORDER", ctor, b.top.Pos(), key, pr[1]+" is loaded only after "+pr[0]+" was loaded successfully (its records are interpreted against that state)", "dominance and err == nil of the earlier loader")
	}
	c.Count("LOAD-ORDER", n)
	c.Floor("LOAD-ORDER", 4)
	// the history loader sets the offset before the reports are integrated: CONTIG's loader shape
	cg := contig(c, "CONTIG")
	c.Check(len(cg.Loaders) > 0, "LOAD-ORDER", ctor, ctor.Pos(), "history-sets-offset", "loading the archived weeks re-establishes the window offset (offset = last week + 2016) before reports are replayed", "CONTIG loader shape")
	// the start-up catch-up rotation runs only after the persisted reports were replayed (otherwise it archives empty
	// weeks and the reports are then dropped as too old)
	if rep := callOf("equipment-reports.dat"); rep != nil && len(cg.Rotations) > 0 {
		for _, b := range ctor.Blocks {
			for _, in := range b.Instrs {
				call, ok := in.(*ssa.Call)
				if !ok {
					continue
				}
				sc := call.Call.StaticCallee()
				if sc == nil || !an.IsRepoFunc(sc) {
					continue
				}
				reach := p.SyncReach(sc)
				rotates := false
				for _, r := range cg.Rotations {
					if reach[r] {
						rotates = true
					}
				}
				if !rotates {
					continue
				}
				c.Check(an.Dominates(rep.top, call) && succeeded(fi, call, rep.top), "LOAD-ORDER", ctor, call.Pos(), an.KeyOf(ctor, "reports-before-catch-up"), "the constructor starts the rotation (start-up catch-up included) only after the persisted reports were loaded successfully", "call of "+an.FuncName(sc)+" is dominated by the successful report loader")
			}
		}
	}
}

// replayRule: the report loader goes through the live parser and integrator.
func replayRule(c *an.Ctx, roles map[string]*fileRole, construction map[*ssa.Function]bool) {
	p := c.P
	integ := findIntegrator(p)
	var loader *ssa.Function
	for _, fn := range roles["equipment-reports.dat"].loaders {
		loader = fn
	}
	if loader == nil || integ == nil {
		c.Undecided("REPLAY", nil, 0, "report-loader", "report loader or integrator not found", "anchor missing")
		return
	}
	c.Scope(loader)
	fi := p.Info(loader)
	ok := false
	for _, s := range p.CallSites(integ) {
		call, isCall := s.(*ssa.Call)
		if !isCall || call.Parent() != loader {
			continue
		}
		// argument is result 0 of the parser, under its nil error
		arg := fi.Term(call.Call.Args[1])
		if arg.K == an.KExt && arg.S == "0" {
			for _, f := range fi.FactsAt(call) {
				if !f.Neg && f.T.K == an.KBin && f.T.S == "==" {
					for _, x := range f.T.A {
						if x.K == an.KExt && x.S == "1" && x.A[0].Key() == arg.A[0].Key() {
							ok = true
						}
					}
				}
			}
		}
	}
	c.Check(ok, "REPLAY", loader, loader.Pos(), an.KeyOf(loader, "replay-through-live-path"), "every persisted report is re-parsed (signature and device lookup included) and re-integrated by the same integrator as a live report, so replay reproduces the live transition (duplicates, bans) exactly", "integrator call on the parser's result under err == nil")
	// every whole record of the file is visited: the parser is given data[80*i : 80*i+80]
	// for i = 0, 1, ... while i < len(data)/80
	okAll := false
	desc := "no parser call on an 80-byte record slice found"
	for _, bb := range loader.Blocks {
		for _, in := range bb.Instrs {
			call, isCall := in.(*ssa.Call)
			if !isCall || len(call.Call.Args) < 2 {
				continue
			}
			at := fi.Term(call.Call.Args[len(call.Call.Args)-1])
			// second form: a shrinking remainder (for rest := data; len(rest) > 0; rest = rest[80:] { record := rest[:80] ... })
			if at.K == an.KSlice && len(at.A) == 3 && at.A[0].K == an.KPhi && isConstTerm(at.A[1], "0") && isConstTerm(at.A[2], "80") {
				if ph, isPhi := at.A[0].Val.(*ssa.Phi); isPhi && len(ph.Edges) == 2 {
					init, step := false, false
					for _, e := range ph.Edges {
						et := fi.Term(e)
						switch {
						case et.K == an.KSlice && et.A[0].Key() == at.A[0].Key() && isConstTerm(et.A[1], "80") && isConstTerm(et.A[2], "end"):
							step = true
						case et.K == an.KExt || et.K == an.KLoad || et.K == an.KParam:
							init = true
						}
					}
					nonEmpty := false
					for _, f := range fi.FactsAt(call) {
						if !f.Neg && f.T.K == an.KBin && (f.T.S == "<" || f.T.S == "<=") && f.T.A[1].K == an.KLen && f.T.A[1].A[0].Key() == at.A[0].Key() {
							nonEmpty = true
						}
					}
					desc = "record slice " + short(at.Key()) + " of a remainder that starts as the file contents and loses 80 bytes per iteration: " + fmt.Sprint(init && step) + "; loop runs while the remainder is non-empty: " + fmt.Sprint(nonEmpty)
					if init && step && nonEmpty {
						okAll = true
						if l := innermostLoopOf(loader, call.Block()); l != nil {
							okExit, why := l.noSilentEarlyExit(fi)
							c.Check(okExit, "REPLAY", loader, call.Pos(), an.KeyOf(loader, "no-early-exit"), "the record loop of the report loader is left only when all records were visited or by an error that aborts start-up (no break / silent return that drops the remaining records)", why)
						}
					}
				}
				continue
			}
			// third form: a byte cursor (for off := 0; off+80 <= len(data); off += 80 { record := data[off : off+80] ... })
			if at.K == an.KSlice && len(at.A) == 3 && at.A[1].K == an.KPhi && at.A[2].Key() == an.NormBin("+", at.A[1], an.ConstTerm("80")).Key() {
				offT := at.A[1]
				if ph, isPhi := offT.Val.(*ssa.Phi); isPhi {
					init, step, other := false, false, false
					for _, e := range ph.Edges {
						et := fi.Term(e)
						switch {
						case isConstTerm(et, "0"):
							init = true
						case et.Key() == an.NormBin("+", offT, an.ConstTerm("80")).Key():
							step = true
						default:
							other = true
						}
					}
					bound := an.NormBin("<=", an.NormBin("+", offT, an.ConstTerm("80")), an.LenTerm(at.A[0]))
					hasBound := fi.FactsAt(call).Has(bound.Key())
					desc = "record slice " + short(at.Key()) + " at a byte cursor that starts at 0 and advances by 80: " + fmt.Sprint(init && step && !other) + "; loop runs while cursor+80 <= len(data): " + fmt.Sprint(hasBound)
					if init && step && !other && hasBound {
						okAll = true
						if l := innermostLoopOf(loader, call.Block()); l != nil {
							okExit, why := l.noSilentEarlyExit(fi)
							c.Check(okExit, "REPLAY", loader, call.Pos(), an.KeyOf(loader, "no-early-exit"), "the record loop of the report loader is left only when all records were visited or by an error that aborts start-up (no break / silent return that drops the remaining records)", why)
						}
					}
				}
				continue
			}
			if at.K != an.KSlice || len(at.A) < 3 || at.A[1].K != an.KBin || at.A[1].S != "*" {
				continue
			}
			var iT *an.Term
			for k := 0; k < 2; k++ {
				if isConstTerm(at.A[1].A[k], "80") && at.A[1].A[1-k].K == an.KPhi {
					iT = at.A[1].A[1-k]
				}
			}
			if iT == nil || at.A[2].Key() != an.NormBin("+", at.A[1], an.ConstTerm("80")).Key() {
				continue
			}
			data := at.A[0]
			bound := an.NormBin("<", iT, an.NormBin("/", an.LenTerm(data), an.ConstTerm("80")))
			hasBound := fi.FactsAt(call).Has(bound.Key())
			desc = "record slice " + short(at.Key()) + "; loop bound fact present: " + fmt.Sprint(hasBound) + "; index from 0 step 1: " + fmt.Sprint(fromZeroStepOne(fi, iT))
			if hasBound && fromZeroStepOne(fi, iT) {
				okAll = true
			}
			// and the iteration is left only at its end or by aborting start-up
			if l := innermostLoopOf(loader, call.Block()); l != nil {
				okExit, why := l.noSilentEarlyExit(fi)
				c.Check(okExit, "REPLAY", loader, call.Pos(), an.KeyOf(loader, "no-early-exit"), "the record loop of the report loader is left only when all records were visited or by an error that aborts start-up (no break / silent return that drops the remaining records)", why)
			}
		}
	}
	c.Check(okAll, "REPLAY", loader, loader.Pos(), an.KeyOf(loader, "all-records"), "the loader visits every whole 80-byte record of the report log (record i is data[80i:80i+80] for i = 0,1,... while i < len(data)/80): no persisted report is skipped by the iteration", desc)
}

// fromZeroStepOne: the loop index phi has exactly the incoming values 0 and phi+1.
func fromZeroStepOne(fi *an.FuncInfo, iT *an.Term) bool {
	ph, ok := iT.Val.(*ssa.Phi)
	if !ok {
		return false
	}
	z, s1 := false, false
	for _, e := range ph.Edges {
		et := fi.Term(e)
		switch {
		case isConstTerm(et, "0"):
			z = true
		case et.Key() == an.NormBin("+", iT, an.ConstTerm("1")).Key():
			s1 = true
		default:
			return false
		}
	}
	return z && s1
}

// monotoneLoad: a per-record abort may not depend on membership in a table that deletions shrink,
// unless the record's id was first looked up in the ban set that records those deletions.
func monotoneLoad(c *an.Ctx, roles map[string]*fileRole) {
	p := c.P
	// deletions from the device table are paired with ban-set insertions (so "banned" over-approximates "deleted")
	pairOK := true
	nDel := 0
	for _, fn := range p.FuncsIn("server") {
		if isAttributedHelper(p, fn) {
			continue
		}
		ops := serverMapOps(p, fn, "GCAServer")
		for _, op := range ops {
			if op.field != "equipment" || op.kind != "delete" {
				continue
			}
			nDel++
			found := false
			for _, o2 := range ops {
				if o2.field == "equipmentBans" && o2.kind == "insert" && o2.key.Key() == op.key.Key() && o2.in.Block() == op.in.Block() {
					found = true
				}
			}
			if !found {
				pairOK = false
				c.Violated("MONOTONE-LOAD", fn, op.in.Pos(), an.KeyOf(fn, "delete-without-ban"), "a device is deleted from the device table without its id being added to the ban set in the same block", "the report loader relies on 'deleted => banned' to skip that device's persisted reports")
			}
		}
	}
	if pairOK {
		c.Proved("MONOTONE-LOAD", nil, 0, "deleted-implies-banned", "every deletion from the device table adds the same id to the ban set in the same basic block", itoaP(nDel)+" deletion sites")
	}
	var loader *ssa.Function
	for _, fn := range roles["equipment-reports.dat"].loaders {
		loader = fn
	}
	if loader == nil {
		return
	}
	fi := p.Info(loader)
	// calls inside the record loop whose error aborts the load
	n := 0
	for _, b := range loader.Blocks {
		for _, in := range b.Instrs {
			call, ok := in.(*ssa.Call)
			if !ok {
				continue
			}
			sc := call.Call.StaticCallee()
			if sc == nil || !an.IsRepoFunc(sc) {
				continue
			}
			// does the callee's error depend on membership in a shrinking table?
			dep := errDependsOnShrinkingTable(p, sc)
			if dep == "" {
				continue
			}
			// is the call in a loop and does its error abort?
			n++
			// the record bytes passed to the callee
			var rec *an.Term
			for _, a := range call.Call.Args {
				t := fi.Term(a)
				if t.K == an.KSlice {
					rec = t
				}
			}
			guarded := false
			why := "no lookup of the record's id in the ban set dominates the call"
			if rec != nil {
				for _, f := range fi.FactsAt(call) {
					if !f.Neg || f.T.K != an.KExt || f.T.S != "1" || f.T.A[0].K != an.KLkOK {
						continue
					}
					fld, _, isF := mapFieldOfTerm(f.T.A[0].A[0])
					if !isF || fld != "equipmentBans" {
						continue
					}
					kt := f.T.A[0].A[1]
					// key = Uint32(rec[0:4]) : same buffer, lower bound equal to the record's lower bound, 4 bytes
					if (kt.K == an.KPure || kt.K == an.KCall) && strings.HasSuffix(kt.Callee(), ".Uint32") && len(kt.A) == 2 && kt.A[1].K == an.KSlice {
						ks := kt.A[1]
						if !strings.Contains(kt.Callee(), "littleEndian") {
							why = "the id looked up in the ban set is decoded with another byte order than the record's ShortID (little endian): it is not the record's id"
							continue
						}
						if ks.A[0].Key() == rec.A[0].Key() && ks.A[1].Key() == rec.A[1].Key() {
							guarded = true
							why = "the id decoded from the first 4 bytes of the same record is known not to be banned: " + short(f.Key())
						}
					}
				}
			}
			c.Check(guarded, "MONOTONE-LOAD", loader, call.Pos(), an.KeyOf(loader, "abort-on:"+dep),
				"the loader's per-record abort depends on membership in "+dep+", which bans shrink; it is reached only for records whose id is not in the ban set (reports of a since-banned device are skipped, the restart does not fail)", why)
		}
	}
	c.Count("MONOTONE-LOAD", n)
	c.Floor("MONOTONE-LOAD", 1)
}

// errDependsOnShrinkingTable: some non-nil error return of fn is controlled by a failed
// comma-ok lookup in a GCAServer map that has delete sites; returns the map's field name.
func errDependsOnShrinkingTable(p *an.Program, fn *ssa.Function) string {
	fi := p.Info(fn)
	for _, o := range fi.Outcomes() {
		if len(o.Results) == 0 {
			continue
		}
		et := o.Results[len(o.Results)-1]
		if k, isC := et.IsConst(); isC && k == "nil" {
			continue
		}
		for _, f := range o.Facts {
			if f.Neg && f.T.K == an.KExt && f.T.S == "1" && f.T.A[0].K == an.KLkOK {
				if fld, _, ok := mapFieldOfTerm(f.T.A[0].A[0]); ok && hasDeleteSite(p, fld) {
					return fld
				}
			}
		}
	}
	return ""
}

func hasDeleteSite(p *an.Program, field string) bool {
	for _, fn := range p.FuncsIn("server") {
		if isAttributedHelper(p, fn) {
			continue
		}
		for _, op := range serverMapOps(p, fn, "GCAServer") {
			if op.field == field && op.kind == "delete" {
				return true
			}
		}
	}
	return false
}
