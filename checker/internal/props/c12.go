package props

import (
	"fmt"
	"go/types"
	"sort"
	"strings"

	"gcacheck/internal/an"

	"golang.org/x/tools/go/ssa"
)

func init() {
	register(&an.PropertyCheck{
		ID:      "C12",
		Title:   "No untrusted input or peer failure can crash or wedge the server",
		Engines: "BOUND (zone domain over canonical terms, loop invariants), NILP (error-result dominance, guarded-map key presence), PANIC (control condition taint), LIVE (unblocker for every blocking call of a thread-group member), LOCK-5",
		Explanation: "Decided for every function reachable (synchronously) from the server's UDP, TCP, HTTP and background entry points and the start-up catch-up loop, in every build configuration of the tier: " +
			"BOUND every index, slice expression, integer division and encoding/binary call is proved in range from dominating guards, types, make/append lengths, library postconditions, loop invariants and the CONTIG lemma " +
			"(window offset == 2016*len(archive), itself checked structurally); every index into a 4032-slot window array is a hard obligation whatever feeds it; NILP a pointer returned together with an error is dereferenced only " +
			"under err == nil, and a pointer from a guarded map only if the key was validated in the same critical section; PANIC every explicit panic/Fatal in scope is controlled by a condition that does not depend on network input; " +
			"LIVE every call that can block forever inside a thread-group member (Accept, ReadFromUDP, reads/writes on an accepted connection, Serve) has an unblocker (Close of the same object in an OnStop function, a deadline set on " +
			"every path before it, or Shutdown with a bounded context) so Stop() returns; LOCK-5 no network call under a server lock. " +
			"Obligations whose index/length terms are tainted only by third-party service responses (WattTime, NASA) are reported as notes, as are bounds checks inside the weekly-statistics codec that need a product invariant (they are decided by C15's size rule). " +
			"LOCK-1/2/3 (shared with C13) no path leaves a server mutex held, re-acquires it, or nests the two mutexes in both orders: a leaked or cyclic lock wedges every later request. KEYSET pairing of the sibling maps is re-run (the non-nil argument rests on it). The cadence rules of C20 are re-run (catch-up and rotation guards compare clock and offset without wrap-around, so start-up terminates for a clock behind the offset). NOT decided: resource exhaustion (goroutine/memory growth), kernel behaviour, request latency, implicit panics inside dependencies.",
		Assumptions: append([]string{
			"domain axioms (printed with each use): timeslot values are < 2^31; in-memory object lengths are < 2^56 (64-bit) / 2^30 (32-bit)",
			"library postconditions from godoc: io.ReadFull err==nil => n==len(buf); csv.Reader.Read err==nil => at least one field; crypto.Sign returns 65 bytes; CompressPubkey returns 33 bytes; sort.Slice calls less with indices in range; crypto/rand.Int returns a value in [0,max); runtime.Stack returns n <= len(buf)",
			"threadgroup: Stop runs the OnStop functions, then waits for every Launch'ed function (read in the vendored source)",
		}, baseAssumptions...),
		Run: runC12,
	})
}

func runC12(c *an.Ctx) {
	p := c.P
	ctor := p.Constructor("server", "GCAServer")
	if ctor == nil {
		c.Undecided("ANCHOR", nil, 0, "ctor:GCAServer", "constructor of server.GCAServer not found", "anchor missing")
		return
	}
	roots := rootsOf(p, "server", "http", "launch", "go", "onstop", "afterstop")
	var rootList []*ssa.Function
	geoOnly := map[*ssa.Function]bool{}
	var geoRoot *ssa.Function
	for _, r := range roots {
		rootList = append(rootList, r.Fn)
	}
	inScope := p.SyncReach(rootList...)
	// start-up catch-up: functions called from the constructor that loop on the clock
	// (they reach the rotation) are in scope because the property names the clock range.
	for _, r := range roots {
		if r.Kind == "http" && strings.Contains(strings.ToLower(an.FuncName(r.Fn)), "geostats") {
			geoRoot = r.Fn
		}
	}
	if geoRoot != nil {
		var others []*ssa.Function
		for _, r := range roots {
			if r.Fn != geoRoot {
				others = append(others, r.Fn)
			}
		}
		rest := p.SyncReach(others...)
		for fn := range p.SyncReach(geoRoot) {
			if !rest[fn] {
				geoOnly[fn] = true
			}
		}
	}
	// only repository functions of server and glow
	var scope []*ssa.Function
	for _, fn := range sortedFns(inScope) {
		path := fn.Pkg.Pkg.Path()
		if strings.HasSuffix(path, "/server") || strings.HasSuffix(path, "/glow") {
			scope = append(scope, fn)
		}
	}
	c.Scope(scope...)
	nk := map[string]int{}
	for _, r := range roots {
		nk[r.Kind]++
	}
	c.Count("ROOTS", len(roots))
	c.Floor("ROOTS", 12)
	uh, _ := udpRoot(p)
	th, _ := tcpRoot(p)
	if uh == nil || th == nil {
		c.Undecided("ANCHOR", nil, 0, "roots:udp/tcp", "UDP or TCP entry point not found (function launched from the ReadFromUDP / Accept loop)", "anchor missing")
	}
	c.Note("ROOTS", nil, 0, "roots", fmt.Sprintf("entry points: %d http, %d launched, %d go, %d on-stop, %d after-stop; %d functions in scope", nk["http"], nk["launch"], nk["go"], nk["onstop"], nk["afterstop"], len(scope)))

	// CONTIG lemma for the archive index
	cg := contig(c, "CONTIG")

	isCodec := func(fn *ssa.Function) bool {
		n := an.FuncName(fn)
		return strings.HasSuffix(n, "AllDeviceStats).Serialize") || strings.HasSuffix(n, "AllDeviceStats).SigningBytes")
	}
	// third-party data: functions that decode WattTime/NASA responses
	thirdParty := func(fn *ssa.Function) bool {
		if geoOnly[fn] {
			return true
		}
		return false
	}
	total, failed := boundRule(c, "BOUND", scope, func(o an.BoundObl) (string, string) {
		if ok, why := sortSliceLemma(p, o); ok {
			return an.Proved, why
		}
		if isWindowArrayIndex(o) {
			return "", ""
		}
		if ok, why := archiveIndexLemma(p, o, cg.OK); ok {
			return an.Proved, why
		}
		if thirdParty(o.Fn) {
			return an.Note, "index/length terms are tainted only by third-party service responses (scope rule iii)"
		}
		if isCodec(o.Fn) {
			return an.Note, "cursor arithmetic of the weekly statistics codec needs the product invariant i = 4 + k*32288 + ...; decided by C15 (buffer size equals the sum of the field widths)"
		}
		return "", ""
	})
	_ = total
	_ = failed
	c.Floor("BOUND", 150)
	// the window arrays
	nw := 0
	for _, fn := range scope {
		for _, o := range p.BoundObligations(fn) {
			if isWindowArrayIndex(o) {
				nw++
			}
		}
	}
	c.Count("BOUND-window", nw)
	c.Floor("BOUND-window", 4)

	// NILP: error-result dominance
	nn := 0
	for _, fn := range scope {
		for _, o := range p.NilErrObligations(fn) {
			nn++
			key := an.KeyOf(fn, "nilerr:"+o.Expr)
			desc := "dereference of the pointer result of " + strings.TrimPrefix(o.Expr, an.ModulePath+"/") + " requires its error result to be nil"
			if o.OK {
				c.Proved("NILP-ERR", fn, o.Use.Pos(), key, desc, o.Why)
			} else if thirdParty(fn) {
				c.Note("NILP-ERR", fn, o.Use.Pos(), key, desc+" -- "+o.Why)
			} else {
				c.Violated("NILP-ERR", fn, o.Use.Pos(), key, desc, o.Why)
			}
		}
	}
	c.Count("NILP-ERR", nn)
	c.Floor("NILP-ERR", 4)

	// NILP: guarded maps (shared with C13), with the key-set pairing that the "key present here, so pointer non-nil
	// there" argument rests on
	nilpGuardedMaps(c, p.FuncsIn("server"), "C12")
	keyset(c, p.FuncsIn("server"), "C12")

	// PANIC
	panicRule(c, scope, "server")

	// LIVE
	liveRule(c, roots)

	// LOCK-1/2/3: a leaked or re-acquired mutex, or a lock-order cycle, wedges every later request (rules shared with C13)
	var httpRoots []*ssa.Function
	for _, r := range roots {
		if r.Kind == "http" {
			httpRoots = append(httpRoots, r.Fn)
		}
	}
	lockBalance(c, p.FuncsIn("server"), p.SyncReach(httpRoots...), "C12")
	lockOrder(c, p.LockOrderEdges(p.SrcFuncs()), [][2]string{{"GCAServer.mu", "AuthorizedServers.mu"}})

	// LOCK-5
	for _, lock := range []string{"GCAServer.mu", "AuthorizedServers.mu"} {
		bl := p.BlockingUnderLock(p.FuncsIn("server"), lock)
		for _, a := range bl {
			c.Violated("LOCK-5", a.Fn, a.Instr.Pos(), an.KeyOf(a.Fn, "blocking:"+a.What), "call that may block ("+a.What+") while "+lock+" is held: other requests are not answered meanwhile", "may-block effect summary")
		}
		if len(bl) == 0 {
			c.Proved("LOCK-5", nil, 0, "noblock:"+lock, "no network/sleep call while "+lock+" is held", "effect summaries of all callees under the lock")
		}
	}
	// the start-up catch-up and the rotation loop terminate / trigger by comparing the clock with the window offset
	// without wrap-around (a clock behind the persisted offset must not make the catch-up loop run forever: start-up
	// would never finish); rules owned by C20, re-run
	cadence(c)
}

// archiveIndexLemma: history[(tso - origin)/2016] under the fact tso < offset,
// given CONTIG (offset == 2016*len(history)) and origin never written.
func archiveIndexLemma(p *an.Program, o an.BoundObl, contigOK bool) (bool, string) {
	if !contigOK {
		return false, ""
	}
	ia, ok := o.Instr.(*ssa.IndexAddr)
	if !ok {
		return false, ""
	}
	fi := p.Info(o.Fn)
	xt := fi.Term(ia.X)
	f, ver, ok := mapFieldOfTerm(xt)
	if !ok || f != "equipmentStatsHistory" {
		return false, ""
	}
	it := fi.Term(ia.Index)
	// (X - origin) / 2016
	if it.K != an.KBin || it.S != "/" {
		return false, ""
	}
	if k, ok := it.A[1].IsConst(); !ok || k != "2016" {
		return false, ""
	}
	num := it.A[0]
	var x *an.Term
	if num.K == an.KBin && num.S == "-" {
		if of, _, ok := mapFieldOfTerm(num.A[1]); ok && of == "equipmentHistoryOffset" {
			x = num.A[0]
		}
	}
	if x == nil {
		return false, ""
	}
	// fact: x < ld(equipmentReportsOffset | same version as the archive load)
	for _, fct := range fi.FactsAt(ia) {
		t := fct.T
		if fct.Neg || t.K != an.KBin || t.S != "<" {
			continue
		}
		if t.A[0].Key() != x.Key() {
			continue
		}
		if of, v2, ok := mapFieldOfTerm(t.A[1]); ok && of == "equipmentReportsOffset" && v2 == ver {
			return true, "lemma CONTIG: tso < offset and offset == 2016*len(archive) (rule CONTIG, proved on this run) and origin == 0 (never written) imply (tso-origin)/2016 < len(archive); guard " + short(t.Key())
		}
	}
	return false, ""
}

// panicRule: explicit panics and Fatal calls in scope must not be controlled
// by network input.
func panicRule(c *an.Ctx, scope []*ssa.Function, pkg string) {
	p := c.P
	n := 0
	for _, fn := range scope {
		fi := p.Info(fn)
		for _, b := range fn.Blocks {
			for _, in := range b.Instrs {
				isPanic := false
				what := ""
				switch x := in.(type) {
				case *ssa.Panic:
					isPanic = true
					what = "panic(" + short(fi.Term(x.X).Key()) + ")"
				case *ssa.Call:
					name := an.CalleeName(&x.Call)
					if strings.HasSuffix(name, ".Logger).Fatal") || strings.HasSuffix(name, ".Logger).Fatalf") {
						isPanic = true
						what = "logger.Fatal"
					}
				}
				if !isPanic {
					continue
				}
				n++
				cond, tainted, why := controllingCondition(p, fi, b)
				key := an.KeyOf(fn, "panic:"+what)
				desc := "explicit " + what + " is controlled by a condition that does not depend on network input"
				if tainted {
					c.Violated("PANIC", fn, in.Pos(), key, desc, "controlling condition "+short(cond)+" depends on "+why)
				} else {
					c.Proved("PANIC", fn, in.Pos(), key, desc, "controlling condition: "+short(cond))
				}
			}
		}
	}
	c.Count("PANIC", n)
}

// controllingCondition finds the branch condition that decides whether block b
// runs (the edge fact of the nearest predecessor that branches) and whether it
// mentions a network input source.
func controllingCondition(p *an.Program, fi *an.FuncInfo, b *ssa.BasicBlock) (cond string, tainted bool, why string) {
	cur := b
	for depth := 0; depth < 8; depth++ {
		if len(cur.Preds) != 1 {
			break
		}
		pred := cur.Preds[0]
		if fs := fi.EdgeFacts(pred, cur); len(fs) > 0 {
			f := fs[0]
			src := networkSource(f.T)
			return f.Key(), src != "", src
		}
		cur = pred
	}
	if len(cur.Preds) == 0 {
		return "(unconditional at function entry)", false, ""
	}
	return "(join point)", false, ""
}

// networkSource reports a network input the term depends on: bytes read from a
// connection, an http.Request, or a decoded request body.
func networkSource(t *an.Term) string {
	src := ""
	t.Walk(func(x *an.Term) {
		if src != "" {
			return
		}
		switch x.K {
		case an.KParam, an.KFree:
			if x.Typ != nil {
				ts := x.Typ.String()
				if strings.Contains(ts, "net/http.Request") || strings.Contains(ts, "net.Conn") || strings.Contains(ts, "net.UDPConn") {
					src = "parameter of type " + ts
				}
			}
		case an.KCall, an.KPure:
			callee := x.Callee()
			switch {
			case strings.Contains(callee, "ReadFull"), strings.Contains(callee, "ReadFromUDP"), strings.Contains(callee, "json.Decoder).Decode"),
				strings.Contains(callee, "(net.Conn).Read"):
				src = "result of " + callee
			}
		}
	})
	return src
}

// liveRule: every call that can block indefinitely inside a thread-group
// member has an unblocker.
func liveRule(c *an.Ctx, roots []an.Root) {
	p := c.P
	// collect what the OnStop functions close / shut down
	type closer struct {
		val  ssa.Value // the closed object, as seen in the registering function
		name string
	}
	var closers []closer
	shutdownBounded := false
	for _, r := range roots {
		if r.Kind != "onstop" {
			continue
		}
		mc, _ := an.SpawnArg(r.Site)
		for _, b := range r.Fn.Blocks {
			for _, in := range b.Instrs {
				call, ok := in.(*ssa.Call)
				if !ok {
					continue
				}
				name := an.CalleeName(&call.Call)
				if strings.HasSuffix(name, ").Close") {
					recv := call.Call.Value
					if !call.Call.IsInvoke() && len(call.Call.Args) > 0 {
						recv = call.Call.Args[0]
					}
					// promoted methods of embedded fields: x.conn.Close() closes x
					for {
						fa, ok := recv.(*ssa.FieldAddr)
						if !ok {
							break
						}
						recv = fa.X
					}
					if v := an.ResolveFreeVar(recv, mc); v != nil {
						closers = append(closers, closer{v, name})
					}
				}
				if name == "(*net/http.Server).Shutdown" {
					// context must come from context.WithTimeout
					if len(call.Call.Args) >= 2 {
						if ex, ok := call.Call.Args[1].(*ssa.Extract); ok {
							if cc, ok := ex.Tuple.(*ssa.Call); ok && an.CalleeName(&cc.Call) == "context.WithTimeout" {
								shutdownBounded = true
							}
						}
					}
				}
			}
		}
	}
	members := map[*ssa.Function]an.Root{}
	for _, r := range roots {
		if r.Kind == "launch" {
			for fn := range p.SyncReach(r.Fn) {
				if _, ok := members[fn]; !ok {
					members[fn] = r
				}
			}
		}
	}
	n := 0
	for _, fn := range sortedFns(func() map[*ssa.Function]bool {
		m := map[*ssa.Function]bool{}
		for f := range members {
			m[f] = true
		}
		return m
	}()) {
		if !strings.HasSuffix(fn.Pkg.Pkg.Path(), "/server") {
			continue
		}
		fi := p.Info(fn)
		for _, b := range fn.Blocks {
			for _, in := range b.Instrs {
				call, ok := in.(*ssa.Call)
				if !ok {
					continue
				}
				name := an.CalleeName(&call.Call)
				var obj ssa.Value
				kind := ""
				switch name {
				case "(net.Listener).Accept":
					obj, kind = call.Call.Value, "close"
				case "(*net.UDPConn).ReadFromUDP":
					obj, kind = call.Call.Args[0], "close"
				case "io.ReadFull":
					obj, kind = call.Call.Args[0], "deadline"
				case "(net.Conn).Read", "(net.Conn).Write":
					obj, kind = call.Call.Value, "deadline"
				case "(*net/http.Server).Serve":
					kind = "shutdown"
				default:
					continue
				}
				n++
				key := an.KeyOf(fn, "live:"+name)
				desc := name + " inside a thread-group member can block forever; it needs an unblocker so that Stop() returns"
				switch kind {
				case "shutdown":
					c.Check(shutdownBounded, "LIVE", fn, in.Pos(), key, desc, "an OnStop function calls Shutdown with a context from context.WithTimeout")
				case "close":
					// the object is a parameter of the member; find the value passed by the launcher
					ok := false
					why := "no OnStop function closes the object this call blocks on"
					for _, cl := range closers {
						if sameObjectAcrossLaunch(p, obj, fn, cl.val) {
							ok = true
							why = "the same object is closed by an OnStop function (" + cl.name + ")"
						}
					}
					c.Check(ok, "LIVE", fn, in.Pos(), key, desc, why)
				case "deadline":
					// strip interface conversions
					for {
						if ci, ok := obj.(*ssa.ChangeInterface); ok {
							obj = ci.X
							continue
						}
						if mi, ok := obj.(*ssa.MakeInterface); ok {
							obj = mi.X
							continue
						}
						break
					}
					ok := false
					why := "no deadline is set on the connection on every path before this call, and no OnStop function closes it"
					for _, b2 := range fn.Blocks {
						for _, in2 := range b2.Instrs {
							c2, isCall := in2.(*ssa.Call)
							if !isCall {
								continue
							}
							n2 := an.CalleeName(&c2.Call)
							if (n2 == "(net.Conn).SetDeadline" || n2 == "(net.Conn).SetReadDeadline" && name != "(net.Conn).Write") && c2.Call.Value == obj && an.Dominates(c2, in) {
								ok = true
								why = n2 + " on the same connection dominates the call (" + p.Pos(c2.Pos()) + "); argument " + short(fi.Term(c2.Call.Args[0]).Key())
							}
						}
					}
					c.Check(ok, "LIVE", fn, in.Pos(), key, desc, why)
				}
			}
		}
	}
	c.Count("LIVE", n)
	c.Floor("LIVE", 4)
	// http server read timeout
	httpTimeout(c)
}

// sameObjectAcrossLaunch: obj (in member fn) is a parameter/free variable that
// receives, at every launch site, the value v of the registering function.
func sameObjectAcrossLaunch(p *an.Program, obj ssa.Value, fn *ssa.Function, v ssa.Value) bool {
	// obj is a parameter of fn: look at call sites
	for i, prm := range fn.Params {
		if prm != obj {
			continue
		}
		sites := p.CallSites(fn)
		if len(sites) == 0 {
			return false
		}
		for _, s := range sites {
			args := s.Common().Args
			if i >= len(args) {
				return false
			}
			a := args[i]
			// the caller is typically a launched closure: resolve its free variable
			caller := s.Parent()
			if caller.Parent() != nil {
				resolved := false
				for _, b := range caller.Parent().Blocks {
					for _, in := range b.Instrs {
						if mc, ok := in.(*ssa.MakeClosure); ok && mc.Fn == caller {
							if r := an.ResolveFreeVar(a, mc); r != nil && r == v {
								resolved = true
							}
						}
					}
				}
				if !resolved {
					return false
				}
				continue
			}
			if a != v {
				return false
			}
		}
		return true
	}
	return obj == v
}

// httpTimeout: the http.Server literal sets ReadTimeout to a positive constant.
func httpTimeout(c *an.Ctx) {
	p := c.P
	for _, fn := range p.FuncsIn("server") {
		for _, b := range fn.Blocks {
			for _, in := range b.Instrs {
				st, ok := in.(*ssa.Store)
				if !ok {
					continue
				}
				fa, ok := st.Addr.(*ssa.FieldAddr)
				if !ok {
					continue
				}
				pt, ok := fa.X.Type().Underlying().(*types.Pointer)
				if !ok || pt.Elem().String() != "net/http.Server" {
					continue
				}
				fname := pt.Elem().Underlying().(*types.Struct).Field(fa.Field).Name()
				if fname != "ReadTimeout" {
					continue
				}
				k, isConst := st.Val.(*ssa.Const)
				ok2 := isConst && k.Value != nil && k.Int64() > 0
				c.Check(ok2, "LIVE", fn, st.Pos(), an.KeyOf(fn, "http.ReadTimeout"), "the HTTP server has a positive ReadTimeout, so idle or half-sent requests cannot hold Shutdown beyond its bounded context",
					"ReadTimeout = "+st.Val.String())
				return
			}
		}
	}
	c.Violated("LIVE", nil, 0, "http.ReadTimeout", "the HTTP server has no ReadTimeout", "no store to http.Server.ReadTimeout found")
}

var _ = sort.Strings
