package props

import (
	"fmt"
	"go/constant"
	"go/token"
	"go/types"
	"sort"
	"strings"

	"gcacheck/internal/an"

	"golang.org/x/tools/go/ssa"
)

// Layout of an encoder that addresses its buffer by computed offsets (b[base+8*j:]) instead of a running cursor.
//
// The writes of such a function form a tree: the top-level sequence of writes and loops, and inside every loop the
// sequence of its body. The layout is gap-free and overlap-free when
//   - the first item starts at offset 0,
//   - every item starts where its predecessor in the same sequence ends: start(next) = start(prev) + extent(prev),
//   - inside a loop with index j = 0, 1, 2, ... every offset depends on j with coefficient = the extent of one pass of
//     the body (so consecutive passes are adjacent),
// with extent(write) = its width, extent(loop) = trip count x extent(body), start(loop) = start of its first item at
// j = 0. All quantities are linear forms over the loop indices and len() terms.

type linF struct {
	k  int64
	co map[string]int64
	at map[string]*an.Term
}

func (a linF) plus(b linF, m int64) linF {
	out := linF{k: a.k + m*b.k, co: map[string]int64{}, at: map[string]*an.Term{}}
	for k, v := range a.co {
		out.co[k] = v
		out.at[k] = a.at[k]
	}
	for k, v := range b.co {
		out.co[k] += m * v
		out.at[k] = b.at[k]
		if out.co[k] == 0 {
			delete(out.co, k)
			delete(out.at, k)
		}
	}
	return out
}

func (a linF) scale(m int64) linF { return linF{}.plus(a, m) }

func (a linF) equal(b linF) bool {
	d := a.plus(b, -1)
	return d.k == 0 && len(d.co) == 0
}

func (a linF) String() string {
	var ks []string
	for k := range a.co {
		ks = append(ks, k)
	}
	sort.Strings(ks)
	s := fmt.Sprint(a.k)
	for _, k := range ks {
		s += fmt.Sprintf(" + %d*%s", a.co[k], short(an.StripVolatile(k)))
	}
	return s
}

// without returns the form with the atom removed and the atom's coefficient.
func (a linF) without(key string) (linF, int64) {
	out := linF{}.plus(a, 1)
	c := out.co[key]
	delete(out.co, key)
	delete(out.at, key)
	return out, c
}

func linearize(t *an.Term) linF {
	if t.K == an.KConst {
		if cv, ok := t.ConstInt(); ok {
			if v, exact := constant.Int64Val(cv); exact {
				return linF{k: v}
			}
		}
	}
	if t.K == an.KConv && len(t.A) == 1 {
		if _, _, isInt := isIntTyp(t.Typ); isInt {
			return linearize(t.A[0])
		}
	}
	if t.K == an.KBin && len(t.A) == 2 {
		switch t.S {
		case "+":
			return linearize(t.A[0]).plus(linearize(t.A[1]), 1)
		case "-":
			return linearize(t.A[0]).plus(linearize(t.A[1]), -1)
		case "*":
			a, b := linearize(t.A[0]), linearize(t.A[1])
			if len(a.co) == 0 {
				return b.scale(a.k)
			}
			if len(b.co) == 0 {
				return a.scale(b.k)
			}
		}
	}
	k := t.Key()
	return linF{co: map[string]int64{k: 1}, at: map[string]*an.Term{k: t}}
}

// loopIndex describes a counting loop: idx is the term that takes the values 0, 1, 2, ... in the body, trip the number of passes.
type loopIndex struct {
	loop *natLoop
	key  string // atom key of the header phi
	off  int64  // idx = phi + off
	trip linF
}

// countingLoop recognises for j := 0; j < N; j++ and the compiled form of range loops (phi from -1, test phi+1 < N).
func countingLoop(fi *an.FuncInfo, l *natLoop) (loopIndex, bool) {
	iff, ok := l.header.Instrs[len(l.header.Instrs)-1].(*ssa.If)
	if !ok {
		return loopIndex{}, false
	}
	cond, ok := iff.Cond.(*ssa.BinOp)
	if !ok || cond.Op != token.LSS || !l.body[l.header.Succs[0]] || l.body[l.header.Succs[1]] {
		return loopIndex{}, false
	}
	I := fi.Term(cond.X)
	if !scanFromZero(fi, I, l) {
		return loopIndex{}, false
	}
	li := loopIndex{loop: l, trip: linearize(fi.Term(cond.Y))}
	f := linearize(I)
	if len(f.co) != 1 {
		return loopIndex{}, false
	}
	for k := range f.co {
		li.key = k
	}
	li.off = f.k
	return li, true
}

type tileItem struct {
	pos   token.Pos
	start linF
	ext   linF
	desc  string
	loop  *loopIndex // for loops
	body  []*tileItem
}

// tilingCheck verifies the layout of an encoder/decoder whose buffer offsets are computed from loop indices. It returns
// false if the function is not of that style (nothing is reported then).
func tilingCheck(c *an.Ctx, fn *ssa.Function) bool {
	p := c.P
	fi := p.Info(fn)
	loops := loopsOf(fn)
	idx := map[*ssa.BasicBlock]*loopIndex{} // by header
	for _, l := range loops {
		if li, ok := countingLoop(fi, l); ok {
			li := li
			idx[l.header] = &li
		}
	}
	type wr struct {
		ev  an.CodecEvent
		off *an.Term
	}
	var ws []wr
	indexed := false
	for _, e := range p.CodecEvents(fn) {
		if e.Width <= 0 {
			continue
		}
		var off *an.Term
		if call, ok := e.Instr.(*ssa.Call); ok {
			for _, a := range call.Call.Args {
				t := fi.Term(a)
				if t.K == an.KSlice && isByteSliceTerm(a) {
					if _, isFixed := fixedArrayBase(a); !isFixed {
						off = t.A[1]
					}
				}
			}
		}
		if off == nil {
			continue
		}
		ws = append(ws, wr{e, off})
		f := linearize(off)
		for k := range f.co {
			for _, li := range idx {
				if li.key == k {
					indexed = true
				}
			}
		}
	}
	if !indexed {
		return false
	}
	// every phi in an offset must be a counting-loop index of an enclosing loop
	isIdx := func(k string) *loopIndex {
		for _, li := range idx {
			if li.key == k {
				return li
			}
		}
		return nil
	}
	for _, w := range ws {
		f := linearize(w.off)
		for k, t := range f.at {
			if t.Contains(func(x *an.Term) bool { return x.K == an.KPhi }) && isIdx(k) == nil {
				return false // a running cursor takes part: the cursor rule applies instead
			}
		}
	}
	// build the tree
	parentOf := func(l *natLoop) *natLoop {
		var best *natLoop
		for _, o := range loops {
			if o.header != l.header && o.body[l.header] && (best == nil || len(o.body) < len(best.body)) {
				best = o
			}
		}
		return best
	}
	root := &tileItem{}
	nodes := map[*ssa.BasicBlock]*tileItem{} // loop header -> item
	var nodeOf func(l *natLoop) *tileItem
	nodeOf = func(l *natLoop) *tileItem {
		if l == nil {
			return root
		}
		if n, ok := nodes[l.header]; ok {
			return n
		}
		n := &tileItem{loop: idx[l.header], desc: "loop at " + p.Pos(l.header.Instrs[0].Pos())}
		nodes[l.header] = n
		par := nodeOf(parentOf(l))
		par.body = append(par.body, n)
		return n
	}
	ok := true
	fail := func(pos token.Pos, what, detail string) {
		ok = false
		c.Violated("CODEC-SIZE", fn, pos, an.KeyOf(fn, "tiling:"+what), "computed buffer offsets must tile the buffer: "+what, detail)
	}
	for _, w := range ws {
		l := innermostLoopOf(fn, w.ev.Instr.Block())
		n := nodeOf(l)
		it := &tileItem{pos: w.ev.Pos, start: linearize(w.off), ext: linF{k: int64(w.ev.Width)}, desc: w.ev.Sig()}
		n.body = append(n.body, it)
	}
	// a loop that contains writes must be a counting loop
	for h, n := range nodes {
		if n.loop == nil && len(n.body) > 0 {
			fail(h.Instrs[0].Pos(), "loop form", "a loop that writes the buffer is not a counting loop from 0")
			return true
		}
	}
	var setPos func(n *tileItem) token.Pos
	setPos = func(n *tileItem) token.Pos {
		for _, ch := range n.body {
			if ch.loop != nil || ch.body != nil {
				setPos(ch)
			}
			if n.pos == 0 || (ch.pos != 0 && ch.pos < n.pos) {
				n.pos = ch.pos
			}
		}
		return n.pos
	}
	setPos(root)
	for _, n := range nodes {
		n.desc = "the loop at " + p.Pos(n.pos)
	}
	var walk func(n *tileItem) (start, ext linF)
	walk = func(n *tileItem) (linF, linF) {
		sort.SliceStable(n.body, func(i, j int) bool { return n.body[i].pos < n.body[j].pos })
		var first, total linF
		var prevEnd linF
		for i, ch := range n.body {
			st, ex := ch.start, ch.ext
			if ch.body != nil || ch.loop != nil {
				st, ex = walk(ch)
			}
			if i == 0 {
				first = st
			} else if !st.equal(prevEnd) {
				fail(ch.pos, "adjacent", fmt.Sprintf("%s starts at %s, its predecessor ends at %s", ch.desc, st, prevEnd))
			}
			prevEnd = st.plus(ex, 1)
			total = total.plus(ex, 1)
		}
		if n.loop == nil {
			return first, total
		}
		// inside the loop: every pass is `total` bytes after the previous one
		if len(total.co) != 0 {
			fail(n.pos, "pass size", "the size of one pass of "+n.desc+" is not a constant: "+total.String())
			return first, total
		}
		f0, cj := first.without(n.loop.key)
		if cj != total.k {
			fail(n.pos, "stride", fmt.Sprintf("one pass of %s writes %d bytes but its offset advances by %d per pass", n.desc, total.k, cj))
		}
		// start at idx = 0, i.e. phi = -off
		start := f0.plus(linF{k: -n.loop.off * cj}, 1)
		return start, n.loop.trip.scale(total.k)
	}
	st, _ := walk(root)
	if !(st.k == 0 && len(st.co) == 0) {
		fail(fn.Pos(), "start", "the first write is at offset "+st.String()+", not 0")
	}
	if ok {
		c.Proved("CODEC-SIZE", fn, fn.Pos(), an.KeyOf(fn, "tiling"), "computed buffer offsets tile the buffer: the first write is at 0, every write or loop starts where its predecessor ends, and every loop advances by exactly the bytes of one pass", fmt.Sprintf("%d writes", len(ws)))
	}
	return true
}

func isByteSliceTerm(v ssa.Value) bool {
	return strings.HasSuffix(v.Type().String(), "[]byte") || strings.HasSuffix(v.Type().String(), "[]uint8")
}

// fixedArrayBase: v is x[:] of a fixed-size array (a field, not the buffer).
func fixedArrayBase(v ssa.Value) (int, bool) {
	sl, ok := v.(*ssa.Slice)
	if !ok {
		return 0, false
	}
	t := sl.X.Type().Underlying()
	if pt, ok := t.(*types.Pointer); ok {
		t = pt.Elem().Underlying()
	}
	if arr, ok := t.(*types.Array); ok {
		return int(arr.Len()), true
	}
	return 0, false
}
