package props

import (
	"fmt"
	"go/token"
	"go/types"
	"math/big"
	"reflect"
	"sort"
	"strings"

	"gcacheck/internal/an"

	"golang.org/x/tools/go/ssa"
)

func init() {
	register(&an.PropertyCheck{
		ID:      "C15",
		Title:   "Wire and disk encodings are exact, stable and unambiguous",
		Engines: "CODEC (layout extraction from encoders, decoders and signing-bytes builders; sibling comparison; comparison with the documented layout), PRED (buffer-size formula), BOUND (length refusal), type-level JSON check",
		Explanation: "Decided for ten codec families (report, authorization, weekly statistics, authorized server incl. the server's inline writer and the client's inline reader, migration order incl. the client's hand-built signing bytes, registration, client server map, sync reply): " +
			"CODEC-1 the field sequence (width, byte order, float-bits flag, field) extracted from every encoder equals that of its decoder and of every hand-rolled sibling; CODEC-2 it equals the documented layout (offsets included for the fixed-size records); " +
			"CODEC-3 every encoding/binary byte order used in glow, server and client is LittleEndian; CODEC-4 fixed-size decoders refuse any input whose length differs from the sum of the field widths (80, 148) before the first read, streaming decoders check the remaining length before every field (BOUND, with C12); " +
			"CODEC-5 every SigningBytes method starts with its structure's name as ASCII prefix, no prefix is a prefix of another, and every glow.Sign / glow.Verify call signs either a SigningBytes result, the client's hand-built copy of one (compared), or one of the two documented unprefixed formats (sync reply, recent-reports JSON); " +
			"CODEC-SIZE the weekly-statistics buffer length equals 4 + n*(32 + 2016*8 + 2016*8) + 4 (+64), and every cursor write is followed by an advance of exactly its width (an encoder that computes its offsets from loop indices is checked as a tiling instead: first write at 0, each write or loop starts where its predecessor ends, each loop advances by the bytes of one pass); CODEC-6 variable-length parts are length-prefixed or last; CODEC-7 the structures sent as JSON have no custom marshalling, no omitting tags and only exactly round-tripping field types. " +
			"Every encoder writes the field itself (its value, IEEE bit pattern or a length), never a value computed from it; every fixed-width copy into a decoded field has all its bytes available (BOUND). NOT decided: that Keccak256/secp256k1 reject flipped bits and that signing is deterministic (trusted library, RFC 6979); exact float semantics beyond 'the bit pattern is copied'; encoding/json's own behaviour.",
		Assumptions: append([]string{"encoding/binary, encoding/json, math.Float64bits behave as documented", "crypto.Sign is deterministic (RFC 6979)"}, baseAssumptions...),
		Run:         runC15,
	})
}

// normalised event signature used for comparisons
func evSig(e an.CodecEvent, withOff bool) string {
	s := e.Sig()
	if withOff && e.Off != "" {
		s += "@" + strings.TrimPrefix(e.Off, "#")
	}
	return s
}

func sigs(evs []an.CodecEvent, withOff bool) []string {
	var out []string
	// a codec written with a running cursor has no constant offsets: they are implied by the
	// widths written so far (rule CODEC-SIZE checks that the cursor advances by each width)
	cum, known := 0, true
	for _, e := range evs {
		if withOff && e.Off == "" && known && e.Field != "prefix" && e.Width > 0 {
			e.Off = fmt.Sprint(cum)
		}
		out = append(out, evSig(e, withOff))
		if e.Width > 0 {
			cum += e.Width
		} else {
			known = false
		}
	}
	return out
}

// normaliseEvents: duplicate byte writes at one offset (the two arms of a bool) collapse,
// the prefix moves to the front, a string(...) conversion after a raw read collapses.
func normaliseEvents(evs []an.CodecEvent) []an.CodecEvent {
	var out []an.CodecEvent
	for _, e := range evs {
		if n := len(out); n > 0 {
			p := out[n-1]
			if e.Width == 1 && p.Width == 1 && e.Op == p.Op && e.Off == p.Off && e.Off != "" && strings.HasPrefix(e.Field, "byte:const") && strings.HasPrefix(p.Field, "byte:const") {
				continue
			}
			if e.Width == 1 && p.Width == 1 && e.Op == "W" && e.Field == "byte" && p.Field == "byte" && e.Off == "" && sameBranchDiamond(p.Instr, e.Instr) {
				continue
			}
			if e.Op == "R" && e.Width == -1 && p.Op == "R" && p.Width == -1 {
				// raw read followed by its string conversion
				if p.Field == "?" || p.Field == e.Field {
					out[n-1].Field = e.Field
					continue
				}
			}
		}
		out = append(out, e)
	}
	// a raw variable-length read whose bytes are converted to a string later takes that name
	for i := 0; i < len(out); i++ {
		if out[i].Op == "R" && out[i].Width == -1 && out[i].Field == "?" {
			for j := i + 1; j < len(out); j++ {
				if out[j].Op == "R" && out[j].Width == -1 && out[j].Field != "?" {
					if _, isConv := out[j].Instr.(*ssa.Convert); isConv {
						out[i].Field = out[j].Field
						out = append(out[:j], out[j+1:]...)
						break
					}
				}
			}
		}
	}
	// writes and reads at constant offsets of one buffer may be issued in any order: within a run of them the layout is
	// the order of the offsets
	for i := 0; i < len(out); {
		j := i
		for j < len(out) && strings.HasPrefix(out[j].Off, "#") && out[j].Op == out[i].Op {
			j++
		}
		if j-i > 1 {
			run := out[i:j]
			sort.SliceStable(run, func(a, b int) bool {
				x, y := 0, 0
				fmt.Sscan(run[a].Off[1:], &x)
				fmt.Sscan(run[b].Off[1:], &y)
				return x < y
			})
		}
		if j == i {
			j++
		}
		i = j
	}
	// prefix first
	for i, e := range out {
		if e.Field == "prefix" && i > 0 {
			pre := e
			rest := append(append([]an.CodecEvent{}, out[:i]...), out[i+1:]...)
			out = append([]an.CodecEvent{pre}, rest...)
			break
		}
	}
	return out
}

func sameBranchDiamond(a, b ssa.Instruction) bool {
	if a == nil || b == nil {
		return false
	}
	ba, bb := a.Block(), b.Block()
	return ba != bb && len(ba.Preds) == 1 && len(bb.Preds) == 1 && ba.Preds[0] == bb.Preds[0]
}

func stripOps(s []string) []string { return s }

func runC15(c *an.Ctx) {
	p := c.P
	get := func(short, typ, name string) *ssa.Function {
		if typ == "" {
			return p.Func(short, name)
		}
		return p.Method(short, typ, name)
	}
	ev := func(fn *ssa.Function) []an.CodecEvent {
		if fn == nil {
			return nil
		}
		c.Scope(fn)
		return normaliseEvents(p.CodecEvents(fn))
	}
	compare := func(rule, what string, fn *ssa.Function, got, want []string) {
		key := an.KeyOf(fn, rule+":"+what)
		if fn == nil {
			c.Undecided(rule, nil, 0, "missing:"+what, what+": function not found", "anchor missing")
			return
		}
		if len(got) == 0 {
			c.Undecided(rule, fn, fn.Pos(), key, what+": no codec events recognised", "shape not recognised")
			return
		}
		c.Check(reflect.DeepEqual(got, want), rule, fn, fn.Pos(), key, what, "extracted ["+strings.Join(got, " ")+"], expected ["+strings.Join(want, " ")+"]")
	}
	fieldsOnly := func(evs []an.CodecEvent) []string {
		var out []string
		for _, e := range evs {
			out = append(out, e.Sig())
		}
		return out
	}
	n := 0

	// ---- 1. report ----
	repWant := []string{"4LE:ShortID@0", "4LE:Timeslot@4", "8LE:PowerOutput@8", "64:Signature@16"}
	repS := get("glow", "EquipmentReport", "Serialize")
	repD := get("glow", "", "DeserializeReport")
	repB := get("glow", "EquipmentReport", "SigningBytes")
	compare("CODEC-2", "EquipmentReport.Serialize layout 4|4|8|64 little-endian", repS, sigs(ev(repS), true), repWant)
	compare("CODEC-1", "DeserializeReport reads what Serialize writes", repD, sigs(ev(repD), true), repWant)
	compare("CODEC-2", "EquipmentReport.SigningBytes = 'EquipmentReport' | ShortID | Timeslot | PowerOutput", repB, sigs(ev(repB), true), []string{"15:prefix", "4LE:ShortID@15", "4LE:Timeslot@19", "8LE:PowerOutput@23"})
	n += 3
	// server's hand-rolled parser
	for _, fn := range p.FuncsIn("server") {
		res := fn.Signature.Results()
		if res.Len() == 2 && strings.HasSuffix(res.At(0).Type().String(), "glow.EquipmentReport") && fn.Signature.Recv() != nil {
			compare("CODEC-1", "the server's report parser reads what Serialize writes", fn, sigs(ev(fn), true), repWant)
			n++
		}
	}
	lengthRefusal(c, repD, 80)
	for _, f := range []*ssa.Function{repS, repD, repB} {
		cursorAdvance(c, f)
	}

	// ---- 2. authorization ----
	authWant := []string{"4LE:ShortID@0", "32:PublicKey@4", "8LEf:Latitude@36", "8LEf:Longitude@44", "8LE:Capacity@52", "8LE:Debt@60", "4LE:Expiration@68", "4LE:Initialization@72", "8LE:ProtocolFee@76", "64:Signature@84"}
	authS := get("glow", "EquipmentAuthorization", "Serialize")
	authD := get("glow", "", "DeserializeEquipmentAuthorization")
	authB := get("glow", "EquipmentAuthorization", "SigningBytes")
	compare("CODEC-2", "EquipmentAuthorization.Serialize layout (148 bytes)", authS, sigs(ev(authS), true), authWant)
	compare("CODEC-1", "DeserializeEquipmentAuthorization reads what Serialize writes", authD, sigs(ev(authD), true), authWant)
	prefixPlusSerialize(c, authB, "EquipmentAuthorization")
	lengthRefusal(c, authD, 148)
	for _, f := range []*ssa.Function{authS, authD} {
		cursorAdvance(c, f)
	}
	n += 3

	// ---- 3. weekly statistics ----
	adsWant := []string{"4LE:len(Devices)", "32:PublicKey", "8LE:PowerOutputs", "8LEf:ImpactRates", "4LE:TimeslotOffset", "64:Signature"}
	adsS := get("server", "AllDeviceStats", "Serialize")
	adsB := get("server", "AllDeviceStats", "SigningBytes")
	adsD := get("server", "", "DeserializeStreamAllDeviceStats")
	compare("CODEC-2", "AllDeviceStats.Serialize = n | n x (key | 2016 x power | 2016 x impact-rate bits) | offset | signature", adsS, fieldsOnly(ev(adsS)), adsWant)
	compare("CODEC-1", "DeserializeStreamAllDeviceStats reads what Serialize writes", adsD, fieldsOnly(ev(adsD)), adsWant)
	{
		got := fieldsOnly(ev(adsB))
		want := append([]string{"14:prefix"}, adsWant[:5]...)
		// the final append(prefix, b...) shows up as a variable write of the whole body: drop it
		var g2 []string
		for _, s := range got {
			if strings.HasPrefix(s, "var:") {
				continue
			}
			g2 = append(g2, s)
		}
		compare("CODEC-2", "AllDeviceStats.SigningBytes = 'AllDeviceStats' | Serialize minus the signature", adsB, g2, want)
		if adsB != nil {
			prefixIs(c, adsB, "AllDeviceStats")
		}
	}
	n += 3
	codecSize(c, adsS, 64)
	codecSize(c, adsB, 0)
	cursorAdvance(c, adsS)
	cursorAdvance(c, adsB)
	cursorAdvance(c, adsD)

	// ---- 4. authorized server ----
	asWant := []string{"32:PublicKey@0", "1:byte:const@32", "1:byte:len(Location)@33", "var:Location@34", "2LE:HttpPort@34+L", "2LE:TcpPort@36+L", "2LE:UdpPort@38+L", "64:GCAAuthorization@40+L"}
	normL := func(ss []string) []string {
		var out []string
		for _, s := range ss {
			if i := strings.Index(s, "@bin:+("); i >= 0 {
				// @bin:+(#34,len(...Location...)) -> @34+L
				rest := s[i+len("@bin:+("):]
				if j := strings.Index(rest, ","); j > 0 && strings.Contains(rest, "Location") {
					s = s[:i] + "@" + strings.TrimPrefix(rest[:j], "#") + "+L"
				}
			}
			out = append(out, s)
		}
		return out
	}
	asS := get("server", "AuthorizedServer", "Serialize")
	asB := get("server", "AuthorizedServer", "SigningBytes")
	compare("CODEC-2", "AuthorizedServer.Serialize = key | banned | len | location | http | tcp | udp | signature", asS, normL(sigs(ev(asS), true)), asWant)
	prefixPlusSerialize(c, asB, "AuthorizedServer")
	n += 2
	// inline writer in the TCP handler
	if h, _ := tcpRoot(p); h != nil {
		handler := firstRepoCallee(p, h)
		if handler == nil {
			handler = h
		}
		var inl []an.CodecEvent
		delegated := false
		for _, e := range ev(handler) {
			if e.Op == "W" && e.Delegate != nil && e.Delegate == asS {
				delegated = true
			}
		}
		if delegated {
			c.Proved("CODEC-1", handler, handler.Pos(), an.KeyOf(handler, "CODEC-1:the sync handler's inline server entry equals AuthorizedServer.Serialize"), "the sync handler's server entry equals AuthorizedServer.Serialize", "the handler appends AuthorizedServer.Serialize() itself")
			n++
		}
		for _, e := range ev(handler) {
			if delegated {
				break
			}
			// events that write into the per-server buffer: offsets relative to a Location length, or the first four fixed ones
			if e.Op == "W" && (strings.Contains(e.Off, "Location") || e.Field == "PublicKey" && e.Off == "#0" || strings.HasPrefix(e.Field, "byte:") || e.Field == "Location" || e.Field == "GCAAuthorization" ||
				e.Field == "HttpPort" || e.Field == "TcpPort" || e.Field == "UdpPort") {
				inl = append(inl, e)
			}
		}
		got := normL(sigs(inl, true))
		// the inline writer sets byte 32 only when banned (the buffer is zeroed): same layout
		if !delegated {
			compare("CODEC-1", "the sync handler's inline server entry equals AuthorizedServer.Serialize", handler, got, asWant)
			n++
		}
	}
	// inline reader in the client parser
	if parser := findSyncParser(p); parser != nil {
		var rd []string
		for _, e := range ev(parser) {
			if e.Op != "R" {
				continue
			}
			switch e.Field {
			case "PublicKey", "Location", "HttpPort", "TcpPort", "UdpPort", "GCAAuthorization":
				rd = append(rd, e.Sig())
			default:
				if strings.HasPrefix(e.Field, "byte:") {
					rd = append(rd, e.Sig())
				}
			}
		}
		want := []string{"32:PublicKey", "1:byte:Banned", "1:byte:?", "var:Location", "2LE:HttpPort", "2LE:TcpPort", "2LE:UdpPort", "64:GCAAuthorization"}
		// the length byte flows into a local (locationLen): accept any destination for it
		for i := range rd {
			if strings.HasPrefix(rd[i], "1:byte:") && i == 2 {
				rd[i] = "1:byte:?"
			}
		}
		compare("CODEC-1", "the client's inline server-entry reader reads key | banned | len | location | http | tcp | udp | signature", parser, rd, want)
		n++
	}

	// ---- 5. migration order ----
	emS := get("server", "EquipmentMigration", "Serialize")
	emB := get("server", "EquipmentMigration", "SigningBytes")
	compare("CODEC-2", "EquipmentMigration.Serialize = equipment | new GCA | new id | servers | signature", emS, sigs(ev(emS), true), []string{"32:Equipment@0", "32:NewGCA@32", "4LE:NewShortID@64", "var:Serialize(NewServers)", "64:Signature"})
	prefixPlusSerialize(c, emB, "EquipmentMigration")
	n += 2
	clientMigrationBytes(c)

	// ---- 6. registration ----
	grB := get("server", "GCARegistration", "SigningBytes")
	{
		got := sigs(ev(grB), false)
		compare("CODEC-2", "GCARegistration.SigningBytes = 'GCARegistration' | key", grB, got, []string{"15:prefix", "32:GCAKey"})
		if grB != nil {
			prefixIs(c, grB, "GCARegistration")
		}
		n++
	}

	// ---- 7. client server map ----
	mapS := get("client", "", "SerializeGCAServerMap")
	mapD := get("client", "", "UntrustedDeserializeGCAServerMap")
	{
		ws := fieldsOnly(ev(mapS))
		rs := fieldsOnly(ev(mapD))
		norm := func(ss []string) []string {
			var out []string
			for _, s := range ss {
				// key / byte names differ between the two sides: compare widths and orders, keep the named fields
				switch {
				case strings.HasPrefix(s, "32:"):
					s = "32:key"
				case strings.HasPrefix(s, "1:"):
					s = "1:banned"
				}
				out = append(out, s)
			}
			return out
		}
		want := []string{"32:key", "1:banned", "2LE:len(Location)", "var:Location", "2LE:HttpPort", "2LE:TcpPort", "2LE:UdpPort"}
		compare("CODEC-2", "client server map entry = key | banned | len16 | location | http | tcp | udp", mapS, norm(ws), want)
		compare("CODEC-1", "the client's server-map decoder reads what the encoder writes", mapD, norm(rs), want)
		n += 2
	}
	c.Count("CODEC", n)
	c.Floor("CODEC", 12)

	exactValues(c)
	littleEndianOnly(c)
	signingDomains(c)
	jsonTypes(c)
	injectivityNotes(c)
}

// exactValues: an encoder writes the value of the field (or its IEEE bit pattern, or a length), never a function of
// it, and a fixed-width copy into a decoded field has all its bytes available (copy silently copies fewer).
func exactValues(c *an.Ctx) {
	p := c.P
	nW, nR := 0, 0
	for _, pkg := range []string{"glow", "server", "client"} {
		for _, fn := range p.FuncsIn(pkg) {
			name := fn.Name()
			isEnc := name == "Serialize" || name == "SigningBytes" || strings.HasPrefix(name, "Serialize")
			isDec := strings.HasPrefix(name, "Deserialize") || strings.HasPrefix(name, "UntrustedDeserialize") || strings.HasPrefix(name, "parse")
			if !isEnc && !isDec {
				continue
			}
			fi := p.Info(fn)
			for _, e := range p.CodecEvents(fn) {
				in, ok := e.Instr.(ssa.Instruction)
				if !ok || in.Parent() != fn {
					continue
				}
				if isEnc && e.Op == "W" && e.Val != nil {
					nW++
					bad := ""
					// only the value part is inspected: a memory read (field, element, parameter) is the field itself,
					// whatever arithmetic computes its index
					var visit func(t *an.Term)
					visit = func(t *an.Term) {
						switch t.K {
						case an.KConv:
							visit(t.A[0])
						case an.KBin:
							switch t.S {
							case "+", "-", "*", "/", "%", "<<", ">>", "&", "|", "^", "&^":
								bad = "arithmetic " + t.S
							}
						case an.KUn:
							bad = "operator " + t.S
						case an.KPure, an.KCall:
							cn := t.Callee()
							if strings.HasSuffix(cn, "math.Float64bits") && len(t.A) == 1 {
								visit(t.A[0])
							} else if !strings.HasPrefix(cn, "builtin.len") {
								bad = "call of " + cn
							}
						}
					}
					visit(e.Val)
					c.Scope(fn)
					c.Check(bad == "", "CODEC-2", fn, in.Pos(), an.KeyOf(fn, "exact:"+e.Field), "the encoder writes the field "+e.Field+" itself (its value, its IEEE-754 bit pattern or a length), not a value computed from it: what is decoded equals what was encoded, and different field values never share an encoding", "encoded value "+short(e.Val.Key())+func() string {
						if bad != "" {
							return " contains " + bad
						}
						return ""
					}())
				}
				if isDec && e.Op == "R" && e.Width > 0 {
					call, isCall := in.(*ssa.Call)
					if !isCall {
						continue
					}
					if bi, ok := call.Call.Value.(*ssa.Builtin); !ok || bi.Name() != "copy" {
						continue
					}
					nR++
					src := fi.Term(call.Call.Args[1])
					sys := fi.SysFor(call)
					c.Scope(fn)
					c.Check(sys.ProveGE(an.LenTerm(src), int64(e.Width)), "CODEC-4", fn, call.Pos(), an.KeyOf(fn, "copy-fills:"+e.Field), fmt.Sprintf("the %d bytes of %s are all present where they are copied out of the input (copy would silently take fewer: a truncated record must be refused, not zero-padded)", e.Width, e.Field), "len(source) "+sys.Describe(an.LenTerm(src)))
				}
			}
		}
	}
	c.Count("EXACT", nW+nR)
	c.Floor("EXACT", 10)
}

// statsSignedLayout: what AllDeviceStats.SigningBytes writes after its prefix is, field by field (width, byte order,
// float-bits flag, field), what AllDeviceStats.Serialize writes before the signature: the record that is served and
// archived is the record that was signed.
func statsSignedLayout(c *an.Ctx, rule string) {
	p := c.P
	ser := p.Method("server", "AllDeviceStats", "Serialize")
	sb := p.Method("server", "AllDeviceStats", "SigningBytes")
	if ser == nil || sb == nil {
		c.Undecided(rule, nil, 0, "AllDeviceStats-codec", "AllDeviceStats.Serialize / SigningBytes not found", "anchor missing")
		return
	}
	c.Scope(ser, sb)
	seq := func(fn *ssa.Function) []string {
		var out []string
		for _, e := range normaliseEvents(p.CodecEvents(fn)) {
			if e.Op != "W" || e.Field == "prefix" || e.Field == "Signature" || e.Width < 0 {
				continue
			}
			out = append(out, e.Sig())
		}
		return out
	}
	a, b := seq(ser), seq(sb)
	c.Check(len(a) >= 4 && reflect.DeepEqual(a, b), rule, sb, sb.Pos(), an.KeyOf(sb, "signed-layout"), "the bytes that are signed are, field by field (width, byte order, float bit pattern), the bytes that are served and archived, without the signature", "Serialize ["+strings.Join(a, " ")+"], SigningBytes ["+strings.Join(b, " ")+"]")
}

// prefixIs: the SigningBytes function starts its output with the given ASCII prefix.
func prefixIs(c *an.Ctx, fn *ssa.Function, want string) {
	evs := normaliseEvents(c.P.CodecEvents(fn))
	got := ""
	for _, e := range evs {
		if e.Field == "prefix" {
			got = e.Prefix
			break
		}
	}
	c.Check(got == want, "CODEC-5", fn, fn.Pos(), an.KeyOf(fn, "prefix"), "the signing bytes start with the structure's name '"+want+"' as ASCII prefix", "prefix found: '"+got+"'")
}

// prefixPlusSerialize: SigningBytes = prefix | Serialize()[:len-64].
func prefixPlusSerialize(c *an.Ctx, fn *ssa.Function, typ string) {
	if fn == nil {
		c.Undecided("CODEC-2", nil, 0, "missing:"+typ+".SigningBytes", typ+".SigningBytes not found", "anchor missing")
		return
	}
	c.Scope(fn)
	prefixIs(c, fn, typ)
	p := c.P
	fi := p.Info(fn)
	// some slice of a Serialize() result with bounds [0 : len-64] flows into the output
	ok := false
	desc := ""
	for _, b := range fn.Blocks {
		for _, in := range b.Instrs {
			sl, isSl := in.(*ssa.Slice)
			if !isSl {
				continue
			}
			t := fi.Term(sl)
			base := t.A[0]
			if (base.K == an.KPure || base.K == an.KCall) && strings.HasSuffix(base.Callee(), typ+").Serialize") {
				lo, _ := t.A[1].IsConst()
				if lo == "0" && isLenMinus(t.A[2], 64) && t.A[2].A[0].K == an.KLen && t.A[2].A[0].A[0].Key() == base.Key() {
					ok = true
					desc = short(t.Key())
				}
			}
		}
	}
	if !ok {
		// written directly: the events after the prefix are those of Serialize without the trailing signature,
		// at the same relative offsets
		var ser *ssa.Function
		for _, pkg := range []string{"glow", "server"} {
			if m := p.Method(pkg, typ, "Serialize"); m != nil {
				ser = m
			}
		}
		if ser != nil {
			strip := func(evs []an.CodecEvent, dropPrefix bool, dropSig bool) []string {
				var out []string
				base := -1
				for _, e := range evs {
					if e.Op != "W" {
						continue
					}
					if dropPrefix && e.Field == "prefix" {
						continue
					}
					if dropSig && (e.Field == "Signature" || e.Field == "GCAAuthorization") {
						continue
					}
					off := ""
					if strings.HasPrefix(e.Off, "#") {
						v := 0
						fmt.Sscan(e.Off[1:], &v)
						if base < 0 {
							base = v
						}
						off = fmt.Sprint(v - base)
					} else {
						off = e.Off
					}
					out = append(out, e.Sig()+"@"+off)
				}
				return out
			}
			a := strip(normaliseEvents(p.CodecEvents(fn)), true, false)
			b := strip(normaliseEvents(p.CodecEvents(ser)), false, true)
			if len(a) > 0 && strings.Join(a, " ") == strings.Join(b, " ") {
				ok = true
				desc = "direct writes " + strings.Join(a, " ")
			} else {
				desc = "direct writes [" + strings.Join(a, " ") + "] vs Serialize without signature [" + strings.Join(b, " ") + "]"
			}
		}
	}
	c.Check(ok, "CODEC-2", fn, fn.Pos(), an.KeyOf(fn, "body"), typ+".SigningBytes = prefix | Serialize() without its trailing 64-byte signature", "body "+desc)
}

// lengthRefusal: a fixed-size decoder's reads are dominated by len(in) == N.
func lengthRefusal(c *an.Ctx, fn *ssa.Function, n int) {
	if fn == nil {
		return
	}
	p := c.P
	fi := p.Info(fn)
	evs := p.CodecEvents(fn)
	total := 0
	for _, e := range normaliseEvents(evs) {
		if e.Width > 0 {
			total += e.Width
		}
	}
	c.Check(total == n, "CODEC-4", fn, fn.Pos(), an.KeyOf(fn, "size"), fmt.Sprintf("the field widths of the decoder add up to the documented size %d", n), fmt.Sprintf("sum of widths %d", total))
	for _, e := range evs {
		if e.Op != "R" {
			continue
		}
		ok := false
		for _, f := range fi.FactsAt(e.Instr) {
			if !f.Neg && f.T.K == an.KBin && f.T.S == "==" {
				for i := 0; i < 2; i++ {
					if k, isC := f.T.A[i].IsConst(); isC && k == fmt.Sprint(n) && f.T.A[1-i].K == an.KLen {
						ok = true
					}
				}
			}
		}
		c.Check(ok, "CODEC-4", fn, e.Instr.Pos(), an.KeyOf(fn, "length-refusal"), fmt.Sprintf("every read of the fixed-size decoder is dominated by len(input) == %d (wrong lengths are refused)", n), "facts "+factList(fi.FactsAt(e.Instr)))
		break
	}
}

// codecSize: the buffer length term equals 4 + n*32288 + 4 + tail.
func codecSize(c *an.Ctx, fn *ssa.Function, tail int64) {
	if fn == nil {
		return
	}
	p := c.P
	fi := p.Info(fn)
	for _, b := range fn.Blocks {
		for _, in := range b.Instrs {
			ms, ok := in.(*ssa.MakeSlice)
			if !ok {
				continue
			}
			lt := fi.Term(ms.Len)
			syms := an.Symbols(lt)
			key := an.KeyOf(fn, "buffer-size")
			if len(syms) != 1 {
				c.Undecided("CODEC-SIZE", fn, ms.Pos(), key, "the buffer length is not a function of the device count alone", "length term "+short(lt.Key()))
				return
			}
			bad := ""
			for _, nv := range []int64{0, 1, 2, 7, 1000} {
				got, err := an.EvalInt(lt, an.Env{syms[0]: big.NewInt(nv)}, p.IntBits)
				if err != nil {
					bad = err.Error()
					break
				}
				want := 4 + nv*(32+2016*8+2016*8) + 4 + tail
				if got.Int64() != want {
					bad = fmt.Sprintf("n=%d: length %s, expected %d", nv, got, want)
				}
			}
			c.Check(bad == "", "CODEC-SIZE", fn, ms.Pos(), key, fmt.Sprintf("the buffer holds exactly 4 + n*(32 + 2016*8 + 2016*8) + 4 + %d bytes: the sum of the field widths (so the cursor writes stay in range)", tail), "length term "+short(lt.Key())+" "+bad)
			return
		}
	}
}

// cursorAdvance: every write/read through a running cursor is followed by an advance of exactly its width.
func cursorAdvance(c *an.Ctx, fn *ssa.Function) {
	if fn == nil {
		return
	}
	p := c.P
	fi := p.Info(fn)
	n := 0
	if tilingCheck(c, fn) {
		// offsets computed from loop indices: the layout was checked as a tiling
		c.Count("CODEC-SIZE", 1)
		return
	}
	for _, e := range p.CodecEvents(fn) {
		if e.Off != "" || e.Width <= 0 {
			continue
		}
		// the buffer argument is slc(buf, cursor, ...): find cursor + width computed in the same block
		var cursor *an.Term
		switch x := e.Instr.(type) {
		case *ssa.Call:
			for _, a := range x.Call.Args {
				t := fi.Term(a)
				if t.K == an.KSlice && t.A[1].Contains(func(y *an.Term) bool { return y.K == an.KPhi }) {
					cursor = t.A[1]
				}
			}
		}
		if cursor == nil {
			continue
		}
		n++
		want := an.NormBin("+", cursor, an.ConstTerm(fmt.Sprint(e.Width))).Key()
		found := false
		for _, in := range e.Instr.Block().Instrs {
			if bo, ok := in.(*ssa.BinOp); ok && fi.Term(bo).Key() == want {
				found = true
			}
		}
		// a cursor that is the sum of an outer position and a local running offset (dst := b[i:]; n := 32; ...
		// dst[n:]; n += 8): the local offset advances by the width
		if !found && cursor.K == an.KBin && cursor.S == "+" {
			for _, part := range cursor.A {
				if part.K != an.KPhi {
					continue
				}
				w2 := an.NormBin("+", part, an.ConstTerm(fmt.Sprint(e.Width))).Key()
				for _, in := range e.Instr.Block().Instrs {
					if bo, ok := in.(*ssa.BinOp); ok && fi.Term(bo).Key() == w2 {
						found = true
					}
				}
			}
		}
		// the local offset starts behind this field: the next cursor is this one plus a running offset whose initial
		// value is the width (copy(dst, key[:]); n := 32)
		if !found {
			var next *an.Term
			nextPos := token.NoPos
			for _, e2 := range p.CodecEvents(fn) {
				if e2.Pos <= e.Pos || e2.Off != "" || e2.Width <= 0 || (nextPos != token.NoPos && e2.Pos >= nextPos) {
					continue
				}
				if call, ok := e2.Instr.(*ssa.Call); ok {
					for _, a := range call.Call.Args {
						if t := fi.Term(a); t.K == an.KSlice {
							next, nextPos = t.A[1], e2.Pos
						}
					}
				}
			}
			if next != nil && next.K == an.KBin && next.S == "+" && len(next.A) == 2 {
				for k := 0; k < 2; k++ {
					ph, isPhi := next.A[k].Val.(*ssa.Phi)
					if next.A[1-k].Key() != cursor.Key() || next.A[k].K != an.KPhi || !isPhi {
						continue
					}
					for _, ev := range ph.Edges {
						if cv, isC := fi.Term(ev).IsConst(); isC && cv == fmt.Sprint(e.Width) {
							found = true
						}
					}
				}
			}
		}
		// the last field of a record needs no advance if nothing follows
		if !found {
			last := true
			for _, e2 := range p.CodecEvents(fn) {
				if e2.Pos > e.Pos {
					last = false
				}
			}
			if last {
				found = true
			}
		}
		c.Check(found, "CODEC-SIZE", fn, e.Instr.Pos(), an.KeyOf(fn, "advance:"+e.Sig()), fmt.Sprintf("the cursor advances by exactly %d after the %d-byte field %s", e.Width, e.Width, e.Field), "cursor "+short(cursor.Key()))
	}
	c.Count("CODEC-SIZE", n)
}

// clientMigrationBytes: the client's hand-built signing bytes equal EquipmentMigration.SigningBytes.
func clientMigrationBytes(c *an.Ctx) {
	p := c.P
	parser := findSyncParser(p)
	if parser == nil {
		return
	}
	fi := p.Info(parser)
	ok := false
	desc := ""
	for _, b := range parser.Blocks {
		for _, in := range b.Instrs {
			call, isCall := in.(*ssa.Call)
			if !isCall || !strings.HasSuffix(an.CalleeName(&call.Call), "glow.Verify") {
				continue
			}
			dt := fi.Term(call.Call.Args[1])
			k := dt.Key()
			if !strings.Contains(k, `#"EquipmentMigration"`) {
				continue
			}
			desc = short(k)
			// append(cv("EquipmentMigration"), append(key[:], reply[540:len-136]...)...)
			if dt.K == an.KCall && strings.HasPrefix(dt.S, "builtin.append#") && constStringOf(dt.A[0]) == "EquipmentMigration" {
				inner := dt.A[1]
				if inner.K == an.KCall && strings.HasPrefix(inner.S, "builtin.append#") {
					keyPart, rest := inner.A[0], inner.A[1]
					okKey := keyPart.K == an.KSlice && keyPart.A[0].K == an.KAlloc
					okRest := rest.K == an.KSlice && isConstTerm(rest.A[1], "540") && isLenMinus(rest.A[2], 136)
					ok = okKey && okRest
				}
			}
		}
	}
	c.Check(ok, "CODEC-1", parser, parser.Pos(), an.KeyOf(parser, "migration-signing-bytes"), "the client's hand-built migration signing bytes are 'EquipmentMigration' | equipment key (32) | reply[540 : len-136] = new GCA | new id | servers: the same bytes as EquipmentMigration.SigningBytes()", "data "+desc)
}

func constStringOf(t *an.Term) string {
	for t.K == an.KConv && len(t.A) == 1 {
		t = t.A[0]
	}
	if t.K == an.KConst && len(t.S) >= 2 && t.S[0] == '"' {
		return t.S[1 : len(t.S)-1]
	}
	return ""
}

// littleEndianOnly: every byte order referenced in glow, server and client is LittleEndian.
func littleEndianOnly(c *an.Ctx) {
	p := c.P
	n, bad := 0, 0
	for _, short := range []string{"glow", "server", "client"} {
		for _, fn := range p.FuncsIn(short) {
			for _, b := range fn.Blocks {
				for _, in := range b.Instrs {
					for _, op := range in.Operands(nil) {
						g, ok := (*op).(*ssa.Global)
						if !ok || g.Pkg == nil || g.Pkg.Pkg.Path() != "encoding/binary" {
							continue
						}
						n++
						if g.Name() != "LittleEndian" {
							bad++
							c.Violated("CODEC-3", fn, in.Pos(), an.KeyOf(fn, "byte-order:"+g.Name()), "encoding/binary."+g.Name()+" is used; every number must be little-endian", "README: always use LittleEndian")
						}
					}
				}
			}
		}
	}
	c.Count("CODEC-3", n)
	c.Floor("CODEC-3", 20)
	if bad == 0 {
		c.Proved("CODEC-3", nil, 0, "little-endian-only", "every encoding/binary byte order referenced in glow, server and client is LittleEndian", fmt.Sprintf("%d references", n))
	}
}

// signingDomains: prefixes are type names, pairwise prefix-free, and every Sign/Verify site is classified.
func signingDomains(c *an.Ctx) {
	p := c.P
	prefixes := map[string]string{}
	for _, short := range []string{"glow", "server", "client"} {
		for _, fn := range p.FuncsIn(short) {
			if fn.Name() != "SigningBytes" || fn.Signature.Recv() == nil {
				continue
			}
			recv := fn.Signature.Recv().Type()
			if pt, ok := recv.(*types.Pointer); ok {
				recv = pt.Elem()
			}
			tn := recv.(*types.Named).Obj().Name()
			got := ""
			for _, e := range normaliseEvents(p.CodecEvents(fn)) {
				if e.Field == "prefix" {
					got = e.Prefix
					break
				}
			}
			prefixes[tn] = got
			c.Check(got == tn, "CODEC-5", fn, fn.Pos(), an.KeyOf(fn, "prefix-is-type-name"), "SigningBytes of "+tn+" is prefixed with its structure's name", "prefix '"+got+"'")
		}
	}
	var names []string
	for _, v := range prefixes {
		names = append(names, v)
	}
	sort.Strings(names)
	clash := ""
	for i := range names {
		for j := range names {
			if i != j && names[i] != "" && strings.HasPrefix(names[j], names[i]) {
				clash = names[i] + " is a prefix of " + names[j]
			}
		}
	}
	c.Check(clash == "" && len(names) >= 6, "CODEC-5", nil, 0, "prefix-free", "no signing prefix is a prefix of another, so messages of different types never share signing bytes", strings.Join(names, ", ")+" "+clash)
	// classify every Sign / Verify call
	n := 0
	for _, pkgShort := range []string{"glow", "server", "client"} {
		for _, fn := range p.FuncsIn(pkgShort) {
			fi := p.Info(fn)
			for _, b := range fn.Blocks {
				for _, in := range b.Instrs {
					call, ok := in.(*ssa.Call)
					if !ok {
						continue
					}
					name := an.CalleeName(&call.Call)
					var dt *an.Term
					switch {
					case strings.HasSuffix(name, "glow.Verify"):
						dt = fi.Term(call.Call.Args[1])
					case strings.HasSuffix(name, "glow.Sign"):
						dt = fi.Term(call.Call.Args[0])
					default:
						continue
					}
					n++
					class := ""
					k := dt.Key()
					switch {
					case (dt.K == an.KPure || dt.K == an.KCall) && strings.HasSuffix(dt.Callee(), ").SigningBytes"):
						class = "SigningBytes() of " + dt.Callee()
					case dt.K == an.KParam:
						class = "caller-supplied signing bytes (helper)"
					case strings.Contains(k, `#"EquipmentMigration"`):
						class = "hand-built copy of EquipmentMigration.SigningBytes (compared by CODEC-1)"
					case dt.K == an.KSlice && (strings.Contains(k, "make:slice") || strings.Contains(k, "builtin.append")) && pkgShort != "glow":
						class = "documented unprefixed format: sync reply (signed by the server key only; all other messages under that key are prefixed or JSON)"
					case strings.Contains(k, "encoding/json.Marshal"):
						class = "documented unprefixed format: JSON of the recent reports (signed by the server key; starts with '[', no binary prefix starts with it)"
					}
					key := an.KeyOf(fn, "sign-site:"+short2(k))
					if class == "" {
						c.Violated("CODEC-5", fn, call.Pos(), key, "a signature is made or checked over bytes that are neither a SigningBytes() result nor a documented format", "data "+short(k))
					} else {
						c.Proved("CODEC-5", fn, call.Pos(), key, "signed data class: "+class, short(k))
					}
				}
			}
		}
	}
	c.Count("CODEC-5", n)
	c.Floor("CODEC-5", 7)
}

func short2(s string) string {
	s = an.StripVolatile(strings.ReplaceAll(s, an.ModulePath+"/", ""))
	if len(s) > 80 {
		return s[:80]
	}
	return s
}

// jsonTypes: structures that travel as JSON round-trip exactly at the type level.
func jsonTypes(c *an.Ctx) {
	p := c.P
	check := func(short, name string) {
		n := p.Named(short, name)
		if n == nil {
			c.Undecided("CODEC-7", nil, 0, "json:"+name, "type "+name+" not found", "anchor missing")
			return
		}
		// no custom (Un)MarshalJSON
		for _, t := range []types.Type{n, types.NewPointer(n)} {
			ms := types.NewMethodSet(t)
			for i := 0; i < ms.Len(); i++ {
				m := ms.At(i).Obj().Name()
				if m == "MarshalJSON" || m == "UnmarshalJSON" || m == "MarshalText" || m == "UnmarshalText" {
					c.Violated("CODEC-7", nil, n.Obj().Pos(), "json-custom:"+name+"."+m, name+" has a custom "+m+"; JSON transport would no longer be the field-by-field default", "method set")
					return
				}
			}
		}
		st := n.Underlying().(*types.Struct)
		bad := ""
		for i := 0; i < st.NumFields(); i++ {
			f := st.Field(i)
			tag := reflect.StructTag(st.Tag(i)).Get("json")
			if tag == "-" || strings.Contains(tag, "omitempty") || strings.Contains(tag, ",string") {
				bad = f.Name() + " has json tag '" + tag + "'"
			}
			if !f.Exported() {
				bad = f.Name() + " is not exported (dropped by encoding/json)"
			}
			if !jsonExact(f.Type(), 0) {
				bad = f.Name() + " has type " + f.Type().String() + " which does not round-trip exactly"
			}
		}
		c.Check(bad == "", "CODEC-7", nil, n.Obj().Pos(), "json:"+name, name+" travels through encoding/json field by field: no custom marshalling, no omitting tags, only integer, finite float64, bool, string, fixed byte-array and slice-of-such fields", bad)
	}
	check("glow", "EquipmentAuthorization")
	check("server", "GCARegistration")
	check("server", "AuthorizedServer")
	check("server", "EquipmentMigration")
	c.Count("CODEC-7", 4)
}

func jsonExact(t types.Type, depth int) bool {
	if depth > 4 {
		return false
	}
	switch u := t.Underlying().(type) {
	case *types.Basic:
		switch u.Kind() {
		case types.Bool, types.String, types.Float64, types.Int, types.Int8, types.Int16, types.Int32, types.Int64,
			types.Uint, types.Uint8, types.Uint16, types.Uint32, types.Uint64:
			return true
		}
		return false
	case *types.Array:
		return jsonExact(u.Elem(), depth+1)
	case *types.Slice:
		return jsonExact(u.Elem(), depth+1)
	case *types.Struct:
		for i := 0; i < u.NumFields(); i++ {
			if !jsonExact(u.Field(i).Type(), depth+1) {
				return false
			}
		}
		return true
	}
	return false
}

func injectivityNotes(c *an.Ctx) {
	c.Note("CODEC-6", nil, 0, "location-length-byte", "AuthorizedServer stores len(Location) in one byte while the server accepts longer locations; the property's domain is locations of 0..255 bytes (for those the layout is injective: every variable-length part is length-prefixed)")
	c.Note("CODEC-6", nil, 0, "reply-length-16bit", "the sync reply's length prefix is 16 bits; a server list whose entries exceed 65535 bytes would be truncated in the prefix (outside the property's domain)")
}

// roundTripPersisted: for the three record types that are persisted and re-read at start-up, the decoder reads
// exactly what the encoder writes (same fields, widths, byte orders, offsets). Sibling agreement only - the
// documented layouts are C15's.
func roundTripPersisted(c *an.Ctx) {
	p := c.P
	ev := func(fn *ssa.Function, withOff bool) []string {
		if fn == nil {
			return nil
		}
		c.Scope(fn)
		evs := normaliseEvents(p.CodecEvents(fn))
		if withOff {
			return sigs(evs, true)
		}
		var out []string
		for _, e := range evs {
			out = append(out, e.Sig())
		}
		return out
	}
	pair := func(what string, enc, dec *ssa.Function, withOff bool) {
		if enc == nil || dec == nil {
			c.Undecided("ROUNDTRIP", nil, 0, "roundtrip:"+what, what+": encoder or decoder not found", "anchor missing")
			return
		}
		a, b := ev(enc, withOff), ev(dec, withOff)
		c.Check(len(a) > 0 && reflect.DeepEqual(a, b), "ROUNDTRIP", dec, dec.Pos(), an.KeyOf(dec, "roundtrip:"+what), "what is read back at start-up is what was written: the decoder of "+what+" reads the fields the encoder writes, at the same offsets, widths and byte orders", "encoder ["+strings.Join(a, " ")+"], decoder ["+strings.Join(b, " ")+"]")
	}
	pair("persisted reports", p.Method("glow", "EquipmentReport", "Serialize"), serverReportParser(p), true)
	pair("persisted authorizations", p.Method("glow", "EquipmentAuthorization", "Serialize"), p.Func("glow", "DeserializeEquipmentAuthorization"), true)
	pair("archived weeks", p.Method("server", "AllDeviceStats", "Serialize"), p.Func("server", "DeserializeStreamAllDeviceStats"), false)
	c.Count("ROUNDTRIP", 3)
}

// serverReportParser: the server method that decodes and verifies a raw report.
func serverReportParser(p *an.Program) *ssa.Function {
	for _, fn := range p.FuncsIn("server") {
		res := fn.Signature.Results()
		if res.Len() == 2 && strings.HasSuffix(res.At(0).Type().String(), "glow.EquipmentReport") && fn.Signature.Recv() != nil {
			return fn
		}
	}
	return nil
}
