package props

import (
	"fmt"
	"go/constant"
	"go/token"
	"go/types"
	"math/big"
	"strings"

	"gcacheck/internal/an"

	"golang.org/x/tools/go/ssa"
)

func init() {
	register(&an.PropertyCheck{
		ID:      "C03",
		Title:   "Weekly statistics equal the accepted reports and never change once archived",
		Engines: "PRED (week selection), dataflow over access-path terms (builder copies), CONTIG, ORIGIN classes (writes through values copied out of the archive), WHO-MAY, slice-bound facts of the rotation",
		Explanation: "Decided on package server: BUILD the statistics builder accepts exactly tso % 2016 == 0 and tso in {offset, offset+2016} and selects x = 0 / 2016 accordingly; for every key of the report map it copies reports[x+i].PowerOutput to PowerOutputs[i] for i in [0,2016) " +
			"(same i on both sides, bounds proved by C12's BOUND), ImpactRates from equipmentImpactRate[key][x:] and the public key from equipment[key], labels the record with its argument and signs ads.SigningBytes() with the server key as the last write before returning; " +
			"SERVE the handler refuses misaligned offsets, serves archive[(tso-origin)/2016] iff tso < offset (index in range by CONTIG) and otherwise the builder's result; ROTATE in one critical section the record built for the pre-increment offset is appended to the archive and written with one append-mode Write " +
			"(a failure stops the process), for every device copy(a[:2016], a[2016:]) precedes copy(a[2016:], zeros) with exactly these bounds, for reports and impact rates, and the offset advances by 2016 exactly once; CONTIG offset == 2016*len(archive) (every writer of the offset is the rotation or the loader); " +
			"IMMUTABLE no instruction anywhere stores through a value that may originate from the archive list (only whole-record appends write it), so a served record cannot be changed by any request (origin classes follow slice headers copied out under the lock); the statistics file is only opened in append mode. " +
			"COVER AllDeviceStats.SigningBytes covers the number of devices and every field of every device record at full width, and the timeslot offset, and writes them exactly as Serialize does (same widths, byte order and float bit patterns: the signed bytes are the served bytes). the device-table rules of C06 are re-run (a ban removes the id from the report map the builder ranges over). SERVE also: a number parsed from the request is narrowed only when BOUND shows that it fits; BUILD also: the per-slot copy is on every path through the slot loop; ROTATE also: the archive saver hands the record it received to Serialize unchanged. Every caller of the builder looks at its error result (a refused week is not served or archived as an empty record). NOT decided: equality of the served JSON with an independent encoder; histories as such; that rotation happens at the right time (C20).",
		Assumptions: append([]string{"glow.Sign is deterministic (RFC 6979, trusted)"}, baseAssumptions...),
		Run:         runC03,
	})
}

func findBuilder(p *an.Program) *ssa.Function {
	for _, fn := range p.FuncsIn("server") {
		res := fn.Signature.Results()
		if res.Len() == 2 && strings.HasSuffix(res.At(0).Type().String(), "server.AllDeviceStats") && fn.Signature.Recv() != nil && len(fn.Params) == 2 {
			return fn
		}
	}
	return nil
}

func runC03(c *an.Ctx) {
	p := c.P
	signingCoverage(c, "COVER", "server", "AllDeviceStats", "Signature")
	statsSignedLayout(c, "COVER")
	builder := findBuilder(p)
	if builder == nil {
		c.Undecided("ANCHOR", nil, 0, "stats-builder", "weekly statistics builder not found", "anchor missing")
		return
	}
	c.Scope(builder)
	buildRules(c, builder)
	serveRules(c, builder)
	builderRefusalHonoured(c, builder)
	cg := contig(c, "CONTIG")
	c.Floor("CONTIG", 2)
	rotateRules(c, cg)
	immutableRules(c)
	// "each device that is authorized and not banned when the record is produced": the builder ranges over the report
	// map, so a ban must remove the id from it (device-table rules owned by C06, re-run)
	authTableRules(c, "C03")
}

func buildRules(c *an.Ctx, fn *ssa.Function) {
	p := c.P
	fi := p.Info(fn)
	tso := fi.Term(fn.Params[1])
	// the range loop over the report map
	var rng *ssa.Range
	for _, b := range fn.Blocks {
		for _, in := range b.Instrs {
			if r, ok := in.(*ssa.Range); ok {
				if f, ok := fi.RefClass(r.X).FieldOf("GCAServer"); ok && f == "equipmentReports" {
					rng = r
				}
			}
		}
	}
	if rng == nil {
		c.Violated("BUILD", fn, fn.Pos(), an.KeyOf(fn, "ranges-reports"), "the builder does not iterate over the report map (the devices that are authorized and not banned right now)", "no range over equipmentReports")
		return
	}
	facts := fi.FactsAt(rng)
	var off *an.Term
	for _, f := range facts {
		f.T.Walk(func(t *an.Term) {
			if fl, _, ok := mapFieldOfTerm(t); ok && fl == "equipmentReportsOffset" {
				off = t
			}
		})
	}
	key := an.KeyOf(fn, "week-selection")
	if off == nil {
		c.Violated("PRED", fn, rng.Pos(), key, "the builder does not compare the requested offset with the window offset", "facts "+factList(facts))
		return
	}
	rel := an.RelevantFacts(facts, map[string]bool{tso.Key(): true, off.Key(): true})
	var grid []map[string]*big.Int
	for _, os := range []string{"0", "2016", "4032", "2016000", "2^31-4032"} {
		o := an.Big(os)
		for _, d := range []int64{-2016, -1, 0, 1, 1008, 2015, 2016, 2017, 4032, 6048} {
			t := new(big.Int).Add(o, big.NewInt(d))
			if t.Sign() >= 0 {
				grid = append(grid, map[string]*big.Int{"tso": t, "off": o})
			}
		}
	}
	pts, dis, err := an.ComparePredicate(rel, map[string]string{"tso": tso.Key(), "off": off.Key()}, grid, func(pt map[string]*big.Int) bool {
		d := new(big.Int).Sub(pt["tso"], pt["off"])
		m := new(big.Int).Mod(pt["tso"], big.NewInt(2016))
		return m.Sign() == 0 && (d.Sign() == 0 || d.Cmp(big.NewInt(2016)) == 0)
	}, p.IntBits)
	switch {
	case err != nil:
		c.Undecided("PRED", fn, rng.Pos(), key, "week-selection guards could not be evaluated: "+err.Error(), "predicate outside the supported fragment")
	case len(dis) > 0:
		c.Violated("PRED", fn, rng.Pos(), key, "the builder's acceptance differs from: aligned and equal to the first or second live week", fmt.Sprintf("%d of %d cells disagree, first: tso=%s offset=%s code builds=%v; guards: %s", len(dis), pts, dis[0].Env["tso"], dis[0].Env["off"], dis[0].Code, factsText(rel)))
	default:
		c.Proved("PRED", fn, rng.Pos(), key, "the builder builds exactly for aligned offsets equal to offset or offset+2016 (misaligned, archived and future weeks are refused)", fmt.Sprintf("%d cells compared; guards: %s", pts, factsText(rel)))
	}
	// x: phi(0, 2016) with 2016 on the tso == off+2016 edge
	// (edges that cannot have been taken when the record loop is reached - the error ways of an inlined or single-exit
	// selector - do not count)
	var xPhi *ssa.Phi
	var xFeasible []bool
	for _, b := range fn.Blocks {
		for _, in := range b.Instrs {
			ph, ok := in.(*ssa.Phi)
			if !ok {
				continue
			}
			feas := fi.FeasiblePhiEdges(ph, rng)
			n0, n2016, other := 0, 0, 0
			for i, e := range ph.Edges {
				if !feas[i] {
					continue
				}
				switch v, _ := fi.Term(e).IsConst(); v {
				case "0":
					n0++
				case "2016":
					n2016++
				default:
					other++
				}
			}
			if n0 >= 1 && n2016 >= 1 && other == 0 {
				xPhi, xFeasible = ph, feas
			}
		}
	}
	if xPhi == nil {
		c.Violated("BUILD", fn, fn.Pos(), an.KeyOf(fn, "half-selector"), "no half selector x in {0, 2016} found", "shape not recognised")
		return
	}
	for k, e := range xPhi.Edges {
		if !xFeasible[k] {
			continue
		}
		v, _ := fi.Term(e).IsConst()
		pred := xPhi.Block().Preds[k]
		ef := fi.EdgeFacts(pred, xPhi.Block())
		allF := an.FactSet{}
		for kk, f := range fi.FactsAtBlock(pred) {
			allF[kk] = f
		}
		for _, f := range ef {
			allF[f.Key()] = f
		}
		relx := an.RelevantFacts(allF, map[string]bool{tso.Key(): true, off.Key(): true})
		// on the 2016-edge: tso == off + 2016 ; on the 0-edge: tso != off + 2016
		holdsSecond := func(d int64) bool {
			o := big.NewInt(2016 * 50)
			got, err := an.EvalFacts(relx, an.Env{tso.Key(): new(big.Int).Add(o, big.NewInt(d)), off.Key(): o}, p.IntBits)
			return err == nil && got
		}
		if v == "2016" {
			c.Check(holdsSecond(2016) && !holdsSecond(0), "BUILD", fn, xPhi.Pos(), an.KeyOf(fn, "x=2016"), "x = 2016 exactly when the requested offset is offset + 2016 (second live week)", "edge guards "+factsText(relx))
		} else {
			c.Check(!holdsSecond(2016), "BUILD", fn, xPhi.Pos(), an.KeyOf(fn, "x=0"), "x = 0 is kept only when the requested offset is not offset + 2016", "edge guards "+factsText(relx))
		}
	}
	xT := fi.Term(xPhi)
	// the copy loop
	okPow, okRates, okKey := false, false, false
	var devKey *an.Term // range key
	for _, b := range fn.Blocks {
		for _, in := range b.Instrs {
			switch x := in.(type) {
			case *ssa.Store:
				at := fi.Term(x.Addr)
				vt := fi.Term(x.Val)
				// ds.PowerOutputs[i] = reports[x+i].PowerOutput
				if at.K == an.KIA && at.A[0].K == an.KFA && at.A[0].S == "PowerOutputs" {
					i := at.A[1]
					if vt.K == an.KLoad && vt.A[0].K == an.KFA && vt.A[0].S == "PowerOutput" && vt.A[0].A[0].K == an.KIA {
						src := vt.A[0].A[0]
						idx := src.A[1]
						want := an.NormBin("+", xT, i)
						if idx.Key() == want.Key() && src.A[0].K == an.KExt && src.A[0].S == "2" && src.A[0].A[0].K == an.KRange {
							okPow = true
							// every slot of the week is copied: no pass of the slot loop goes around the store (a skipped
							// slot is published as 0, whatever was recorded - including the ban sentinel)
							if l := innermostLoopOf(fn, x.Block()); l != nil {
								c.Check(l.everyIteration(x.Block()) && len(l.earlyExits()) == 0, "BUILD", fn, x.Pos(), an.KeyOf(fn, "copy-power-every-slot"), "every slot of the selected week is copied into the record, whatever its value (0, the ban sentinel 1, or a reading)", "the store is on every path through the slot loop and the loop is not left early")
							} else {
								c.Violated("BUILD", fn, x.Pos(), an.KeyOf(fn, "copy-power-every-slot"), "the per-slot copy is not inside a loop over the week", "shape not recognised")
							}
						}
					}
				}
				if at.K == an.KFA && at.S == "PublicKey" && vt.K == an.KField && vt.S == "PublicKey" && vt.A[0].K == an.KLookup {
					if f, _, ok := mapFieldOfTerm(vt.A[0].A[0]); ok && f == "equipment" {
						devKey = vt.A[0].A[1]
						okKey = devKey.K == an.KExt && devKey.S == "1" && devKey.A[0].K == an.KRange
					}
				}
			case *ssa.Call:
				if bi, ok := x.Call.Value.(*ssa.Builtin); ok && bi.Name() == "copy" {
					dst, src := fi.Term(x.Call.Args[0]), fi.Term(x.Call.Args[1])
					if dst.K == an.KSlice && strings.Contains(dst.A[0].Key(), "ImpactRates") && src.K == an.KSlice && src.A[0].K == an.KLookup {
						// rates[x:] or rates[x:x+2016]: the destination holds 2016 elements either way
						hiOK := isConstTerm(src.A[2], "end") || src.A[2].Key() == an.NormBin("+", xT, an.ConstTerm("2016")).Key()
						if f, _, ok := mapFieldOfTerm(src.A[0].A[0]); ok && f == "equipmentImpactRate" && src.A[1].Key() == xT.Key() && hiOK {
							if src.A[0].A[1].K == an.KExt && src.A[0].A[1].S == "1" {
								okRates = true
							}
						}
					}
				}
			}
		}
	}
	c.Check(okPow, "BUILD", fn, fn.Pos(), an.KeyOf(fn, "copy-power"), "PowerOutputs[i] = reports[x+i].PowerOutput with the same i and the selected x, for the device being iterated", "store into ds.PowerOutputs[i]")
	c.Check(okRates, "BUILD", fn, fn.Pos(), an.KeyOf(fn, "copy-rates"), "ImpactRates = equipmentImpactRate[device][x:] for the same device and the same x", "copy(ds.ImpactRates[:], rates[x:])")
	c.Check(okKey, "BUILD", fn, fn.Pos(), an.KeyOf(fn, "device-key"), "PublicKey = equipment[device].PublicKey for the device being iterated", "store into ds.PublicKey")
	// label and signature
	var sign *ssa.Call
	for _, b := range fn.Blocks {
		for _, in := range b.Instrs {
			if call, ok := in.(*ssa.Call); ok && strings.HasSuffix(an.CalleeName(&call.Call), "glow.Sign") {
				sign = call
			}
		}
	}
	if sign == nil {
		c.Violated("BUILD", fn, fn.Pos(), an.KeyOf(fn, "signature"), "the builder does not sign its result", "no call to glow.Sign")
		return
	}
	dt := fi.Term(sign.Call.Args[0])
	kt := fi.Term(sign.Call.Args[1])
	okData := (dt.K == an.KPure || dt.K == an.KCall) && strings.HasSuffix(dt.Callee(), "AllDeviceStats).SigningBytes")
	kf, _, okk := mapFieldOfTerm(kt)
	c.Check(okData && okk && kf == "staticPrivateKey", "BUILD", fn, sign.Pos(), an.KeyOf(fn, "signature"), "Signature = Sign(ads.SigningBytes(), server private key)", "data "+short(dt.Key())+", key "+short(kt.Key()))
	// label stored before signing; no store to the record between SigningBytes and return except Signature
	labelOK := false
	lateStore := ""
	var sbCall ssa.Instruction
	if v, ok := sign.Call.Args[0].(ssa.Instruction); ok {
		sbCall = v
	}
	for _, b := range fn.Blocks {
		for _, in := range b.Instrs {
			st, ok := in.(*ssa.Store)
			if !ok {
				continue
			}
			fa, ok := st.Addr.(*ssa.FieldAddr)
			if !ok || namedOfPtr(fa.X.Type()) != "AllDeviceStats" {
				continue
			}
			name := fieldNameOf(fa)
			if name == "TimeslotOffset" && fi.Term(st.Val).Key() == tso.Key() && sbCall != nil && an.Dominates(st, sbCall) {
				labelOK = true
			}
			if sbCall != nil && an.Dominates(sbCall, st) && name != "Signature" {
				lateStore = name
			}
		}
	}
	c.Check(labelOK, "BUILD", fn, fn.Pos(), an.KeyOf(fn, "label"), "the record is labelled with the requested offset before it is signed", "store TimeslotOffset = argument dominates SigningBytes()")
	c.Check(lateStore == "", "BUILD", fn, fn.Pos(), an.KeyOf(fn, "sign-last"), "nothing but the signature is written to the record after its signing bytes were taken", "late store to field "+lateStore)
	c.Count("BUILD", 8)
}

func serveRules(c *an.Ctx, builder *ssa.Function) {
	p := c.P
	var handler *ssa.Function
	for _, r := range rootsOf(p, "server", "http") {
		for _, s := range p.CallSites(builder) {
			if s.Parent() == r.Fn {
				handler = r.Fn
			}
		}
	}
	if handler == nil {
		c.Undecided("SERVE", nil, 0, "stats-handler", "statistics handler not found", "anchor missing")
		return
	}
	c.Scope(handler)
	fi := p.Info(handler)
	// archived branch: index into the archive under tso < offset; builder call under offset <= tso
	okArch, okLive, okAligned := false, false, false
	for _, b := range handler.Blocks {
		for _, in := range b.Instrs {
			switch x := in.(type) {
			case *ssa.IndexAddr:
				if f, _, ok := mapFieldOfTerm(fi.Term(x.X)); ok && f == "equipmentStatsHistory" {
					if ok2, _ := archiveIndexLemma(p, an.BoundObl{Fn: handler, Instr: x}, true); ok2 {
						okArch = true
					}
				}
			case *ssa.Call:
				if x.Call.StaticCallee() == builder {
					arg := fi.Term(x.Call.Args[1])
					for _, f := range fi.FactsAt(x) {
						if !f.Neg && f.T.K == an.KBin && f.T.S == "<=" && f.T.A[1].Key() == arg.Key() {
							if fl, _, ok := mapFieldOfTerm(f.T.A[0]); ok && fl == "equipmentReportsOffset" {
								okLive = true
							}
						}
						if !f.Neg && f.T.K == an.KBin && f.T.S == "==" && strings.Contains(f.T.Key(), "#2016") && strings.Contains(f.T.Key(), "bin:%") {
							okAligned = true
						}
					}
				}
			}
		}
	}
	c.Check(okArch, "SERVE", handler, handler.Pos(), an.KeyOf(handler, "archived-branch"), "an archived week is served as archive[(tso - origin)/2016] exactly under tso < offset", "index expression and dominating guard")
	c.Check(okLive, "SERVE", handler, handler.Pos(), an.KeyOf(handler, "live-branch"), "otherwise (offset <= tso) the record is built from the live window for the requested offset", "builder call under offset <= tso")
	c.Check(okAligned, "SERVE", handler, handler.Pos(), an.KeyOf(handler, "aligned"), "misaligned offsets are refused before any lookup (tso % 2016 == 0 dominates)", "dominating fact")
	c.Count("SERVE", 3)
	// the week that is checked and served is the week that was asked for: a number parsed from the request is narrowed
	// only when nothing is lost (otherwise 2^32 + k is served as week k)
	for _, b := range handler.Blocks {
		for _, in := range b.Instrs {
			cv, ok := in.(*ssa.Convert)
			if !ok {
				continue
			}
			from, _, ok1 := intBits(cv.X.Type())
			to, toSigned, ok2 := intBits(cv.Type())
			xt := fi.Term(cv.X)
			if !ok1 || !ok2 || to >= from || !xt.Contains(func(t *an.Term) bool {
				return (t.K == an.KPure || t.K == an.KCall) && strings.HasPrefix(t.Callee(), "strconv.Parse")
			}) {
				continue
			}
			hi := int64(1)<<uint(to) - 1
			lo := int64(0)
			if toSigned {
				hi = int64(1)<<uint(to-1) - 1
				lo = -(int64(1) << uint(to-1))
			}
			sys := fi.SysFor(cv)
			c.Check(sys.ProveLE(xt, hi) && sys.ProveGE(xt, lo), "SERVE", handler, cv.Pos(), an.KeyOf(handler, "request-number-lossless"),
				"a number parsed from the request is converted to a narrower type only when it fits (the offset that is checked and served is the offset that was requested)", "range of the parsed value "+sys.Describe(xt)+", target "+cv.Type().String())
			c.Count("SERVE", 1)
		}
	}
}

func rotateRules(c *an.Ctx, cg contigResult) {
	statsSaverRule(c)
	p := c.P
	if len(cg.Rotations) == 0 {
		c.Violated("ROTATE", nil, 0, "rotation", "no rotation function recognised (append of the built record + offset += 2016)", "CONTIG found no rotation")
		return
	}
	rot := cg.Rotations[0]
	c.Scope(rot)
	fi := p.Info(rot)
	lf := p.LockFlowOf(rot)
	// the appended record and the saver call with the same record
	var appendSt *ssa.Store
	var rec *an.Term
	var offsetSt *ssa.Store
	for _, b := range rot.Blocks {
		for _, in := range b.Instrs {
			if st, ok := in.(*ssa.Store); ok {
				if e, ok := archiveAppend(fi, st); ok {
					appendSt, rec = st, e
				}
				if f, ok := fi.RefClass(st.Addr).FieldOf("GCAServer"); ok && f == "equipmentReportsOffset" {
					offsetSt = st
				}
			}
		}
	}
	if appendSt == nil || offsetSt == nil {
		c.Violated("ROTATE", rot, rot.Pos(), an.KeyOf(rot, "shape"), "rotation shape not recognised", "append or offset store missing")
		return
	}
	// saved with one append-mode write
	var saveCall *ssa.Call
	for _, b := range rot.Blocks {
		for _, in := range b.Instrs {
			if call, ok := in.(*ssa.Call); ok {
				if sc := call.Call.StaticCallee(); sc != nil && an.IsRepoFunc(sc) && len(call.Call.Args) == 2 && fi.Term(call.Call.Args[1]).Key() == rec.Key() {
					if e := p.Effect(sc); e != nil && e.FileOps["os.OpenFile"] {
						saveCall = call
					}
				}
			}
		}
	}
	c.Check(saveCall != nil && an.Held(lf.StateAt(saveCall, "GCAServer.mu")), "ROTATE", rot, rot.Pos(), an.KeyOf(rot, "save-record"), "the appended record is also written to the statistics file, in the same critical section", "saver called with the same record value")
	if saveCall != nil {
		// failure stops the process: the err != nil edge panics
		stops := false
		if refs := saveCall.Referrers(); refs != nil {
			for _, r := range *refs {
				if bo, ok := r.(*ssa.BinOp); ok && bo.Referrers() != nil {
					for _, r2 := range *bo.Referrers() {
						if iff, ok := r2.(*ssa.If); ok {
							tb := iff.Block().Succs[0]
							for _, in := range tb.Instrs {
								if _, isPanic := in.(*ssa.Panic); isPanic {
									stops = true
								}
							}
						}
					}
				}
			}
		}
		c.Check(stops, "ROTATE", rot, saveCall.Pos(), an.KeyOf(rot, "save-failure-stops"), "if the record cannot be written the process stops (memory never runs ahead of a disk that silently lost the week)", "err != nil edge panics")
		c.Check(an.Dominates(saveCall, offsetSt), "ROTATE", rot, offsetSt.Pos(), an.KeyOf(rot, "save-before-advance"), "the record is on disk before the window offset advances", "saver call dominates offset += 2016")
	}
	// shifts
	type shift struct {
		call     *ssa.Call // the instruction in the rotation function (the copy itself, or the call of the helper that performs it)
		dst, src *an.Term
		field    string
		seq      int // position among the copies of one helper
	}
	var shifts []shift
	collect := func(fn *ssa.Function, ffi *an.FuncInfo, at *ssa.Call, fieldOfDst func(dst ssa.Value) string, inst func(t *an.Term) *an.Term) {
		seq := 0
		for _, b := range fn.Blocks {
			for _, in := range b.Instrs {
				call, ok := in.(*ssa.Call)
				if !ok {
					continue
				}
				bi, ok := call.Call.Value.(*ssa.Builtin)
				if !ok || bi.Name() != "copy" {
					continue
				}
				f := fieldOfDst(call.Call.Args[0])
				if f != "equipmentReports" && f != "equipmentImpactRate" {
					continue
				}
				d, sr := inst(ffi.Term(call.Call.Args[0])), inst(ffi.Term(call.Call.Args[1]))
				if d == nil || sr == nil || d.K != an.KSlice || sr.K != an.KSlice {
					continue
				}
				pos := call
				if at != nil {
					pos = at
				}
				seq++
				shifts = append(shifts, shift{pos, d, sr, f, seq})
			}
		}
	}
	collect(rot, fi, nil, func(dst ssa.Value) string {
		f, _ := fi.RefClass(dst).FieldOf("GCAServer")
		return f
	}, func(t *an.Term) *an.Term { return t })
	// copies performed by a straight-line helper that is handed the array (shiftDownOneWeek(report))
	for _, b := range rot.Blocks {
		for _, in := range b.Instrs {
			hc, ok := in.(*ssa.Call)
			if !ok {
				continue
			}
			sc := hc.Call.StaticCallee()
			if sc == nil || sc.Pkg != rot.Pkg || !p.Transparent(sc) {
				continue
			}
			hfi := p.Info(sc)
			collect(sc, hfi, hc, func(dst ssa.Value) string {
				// the destination is (a slice of) a parameter: the field is that of the argument
				t := hfi.Term(dst)
				for t.K == an.KSlice {
					t = t.A[0]
				}
				for k, prm := range sc.Params {
					if hfi.Term(prm).Key() == t.Key() && k < len(hc.Call.Args) {
						f, _ := fi.RefClass(hc.Call.Args[k]).FieldOf("GCAServer")
						return f
					}
				}
				return ""
			}, func(t *an.Term) *an.Term { return fi.InstantiateTerm(t, hc) })
		}
	}
	// the same shift written slot by slot: for i := 0; i < 2016; i++ { a[i] = a[i+2016]; a[i+2016] = zero }
	elemForm := map[string]bool{}
	shiftStores := map[*ssa.Store]bool{}
	defer func() {
		// the rotation function writes the report and rate arrays only by the shift
		for _, b := range rot.Blocks {
			for _, in := range b.Instrs {
				st, ok := in.(*ssa.Store)
				if !ok || shiftStores[st] {
					continue
				}
				if at := fi.Term(st.Addr); at.K != an.KIA && at.K != an.KFA {
					continue
				}
				if f, ok := fi.RefClass(st.Addr).FieldOf("GCAServer"); ok && (f == "equipmentReports" || f == "equipmentImpactRate") && len(fi.RefClass(st.Addr).Path) >= 3 {
					c.Violated("ROTATE", rot, st.Pos(), an.KeyOf(rot, "only-the-shift:"+f), "the rotation writes a slot of "+f+" other than by moving the second week down and blanking it", "store to "+short(fi.Term(st.Addr).Key()))
				}
			}
		}
	}()
	for _, field := range []string{"equipmentReports", "equipmentImpactRate"} {
		var down, blank *ssa.Store
		var loopOf *natLoop
		for _, b := range rot.Blocks {
			for _, in := range b.Instrs {
				st, ok := in.(*ssa.Store)
				if !ok {
					continue
				}
				at := fi.Term(st.Addr)
				if at.K != an.KIA {
					continue
				}
				if f, ok := fi.RefClass(st.Addr).FieldOf("GCAServer"); !ok || f != field {
					continue
				}
				l := innermostLoopOf(rot, st.Block())
				if l == nil {
					continue
				}
				li, ok := countingLoop(fi, l)
				if !ok || !(li.trip.k == 2016 && len(li.trip.co) == 0) {
					continue
				}
				idx := linearize(at.A[1])
				rest, ci := idx.without(li.key)
				if ci != 1 || len(rest.co) != 0 {
					continue
				}
				off := rest.k + li.off // index = i + off with i = 0, 1, ...
				vt := fi.Term(st.Val)
				switch {
				case off == 0:
					// a[i] = a[i+2016]
					if vt.K == an.KLoad && vt.A[0].K == an.KIA && vt.A[0].A[0].Key() == at.A[0].Key() {
						r2, c2 := linearize(vt.A[0].A[1]).without(li.key)
						if c2 == 1 && len(r2.co) == 0 && r2.k+li.off == 2016 {
							down, loopOf = st, l
						}
					}
				case off == 2016:
					// a[i+2016] = zero value
					if isZeroValueTerm(vt, st.Val) {
						blank = st
					}
				}
			}
		}
		if down != nil && blank != nil {
			shiftStores[down], shiftStores[blank] = true, true
			ok := loopOf.everyIteration(down.Block()) && loopOf.everyIteration(blank.Block()) && len(loopOf.earlyExits()) == 0 &&
				fi.Term(down.Addr).A[0].Key() == fi.Term(blank.Addr).A[0].Key() &&
				an.Dominates(down, blank) && an.Held(lf.StateAt(down, "GCAServer.mu")) && an.Held(lf.StateAt(blank, "GCAServer.mu")) && an.Dominates(appendSt, down)
			elemForm[field] = true
			c.Check(ok, "ROTATE", rot, down.Pos(), an.KeyOf(rot, "shift:"+field),
				"for every device and every i in 0..2015, a[i] = a[i+2016] precedes a[i+2016] = zero on the same array, on every pass of the slot loop, under the lock, after the week was archived: every slot's value moves down unchanged, nothing is lost, shifted or duplicated ("+field+")",
				"slot-by-slot form of the shift")
		}
	}
	c.Count("ROTATE", len(shifts)+2*len(elemForm))
	c.Floor("ROTATE", 2)
	for _, field := range []string{"equipmentReports", "equipmentImpactRate"} {
		if elemForm[field] {
			continue
		}
		var down, blank *shift
		for i := range shifts {
			s := &shifts[i]
			if s.field != field {
				continue
			}
			lo, _ := s.dst.A[1].IsConst()
			hi, _ := s.dst.A[2].IsConst()
			switch {
			case lo == "0" && hi == "2016":
				down = s
			case lo == "2016" && hi == "end":
				blank = s
			default:
				c.Violated("ROTATE", rot, s.call.Pos(), an.KeyOf(rot, "shift-bounds:"+field+":"+lo+":"+hi), "a copy into the "+field+" arrays uses bounds other than [:2016] and [2016:]", "destination "+short(s.dst.Key()))
			}
		}
		key := an.KeyOf(rot, "shift:"+field)
		if down == nil || blank == nil {
			c.Violated("ROTATE", rot, rot.Pos(), key, "the rotation does not both move the second week down and blank it for "+field, "copies found: "+fmt.Sprint(len(shifts)))
			continue
		}
		srcLo, _ := down.src.A[1].IsConst()
		srcHi, _ := down.src.A[2].IsConst()
		sameArr := down.src.A[0].Key() == down.dst.A[0].Key() && blank.dst.A[0].Key() == down.dst.A[0].Key()
		okDown := srcLo == "2016" && srcHi == "end" && sameArr
		// blank source: a fresh zero array of 2016 elements
		okBlank := blank.src.K == an.KSlice && blank.src.A[0].K == an.KAlloc
		if al, ok := blank.src.A[0].Val.(*ssa.Alloc); ok {
			// never written
			for _, r := range *al.Referrers() {
				if _, isSt := r.(*ssa.Store); isSt {
					okBlank = false
				}
			}
		}
		order := an.Dominates(down.call, blank.call) || (down.call == blank.call && down.seq < blank.seq)
		held := an.Held(lf.StateAt(down.call, "GCAServer.mu")) && an.Held(lf.StateAt(blank.call, "GCAServer.mu"))
		afterBuild := an.Dominates(appendSt, down.call)
		c.Check(okDown && okBlank && order && held && afterBuild, "ROTATE", rot, down.call.Pos(), key,
			"for every device copy(a[:2016], a[2016:]) precedes copy(a[2016:], zeros) on the same array, under the lock, after the week was archived: every slot's value moves down unchanged, nothing is lost, shifted or duplicated ("+field+")",
			fmt.Sprintf("down %v blank %v order %v locked %v after-archive %v", okDown, okBlank, order, held, afterBuild))
	}
	// offset advanced after the shifts, once
	nOff := 0
	for _, b := range rot.Blocks {
		for _, in := range b.Instrs {
			if st, ok := in.(*ssa.Store); ok {
				if f, ok := fi.RefClass(st.Addr).FieldOf("GCAServer"); ok && f == "equipmentReportsOffset" {
					nOff++
				}
			}
		}
	}
	inLoop := false
	for _, s := range offsetSt.Block().Succs {
		if reachable(s, offsetSt.Block()) {
			inLoop = true
		}
	}
	c.Check(nOff == 1 && !inLoop, "ROTATE", rot, offsetSt.Pos(), an.KeyOf(rot, "advance-once"), "the window offset advances by 2016 exactly once per rotation", fmt.Sprintf("%d stores, in a loop: %v", nOff, inLoop))
	// one critical section: no unlock between the build and the offset store
	c.Check(an.Held(lf.StateAt(appendSt, "GCAServer.mu")) && an.Held(lf.StateAt(offsetSt, "GCAServer.mu")) &&
		fi.VersionAt(appendSt, an.Class{Root: "T:GCAServer", Path: []string{"mu"}}) == fi.VersionAt(offsetSt, an.Class{Root: "T:GCAServer", Path: []string{"mu"}}),
		"ROTATE", rot, rot.Pos(), an.KeyOf(rot, "one-section"), "archive, shift and advance happen in one critical section (no observer sees a half-rotated window)", "no lock operation between the append and the offset store")
}

// isZeroValueTerm: the stored value is the zero value of its type (0, 0.0, or an empty composite literal).
func isZeroValueTerm(t *an.Term, v ssa.Value) bool {
	if k, ok := v.(*ssa.Const); ok {
		if k.Value == nil {
			return true // zero value of an aggregate / nil
		}
		if k.Value.Kind() == constant.Int || k.Value.Kind() == constant.Float {
			return constant.Sign(k.Value) == 0
		}
		return false
	}
	// glow.EquipmentReport{} : a load of a fresh local that is never written
	if ld, ok := v.(*ssa.UnOp); ok && ld.Op == token.MUL {
		if al, ok := ld.X.(*ssa.Alloc); ok && al.Referrers() != nil {
			for _, r := range *al.Referrers() {
				switch r.(type) {
				case *ssa.UnOp, *ssa.DebugRef:
				default:
					return false
				}
			}
			return true
		}
	}
	return false
}

// statsSaverRule: the function that appends an archived week to allDeviceStats.dat writes the record it was given:
// nothing in it changes the record (or hands its device list to code that may reorder or change it) before it is
// serialized, so the bytes on disk are the bytes the builder signed.
func statsSaverRule(c *an.Ctx) {
	p := c.P
	n := 0
	for _, fn := range p.FuncsIn("server") {
		proto, _ := p.WriterProtocol(fn, "allDeviceStats.dat")
		if proto != "append-1" || len(fn.Params) < 2 {
			continue
		}
		fi := p.Info(fn)
		var rec *ssa.Parameter
		for _, q := range fn.Params {
			if strings.HasSuffix(q.Type().String(), "AllDeviceStats") {
				rec = q
			}
		}
		if rec == nil {
			continue
		}
		n++
		c.Scope(fn)
		recT := fi.Term(rec)
		ok, why := true, "the record parameter is only serialized"
		for _, b := range fn.Blocks {
			for _, in := range b.Instrs {
				switch x := in.(type) {
				case *ssa.Store:
					at := fi.Term(x.Addr)
					if _, isParam := x.Val.(*ssa.Parameter); isParam {
						continue // the spill of the parameter itself
					}
					if at.Contains(func(t *an.Term) bool { return t.Key() == recT.Key() }) || strings.Contains(fi.RefClass(x.Addr).String(), "DeviceStats") {
						ok, why = false, "store into the record at "+p.Pos(x.Pos())
					}
				case *ssa.Call:
					cn := an.CalleeName(&x.Call)
					if strings.HasSuffix(cn, "AllDeviceStats).Serialize") || strings.HasPrefix(cn, "(*os.File).") || strings.HasPrefix(cn, "os.") || strings.HasPrefix(cn, "fmt.") || strings.HasPrefix(cn, "path/filepath.") {
						continue
					}
					for _, a := range x.Call.Args {
						at := fi.Term(a)
						if _, isBasic := a.Type().Underlying().(*types.Basic); isBasic {
							continue // a number or a string derived from the record cannot change it
						}
						if strings.Contains(a.Type().String(), "DeviceStats") || at.Contains(func(t *an.Term) bool { return (t.K == an.KField || t.K == an.KFA) && t.S == "Devices" }) {
							ok, why = false, "the record (or its device list) is handed to "+cn+" at "+p.Pos(x.Pos())+" before it is written"
						}
					}
				}
			}
		}
		c.Check(ok, "ROTATE", fn, fn.Pos(), an.KeyOf(fn, "saver-writes-signed-record"), "the archive saver writes the record exactly as it received it (the builder signed it; reordering or changing it afterwards leaves a record on disk that does not verify)", why)
	}
	c.Count("STATS-SAVER", n)
	c.Floor("STATS-SAVER", 1)
}

func immutableRules(c *an.Ctx) {
	p := c.P
	n, bad := 0, 0
	for _, fn := range p.FuncsIn("server") {
		for _, a := range p.AccessesOf(fn) {
			f, ok := a.Cls.FieldOf("GCAServer")
			if !ok || f != "equipmentStatsHistory" {
				continue
			}
			if !a.Write {
				continue
			}
			n++
			if len(a.Cls.Path) == 1 {
				continue // whole-slice store: checked by CONTIG to be an append
			}
			if len(a.Cls.Path) == 2 && a.What == "append (may write spare capacity)" {
				continue // append writes only beyond len
			}
			bad++
			c.Violated("IMMUTABLE", fn, a.Instr.Pos(), an.KeyOf(fn, "archive-write:"+a.Cls.String()), "a "+a.What+" writes into storage that may belong to an archived week ("+a.Cls.String()+")", "archived weeks must be identical for ever; the value was copied out of equipmentStatsHistory and is written through")
		}
	}
	c.Count("IMMUTABLE", n)
	c.Floor("IMMUTABLE", 2)
	if bad == 0 {
		c.Proved("IMMUTABLE", nil, 0, "archive-never-written", "no instruction in the server stores through a value that may originate from the archive list; only whole-record appends write it", fmt.Sprintf("%d writes to the archive list examined (origin classes follow slice headers copied out of shared state)", n))
	}
	// the file is opened only in append mode
	for _, fn := range p.FuncsIn("server") {
		fi := p.Info(fn)
		for _, b := range fn.Blocks {
			for _, in := range b.Instrs {
				call, ok := in.(*ssa.Call)
				if !ok {
					continue
				}
				name := an.CalleeName(&call.Call)
				if name != "os.OpenFile" && name != "os.Create" && name != "os.WriteFile" && name != "io/ioutil.WriteFile" {
					continue
				}
				if fi.PathFileName(call.Call.Args[0]) != "allDeviceStats.dat" {
					continue
				}
				switch name {
				case "os.OpenFile":
					flags := fi.Term(call.Call.Args[1])
					v, _ := flags.ConstInt()
					okf := false
					if v != nil {
						iv, _ := new(big.Int).SetString(v.ExactString(), 10)
						fl := iv.Int64()
						okf = fl&0x400 != 0 && fl&0x200 == 0 // O_APPEND set, O_TRUNC clear (linux)
					}
					c.Check(okf, "IMMUTABLE", fn, call.Pos(), an.KeyOf(fn, "stats-file-append"), "the statistics file is opened with O_APPEND and without O_TRUNC", "flags "+short(flags.Key()))
				case "os.Create":
					// creating the file when it does not exist
					c.Check(p.ConstructionPhase("server", p.Constructor("server", "GCAServer"))[fn], "IMMUTABLE", fn, call.Pos(), an.KeyOf(fn, "stats-file-create"), "the statistics file is created (empty) only during construction when it does not exist", an.FuncName(fn))
				default:
					c.Violated("IMMUTABLE", fn, call.Pos(), an.KeyOf(fn, "stats-file-rewrite"), "the statistics file is rewritten with "+name, "archived weeks would be replaced on disk")
				}
			}
		}
	}
}

// builderRefusalHonoured: the builder refuses weeks it cannot serve (before the archive, in the future) through its
// error result; every caller looks at that result - it reaches a nil test, a return or a panic - so a refusal is never
// served as an (empty, unsigned) record.
func builderRefusalHonoured(c *an.Ctx, builder *ssa.Function) {
	p := c.P
	n := 0
	for _, site := range p.CallSites(builder) {
		call, ok := site.(*ssa.Call)
		if !ok {
			continue
		}
		n++
		res := builder.Signature.Results()
		errIdx := res.Len() - 1
		used := false
		seen := map[ssa.Value]bool{}
		var follow func(v ssa.Value)
		follow = func(v ssa.Value) {
			if seen[v] || v.Referrers() == nil {
				return
			}
			seen[v] = true
			for _, r := range *v.Referrers() {
				switch x := r.(type) {
				case *ssa.BinOp:
					if x.Op == token.EQL || x.Op == token.NEQ {
						used = true
					}
				case *ssa.Return, *ssa.Panic:
					used = true
				case *ssa.Phi:
					follow(x)
				case *ssa.Call:
					used = true // handed on (wrapped, logged-and-returned, ...)
				case *ssa.Store:
					// spilled to a local: the loads of that local
					if al, isAl := x.Addr.(*ssa.Alloc); isAl && al.Referrers() != nil {
						for _, r2 := range *al.Referrers() {
							if ld, isLd := r2.(*ssa.UnOp); isLd && ld.Op == token.MUL {
								follow(ld)
							}
						}
					}
				case *ssa.MakeInterface:
					follow(x)
				}
			}
		}
		if call.Referrers() != nil {
			for _, r := range *call.Referrers() {
				if ex, isEx := r.(*ssa.Extract); isEx && ex.Index == errIdx {
					follow(ex)
				}
			}
		}
		c.Check(used, "BUILD", site.Parent(), site.Pos(), an.KeyOf(site.Parent(), "builder-error-honoured"), "the caller of the statistics builder looks at its error result (a refused week - before the archive, in the future - is not served or archived as an empty record)", "referrers of the error result")
	}
	c.Count("BUILD-callers", n)
	c.Floor("BUILD-callers", 2)
}
