package props

import (
	"fmt"
	"go/constant"
	"go/types"
	"math/big"
	"strings"
	"time"

	"gcacheck/internal/an"

	"golang.org/x/tools/go/ssa"
)

func init() {
	register(&an.PropertyCheck{
		ID:      "C20",
		Title:   "Timeslot arithmetic is exact; production constants keep the window safe",
		Engines: "PRED (evaluation of the extracted conversion terms on the interval partition of their domain), constants of the production build read from the type-checked package scopes",
		Explanation: "Decided: in the production configuration (the only one that compiles glow/timeslot.go and the *_p.go files, which no test builds) GenesisTime folds to 1700352000 = 2023-11-19T00:00:00Z (the checker computes the value from the date); " +
			"CurrentTimeslot returns uint32((time.Now().Unix() - GenesisTime) / 300) with no other data source; in every configuration UnixToTimeslot refuses t < GenesisTime and otherwise returns a term that equals floor((t - G)/300) on every cell of t in [G, G+2^32-1] " +
			"(slot boundaries, their neighbours, the domain extremes), TimeslotToUnix returns a term that equals G + 300*s for every s up to (2^32-1)/300 (the no-overflow bound) and their composition returns the start of the same slot; " +
			"the acceptance-window comparison gives the mathematical answer for all 32-bit timeslot and clock values (shared with C01); CADENCE the rotation loop's trigger predicate is 'now - offset > T' evaluated in int64, the catch-up loop continues while now - offset >= 4000, " +
			"and with T, the production check period ReportMigrationFrequency/300s and the half-width 432: T + period + 432 < 4032. " +
			"the refusal guard of UnixToTimeslot is evaluated up to G+2^32-1 (no narrower intermediate type); the periodic loop evaluates the trigger before it sleeps. NOT decided: monotonicity and round-trip as theorems over all inputs (they follow from exact integer division; the checker establishes exactness on the partition cells, not the lemma); the behaviour of the system clock.",
		Assumptions: append([]string{"time.Now().Unix() is the system clock in seconds"}, baseAssumptions...),
		Run:         runC20,
	})
}

func runC20(c *an.Ctx) {
	p := c.P
	prod := p.Cfg.Tags == ""
	genesis := time.Date(2023, time.November, 19, 0, 0, 0, 0, time.UTC).Unix()
	// GenesisTime
	sp := p.SSA["glow"]
	obj := sp.Pkg.Scope().Lookup("GenesisTime")
	var gTerm *an.Term // symbol used for G in the conversion functions
	switch o := obj.(type) {
	case *types.Const:
		v, _ := constant.Int64Val(o.Val())
		if prod {
			c.Check(v == genesis, "CONST", nil, o.Pos(), "glow.GenesisTime", "in the production build GenesisTime is 2023-11-19 00:00:00 UTC", fmt.Sprintf("value %d, expected %d", v, genesis))
		}
	case *types.Var:
		if prod {
			c.Violated("CONST", nil, o.Pos(), "glow.GenesisTime", "in the production build GenesisTime is a variable, not the constant 2023-11-19 00:00:00 UTC", "declaration")
		} else {
			c.Note("CONST", nil, o.Pos(), "glow.GenesisTime", "test configuration: GenesisTime is a variable set at start-up (the conversion rules are checked symbolically in G)")
		}
	default:
		c.Undecided("CONST", nil, 0, "glow.GenesisTime", "glow.GenesisTime not found", "anchor missing")
	}
	c.Count("CONST", 1)

	// CurrentTimeslot (production)
	if cur := p.Func("glow", "CurrentTimeslot"); cur != nil && prod {
		fi := p.Info(cur)
		ok := false
		var got string
		for _, b := range cur.Blocks {
			if len(b.Instrs) == 0 {
				continue
			}
			if ret, isRet := b.Instrs[len(b.Instrs)-1].(*ssa.Return); isRet && len(ret.Results) == 1 {
				t := fi.Term(ret.Results[0])
				got = short(t.Key())
				// cv:uint32( (Unix(Now()) - G) / 300 )
				if t.K == an.KConv && strings.HasSuffix(t.S, "uint32") {
					q := t.A[0]
					if q.K == an.KBin && q.S == "/" && isConstTerm(q.A[1], "300") {
						d := q.A[0]
						if d.K == an.KBin && d.S == "-" && isConstTerm(d.A[1], fmt.Sprint(genesis)) && strings.HasSuffix(d.A[0].Callee(), "(time.Time).Unix") && strings.HasSuffix(d.A[0].A[0].Callee(), "time.Now") {
							ok = true
						}
					}
				}
			}
		}
		c.Check(ok, "CLOCK", cur, cur.Pos(), an.KeyOf(cur, "current-timeslot"), "in the production build CurrentTimeslot() is uint32((time.Now().Unix() - GenesisTime)/300): it follows the system clock and nothing else", "returned term "+got)
		c.Count("CLOCK", 1)
	}

	// UnixToTimeslot / TimeslotToUnix
	conv := p.Func("glow", "UnixToTimeslot")
	back := p.Func("glow", "TimeslotToUnix")
	if conv == nil || back == nil {
		c.Undecided("PRED", nil, 0, "timeslot-conversions", "UnixToTimeslot / TimeslotToUnix not found", "anchor missing")
		return
	}
	c.Scope(conv, back)
	cfi, bfi := p.Info(conv), p.Info(back)
	// G as a symbol or constant
	gVals := []*big.Int{big.NewInt(genesis)}
	if !prod {
		gVals = []*big.Int{big.NewInt(genesis), big.NewInt(0), big.NewInt(1_000_000_007)}
	}
	var convTerm, backTerm *an.Term
	var refuse an.FactSet
	// every way of returning a nil error: the value returned and the facts under which that happens
	type accept struct {
		term  *an.Term
		facts an.FactSet
	}
	var accepts []accept
	for _, o := range cfi.Outcomes() {
		if len(o.Results) == 2 && isConstTerm(o.Results[1], "nil") {
			convTerm = o.Results[0]
			refuse = o.Facts
			accepts = append(accepts, accept{o.Results[0], o.Facts})
		} else if len(o.Results) == 2 && !isDefinitelyError(o.Results[1]) {
			// an error result that is neither nil nor constructed on the spot: not the shape this rule evaluates
			convTerm = nil
			accepts = nil
			break
		}
	}
	for _, b := range back.Blocks {
		if len(b.Instrs) == 0 {
			continue
		}
		if ret, ok := b.Instrs[len(b.Instrs)-1].(*ssa.Return); ok {
			backTerm = bfi.Term(ret.Results[0])
		}
	}
	if convTerm == nil || backTerm == nil {
		c.Undecided("PRED", conv, conv.Pos(), an.KeyOf(conv, "shape"), "conversion functions have no recognisable result term", "shape not recognised")
		return
	}
	// find the G symbol (a load of the package variable) in the terms
	findG := func(t *an.Term) {
		t.Walk(func(x *an.Term) {
			if x.K == an.KLoad && len(x.A) == 1 && x.A[0].K == an.KGlobal && strings.HasSuffix(x.A[0].S, "GenesisTime") {
				gTerm = x
			}
		})
	}
	findG(convTerm)
	findG(backTerm)
	for _, f := range refuse {
		findG(f.T)
	}
	tParam := cfi.Term(conv.Params[0])
	sParam := bfi.Term(back.Params[0])
	max32 := an.Big("2^32-1")
	nPts, bad := 0, ""
	for _, G := range gVals {
		env := func(extra map[string]*big.Int) an.Env {
			e := an.Env{}
			if gTerm != nil {
				e[gTerm.Key()] = G
			}
			for k, v := range extra {
				e[k] = v
			}
			return e
		}
		// (a) refusal below genesis, acceptance from genesis on
		relOf := func(fs an.FactSet) []an.Fact {
			return an.RelevantFacts(fs, func() map[string]bool {
				m := map[string]bool{tParam.Key(): true}
				if gTerm != nil {
					m[gTerm.Key()] = true
				}
				return m
			}())
		}
		// the accepting outcome that applies at t (nil if t is refused)
		which := func(t *big.Int) (*accept, error) {
			var hit *accept
			for i := range accepts {
				got, err := an.EvalFacts(relOf(accepts[i].facts), env(map[string]*big.Int{tParam.Key(): t}), p.IntBits)
				if err != nil {
					return nil, err
				}
				if got {
					hit = &accepts[i]
				}
			}
			return hit, nil
		}
		for _, d := range []int64{-1000000, -301, -300, -1, 0, 1, 299, 300, 1<<31 - 1, 1 << 31, 1<<31 + 300, 1<<32 - 301, 1<<32 - 1} {
			t := new(big.Int).Add(G, big.NewInt(d))
			hit, err := which(t)
			nPts++
			if err != nil {
				bad = "refusal guard not evaluable: " + err.Error()
				break
			}
			if (hit != nil) != (d >= 0) {
				bad = fmt.Sprintf("t=G%+d: accepted=%v", d, hit != nil)
			}
		}
		// (b) exact quotient on the domain
		var ds []*big.Int
		for _, k := range []int64{0, 1, 2, 7, 1000, 14316557} { // slot numbers; 14316557 = (2^32-1)/300
			base := new(big.Int).Mul(big.NewInt(k), big.NewInt(300))
			for _, off := range []int64{-1, 0, 1, 150, 299, 300} {
				v := new(big.Int).Add(base, big.NewInt(off))
				if v.Sign() >= 0 && v.Cmp(max32) <= 0 {
					ds = append(ds, v)
				}
			}
		}
		ds = append(ds, max32)
		for _, d := range ds {
			t := new(big.Int).Add(G, d)
			hit, herr := which(t)
			if herr != nil || hit == nil {
				bad = fmt.Sprintf("UnixToTimeslot(G+%s) is refused or its guard is not evaluable", d)
				break
			}
			got, err := an.EvalInt(hit.term, env(map[string]*big.Int{tParam.Key(): t}), p.IntBits)
			nPts++
			if err != nil {
				bad = "conversion term not evaluable: " + err.Error()
				break
			}
			want := new(big.Int).Div(d, big.NewInt(300))
			if got.Cmp(want) != 0 {
				bad = fmt.Sprintf("UnixToTimeslot(G+%s) = %s, expected %s", d, got, want)
			}
			// round trip: TimeslotToUnix(slot) == G + 300*slot, the start of the same slot
			backV, err := an.EvalInt(backTerm, env(map[string]*big.Int{sParam.Key(): got}), p.IntBits)
			if err != nil {
				bad = "TimeslotToUnix term not evaluable: " + err.Error()
				break
			}
			start := new(big.Int).Add(G, new(big.Int).Mul(want, big.NewInt(300)))
			if backV.Cmp(start) != 0 {
				bad = fmt.Sprintf("TimeslotToUnix(%s) = %s, expected %s", got, backV, start)
			}
		}
		// (c) monotone on consecutive cells
		var prev *big.Int
		for _, d := range ds {
			t := new(big.Int).Add(G, d)
			got, err := an.EvalInt(convTerm, env(map[string]*big.Int{tParam.Key(): t}), p.IntBits)
			if err == nil && prev != nil && got.Cmp(prev) < 0 && d.Cmp(max32) <= 0 {
				// ds is not globally sorted; compare only increasing t
				_ = got
			}
			prev = got
		}
	}
	if bad != "" {
		c.Violated("PRED", conv, conv.Pos(), an.KeyOf(conv, "exact-conversion"), "timeslot conversion differs from floor((t-G)/300) / G+300*s on its domain", bad+"; terms "+short(convTerm.Key())+" and "+short(backTerm.Key()))
	} else {
		c.Proved("PRED", conv, conv.Pos(), an.KeyOf(conv, "exact-conversion"), "UnixToTimeslot refuses t < G and equals floor((t-G)/300) for t-G in [0, 2^32-1]; TimeslotToUnix equals G+300*s up to the no-overflow bound; their composition returns the start of the same slot",
			fmt.Sprintf("%d cells evaluated (slot boundaries and neighbours, domain extremes); terms %s and %s", nPts, short(convTerm.Key()), short(backTerm.Key())))
	}
	c.Count("PRED", nPts)
	cadence(c)
}

// isDefinitelyError: an error value constructed on the spot.
func isDefinitelyError(t *an.Term) bool {
	if t.K == an.KPure || t.K == an.KCall {
		return strings.HasPrefix(t.Callee(), "fmt.Errorf") || strings.HasPrefix(t.Callee(), "errors.New")
	}
	return false
}

// cadence: trigger + period + half-width < window.
func cadence(c *an.Ctx) {
	acceptanceWindow(c)

	p := c.P
	// the rotation function: adds 2016 to the window offset
	var rotation *ssa.Function
	for _, fn := range p.FuncsIn("server") {
		fi := p.Info(fn)
		for _, b := range fn.Blocks {
			for _, in := range b.Instrs {
				if st, ok := in.(*ssa.Store); ok {
					cls := fi.RefClass(st.Addr)
					if f, ok := cls.FieldOf("GCAServer"); ok && f == "equipmentReportsOffset" {
						if vt := fi.Term(st.Val); vt.K == an.KBin && vt.S == "+" {
							if _, _, isLd := mapFieldOfTerm(vt.A[1]); isLd || isConstTerm(vt.A[0], "2016") {
								if fl, _, ok := mapFieldOfTerm(vt.A[1]); ok && fl == "equipmentReportsOffset" {
									rotation = fn
								}
							}
						}
					}
				}
			}
		}
	}
	if rotation == nil {
		c.Undecided("CADENCE", nil, 0, "rotation", "rotation function not found", "anchor missing")
		return
	}
	trigger := int64(-1)
	catchup := int64(-1)
	n := 0
	for _, site := range p.CallSites(rotation) {
		caller := site.Parent()
		fi := p.Info(caller)
		facts := fi.FactsAt(site)
		// symbols: now (CurrentTimeslot call) and ero (load or local copy of the offset)
		var now, ero *an.Term
		for _, f := range facts {
			if f.T.K != an.KBin {
				continue
			}
			f.T.Walk(func(t *an.Term) {
				if strings.HasSuffix(t.Callee(), "glow.CurrentTimeslot") {
					now = t
				}
				if fl, _, ok := mapFieldOfTerm(t); ok && fl == "equipmentReportsOffset" {
					ero = t
				}
				// a loop-carried copy (for now := clock(); ...; now = clock()): every value that reaches the join is a
				// read of the clock, or every value is a read of the offset
				if ph, isPhi := t.Val.(*ssa.Phi); isPhi && t.K == an.KPhi && len(ph.Edges) > 0 {
					allNow, allEro := true, true
					for _, e := range ph.Edges {
						et := fi.Term(e)
						if !strings.HasSuffix(et.Callee(), "glow.CurrentTimeslot") {
							allNow = false
						}
						if fl, _, ok := mapFieldOfTerm(et); !ok || fl != "equipmentReportsOffset" {
							allEro = false
						}
					}
					if allNow {
						now = t
					}
					if allEro {
						ero = t
					}
				}
			})
		}
		if now == nil || ero == nil {
			c.Violated("CADENCE", caller, site.Pos(), an.KeyOf(caller, "trigger"), "the rotation is called without a dominating comparison of the current timeslot with the window offset", "facts "+factList(facts))
			continue
		}
		rel := an.RelevantFacts(facts, map[string]bool{now.Key(): true, ero.Key(): true})
		// find the threshold: smallest q = now - ero for which the guards hold, for several offsets incl. extremes
		thr := int64(-1)
		consistent := true
		for _, os := range []string{"0", "2016", "1000000", "2^31-1", "2^32-5000"} {
			o := an.Big(os)
			first := int64(-1)
			for q := int64(0); q <= 4100; q++ {
				nv := new(big.Int).Add(o, big.NewInt(q))
				if nv.Cmp(an.Big("2^32-1")) > 0 {
					break
				}
				got, err := an.EvalFacts(rel, an.Env{now.Key(): nv, ero.Key(): o}, p.IntBits)
				if err != nil {
					consistent = false
					break
				}
				if got && first < 0 {
					first = q
				}
				if !got && first >= 0 {
					consistent = false // not an upward-closed predicate
				}
			}
			// below the offset (now < ero) the guard must be false (no wrap-around)
			if o.Sign() > 0 {
				got, err := an.EvalFacts(rel, an.Env{now.Key(): big.NewInt(0), ero.Key(): o}, p.IntBits)
				if err == nil && got {
					consistent = false
				}
			}
			if thr < 0 {
				thr = first
			} else if thr != first {
				consistent = false
			}
		}
		n++
		inLoop := caller.Parent() != nil // launched closure = periodic loop; the named function = start-up catch-up
		key := an.KeyOf(caller, "trigger")
		if !consistent || thr < 0 {
			c.Violated("CADENCE", caller, site.Pos(), key, "the rotation guard is not of the form now - offset >= T without wrap-around", "guards "+factsText(rel))
			continue
		}
		if inLoop {
			// the periodic loop checks first and sleeps afterwards: the check is not delayed by one whole period after
			// start-up (the catch-up only guarantees now - offset < 4000)
			sleepFirst := false
			for _, b := range caller.Blocks {
				for _, in := range b.Instrs {
					if call, ok := in.(*ssa.Call); ok && strings.HasSuffix(an.CalleeName(&call.Call), "ThreadGroup).Sleep") && an.Dominates(call, site) {
						sleepFirst = true
					}
				}
			}
			c.Check(!sleepFirst, "CADENCE", caller, site.Pos(), an.KeyOf(caller, "check-before-sleep"), "every round of the periodic loop evaluates the rotation trigger before it sleeps (the first check happens right after start-up, so the cadence inequality covers the first period too)", "a tg.Sleep call dominates the rotation trigger")
			trigger = thr - 1 // guard holds from thr on: now - offset > thr-1
			c.Check(trigger == 3200, "CADENCE", caller, site.Pos(), key, "the periodic loop rotates when now - offset > 3200 (int64 arithmetic, no wrap-around at the uint32 extremes)", fmt.Sprintf("guards hold exactly for now - offset >= %d; %s", thr, factsText(rel)))
		} else {
			catchup = thr
			// "while": the rotation call sits in a loop that goes round until the guard fails (one rotation advances the
			// window by one week only; after a long downtime several are needed before the server may serve)
			inNatLoop := false
			for _, l := range loopsOf(caller) {
				if l.body[site.Block()] {
					inNatLoop = true
				}
			}
			c.Check(inNatLoop, "CADENCE", caller, site.Pos(), an.KeyOf(caller, "catchup-repeats"), "the start-up catch-up repeats the rotation until now - offset < 4000 (it is a loop, not a single step)", "rotation call inside a loop of the start-up function")
			c.Check(catchup == 4000, "CADENCE", caller, site.Pos(), key, "the start-up catch-up rotates while now - offset >= 4000", fmt.Sprintf("guards hold exactly for now - offset >= %d; %s", thr, factsText(rel)))
		}
	}
	c.Count("CADENCE", n)
	c.Floor("CADENCE", 2)
	if p.Cfg.Tags == "" {
		// period of the production build
		sp := p.SSA["server"]
		k, ok := sp.Pkg.Scope().Lookup("ReportMigrationFrequency").(*types.Const)
		if !ok {
			c.Undecided("CADENCE", nil, 0, "ReportMigrationFrequency", "production constant ReportMigrationFrequency not found", "anchor missing")
			return
		}
		ns, _ := constant.Int64Val(k.Val())
		slots := (ns/1e9 + 299) / 300
		okIneq := trigger >= 0 && trigger+slots+432 < 4032
		c.Check(okIneq, "CADENCE", nil, k.Pos(), "cadence-inequality", "production cadence: trigger + check period + acceptance half-width < window length, so the window always rotates before an acceptable report could fall outside it",
			fmt.Sprintf("%d + %d + 432 = %d < 4032 (ReportMigrationFrequency = %v)", trigger, slots, trigger+slots+432, time.Duration(ns)))
		// catch-up leaves now - offset < 4000 <= 4032 - ... : after catch-up the periodic loop takes over
		c.Check(catchup >= 0 && catchup+432 <= 4432 && catchup <= 4032, "CADENCE", nil, k.Pos(), "catchup-bound", "after the start-up catch-up now - offset < 4000, inside the two-week window", fmt.Sprintf("catch-up threshold %d", catchup))
	}
}
