package props

import (
	"fmt"
	"strings"

	"gcacheck/internal/an"

	"golang.org/x/tools/go/ssa"
)

func init() {
	register(&an.PropertyCheck{
		ID:      "C19",
		Title:   "Rate limiter never admits more than the limit per window and never starves",
		Engines: "LOCK (balance, guarded-by), PRED (decision terms in normal form), dominance",
		Explanation: "Decided on glow.RateLimiter: the whole body of Allow, including the clock read, is one critical section of RateLimiter.mu (so any concurrent schedule is a sequence of Allow bodies); every access to the request list is under the lock; " +
			"the admission decision is exactly len(kept) < limit; true is returned only on the path that appends the timestamp read in this call; the retention test is t.After(now.Add(-rate)) on the stored timestamps with the receiver/argument roles as stated, " +
			"the kept suffix starts at the first retained element and is empty if none is retained. These are shape-conditional necessary conditions: a different algorithm is reported as undecided, not as held. " +
			"NOT decided: wall-clock behaviour, scheduler effects and the interval-arithmetic judgement over real arrival schedules (inherently dynamic); monotonicity of time.Now is trusted (timestamps are appended in increasing order).",
		Assumptions: append([]string{"time.Now is monotone within one process (Go monotonic clock reading)", "sync.Mutex provides mutual exclusion"}, baseAssumptions...),
		Run:         runC19,
	})
}

func runC19(c *an.Ctx) {
	p := c.P
	allow := p.Method("glow", "RateLimiter", "Allow")
	if allow == nil {
		c.Undecided("ANCHOR", nil, 0, "RateLimiter.Allow", "method Allow of glow.RateLimiter not found", "anchor missing")
		return
	}
	scope := []*ssa.Function{}
	for _, fn := range p.FuncsIn("glow") {
		if strings.Contains(an.FuncName(fn), "RateLimiter") {
			scope = append(scope, fn)
		}
	}
	c.Scope(scope...)
	lockBalance(c, scope, nil, "C19")
	c.Floor("LOCK-1", 1)
	ctor := p.Constructor("glow", "RateLimiter")
	construction := p.ConstructionPhase("glow", ctor)
	written := p.WrittenOutside(scope, construction)
	spec := an.GuardSpec{Lock: "RateLimiter.mu", Roots: []an.Class{{Root: "T:RateLimiter"}}, Exempt: func(cl an.Class) string {
		if cl.Path[0] == "mu" {
			return "the mutex itself"
		}
		if w, _ := written(cl); !w {
			return "written only by the constructor"
		}
		return ""
	}}
	guardedBy(c, spec, scope, construction)
	c.Floor("LOCK-4", 2)

	fi := p.Info(allow)
	lf := p.LockFlowOf(allow)
	// clock read inside the critical section
	var nowCall *ssa.Call
	for _, b := range allow.Blocks {
		for _, in := range b.Instrs {
			if call, ok := in.(*ssa.Call); ok && an.CalleeName(&call.Call) == "time.Now" {
				nowCall = call
			}
		}
	}
	if nowCall == nil {
		c.Undecided("PRED", allow, allow.Pos(), an.KeyOf(allow, "clock"), "no call to time.Now in Allow", "shape not recognised")
		return
	}
	c.Check(an.Held(lf.StateAt(nowCall, "RateLimiter.mu")), "LOCK-1", allow, nowCall.Pos(), an.KeyOf(allow, "clock-in-section"),
		"the clock is read inside the critical section (admissions are totally ordered consistently with their timestamps)", "lock state at time.Now()")
	nowT := fi.Term(nowCall)

	// returns
	nTrue := 0
	for _, b := range allow.Blocks {
		if len(b.Instrs) == 0 || b == allow.Recover {
			continue
		}
		ret, ok := b.Instrs[len(b.Instrs)-1].(*ssa.Return)
		if !ok || len(ret.Results) != 1 {
			continue
		}
		// (defer spills results into a local; the term forwards the stored constant)
		rt := fi.Term(ret.Results[0])
		kv, isConst := rt.IsConst()
		if !isConst {
			// the answer is a computed condition R: the call must be recorded exactly when R holds, and R must be the limit test
			nTrue++
			okR := false
			if rt.K == an.KBin && rt.S == "<" && rt.A[0].K == an.KLen {
				if fld, _, ok := mapFieldOfTerm(rt.A[0].A[0]); ok && fld == "reqs" {
					if f2, _, ok := mapFieldOfTerm(rt.A[1]); ok && f2 == "limit" {
						okR = true
					}
				}
			}
			c.Check(okR, "PRED", allow, ret.Pos(), an.KeyOf(allow, "admit-pred"), "the answer is the limit test len(kept) < limit on the list as it is after expiry and before this call is recorded", "returned condition "+short(rt.Key()))
			recorded := false
			for _, st := range recordStores(fi, allow, nowT) {
				if fi.FactsAt(st).Has(rt.Key()) {
					recorded = true
				}
			}
			c.Check(recorded, "PRED", allow, ret.Pos(), an.KeyOf(allow, "admit-records"), "the call's timestamp is appended exactly on the path where the returned condition holds", "record stores under the returned condition")
			continue
		}
		if kv != "true" {
			// a refusal: only when the limit is reached
			okFull := false
			for _, f := range fi.FactsAt(ret) {
				t := f.T
				if !f.Neg && t.K == an.KBin && t.S == "<=" && t.A[1].K == an.KLen {
					if fld, _, ok := mapFieldOfTerm(t.A[1].A[0]); ok && fld == "reqs" {
						if f2, _, ok := mapFieldOfTerm(t.A[0]); ok && f2 == "limit" {
							okFull = true
						}
					}
				}
			}
			c.Check(okFull, "PRED", allow, ret.Pos(), an.KeyOf(allow, "refuse-pred"), "false is returned only under limit <= len(kept): a call is admitted whenever fewer than the limit remain in the window (no starvation)", "facts "+factList(fi.FactsAt(ret)))
			continue
		}
		nTrue++
		// facts: len(reqs) < limit
		okPred := false
		var predDesc string
		for _, f := range fi.FactsAt(ret) {
			t := f.T
			if f.Neg || t.K != an.KBin || t.S != "<" {
				continue
			}
			if t.A[0].K == an.KLen {
				if fld, _, ok := mapFieldOfTerm(t.A[0].A[0]); ok && fld == "reqs" {
					if f2, _, ok := mapFieldOfTerm(t.A[1]); ok && f2 == "limit" {
						okPred = true
						predDesc = short(t.Key())
					}
				}
			}
		}
		c.Check(okPred, "PRED", allow, ret.Pos(), an.KeyOf(allow, "admit-pred"), "true is returned only under len(kept) < limit (spec C19.admit: q = len(kept) - limit, q < 0)",
			"dominating fact "+predDesc)
		// an append of now to reqs dominates the return
		okApp := false
		for _, b2 := range allow.Blocks {
			for _, in := range b2.Instrs {
				st, ok := in.(*ssa.Store)
				if !ok || !an.Dominates(st, ret) {
					continue
				}
				cls := fi.RefClass(st.Addr)
				if f, ok := cls.FieldOf("RateLimiter"); !ok || f != "reqs" {
					continue
				}
				if call, ok := st.Val.(*ssa.Call); ok {
					if bi, ok := call.Call.Value.(*ssa.Builtin); ok && bi.Name() == "append" {
						// appended element
						if sl, ok := call.Call.Args[1].(*ssa.Slice); ok {
							if al, ok := sl.X.(*ssa.Alloc); ok {
								if refs := al.Referrers(); refs != nil {
									for _, r := range *refs {
										if ia, ok := r.(*ssa.IndexAddr); ok {
											for _, r2 := range *ia.Referrers() {
												if s2, ok := r2.(*ssa.Store); ok && fi.Term(s2.Val).Key() == nowT.Key() {
													okApp = true
												}
											}
										}
									}
								}
							}
						}
					}
				}
			}
		}
		c.Check(okApp, "PRED", allow, ret.Pos(), an.KeyOf(allow, "admit-records"), "the admitted call's timestamp (the time.Now() read in this call) is appended to the list before true is returned", "store of append(reqs, now)")
	}
	// a recorded call is an admitted call: from every store that appends now to the list, only admitting returns are reachable
	for _, st := range recordStores(fi, allow, nowT) {
		okOnly := true
		why := ""
		seen := map[*ssa.BasicBlock]bool{}
		var walk func(b *ssa.BasicBlock)
		walk = func(b *ssa.BasicBlock) {
			if seen[b] || b == allow.Recover {
				return
			}
			seen[b] = true
			if len(b.Instrs) > 0 {
				if ret, ok := b.Instrs[len(b.Instrs)-1].(*ssa.Return); ok && len(ret.Results) == 1 {
					rt := fi.Term(ret.Results[0])
					if k, isC := rt.IsConst(); isC {
						if k != "true" {
							okOnly = false
							why = "return false at " + p.Pos(ret.Pos()) + " is reachable after the append"
						}
					} else if !fi.FactsAt(st).Has(rt.Key()) {
						okOnly = false
						why = "the returned condition " + short(rt.Key()) + " is not known to hold where the call is recorded"
					}
				}
			}
			for _, s := range b.Succs {
				walk(s)
			}
		}
		walk(st.Block())
		c.Check(okOnly, "PRED", allow, st.Pos(), an.KeyOf(allow, "record-implies-admit"), "a call whose timestamp is appended to the list is always answered true (refused calls leave the list unchanged, so they cannot starve later callers)", why)
	}
	c.Count("PRED", nTrue)
	if nTrue == 0 {
		c.Violated("PRED", allow, allow.Pos(), an.KeyOf(allow, "no-true"), "Allow has no admitting return", "no return of true or of the limit test")
	}

	// retention: the only time comparison is stored.After(now.Add(-rate))
	nCmp := 0
	for _, b := range allow.Blocks {
		for _, in := range b.Instrs {
			call, ok := in.(*ssa.Call)
			if !ok {
				continue
			}
			name := an.CalleeName(&call.Call)
			if !strings.HasPrefix(name, "(time.Time).") {
				continue
			}
			switch name {
			case "(time.Time).After", "(time.Time).Before", "(time.Time).Equal", "(time.Time).Compare", "(time.Time).Sub":
			default:
				continue
			}
			nCmp++
			key := an.KeyOf(allow, "retain-pred")
			recv := fi.Term(call.Call.Args[0])
			arg := fi.Term(call.Call.Args[1])
			okShape := name == "(time.Time).After"
			// receiver: an element of reqs
			recvOK := false
			if rcls := recvOrigin(fi, call.Call.Args[0]); rcls != "" {
				recvOK = rcls == "reqs"
			}
			// argument: now.Add(-rate)
			argOK := false
			if (arg.K == an.KCall || arg.K == an.KPure) && arg.Callee() == "(time.Time).Add" && len(arg.A) == 2 && arg.A[0].Key() == nowT.Key() {
				d := arg.A[1]
				if d.K == an.KUn && d.S == "-" {
					if f, _, ok := mapFieldOfTerm(d.A[0]); ok && f == "rate" {
						argOK = true
					}
				}
			}
			c.Check(okShape && recvOK && argOK, "PRED", allow, call.Pos(), key,
				"a stored timestamp t is retained iff t.After(now.Add(-rate)) (spec C19.keep: t - (now - rate) > 0)",
				"comparison "+name+" receiver "+short(recv.Key())+" argument "+short(arg.Key()))
		}
	}
	if nCmp != 1 {
		c.Violated("FORM", allow, allow.Pos(), an.KeyOf(allow, "retain-count"), "the expiry step must decide retention by exactly one comparison of a stored timestamp with now-rate; found "+fmt.Sprint(nCmp), "the sliding-window rules are established for this form only")
	}
	// kept suffix: reqs = reqs[idx:] or reqs[:0]
	nSl := 0
	for _, b := range allow.Blocks {
		for _, in := range b.Instrs {
			st, ok := in.(*ssa.Store)
			if !ok {
				continue
			}
			cls := fi.RefClass(st.Addr)
			if f, ok := cls.FieldOf("RateLimiter"); !ok || f != "reqs" {
				continue
			}
			sl, ok := st.Val.(*ssa.Slice)
			if !ok {
				continue
			}
			nSl++
			vt := fi.Term(sl)
			key := an.KeyOf(allow, "kept:"+short(vt.Key()))
			lo, hi := vt.A[1], vt.A[2]
			hc, _ := hi.IsConst()
			lc, _ := lo.IsConst()
			switch {
			case hc == "0" && lc == "0":
				// empty: must be on the path where no element was retained (idx == -1)
				okE := false
				for _, f := range fi.FactsAt(st) {
					if f.T.K == an.KBin && f.T.S == "==" {
						for _, a := range f.T.A {
							if k, ok := a.IsConst(); ok && k == "-1" {
								okE = true
							}
						}
					}
				}
				c.Check(okE, "PRED", allow, st.Pos(), key, "the list is emptied only when no stored timestamp is retained", "dominating fact idx == -1")
			case hc == "end":
				// reqs[idx:] where idx is the index of the first retained element
				c.Check(lo.K == an.KPhi, "PRED", allow, st.Pos(), key, "the list keeps the suffix starting at the first retained element", "lower bound "+short(lo.Key()))
			default:
				c.Violated("PRED", allow, st.Pos(), key, "the request list is resliced in an unexpected way: "+short(vt.Key()), "expected reqs[idx:] or reqs[:0]")
			}
		}
	}
	if nSl != 2 {
		c.Violated("FORM", allow, allow.Pos(), an.KeyOf(allow, "kept-count"), "the expiry step must store either the suffix that starts at the first unexpired timestamp (reqs[idx:]) or, when none is unexpired, the empty list (reqs[:0]); found "+fmt.Sprint(nSl)+" reslicing store(s): some path keeps expired entries or drops unexpired ones", "the sliding-window rules are established for this form only")
	}
}

// recvOrigin returns the RateLimiter field a value was taken from (by index or range).
func recvOrigin(fi *an.FuncInfo, v ssa.Value) string {
	for depth := 0; depth < 6; depth++ {
		switch x := v.(type) {
		case *ssa.UnOp:
			if ia, ok := x.X.(*ssa.IndexAddr); ok {
				cls := fi.RefClass(ia.X)
				if f, ok := cls.FieldOf("RateLimiter"); ok {
					return f
				}
				return ""
			}
			v = x.X
		case *ssa.Extract:
			if nx, ok := x.Tuple.(*ssa.Next); ok {
				if rg, ok := nx.Iter.(*ssa.Range); ok {
					cls := fi.RefClass(rg.X)
					if f, ok := cls.FieldOf("RateLimiter"); ok {
						return f
					}
				}
			}
			return ""
		default:
			return ""
		}
	}
	return ""
}

// recordStores: the stores to RateLimiter.reqs of append(reqs, now).
func recordStores(fi *an.FuncInfo, allow *ssa.Function, nowT *an.Term) []*ssa.Store {
	var out []*ssa.Store
	for _, b2 := range allow.Blocks {
		for _, in := range b2.Instrs {
			st, ok := in.(*ssa.Store)
			if !ok {
				continue
			}
			cls := fi.RefClass(st.Addr)
			if f, ok := cls.FieldOf("RateLimiter"); !ok || f != "reqs" {
				continue
			}
			call, ok := st.Val.(*ssa.Call)
			if !ok {
				continue
			}
			bi, ok := call.Call.Value.(*ssa.Builtin)
			if !ok || bi.Name() != "append" {
				continue
			}
			for _, el := range an.VarargElems(call.Call.Args[1]) {
				if el == nil {
					continue
				}
				if fi.Term(el).Key() == nowT.Key() {
					out = append(out, st)
				}
			}
		}
	}
	return out
}
