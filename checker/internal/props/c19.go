package props

import (
	"fmt"
	"strings"

	"gcacheck/internal/an"

	"golang.org/x/tools/go/ssa"
)

func init() {
	register(&an.PropertyCheck{
		ID:      "C19",
		Title:   "Rate limiter never admits more than the limit per window and never starves",
		Engines: "LOCK (balance, guarded-by), PRED (decision terms in normal form), dominance",
		Explanation: "Decided on glow.RateLimiter: the whole body of Allow, including the clock read, is one critical section of RateLimiter.mu (so any concurrent schedule is a sequence of Allow bodies); every access to the request list is under the lock; " +
			"the admission decision is exactly len(kept) < limit; true is returned only on the path that appends the timestamp read in this call; the retention test is t.After(now.Add(-rate)) on the stored timestamps with the receiver/argument roles as stated, " +
			"the kept suffix starts at the first retained element and is empty if none is retained. These are shape-conditional necessary conditions: a different algorithm is reported as undecided, not as held. " +
			"NOT decided: wall-clock behaviour, scheduler effects and the interval-arithmetic judgement over real arrival schedules (inherently dynamic); monotonicity of time.Now is trusted (timestamps are appended in increasing order).",
		Assumptions: append([]string{"time.Now is monotone within one process (Go monotonic clock reading)", "sync.Mutex provides mutual exclusion"}, baseAssumptions...),
		Run:         runC19,
	})
}

func runC19(c *an.Ctx) {
	p := c.P
	allow := p.Method("glow", "RateLimiter", "Allow")
	if allow == nil {
		c.Undecided("ANCHOR", nil, 0, "RateLimiter.Allow", "method Allow of glow.RateLimiter not found", "anchor missing")
		return
	}
	scope := []*ssa.Function{}
	for _, fn := range p.FuncsIn("glow") {
		if strings.Contains(an.FuncName(fn), "RateLimiter") {
			scope = append(scope, fn)
		}
	}
	c.Scope(scope...)
	lockBalance(c, scope, nil, "C19")
	c.Floor("LOCK-1", 1)
	ctor := p.Constructor("glow", "RateLimiter")
	construction := p.ConstructionPhase("glow", ctor)
	written := p.WrittenOutside(scope, construction)
	spec := an.GuardSpec{Lock: "RateLimiter.mu", Roots: []an.Class{{Root: "T:RateLimiter"}}, Exempt: func(cl an.Class) string {
		if cl.Path[0] == "mu" {
			return "the mutex itself"
		}
		if w, _ := written(cl); !w {
			return "written only by the constructor"
		}
		return ""
	}}
	guardedBy(c, spec, scope, construction)
	c.Floor("LOCK-4", 2)

	fi := p.Info(allow)
	lf := p.LockFlowOf(allow)
	// clock read inside the critical section
	var nowCall *ssa.Call
	for _, b := range allow.Blocks {
		for _, in := range b.Instrs {
			if call, ok := in.(*ssa.Call); ok && an.CalleeName(&call.Call) == "time.Now" {
				nowCall = call
			}
		}
	}
	if nowCall == nil {
		c.Undecided("PRED", allow, allow.Pos(), an.KeyOf(allow, "clock"), "no call to time.Now in Allow", "shape not recognised")
		return
	}
	c.Check(an.Held(lf.StateAt(nowCall, "RateLimiter.mu")), "LOCK-1", allow, nowCall.Pos(), an.KeyOf(allow, "clock-in-section"),
		"the clock is read inside the critical section (admissions are totally ordered consistently with their timestamps)", "lock state at time.Now()")
	nowT := fi.Term(nowCall)

	// ---- admission: every way Allow can answer, with the facts that hold on that way ----
	type retCase struct {
		val   *an.Term
		facts an.FactSet
		from  *ssa.BasicBlock // the block control comes from (the return block, or the phi's predecessor)
		pos   ssa.Instruction
	}
	var cases []retCase
	for _, b := range allow.Blocks {
		if len(b.Instrs) == 0 || b == allow.Recover {
			continue
		}
		ret, ok := b.Instrs[len(b.Instrs)-1].(*ssa.Return)
		if !ok || len(ret.Results) != 1 {
			continue
		}
		if ph, isPhi := ret.Results[0].(*ssa.Phi); isPhi && fi.Term(ph).K == an.KPhi {
			for i, e := range ph.Edges {
				pred := ph.Block().Preds[i]
				fs := an.FactSet{}
				for k, f := range fi.FactsAtBlock(pred) {
					fs[k] = f
				}
				for _, f := range fi.EdgeFacts(pred, ph.Block()) {
					fs[f.Key()] = f
				}
				cases = append(cases, retCase{fi.Term(e), fs, pred, ret})
			}
			continue
		}
		cases = append(cases, retCase{fi.Term(ret.Results[0]), fi.FactsAt(ret), b, ret})
	}
	records := recordStores(fi, allow, nowT)
	isLimitTest := func(t *an.Term) bool {
		if t.K == an.KBin && t.S == "<" && t.A[0].K == an.KLen {
			if fld, _, ok := mapFieldOfTerm(t.A[0].A[0]); ok && fld == "reqs" {
				if f2, _, ok := mapFieldOfTerm(t.A[1]); ok && f2 == "limit" {
					return true
				}
			}
		}
		return false
	}
	hasLimitFact := func(fs an.FactSet, admit bool) (bool, string) {
		for _, f := range fs {
			t := f.T
			if f.Neg || t.K != an.KBin {
				continue
			}
			if admit && isLimitTest(t) {
				return true, short(t.Key())
			}
			if !admit && t.S == "<=" && t.A[1].K == an.KLen {
				if fld, _, ok := mapFieldOfTerm(t.A[1].A[0]); ok && fld == "reqs" {
					if f2, _, ok := mapFieldOfTerm(t.A[0]); ok && f2 == "limit" {
						return true, short(t.Key())
					}
				}
			}
		}
		return false, ""
	}
	recordedBefore := func(b *ssa.BasicBlock) bool {
		for _, st := range records {
			if st.Block() == b || st.Block().Dominates(b) {
				return true
			}
		}
		return false
	}
	nTrue := 0
	for i, cs := range cases {
		kv, isConst := cs.val.IsConst()
		tag := fmt.Sprintf("#%d", i)
		_ = tag
		switch {
		case isConst && kv == "true":
			nTrue++
			okPred, d := hasLimitFact(cs.facts, true)
			c.Check(okPred, "PRED", allow, cs.pos.Pos(), an.KeyOf(allow, "admit-pred"), "true is answered only under len(kept) < limit (spec C19.admit: q = len(kept) - limit, q < 0)", "dominating fact "+d)
			c.Check(recordedBefore(cs.from), "PRED", allow, cs.pos.Pos(), an.KeyOf(allow, "admit-records"), "the admitted call's timestamp (the time.Now() read in this call) is appended to the list before true is answered", "store of append(reqs, now)")
		case isConst && kv == "false":
			okFull, d := hasLimitFact(cs.facts, false)
			c.Check(okFull, "PRED", allow, cs.pos.Pos(), an.KeyOf(allow, "refuse-pred"), "false is answered only under limit <= len(kept): a call is admitted whenever fewer than the limit remain in the window (no starvation)", "fact "+d+"; facts "+factList(cs.facts))
			c.Check(!recordedBefore(cs.from), "PRED", allow, cs.pos.Pos(), an.KeyOf(allow, "refuse-unrecorded"), "a refused call is not recorded (it cannot starve later callers)", "no store of append(reqs, now) on the way to this answer")
		default:
			// the answer is a computed condition R: it must be the limit test, and the call is recorded exactly when R holds
			nTrue++
			c.Check(isLimitTest(cs.val), "PRED", allow, cs.pos.Pos(), an.KeyOf(allow, "admit-pred"), "the answer is the limit test len(kept) < limit on the list as it is after expiry and before this call is recorded", "returned condition "+short(cs.val.Key()))
			recorded := false
			for _, st := range records {
				if fi.FactsAt(st).Has(cs.val.Key()) {
					recorded = true
				}
			}
			c.Check(recorded, "PRED", allow, cs.pos.Pos(), an.KeyOf(allow, "admit-records"), "the call's timestamp is appended exactly on the path where the returned condition holds", "record stores under the returned condition")
		}
	}
	// a recorded call is an admitted call: every answer reachable from a store that appends now is an admitting one
	for _, st := range records {
		okOnly := true
		why := ""
		for _, cs := range cases {
			if !(cs.from == st.Block() || st.Block().Dominates(cs.from) || reachable(st.Block(), cs.from)) {
				continue
			}
			kv, isConst := cs.val.IsConst()
			switch {
			case isConst && kv == "true":
			case isConst:
				// a constant false reached after the append (not merely sharing a later join)
				if st.Block() == cs.from || st.Block().Dominates(cs.from) {
					okOnly = false
					why = "false is answered at " + p.Pos(cs.pos.Pos()) + " after the append"
				}
			default:
				if !fi.FactsAt(st).Has(cs.val.Key()) {
					okOnly = false
					why = "the returned condition " + short(cs.val.Key()) + " is not known to hold where the call is recorded"
				}
			}
		}
		c.Check(okOnly, "PRED", allow, st.Pos(), an.KeyOf(allow, "record-implies-admit"), "a call whose timestamp is appended to the list is always answered true (refused calls leave the list unchanged, so they cannot starve later callers)", why)
	}
	c.Count("PRED", nTrue)
	if nTrue == 0 {
		c.Violated("PRED", allow, allow.Pos(), an.KeyOf(allow, "no-true"), "Allow has no admitting answer", "no return of true or of the limit test")
	}

	// ---- expiry: in Allow or in a helper method it calls with the clock value ----
	type expFn struct {
		fn   *ssa.Function
		nowK string // key of the term that stands for this call's time.Now() inside fn
	}
	exps := []expFn{{allow, nowT.Key()}}
	for _, b := range allow.Blocks {
		for _, in := range b.Instrs {
			call, ok := in.(*ssa.Call)
			if !ok {
				continue
			}
			sc := call.Call.StaticCallee()
			if sc == nil || sc.Pkg != allow.Pkg || !strings.Contains(an.FuncName(sc), "RateLimiter") {
				continue
			}
			for k, a := range call.Call.Args {
				if fi.Term(a).Key() == nowT.Key() && k < len(sc.Params) {
					exps = append(exps, expFn{sc, p.Info(sc).Term(sc.Params[k]).Key()})
				}
			}
		}
	}
	nCmp, nSl := 0, 0
	haveEmpty, haveSuffix := false, false
	for _, ef := range exps {
		efi := p.Info(ef.fn)
		c.Scope(ef.fn)
		// retention: the only time comparison is stored.After(now.Add(-rate))
		for _, b := range ef.fn.Blocks {
			for _, in := range b.Instrs {
				call, ok := in.(*ssa.Call)
				if !ok {
					continue
				}
				name := an.CalleeName(&call.Call)
				switch name {
				case "(time.Time).After", "(time.Time).Before", "(time.Time).Equal", "(time.Time).Compare", "(time.Time).Sub":
				default:
					continue
				}
				nCmp++
				recv := efi.Term(call.Call.Args[0])
				arg := efi.Term(call.Call.Args[1])
				okShape := name == "(time.Time).After"
				recvOK := recvOrigin(efi, call.Call.Args[0]) == "reqs"
				argOK := false
				if (arg.K == an.KCall || arg.K == an.KPure) && arg.Callee() == "(time.Time).Add" && len(arg.A) == 2 && arg.A[0].Key() == ef.nowK {
					d := arg.A[1]
					if d.K == an.KUn && d.S == "-" {
						if f, _, ok := mapFieldOfTerm(d.A[0]); ok && f == "rate" {
							argOK = true
						}
					}
				}
				c.Check(okShape && recvOK && argOK, "PRED", ef.fn, call.Pos(), an.KeyOf(ef.fn, "retain-pred"),
					"a stored timestamp t is retained iff t.After(now.Add(-rate)) (spec C19.keep: t - (now - rate) > 0)",
					"comparison "+name+" receiver "+short(recv.Key())+" argument "+short(arg.Key()))
			}
		}
		// kept suffix: reqs = reqs[idx:] or reqs[:0]
		for _, b := range ef.fn.Blocks {
			for _, in := range b.Instrs {
				st, ok := in.(*ssa.Store)
				if !ok {
					continue
				}
				cls := efi.RefClass(st.Addr)
				if f, ok := cls.FieldOf("RateLimiter"); !ok || f != "reqs" {
					continue
				}
				sl, ok := st.Val.(*ssa.Slice)
				if !ok {
					continue
				}
				nSl++
				vt := efi.Term(sl)
				key := an.KeyOf(ef.fn, "kept:"+short(vt.Key()))
				lo, hi := vt.A[1], vt.A[2]
				hc, _ := hi.IsConst()
				lc, _ := lo.IsConst()
				switch {
				case hc == "0" && lc == "0":
					// empty: only on the way on which the scan found no unexpired timestamp, i.e. the index variable
					// still has its initial value (idx == -1, or idx == n for a scan that starts with idx = len)
					haveEmpty = true
					okE := false
					for _, f := range efi.FactsAt(st) {
						if f.Neg || f.T.K != an.KBin || f.T.S != "==" {
							continue
						}
						for k := 0; k < 2; k++ {
							ph, isPhi := f.T.A[k].Val.(*ssa.Phi)
							if !isPhi || f.T.A[k].K != an.KPhi {
								continue
							}
							other := f.T.A[1-k]
							// the other side is the value the index variable has when the scan loop was never left by break
							for _, e := range ph.Edges {
								if efi.Term(e).Key() == other.Key() && !containsPhi(efi.Term(e)) {
									okE = true
								}
							}
						}
					}
					c.Check(okE, "PRED", ef.fn, st.Pos(), key, "the list is emptied only when the scan found no timestamp to retain (the index variable still has its initial value)", "dominating fact idx == initial value; facts "+factList(efi.FactsAt(st)))
				case hc == "end":
					haveSuffix = true
					// reqs[idx:] where idx is set, at the break, to the index of the first retained element
					okS := false
					if ph, isPhi := lo.Val.(*ssa.Phi); isPhi && lo.K == an.KPhi {
						for i, e := range ph.Edges {
							if !containsPhi(efi.Term(e)) {
								continue
							}
							pred := ph.Block().Preds[i]
							for _, f := range efi.FactsAtBlock(pred) {
								if !f.Neg && (f.T.K == an.KCall || f.T.K == an.KPure) && f.T.Callee() == "(time.Time).After" {
									okS = true
								}
							}
						}
					}
					c.Check(okS, "PRED", ef.fn, st.Pos(), key, "the list keeps the suffix that starts at the index where the scan first found t.After(now-rate) (scan from the oldest entry, stop at the first unexpired one)", "lower bound "+short(lo.Key()))
				default:
					c.Violated("PRED", ef.fn, st.Pos(), key, "the request list is resliced in an unexpected way: "+short(vt.Key()), "expected reqs[idx:] or reqs[:0]")
				}
			}
		}
	}
	if nCmp != 1 {
		c.Violated("FORM", allow, allow.Pos(), an.KeyOf(allow, "retain-count"), "the expiry step must decide retention by exactly one comparison of a stored timestamp with now-rate; found "+fmt.Sprint(nCmp), "the sliding-window rules are established for this form only")
	}
	if !(haveEmpty && haveSuffix && nSl == 2) {
		c.Violated("FORM", allow, allow.Pos(), an.KeyOf(allow, "kept-count"), "the expiry step must store either the suffix that starts at the first unexpired timestamp (reqs[idx:]) or, when none is unexpired, the empty list (reqs[:0]); found "+fmt.Sprint(nSl)+" reslicing store(s): some path keeps expired entries or drops unexpired ones", "the sliding-window rules are established for this form only")
	}
	// the expiry runs before the admission test on every path: every store that reslices dominates the limit test / the returns
	_ = lf
}

// recvOrigin returns the RateLimiter field a value was taken from (by index or range).
func recvOrigin(fi *an.FuncInfo, v ssa.Value) string {
	for depth := 0; depth < 6; depth++ {
		switch x := v.(type) {
		case *ssa.UnOp:
			if ia, ok := x.X.(*ssa.IndexAddr); ok {
				cls := fi.RefClass(ia.X)
				if f, ok := cls.FieldOf("RateLimiter"); ok {
					return f
				}
				return ""
			}
			v = x.X
		case *ssa.Extract:
			if nx, ok := x.Tuple.(*ssa.Next); ok {
				if rg, ok := nx.Iter.(*ssa.Range); ok {
					cls := fi.RefClass(rg.X)
					if f, ok := cls.FieldOf("RateLimiter"); ok {
						return f
					}
				}
			}
			return ""
		default:
			return ""
		}
	}
	return ""
}

// recordStores: the stores to RateLimiter.reqs of append(reqs, now).
func recordStores(fi *an.FuncInfo, allow *ssa.Function, nowT *an.Term) []*ssa.Store {
	var out []*ssa.Store
	for _, b2 := range allow.Blocks {
		for _, in := range b2.Instrs {
			st, ok := in.(*ssa.Store)
			if !ok {
				continue
			}
			cls := fi.RefClass(st.Addr)
			if f, ok := cls.FieldOf("RateLimiter"); !ok || f != "reqs" {
				continue
			}
			call, ok := st.Val.(*ssa.Call)
			if !ok {
				continue
			}
			bi, ok := call.Call.Value.(*ssa.Builtin)
			if !ok || bi.Name() != "append" {
				continue
			}
			for _, el := range an.VarargElems(call.Call.Args[1]) {
				if el == nil {
					continue
				}
				if fi.Term(el).Key() == nowT.Key() {
					out = append(out, st)
				}
			}
		}
	}
	return out
}

// containsPhi: the term is (computed from) a loop-carried value.
func containsPhi(t *an.Term) bool {
	found := false
	t.Walk(func(x *an.Term) {
		if x.K == an.KPhi {
			found = true
		}
	})
	return found
}
