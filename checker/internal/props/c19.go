package props

import (
	"fmt"
	"go/constant"
	"go/types"
	"strings"

	"gcacheck/internal/an"

	"golang.org/x/tools/go/ssa"
)

func init() {
	register(&an.PropertyCheck{
		ID:      "C19",
		Title:   "Rate limiter never admits more than the limit per window and never starves",
		Engines: "LOCK (balance, guarded-by), PRED (decision terms in normal form), dominance",
		Explanation: "Decided on glow.RateLimiter: the whole body of Allow, including the clock read, is one critical section of RateLimiter.mu (so any concurrent schedule is a sequence of Allow bodies); every access to the request list is under the lock; " +
			"the admission decision is exactly len(kept) < limit; true is returned only on the path that appends the timestamp read in this call; the retention test is t.After(now.Add(-rate)) on the stored timestamps with the receiver/argument roles as stated, " +
			"every value the expiry step stores to the list is, on every feasible way it can come about (join phis taken apart, ways refuted by BOUND removed), either the suffix that starts at the index where an upward scan from index 0 first found a retained element, or the empty list on the ways on which no retained element was found. These are shape-conditional necessary conditions: a different algorithm is reported as undecided, not as held. " +
			"The len(reqs) that the admission test measures is reached only through an expiry write of this call and before this call is recorded; the endpoint rule of C14 (an archive is built only after Allow() == true) is re-run. NOT decided: wall-clock behaviour, scheduler effects and the interval-arithmetic judgement over real arrival schedules (inherently dynamic); monotonicity of time.Now is trusted (timestamps are appended in increasing order).",
		Assumptions: append([]string{"time.Now is monotone within one process (Go monotonic clock reading)", "sync.Mutex provides mutual exclusion"}, baseAssumptions...),
		Run:         runC19,
	})
}

// The fields of RateLimiter by role (the rules speak of the request list, the limit and the window length, whatever the
// fields are called): the only field of type []time.Time, the only int field and the only time.Duration field; the
// names of the pinned source when the types do not single them out.
var rlReqs, rlLimit, rlRate = "reqs", "limit", "rate"

func rateLimiterRoles(allow *ssa.Function) {
	rlReqs, rlLimit, rlRate = "reqs", "limit", "rate"
	if allow.Signature.Recv() == nil {
		return
	}
	t := allow.Signature.Recv().Type()
	if pt, ok := t.Underlying().(*types.Pointer); ok {
		t = pt.Elem()
	}
	st, ok := t.Underlying().(*types.Struct)
	if !ok {
		return
	}
	var lists, ints, durs []string
	for i := 0; i < st.NumFields(); i++ {
		f := st.Field(i)
		switch ft := f.Type().(type) {
		case *types.Slice:
			if ft.Elem().String() == "time.Time" {
				lists = append(lists, f.Name())
			}
		case *types.Basic:
			if ft.Kind() == types.Int {
				ints = append(ints, f.Name())
			}
		case *types.Named:
			if ft.String() == "time.Duration" {
				durs = append(durs, f.Name())
			}
		}
	}
	if len(lists) == 1 && len(ints) == 1 && len(durs) == 1 {
		rlReqs, rlLimit, rlRate = lists[0], ints[0], durs[0]
	}
}

func runC19(c *an.Ctx) {
	p := c.P
	allow := p.Method("glow", "RateLimiter", "Allow")
	if allow == nil {
		c.Undecided("ANCHOR", nil, 0, "RateLimiter.Allow", "method Allow of glow.RateLimiter not found", "anchor missing")
		return
	}
	rateLimiterRoles(allow)
	scope := []*ssa.Function{}
	for _, fn := range p.FuncsIn("glow") {
		if strings.Contains(an.FuncName(fn), "RateLimiter") {
			scope = append(scope, fn)
		}
	}
	c.Scope(scope...)
	lockBalance(c, scope, nil, "C19")
	c.Floor("LOCK-1", 1)
	ctor := p.Constructor("glow", "RateLimiter")
	construction := p.ConstructionPhase("glow", ctor)
	written := p.WrittenOutside(scope, construction)
	spec := an.GuardSpec{Lock: "RateLimiter.mu", Roots: []an.Class{{Root: "T:RateLimiter"}}, Exempt: func(cl an.Class) string {
		if cl.Path[0] == "mu" {
			return "the mutex itself"
		}
		if w, _ := written(cl); !w {
			return "written only by the constructor"
		}
		return ""
	}}
	guardedBy(c, spec, scope, construction)
	c.Floor("LOCK-4", 2)

	fi := p.Info(allow)
	lf := p.LockFlowOf(allow)
	// clock read inside the critical section
	var nowCall *ssa.Call
	for _, b := range allow.Blocks {
		for _, in := range b.Instrs {
			if call, ok := in.(*ssa.Call); ok && an.CalleeName(&call.Call) == "time.Now" {
				nowCall = call
			}
		}
	}
	if nowCall == nil {
		c.Undecided("PRED", allow, allow.Pos(), an.KeyOf(allow, "clock"), "no call to time.Now in Allow", "shape not recognised")
		return
	}
	c.Check(an.Held(lf.StateAt(nowCall, "RateLimiter.mu")), "LOCK-1", allow, nowCall.Pos(), an.KeyOf(allow, "clock-in-section"),
		"the clock is read inside the critical section (admissions are totally ordered consistently with their timestamps)", "lock state at time.Now()")
	nowT := fi.Term(nowCall)

	// ---- admission: every way Allow can answer, with the facts that hold on that way ----
	type retCase struct {
		val   *an.Term
		facts an.FactSet
		from  *ssa.BasicBlock // the block control comes from (the return block, or the phi's predecessor)
		pos   ssa.Instruction
	}
	var cases []retCase
	for _, o := range fi.Outcomes() {
		if len(o.Results) != 1 {
			continue
		}
		from := o.Ret.Block()
		if o.From != nil {
			from = o.From
		}
		cases = append(cases, retCase{o.Results[0], o.Facts, from, o.Ret})
	}
	records := recordStores(fi, allow, nowT.Key())
	// the list the admission test looks at is the list as the expiry step of THIS call left it: the value of reqs that
	// is measured was written by the expiry stores (or by an expiry helper called with this call's clock value)
	var expiryDefs []ssa.Instruction
	for _, b := range allow.Blocks {
		for _, in := range b.Instrs {
			switch x := in.(type) {
			case *ssa.Store:
				if f, ok := fi.RefClass(x.Addr).FieldOf("RateLimiter"); ok && f == rlReqs {
					isRec := false
					for _, r := range records {
						if r == x {
							isRec = true
						}
					}
					if !isRec {
						expiryDefs = append(expiryDefs, x)
					}
				}
			case *ssa.Call:
				if sc := x.Call.StaticCallee(); sc != nil && sc.Pkg == allow.Pkg && strings.Contains(an.FuncName(sc), "RateLimiter") {
					for _, a := range x.Call.Args {
						if fi.Term(a).Key() == nowT.Key() {
							expiryDefs = append(expiryDefs, x)
						}
					}
				}
			}
		}
	}
	// every path from the entry to the load passes an expiry write first
	var postExpiry func(ld *an.Term) bool
	postExpiry = func(ld *an.Term) bool {
		li, ok := ld.Val.(ssa.Instruction)
		if !ok || ld.K != an.KLoad || len(expiryDefs) == 0 {
			return false
		}
		// ... and this call has not been recorded yet when the list is measured
		for _, r := range records {
			if (r.Block() == li.Block() && an.Dominates(r, li)) || (r.Block() != li.Block() && reachable(r.Block(), li.Block())) {
				return false
			}
		}
		cut := map[*ssa.BasicBlock]bool{}
		for _, d := range expiryDefs {
			if d.Block() == li.Block() {
				if an.Dominates(d, li) {
					return true // same block, before the load
				}
				continue
			}
			cut[d.Block()] = true
		}
		seen := map[*ssa.BasicBlock]bool{}
		stack := []*ssa.BasicBlock{allow.Blocks[0]}
		for len(stack) > 0 {
			b := stack[len(stack)-1]
			stack = stack[:len(stack)-1]
			if seen[b] || cut[b] {
				continue
			}
			seen[b] = true
			if b == li.Block() {
				return false
			}
			stack = append(stack, b.Succs...)
		}
		return true
	}
	// the kept list as a local value (reqs := r.reqs; ... reqs = reqs[idx:] ...; if len(reqs) < r.limit): the values that
	// the expiry stores write back; the expiry rules below decide what they are
	keptVals := map[string]bool{}
	for _, d := range expiryDefs {
		if st, ok := d.(*ssa.Store); ok {
			if _, isPhi := st.Val.(*ssa.Phi); isPhi {
				keptVals[fi.Term(st.Val).Key()] = true
			}
		}
	}
	// the pop-front form (for len(reqs) > 0 && !reqs[0].After(exp) { reqs = reqs[1:] }): a test placed after the loop
	// sees the list as expiry left it, also when the loop ran zero times
	popLoops := popFrontLoops(p, allow)
	basePostExpiry := postExpiry
	postExpiry = func(ld *an.Term) bool {
		if li, ok := ld.Val.(ssa.Instruction); ok && ld.K == an.KLoad {
			for _, l := range popLoops {
				if !l.body[li.Block()] && l.header.Dominates(li.Block()) {
					recorded := false
					for _, r := range records {
						if (r.Block() == li.Block() && an.Dominates(r, li)) || (r.Block() != li.Block() && reachable(r.Block(), li.Block())) {
							recorded = true
						}
					}
					if !recorded {
						return true
					}
				}
			}
		}
		return basePostExpiry(ld)
	}
	staleTest := false
	isLimitTest := func(t *an.Term) bool {
		if t.K == an.KBin && t.S == "<" && t.A[0].K == an.KLen {
			if f2, _, ok := mapFieldOfTerm(t.A[1]); !ok || f2 != rlLimit {
				return false
			}
			if keptVals[t.A[0].A[0].Key()] {
				return true
			}
			if fld, _, ok := mapFieldOfTerm(t.A[0].A[0]); ok && fld == rlReqs {
				if !postExpiry(t.A[0].A[0]) {
					staleTest = true
					return false
				}
				return true
			}
		}
		return false
	}
	hasLimitFact := func(fs an.FactSet, admit bool) (bool, string) {
		for _, f := range fs {
			t := f.T
			if f.Neg || t.K != an.KBin {
				continue
			}
			if admit && isLimitTest(t) {
				return true, short(t.Key())
			}
			if !admit && t.S == "<=" && t.A[1].K == an.KLen {
				if f2, _, ok := mapFieldOfTerm(t.A[0]); ok && f2 == rlLimit && keptVals[t.A[1].A[0].Key()] {
					return true, short(t.Key())
				}
				if fld, _, ok := mapFieldOfTerm(t.A[1].A[0]); ok && fld == rlReqs {
					if f2, _, ok := mapFieldOfTerm(t.A[0]); ok && f2 == rlLimit {
						return true, short(t.Key())
					}
				}
			}
		}
		return false, ""
	}
	recordedBefore := func(b *ssa.BasicBlock) bool {
		for _, st := range records {
			if st.Block() == b || st.Block().Dominates(b) {
				return true
			}
		}
		return false
	}
	// what the call's timestamp is appended to is the kept list (not some other list)
	for _, st := range records {
		call := st.Val.(*ssa.Call)
		bt := fi.Term(call.Call.Args[0])
		okBase := keptVals[bt.Key()]
		if fld, _, ok := mapFieldOfTerm(bt); ok && fld == rlReqs && postExpiry(bt) {
			okBase = true
		}
		c.Check(okBase, "PRED", allow, st.Pos(), an.KeyOf(allow, "record-base"), "the admitted call's timestamp is appended to the list as the expiry step left it", "append base "+short(bt.Key()))
	}
	nTrue := 0
	for i, cs := range cases {
		kv, isConst := cs.val.IsConst()
		tag := fmt.Sprintf("#%d", i)
		_ = tag
		switch {
		case isConst && kv == "true":
			nTrue++
			okPred, d := hasLimitFact(cs.facts, true)
			c.Check(okPred, "PRED", allow, cs.pos.Pos(), an.KeyOf(allow, "admit-pred"), "true is answered only under len(kept) < limit (spec C19.admit: q = len(kept) - limit, q < 0)", "dominating fact "+d)
			c.Check(recordedBefore(cs.from), "PRED", allow, cs.pos.Pos(), an.KeyOf(allow, "admit-records"), "the admitted call's timestamp (the time.Now() read in this call) is appended to the list before true is answered", "store of append(reqs, now)")
		case isConst && kv == "false":
			okFull, d := hasLimitFact(cs.facts, false)
			c.Check(okFull, "PRED", allow, cs.pos.Pos(), an.KeyOf(allow, "refuse-pred"), "false is answered only under limit <= len(kept): a call is admitted whenever fewer than the limit remain in the window (no starvation)", "fact "+d+"; facts "+factList(cs.facts))
			c.Check(!recordedBefore(cs.from), "PRED", allow, cs.pos.Pos(), an.KeyOf(allow, "refuse-unrecorded"), "a refused call is not recorded (it cannot starve later callers)", "no store of append(reqs, now) on the way to this answer")
		default:
			// the answer is a computed condition R: it must be the limit test, and the call is recorded exactly when R holds
			nTrue++
			c.Check(isLimitTest(cs.val), "PRED", allow, cs.pos.Pos(), an.KeyOf(allow, "admit-pred"), "the answer is the limit test len(kept) < limit on the list as it is after expiry and before this call is recorded", "returned condition "+short(cs.val.Key()))
			recorded := false
			for _, st := range records {
				if fi.FactsAt(st).Has(cs.val.Key()) {
					recorded = true
				}
			}
			c.Check(recorded, "PRED", allow, cs.pos.Pos(), an.KeyOf(allow, "admit-records"), "the call's timestamp is appended exactly on the path where the returned condition holds", "record stores under the returned condition")
		}
	}
	// a recorded call is an admitted call: every answer reachable from a store that appends now is an admitting one
	for _, st := range records {
		okOnly := true
		why := ""
		for _, cs := range cases {
			if !(cs.from == st.Block() || st.Block().Dominates(cs.from) || reachable(st.Block(), cs.from)) {
				continue
			}
			kv, isConst := cs.val.IsConst()
			switch {
			case isConst && kv == "true":
			case isConst:
				// a constant false reached after the append (not merely sharing a later join)
				if st.Block() == cs.from || st.Block().Dominates(cs.from) {
					okOnly = false
					why = "false is answered at " + p.Pos(cs.pos.Pos()) + " after the append"
				}
			default:
				if !fi.FactsAt(st).Has(cs.val.Key()) {
					okOnly = false
					why = "the returned condition " + short(cs.val.Key()) + " is not known to hold where the call is recorded"
				}
			}
		}
		c.Check(okOnly, "PRED", allow, st.Pos(), an.KeyOf(allow, "record-implies-admit"), "a call whose timestamp is appended to the list is always answered true (refused calls leave the list unchanged, so they cannot starve later callers)", why)
	}
	if staleTest {
		c.Violated("PRED", allow, allow.Pos(), an.KeyOf(allow, "admit-after-expiry"), "the admission test measures the request list before this call's expiry step ran (or a list some other write produced): a call arriving after an idle window is judged by the stale, still full list and starved", "the len(reqs) in the limit test does not read the value the expiry step stored")
	}
	c.Count("PRED", nTrue)
	if nTrue == 0 {
		c.Violated("PRED", allow, allow.Pos(), an.KeyOf(allow, "no-true"), "Allow has no admitting answer", "no return of true or of the limit test")
	}

	// ---- expiry: in Allow or in a helper method it calls with the clock value ----
	type expFn struct {
		fn   *ssa.Function
		nowK string // key of the term that stands for this call's time.Now() inside fn
	}
	exps := []expFn{{allow, nowT.Key()}}
	for _, b := range allow.Blocks {
		for _, in := range b.Instrs {
			call, ok := in.(*ssa.Call)
			if !ok {
				continue
			}
			sc := call.Call.StaticCallee()
			if sc == nil || sc.Pkg != allow.Pkg || !strings.Contains(an.FuncName(sc), "RateLimiter") {
				continue
			}
			for k, a := range call.Call.Args {
				if fi.Term(a).Key() == nowT.Key() && k < len(sc.Params) {
					exps = append(exps, expFn{sc, p.Info(sc).Term(sc.Params[k]).Key()})
				}
			}
		}
	}
	nCmp, nSl := 0, 0
	haveEmpty, haveSuffix := false, false
	for _, ef := range exps {
		efi := p.Info(ef.fn)
		c.Scope(ef.fn)
		// retention: the only time comparison is stored.After(now.Add(-rate)), or the same written cutoff.Before(stored)
		var retain *ssa.Call
		var storedV ssa.Value
		for _, b := range ef.fn.Blocks {
			for _, in := range b.Instrs {
				call, ok := in.(*ssa.Call)
				if !ok {
					continue
				}
				name := an.CalleeName(&call.Call)
				switch name {
				case "(time.Time).After", "(time.Time).Before", "(time.Time).Equal", "(time.Time).Compare", "(time.Time).Sub":
				default:
					continue
				}
				nCmp++
				sv, cv := call.Call.Args[0], call.Call.Args[1]
				if name == "(time.Time).Before" {
					sv, cv = cv, sv // cutoff.Before(stored) is stored.After(cutoff)
				}
				recv := efi.Term(sv)
				arg := efi.Term(cv)
				okShape := name == "(time.Time).After" || name == "(time.Time).Before"
				recvOK := recvOrigin(efi, sv) == rlReqs
				argOK := false
				if (arg.K == an.KCall || arg.K == an.KPure) && arg.Callee() == "(time.Time).Add" && len(arg.A) == 2 && arg.A[0].Key() == ef.nowK {
					d := arg.A[1]
					if d.K == an.KUn && d.S == "-" {
						if f, _, ok := mapFieldOfTerm(d.A[0]); ok && f == rlRate {
							argOK = true
						}
					}
				}
				if okShape && recvOK && argOK {
					retain, storedV = call, sv
				}
				c.Check(okShape && recvOK && argOK, "PRED", ef.fn, call.Pos(), an.KeyOf(ef.fn, "retain-pred"),
					"a stored timestamp t is retained iff t.After(now.Add(-rate)) (spec C19.keep: t - (now - rate) > 0)",
					"comparison "+name+" stored "+short(recv.Key())+" cutoff "+short(arg.Key()))
			}
		}
		// kept part: every value stored to reqs by the expiry step is, way by way, the suffix that starts at the first
		// retained element, or the empty list when the scan found none
		for _, b := range ef.fn.Blocks {
			for _, in := range b.Instrs {
				st, ok := in.(*ssa.Store)
				if !ok {
					continue
				}
				cls := efi.RefClass(st.Addr)
				if f, ok := cls.FieldOf("RateLimiter"); !ok || f != rlReqs {
					continue
				}
				isRecord := false
				for _, r := range recordStores(efi, ef.fn, ef.nowK) {
					if r == st {
						isRecord = true
					}
				}
				if isRecord {
					continue
				}
				if _, isSlice := st.Val.(*ssa.Slice); !isSlice {
					if _, isPhi := st.Val.(*ssa.Phi); !isPhi {
						continue
					}
				}
				nSl++
				if okPop, isPop := popFrontStore(c, p, ef.fn, st, retain, storedV); isPop {
					if okPop {
						haveEmpty, haveSuffix = true, true
					}
					continue
				}
				e, sfx := keptStore(c, p, ef.fn, st, retain, storedV)
				haveEmpty = haveEmpty || e
				haveSuffix = haveSuffix || sfx
			}
		}
	}
	if nCmp == 1 {
		c.Proved("FORM", allow, allow.Pos(), an.KeyOf(allow, "retain-count"), "the expiry step decides retention by exactly one comparison of a stored timestamp with now-rate", "1 comparison")
	} else {
		c.Violated("FORM", allow, allow.Pos(), an.KeyOf(allow, "retain-count"), "the expiry step must decide retention by exactly one comparison of a stored timestamp with now-rate; found "+fmt.Sprint(nCmp), "the sliding-window rules are established for this form only")
	}
	if haveEmpty && haveSuffix && nSl >= 1 && nSl <= 2 {
		c.Proved("FORM", allow, allow.Pos(), an.KeyOf(allow, "kept-count"), "the expiry step stores the suffix that starts at the first unexpired timestamp or, when none is unexpired, the empty list", fmt.Sprint(nSl)+" reslicing store(s)")
	} else {
		c.Violated("FORM", allow, allow.Pos(), an.KeyOf(allow, "kept-count"), "the expiry step must store either the suffix that starts at the first unexpired timestamp (reqs[idx:]) or, when none is unexpired, the empty list (reqs[:0]); found "+fmt.Sprint(nSl)+" reslicing store(s): some path keeps expired entries or drops unexpired ones", "the sliding-window rules are established for this form only")
	}
	// "never admits more than the limit" at the endpoint the limiter guards: a refused request gets no archive (rule owned by C14)
	if c.R.Prop != "C14" {
		if h, bc := findArchiveHandler(p); h != nil {
			c.Scope(h)
			archiveLimitRules(c, h, bc)
		}
	}
	// the expiry runs before the admission test on every path: every store that reslices dominates the limit test / the returns
	_ = lf
}

// popFrontLoops: the loops of fn in which the request list loses its first element (reqs = reqs[1:]).
func popFrontLoops(p *an.Program, fn *ssa.Function) []*natLoop {
	fi := p.Info(fn)
	var out []*natLoop
	for _, b := range fn.Blocks {
		for _, in := range b.Instrs {
			st, ok := in.(*ssa.Store)
			if !ok {
				continue
			}
			if f, ok := fi.RefClass(st.Addr).FieldOf("RateLimiter"); !ok || f != rlReqs {
				continue
			}
			if sl, ok := st.Val.(*ssa.Slice); ok && sl.High == nil {
				if lo := fi.Term(sl).A[1]; isConstTerm(lo, "1") {
					if l := innermostLoopOf(fn, st.Block()); l != nil {
						out = append(out, l)
					}
				}
			}
		}
	}
	return out
}

// popFrontStore decides the expiry step written as a loop that drops the oldest entry while it is expired:
//
//	for len(reqs) > 0 { if reqs[0].After(exp) { break }; reqs = reqs[1:] }
//
// The store is reqs = reqs[1:] of the current list; it runs only when the retention test on reqs[0] of that same list
// was negative; the loop is left only with a retained first element or an empty list; nothing else in the loop writes
// the list. Then what remains is the suffix that starts at the first unexpired entry (or nothing).
func popFrontStore(c *an.Ctx, p *an.Program, fn *ssa.Function, st *ssa.Store, retain *ssa.Call, storedV ssa.Value) (ok, isPop bool) {
	fi := p.Info(fn)
	sl, isSl := st.Val.(*ssa.Slice)
	if !isSl || sl.High != nil || retain == nil {
		return false, false
	}
	vt := fi.Term(sl)
	if !isConstTerm(vt.A[1], "1") {
		return false, false
	}
	loop := innermostLoopOf(fn, st.Block())
	if loop == nil || !loop.body[retain.Block()] {
		return false, false
	}
	isPop = true
	key := an.KeyOf(fn, "kept:pop-front")
	why := ""
	base := vt.A[0]
	// the tested element is element 0 of the list that is resliced
	stT := fi.Term(storedV)
	okElem := stT.K == an.KLoad && len(stT.A) == 1 && stT.A[0].K == an.KIA && isConstTerm(stT.A[0].A[1], "0") && stT.A[0].A[0].Key() == base.Key()
	if !okElem {
		why = "the retention test is not made on element 0 of the list that loses its first element"
	}
	retT := fi.Term(retain)
	neg := false
	for _, f := range fi.FactsAt(st) {
		if f.Neg && f.T.Key() == retT.Key() {
			neg = true
		}
	}
	if !neg && why == "" {
		why = "the first element is dropped without the retention test having been negative"
	}
	// exits: a retained first element, or an empty list
	for _, u := range fn.Blocks {
		if !loop.body[u] {
			continue
		}
		for _, v := range u.Succs {
			if loop.body[v] {
				continue
			}
			found := false
			var fs []an.Fact
			if n := len(u.Instrs); n > 0 {
				fs = append(fs, fi.FactsAt(u.Instrs[n-1]).Sorted()...)
			}
			fs = append(fs, fi.EdgeFacts(u, v)...)
			for _, f := range fs {
				if !f.Neg && f.T.Key() == retT.Key() {
					found = true
				}
			}
			if found {
				continue
			}
			// the list is empty on this way out: len(current list) <= 0
			empty := false
			sys := fi.SysForEdge(u, v)
			for _, f := range fs {
				f.T.Walk(func(t *an.Term) {
					if t.K == an.KLen {
						if fld, _, isF := mapFieldOfTerm(t.A[0]); isF && fld == rlReqs && sys.ProveLE(t, 0) {
							empty = true
						}
					}
				})
			}
			if !empty && why == "" {
				why = "the loop can be left with a non-empty list whose first element was not found unexpired (exit near " + p.Pos(u.Instrs[len(u.Instrs)-1].Pos()) + ")"
			}
		}
	}
	// no other write of the list inside the loop
	for _, b := range fn.Blocks {
		if !loop.body[b] {
			continue
		}
		for _, in := range b.Instrs {
			if o, isSt := in.(*ssa.Store); isSt && o != st {
				if f, isF := fi.RefClass(o.Addr).FieldOf("RateLimiter"); isF && f == rlReqs && why == "" {
					why = "another store writes the list inside the expiry loop"
				}
			}
		}
	}
	c.Check(why == "", "PRED", fn, st.Pos(), key, "the expiry loop drops the oldest entry exactly while it is expired (reqs = reqs[1:] under !reqs[0].After(now-rate)) and stops at the first unexpired entry or an empty list", why)
	return why == "", true
}

// keptOutcome is one way the value stored to reqs by the expiry step comes about: a slice base[lo:hi] and the facts
// that hold on that way (join phis of the stored value and of its lower bound are taken apart edge by edge).
type keptOutcome struct {
	base, lo, hi *an.Term
	facts        []an.Fact
	eqs          [][2]*an.Term
	unknown      string
}

// keptStore checks one store of the expiry step; it reports whether an empty and a suffix outcome were seen.
func keptStore(c *an.Ctx, p *an.Program, fn *ssa.Function, st *ssa.Store, retain *ssa.Call, storedV ssa.Value) (sawEmpty, sawSuffix bool) {
	fi := p.Info(fn)
	key := an.KeyOf(fn, "kept:"+short(fi.Term(st.Val).Key()))
	if retain == nil {
		c.Violated("PRED", fn, st.Pos(), key, "the request list is resliced but no retention comparison of the stated form was found", "expected t.After(now.Add(-rate))")
		return
	}
	loop := innermostLoopOf(fn, retain.Block())
	if loop == nil {
		c.Violated("PRED", fn, st.Pos(), key, "the retention comparison is not inside a scan loop", "expected a scan from the oldest entry")
		return
	}
	isLoopHeader := func(b *ssa.BasicBlock) bool {
		for _, l := range loopsOf(fn) {
			if l.header == b {
				return true
			}
		}
		return false
	}
	endFacts := func(pred, blk *ssa.BasicBlock) []an.Fact {
		var out []an.Fact
		if n := len(pred.Instrs); n > 0 {
			out = append(out, fi.FactsAt(pred.Instrs[n-1]).Sorted()...)
		}
		out = append(out, fi.EdgeFacts(pred, blk)...)
		return out
	}
	// take the stored value apart
	var outs []keptOutcome
	var expand func(v ssa.Value, facts []an.Fact, eqs [][2]*an.Term, depth int)
	expand = func(v ssa.Value, facts []an.Fact, eqs [][2]*an.Term, depth int) {
		switch x := v.(type) {
		case *ssa.Phi:
			if depth < 4 && !isLoopHeader(x.Block()) && fi.Term(x).K == an.KPhi {
				for i, e := range x.Edges {
					pred := x.Block().Preds[i]
					nf := append(append([]an.Fact{}, facts...), endFacts(pred, x.Block())...)
					ne := append(append([][2]*an.Term{}, eqs...), [2]*an.Term{fi.Term(x), fi.Term(e)})
					// the other phis of the join take their values of the same edge
					for _, in := range x.Block().Instrs {
						if o, ok := in.(*ssa.Phi); ok && o != x {
							ne = append(ne, [2]*an.Term{fi.Term(o), fi.Term(o.Edges[i])})
						}
					}
					expand(e, nf, ne, depth+1)
				}
				return
			}
		case *ssa.Slice:
			t := fi.Term(x)
			if t.K == an.KSlice && len(t.A) == 3 {
				if lo, ok := x.Low.(*ssa.Phi); ok && depth < 4 && !isLoopHeader(lo.Block()) && fi.Term(lo).K == an.KPhi {
					for i, e := range lo.Edges {
						pred := lo.Block().Preds[i]
						nf := append(append([]an.Fact{}, facts...), endFacts(pred, lo.Block())...)
						ne := append(append([][2]*an.Term{}, eqs...), [2]*an.Term{fi.Term(lo), fi.Term(e)})
						outs = append(outs, keptOutcome{base: t.A[0], lo: fi.Term(e), hi: t.A[2], facts: nf, eqs: ne})
					}
					return
				}
				outs = append(outs, keptOutcome{base: t.A[0], lo: t.A[1], hi: t.A[2], facts: facts, eqs: eqs})
				return
			}
		}
		outs = append(outs, keptOutcome{unknown: short(fi.Term(v).Key()), facts: facts, eqs: eqs})
	}
	expand(st.Val, fi.FactsAt(st).Sorted(), nil, 0)

	// the scan: stored = base[I] with I running 0, 1, 2, ...; the loop goes on only past expired entries
	stT := fi.Term(storedV)
	var scanI, scanBase *an.Term
	if stT.K == an.KLoad && len(stT.A) == 1 && stT.A[0].K == an.KIA {
		scanBase, scanI = stT.A[0].A[0], stT.A[0].A[1]
	}
	retT := fi.Term(retain)
	scanOK := scanI != nil && scanFromZero(fi, scanI, loop)
	if scanOK {
		for _, u := range loop.backs {
			neg := false
			for _, f := range endFacts(u, loop.header) {
				if f.Neg && f.T.Key() == retT.Key() {
					neg = true
				}
			}
			if !neg {
				scanOK = false
			}
		}
	}
	if !c.Check(scanOK, "PRED", fn, retain.Pos(), an.KeyOf(fn, "scan"), "the expiry scan visits the stored timestamps from the oldest (index 0) upwards, one by one, and goes on to the next only when the current one is expired", "scan index "+func() string {
		if scanI == nil {
			return "not recognised"
		}
		return short(scanI.Key())
	}()) {
		return
	}
	// the edges that leave the scan: after a retained element was found, or with the list exhausted
	type edge struct {
		from, to *ssa.BasicBlock
		found    bool
	}
	var exits []edge
	nFound := 0
	for _, b := range fn.Blocks {
		if !loop.body[b] {
			continue
		}
		for _, sx := range b.Succs {
			if loop.body[sx] {
				continue
			}
			pos := false
			for _, f := range endFacts(b, sx) {
				if !f.Neg && f.T.Key() == retT.Key() {
					pos = true
				}
			}
			if pos {
				nFound++
			}
			exits = append(exits, edge{b, sx, pos})
		}
	}
	feasibleAfter := func(o keptOutcome, e edge) bool {
		sys := fi.SysForEdge(e.from, e.to)
		// the values the phis of the next join take on this way (straight-line blocks in between are passed through)
		prev, cur := e.from, e.to
		for steps := 0; steps < 4; steps++ {
			_, hasPhi := cur.Instrs[0].(*ssa.Phi)
			if hasPhi || len(cur.Succs) != 1 {
				break
			}
			prev, cur = cur, cur.Succs[0]
		}
		for _, in := range cur.Instrs {
			if ph, ok := in.(*ssa.Phi); ok {
				for i, pr := range cur.Preds {
					if pr == prev {
						sys.AddEq(fi.Term(ph), fi.Term(ph.Edges[i]))
					}
				}
			}
		}
		for _, f := range o.facts {
			sys.AddFact(f)
		}
		for _, q := range o.eqs {
			sys.AddEq(q[0], q[1])
		}
		return !sys.Inconsistent()
	}
	for _, o := range outs {
		if o.unknown != "" {
			c.Violated("PRED", fn, st.Pos(), key, "the request list is replaced by something other than a reslice of itself: "+o.unknown, "expected reqs[idx:] or reqs[:0]")
			continue
		}
		if scanBase == nil || o.base.Key() != scanBase.Key() {
			c.Violated("PRED", fn, st.Pos(), key, "the kept part is not a reslice of the list that was scanned", "base "+short(o.base.Key()))
			continue
		}
		// an outcome that cannot happen (idx == -1 together with idx = i >= 0) is not an outcome
		sys := fi.SysFor(st)
		for _, f := range o.facts {
			sys.AddFact(f)
		}
		for _, q := range o.eqs {
			sys.AddEq(q[0], q[1])
		}
		if sys.Inconsistent() {
			continue
		}
		// the ways out of the scan that can lead to this outcome
		var viaFound, viaExhausted []edge
		for _, e := range exits {
			if !feasibleAfter(o, e) {
				continue
			}
			if e.found {
				viaFound = append(viaFound, e)
			} else {
				viaExhausted = append(viaExhausted, e)
			}
		}
		hc, _ := o.hi.IsConst()
		lc, _ := o.lo.IsConst()
		isEmpty := hc == "0" && lc == "0" || hc == "end" && o.lo.Key() == an.LenTerm(o.base).Key()
		switch {
		case isEmpty:
			sawEmpty = true
			why := "no way from a retained element reaches this store with these facts"
			if len(viaFound) > 0 {
				e := viaFound[0]
				why = "reachable after the scan found a retained element (edge from " + p.Pos(e.from.Instrs[len(e.from.Instrs)-1].Pos()) + ")"
			}
			c.Check(len(viaFound) == 0 && nFound > 0, "PRED", fn, st.Pos(), an.KeyOf(fn, "kept:empty"), "the list is emptied only when the scan found no timestamp to retain", why)
		case hc == "end":
			// reqs[I:] with I the scan index: correct exactly on the ways on which the scan stopped at a retained element
			// (the element at I is unexpired, everything before it is expired); when the scan ran out, I == len and
			// reqs[I:] is the empty list
			okS := o.lo.Key() == scanI.Key()
			why := "lower bound " + short(o.lo.Key())
			if okS && len(viaFound) > 0 {
				sawSuffix = true
			}
			if okS && len(viaExhausted) > 0 {
				// the same store also serves the exhausted scan: then I == len(base), the empty list
				for _, e := range viaExhausted {
					es := fi.SysForEdge(e.from, e.to)
					for _, f := range o.facts {
						es.AddFact(f)
					}
					if !(es.ProveDiffLE(an.LenTerm(o.base), scanI, 0) && es.ProveDiffLE(scanI, an.LenTerm(o.base), 0)) {
						okS = false
						why = "the store is also reached after an exhausted scan, where the index is not known to equal len(list)"
					}
				}
				if okS {
					sawEmpty = true
				}
			}
			if okS && len(viaFound) == 0 && len(viaExhausted) == 0 {
				okS = false
				why = "no way out of the scan reaches this store"
			}
			c.Check(okS, "PRED", fn, st.Pos(), an.KeyOf(fn, "kept:suffix"), "the list keeps the suffix that starts at the index where the scan first found t.After(now-rate) (scan from the oldest entry, stop at the first unexpired one)", why)
		default:
			c.Violated("PRED", fn, st.Pos(), key, "the request list is resliced in an unexpected way: ["+short(o.lo.Key())+":"+short(o.hi.Key())+"]", "expected reqs[idx:] or reqs[:0]")
		}
	}
	return
}

// scanFromZero: I is the header phi of the loop (or that phi plus a constant) and takes the values 0, 1, 2, ...
func scanFromZero(fi *an.FuncInfo, I *an.Term, loop *natLoop) bool {
	phiT, d := I, int64(0)
	if I.K == an.KBin && I.S == "+" && len(I.A) == 2 {
		for k := 0; k < 2; k++ {
			if cv, ok := I.A[k].ConstInt(); ok && I.A[1-k].K == an.KPhi {
				if v, exact := constant.Int64Val(cv); exact {
					phiT, d = I.A[1-k], v
				}
			}
		}
	}
	ph, ok := phiT.Val.(*ssa.Phi)
	if !ok || phiT.K != an.KPhi || ph.Block() != loop.header {
		return false
	}
	init, step := false, false
	for _, e := range ph.Edges {
		et := fi.Term(e)
		if cv, ok := et.ConstInt(); ok && et.K == an.KConst {
			if v, exact := constant.Int64Val(cv); exact && v+d == 0 {
				init = true
				continue
			}
			return false
		}
		if et.Key() == an.NormBin("+", phiT, an.ConstTerm("1")).Key() {
			step = true
			continue
		}
		return false
	}
	return init && step
}

// recvOrigin returns the RateLimiter field a value was taken from (by index or range).
func recvOrigin(fi *an.FuncInfo, v ssa.Value) string {
	for depth := 0; depth < 6; depth++ {
		switch x := v.(type) {
		case *ssa.UnOp:
			if ia, ok := x.X.(*ssa.IndexAddr); ok {
				cls := fi.RefClass(ia.X)
				if f, ok := cls.FieldOf("RateLimiter"); ok {
					return f
				}
				return ""
			}
			v = x.X
		case *ssa.Extract:
			if nx, ok := x.Tuple.(*ssa.Next); ok {
				if rg, ok := nx.Iter.(*ssa.Range); ok {
					cls := fi.RefClass(rg.X)
					if f, ok := cls.FieldOf("RateLimiter"); ok {
						return f
					}
				}
			}
			return ""
		default:
			return ""
		}
	}
	return ""
}

// recordStores: the stores to RateLimiter.reqs of append(reqs, now).
func recordStores(fi *an.FuncInfo, allow *ssa.Function, nowK string) []*ssa.Store {
	var out []*ssa.Store
	for _, b2 := range allow.Blocks {
		for _, in := range b2.Instrs {
			st, ok := in.(*ssa.Store)
			if !ok {
				continue
			}
			cls := fi.RefClass(st.Addr)
			if f, ok := cls.FieldOf("RateLimiter"); !ok || f != rlReqs {
				continue
			}
			call, ok := st.Val.(*ssa.Call)
			if !ok {
				continue
			}
			bi, ok := call.Call.Value.(*ssa.Builtin)
			if !ok || bi.Name() != "append" {
				continue
			}
			for _, el := range an.VarargElems(call.Call.Args[1]) {
				if el == nil {
					continue
				}
				if fi.Term(el).Key() == nowK {
					out = append(out, st)
				}
			}
		}
	}
	return out
}

// containsPhi: the term is (computed from) a loop-carried value.
func containsPhi(t *an.Term) bool {
	found := false
	t.Walk(func(x *an.Term) {
		if x.K == an.KPhi {
			found = true
		}
	})
	return found
}
