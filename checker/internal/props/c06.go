package props

import (
	"go/token"
	"go/types"
	"strings"

	"gcacheck/internal/an"

	"golang.org/x/tools/go/ssa"
)

func init() {
	register(&an.PropertyCheck{
		ID:      "C06",
		Title:   "Equipment changes need the GCA's signature; a conflict bans exactly one id",
		Engines: "AUTH (must-pass-through with return summaries), WHO-MAY (discovered writers of the device tables), KEYSET, INVERSE, sibling comparison of saver and loader",
		Explanation: "Decided on package server: WHO-MAY the device table, the public-key index, the ban set, the per-device report/impact arrays (insert/delete) and equipment-authorizations.dat are written only by the authorization saver and by the construction-phase authorization loader; " +
			"AUTH at every call of the saver outside construction, under GCAServer.mu, the registration flag is true and glow.Verify(gcaPubkey, ea.SigningBytes(), ea.Signature) holds for the very authorization that is saved, with the key read in the same critical section; " +
			"inside the saver every map change and the file write are dominated by 'id not in the ban set' and by 'not (known and identical)' (an identical resubmission changes nothing), and every map change by a successful append of the record to the file; " +
			"the conflict branch deletes exactly key ea.ShortID from the three id-keyed maps (KEYSET), deletes the index entry of the STORED record's public key (INVERSE: key derived from equipment[id], not from the request), and adds the id to the ban set; the insert branch adds the four entries for one id with index key = the record's own public key; " +
			"the loader applies the same case analysis (banned => skip, identical => skip, new => same four insertions, conflict => same four deletions + ban) after verifying every record under the GCA key. " +
			"The three relations asserted by the server's own CheckInvariants follow from KEYSET + INVERSE. COVER EquipmentAuthorization.SigningBytes covers every field except Signature and cuts exactly the 64 trailing signature bytes off the serialization. NOT decided: uniqueness of public keys across ids (a policy the code does not enforce; noted), JSON float transport (C15), behaviour over histories as such.",
		Assumptions: append([]string{"glow.Verify is sound (trusted)", "the authorization file is written by this server only (README: disk data is trusted)"}, baseAssumptions...),
		Run:         runC06,
	})
}

var deviceMaps = []string{"equipment", "equipmentShortID", "equipmentBans", "equipmentReports", "equipmentImpactRate"}

func isDeviceMap(f string) bool {
	for _, m := range deviceMaps {
		if m == f {
			return true
		}
	}
	return false
}

func runC06(c *an.Ctx) {
	p := c.P
	signingCoverage(c, "COVER", "glow", "EquipmentAuthorization", "Signature")
	ctor := p.Constructor("server", "GCAServer")
	construction := p.ConstructionPhase("server", ctor)
	var saver, loader *ssa.Function
	nOps := 0
	for _, fn := range p.FuncsIn("server") {
		if isAttributedHelper(p, fn) {
			continue
		}
		ops := serverMapOps(p, fn, "GCAServer")
		touches := false
		for _, op := range ops {
			if isDeviceMap(op.field) {
				touches = true
				nOps++
			}
		}
		if !touches {
			continue
		}
		switch {
		case construction[fn]:
			if loader == nil {
				loader = fn
			} else if loader != fn {
				c.Note("WHO-MAY", fn, fn.Pos(), an.KeyOf(fn, "second-loader"), "a second construction-phase function changes the device tables")
			}
		default:
			if saver == nil {
				saver = fn
			} else if saver != fn {
				c.Violated("WHO-MAY", fn, fn.Pos(), an.KeyOf(fn, "device-table-writer"), "the device tables are inserted into / deleted from by "+an.FuncName(fn)+", besides the authorization saver "+an.FuncName(saver),
					"every writer of the device tables must be the GCA-verified saver")
			}
		}
	}
	c.Count("WHO-MAY", nOps)
	c.Floor("WHO-MAY", 8)
	if saver == nil || loader == nil {
		c.Undecided("ANCHOR", nil, 0, "saver/loader", "authorization saver or loader not found", "anchor missing")
		return
	}
	c.Scope(saver, loader)
	c.Proved("WHO-MAY", saver, saver.Pos(), an.KeyOf(saver, "device-table-writers"), "the device tables are changed only by the authorization saver and the construction-phase loader", "saver "+an.FuncName(saver)+", loader "+an.FuncName(loader))
	// writers of the authorization file
	for _, fn := range p.FuncsIn("server") {
		fi := p.Info(fn)
		for _, b := range fn.Blocks {
			for _, in := range b.Instrs {
				call, ok := in.(*ssa.Call)
				if !ok {
					continue
				}
				name := an.CalleeName(&call.Call)
				if name != "os.OpenFile" && name != "os.Create" && name != "os.WriteFile" && name != "io/ioutil.WriteFile" {
					continue
				}
				if fi.PathFileName(call.Call.Args[0]) != "equipment-authorizations.dat" {
					continue
				}
				c.Check(fn == saver || construction[fn], "WHO-MAY", fn, call.Pos(), an.KeyOf(fn, "auth-file-open:"+name), "equipment-authorizations.dat is opened for writing only by the saver (or created empty during construction)", an.FuncName(fn))
			}
		}
	}

	equipmentAuthSites(c, saver)
	saverStructure(c, saver, false)
	saverStructure(c, loader, true)
	// the loader verifies every record before applying it
	lfi := p.Info(loader)
	okV := false
	verifyIgnored := false
	for _, b := range loader.Blocks {
		for _, in := range b.Instrs {
			if mu, ok := in.(*ssa.MapUpdate); ok {
				for _, f := range lfi.FactsAt(mu) {
					_ = f
				}
			}
			if call, ok := in.(*ssa.Call); ok {
				if sc := call.Call.StaticCallee(); sc != nil && an.IsRepoFunc(sc) {
					if sum := p.RetSummaryOf(sc); sum != nil {
						for _, fs := range sum.When {
							for _, f := range fs {
								if (f.T.K == an.KPure || f.T.K == an.KCall) && strings.HasSuffix(f.T.Callee(), "glow.Verify") {
									if f2, _, ok := mapFieldOfTerm(f.T.A[0]); ok && f2 == "gcaPubkey" {
										// the loader gives up on an error of this call: every way on from "error != nil"
										// ends in an error return (a record that does not verify is never skipped over or
										// applied)
										if errorAborts(lfi, call) {
											okV = true
										} else {
											okV = false
											verifyIgnored = true
										}
									}
								}
							}
						}
					}
				}
			}
		}
	}
	c.Check(okV && !verifyIgnored, "AUTH", loader, loader.Pos(), an.KeyOf(loader, "loader-verifies"), "the loader verifies each persisted authorization under the GCA key before applying it", "call to a function whose nil-error summary contains Verify(gcaPubkey, ...)")
	keyset(c, []*ssa.Function{saver, loader}, "C06")
	// "also after a restart": the loaders' rules (owned by C04)
	restartRules(c)
	c.Note("INVERSE", saver, saver.Pos(), an.KeyOf(saver, "key-uniqueness"), "a new authorization whose public key is already used by another id overwrites that id's index entry (uniqueness of keys across ids is not enforced by the code; the property's conflict cases are per id)")
}

// equipmentAuthSites: AUTH at every call site of the authorization saver.
func equipmentAuthSites(c *an.Ctx, saver *ssa.Function) {
	sites := c.P.CallSites(saver)
	c.Count("AUTH", len(sites))
	c.Floor("AUTH", 1)
	for _, s := range sites {
		call, ok := s.(*ssa.Call)
		if !ok {
			continue
		}
		gcaAuthAtCall(c, call, 1, "the authorization saver")
	}
}

// findAuthSaver: the non-construction function that changes the device tables.
func findAuthSaver(p *an.Program) *ssa.Function {
	ctor := p.Constructor("server", "GCAServer")
	construction := p.ConstructionPhase("server", ctor)
	for _, fn := range p.FuncsIn("server") {
		if construction[fn] {
			continue
		}
		if isAttributedHelper(p, fn) {
			continue
		}
		for _, op := range serverMapOps(p, fn, "GCAServer") {
			if isDeviceMap(op.field) {
				return fn
			}
		}
	}
	return nil
}

// gcaAuthAtCall checks, at a call that takes the GCA-signed object as argument argIdx,
// that the registration flag and Verify(gcaPubkey, obj.SigningBytes(), obj.Signature) hold under the lock.
func gcaAuthAtCall(c *an.Ctx, call *ssa.Call, argIdx int, what string) {
	p := c.P
	fn := call.Parent()
	fi := p.Info(fn)
	lf := p.LockFlowOf(fn)
	key := func(s string) string { return an.KeyOf(fn, "gca-auth:"+s) }
	c.Check(an.Held(lf.StateAt(call, "GCAServer.mu")), "AUTH", fn, call.Pos(), key("lock"), what+" is called with GCAServer.mu held", "lock state at the call")
	X := fi.Term(call.Call.Args[argIdx])
	facts := fi.FactsAt(call)
	okFlag := false
	for _, f := range facts {
		if f.Neg {
			continue
		}
		if fld, ver, ok := mapFieldOfTerm(f.T); ok && fld == "gcaPubkeyAvailable" {
			cur := fi.VersionAt(call, an.Class{Root: "T:GCAServer", Path: []string{"gcaPubkeyAvailable"}})
			if ver == cur {
				okFlag = true
			}
		}
	}
	c.Check(okFlag, "AUTH", fn, call.Pos(), key("registered"), "the GCA registration flag is known to be true in the same critical section (no equipment before registration)", "facts "+factList(facts))
	okV := false
	desc := ""
	for _, va := range verifyFacts(facts) {
		if f, ver, ok := mapFieldOfTerm(va[0]); ok && f == "gcaPubkey" {
			cur := fi.VersionAt(call, an.Class{Root: "T:GCAServer", Path: []string{"gcaPubkey"}})
			sigOK := va[2].Key() == fi.FieldOfTerm(X, "Signature").Key()
			if isSigningBytesOf(va[1], X) && sigOK && ver == cur {
				okV = true
				desc = "Verify(gcaPubkey, X.SigningBytes(), X.Signature) with X = " + short(X.Key())
			}
		}
	}
	c.Check(okV, "AUTH", fn, call.Pos(), key("verify"), "glow.Verify under the registered GCA key over SigningBytes() of the very object that is applied, with its own signature, dominates the call (key read in the same critical section)", desc+"; facts "+factList(facts))
}

// saverStructure checks the case analysis inside the saver (or its sibling, the loader).
func saverStructure(c *an.Ctx, fn *ssa.Function, isLoader bool) {
	p := c.P
	fi := p.Info(fn)
	ops := serverMapOps(p, fn, "GCAServer")
	who := "saver"
	if isLoader {
		who = "loader"
	}
	// the authorization being applied: the value stored into equipment[...]
	var EA *an.Term
	for _, op := range ops {
		if op.field == "equipment" && op.kind == "insert" {
			EA = op.valT
		}
	}
	if EA == nil {
		c.Undecided("CASES", fn, fn.Pos(), an.KeyOf(fn, "shape"), "no insertion into the equipment map in the "+who, "shape not recognised")
		return
	}
	idT := fi.FieldOfTerm(EA, "ShortID")
	n := 0
	if isLoader {
		// every loop of the loader runs to its end unless start-up is aborted
		for _, l := range loopsOf(fn) {
			okExit, why := l.noSilentEarlyExit(fi)
			pos := fn.Pos()
			for _, in := range l.header.Instrs {
				if in.Pos().IsValid() {
					pos = in.Pos()
					break
				}
			}
			c.Check(okExit, "CASES", fn, pos, an.KeyOf(fn, "loader:no-early-exit:"+l.header.String()), "a loop of the authorization loader is left only when all its records were visited or by an error that aborts start-up (no break / silent return that drops the remaining records)", why)
		}
	}
	var fileWrite *ssa.Call
	for _, b := range fn.Blocks {
		for _, in := range b.Instrs {
			if call, ok := in.(*ssa.Call); ok && an.CalleeName(&call.Call) == "(*os.File).Write" {
				fileWrite = call
			}
		}
	}
	checkGuards := func(in ssa.Instruction, what string) {
		n++
		facts := fi.FactsAt(in)
		notBanned, notSame, written := false, false, isLoader
		for _, f := range facts {
			t := f.T
			// !ok of equipmentBans[id]
			if f.Neg && t.K == an.KExt && t.S == "1" && t.A[0].K == an.KLkOK {
				if fld, _, ok := mapFieldOfTerm(t.A[0].A[0]); ok && fld == "equipmentBans" && t.A[0].A[1].Key() == idT.Key() {
					notBanned = true
				}
			}
			// a new id is trivially not 'known and identical'
			if f.Neg && t.K == an.KExt && t.S == "1" && t.A[0].K == an.KLkOK {
				if fld, _, ok := mapFieldOfTerm(t.A[0].A[0]); ok && fld == "equipment" && t.A[0].A[1].Key() == idT.Key() {
					notSame = true
				}
			}
			// not (exists && identical): or(!exists, current != ea)  [saver]  /  or(!exists, !bytes.Equal(...)) [loader]
			if t.K == an.KOr {
				for _, pr := range [][2]*an.Term{{t.A[0], t.A[1]}, {t.A[1], t.A[0]}} {
					ne, diff := pr[0], pr[1]
					if ne.K == an.KUn && ne.S == "!" && ne.A[0].K == an.KExt && ne.A[0].S == "1" && ne.A[0].A[0].K == an.KLkOK {
						if fld, _, ok := mapFieldOfTerm(ne.A[0].A[0].A[0]); ok && fld == "equipment" {
							if diff.K == an.KBin && diff.S == "!=" {
								notSame = true
							}
							if diff.K == an.KUn && diff.S == "!" && strings.HasSuffix(diff.A[0].Callee(), "bytes.Equal") {
								notSame = true
							}
						}
					}
				}
			}
			// file write succeeded
			if fileWrite != nil && !f.Neg && t.K == an.KBin && t.S == "==" {
				for _, a := range t.A {
					if a.K == an.KExt && a.S == "1" && a.A[0].Val == ssa.Value(fileWrite) {
						written = true
					}
				}
			}
		}
		key := an.KeyOf(fn, who+":"+what)
		c.Check(notBanned, "CASES", fn, in.Pos(), key+":ban-test", what+" in the "+who+" is dominated by 'id is not in the ban set' (a banned id is refused for ever)", "facts "+factList(facts))
		c.Check(notSame, "CASES", fn, in.Pos(), key+":identical-noop", what+" in the "+who+" is dominated by 'not (known and identical)': an identical resubmission changes nothing", "facts "+factList(facts))
		if !isLoader {
			c.Check(written, "CASES", fn, in.Pos(), key+":persist-first", what+" in the saver is dominated by a successful append of the record to equipment-authorizations.dat (disk before memory)", "facts "+factList(facts))
		}
	}
	for _, op := range ops {
		if isDeviceMap(op.field) {
			checkGuards(op.in, op.kind+" "+op.field)
		}
	}
	if !isLoader && fileWrite != nil {
		// the file write itself is after the ban test and the identical test
		facts := fi.FactsAt(fileWrite)
		nb := false
		for _, f := range facts {
			if f.Neg && f.T.K == an.KExt && f.T.S == "1" && f.T.A[0].K == an.KLkOK {
				if fld, _, ok := mapFieldOfTerm(f.T.A[0].A[0]); ok && fld == "equipmentBans" {
					nb = true
				}
			}
		}
		c.Check(nb, "CASES", fn, fileWrite.Pos(), an.KeyOf(fn, "saver:file-write:ban-test"), "nothing is appended to the authorization file for a banned id", "facts "+factList(facts))
		// and an identical resubmission appends nothing (to the file or to the list of recent authorizations)
		notSameAt := func(in ssa.Instruction) bool {
			for _, f := range fi.FactsAt(in) {
				t := f.T
				if f.Neg && t.K == an.KExt && t.S == "1" && t.A[0].K == an.KLkOK {
					if fld, _, ok := mapFieldOfTerm(t.A[0].A[0]); ok && fld == "equipment" && t.A[0].A[1].Key() == idT.Key() {
						return true
					}
				}
				if t.K == an.KOr {
					for _, pr := range [][2]*an.Term{{t.A[0], t.A[1]}, {t.A[1], t.A[0]}} {
						ne, diff := pr[0], pr[1]
						if ne.K == an.KUn && ne.S == "!" && ne.A[0].K == an.KExt && ne.A[0].S == "1" && ne.A[0].A[0].K == an.KLkOK {
							if fld, _, ok := mapFieldOfTerm(ne.A[0].A[0].A[0]); ok && fld == "equipment" && diff.K == an.KBin && diff.S == "!=" {
								return true
							}
						}
					}
				}
			}
			return false
		}
		c.Check(notSameAt(fileWrite), "CASES", fn, fileWrite.Pos(), an.KeyOf(fn, "saver:file-write:identical-noop"), "an identical resubmission appends nothing to the authorization file (resubmitting changes nothing)", "facts "+factList(facts))
		for _, b := range fn.Blocks {
			for _, in := range b.Instrs {
				call, ok := in.(*ssa.Call)
				if !ok {
					continue
				}
				sc := call.Call.StaticCallee()
				if sc == nil || !an.IsRepoFunc(sc) {
					continue
				}
				writesRecent := false
				for _, w := range p.Effect(sc).WritesSorted() {
					if strings.Contains(w, "recentEquipmentAuths") {
						writesRecent = true
					}
				}
				if writesRecent {
					c.Check(notSameAt(call), "CASES", fn, call.Pos(), an.KeyOf(fn, "saver:recent:identical-noop"), "an identical resubmission is not added to the list of recent authorizations", "facts "+factList(fi.FactsAt(call)))
				}
			}
		}
		// data written is ea.Serialize()
		dt := fi.Term(fileWrite.Call.Args[1])
		okD := (dt.K == an.KPure || dt.K == an.KCall) && strings.HasSuffix(dt.Callee(), ").Serialize") && len(dt.A) == 1
		if okD {
			a := dt.A[0]
			if a.K == an.KRef {
				a = a.A[0]
			}
			okD = a.Key() == EA.Key()
		}
		c.Check(okD, "CASES", fn, fileWrite.Pos(), an.KeyOf(fn, "saver:file-write:data"), "the appended record is the serialization of the authorization that is being applied, in one Write call", "data "+short(dt.Key()))
	}
	c.Count("CASES", n)
	// conflict branch and insert branch
	var delKeys, insKeys = map[string]*an.Term{}, map[string]*an.Term{}
	var delBlock, insBlock *ssa.BasicBlock
	for _, op := range ops {
		if !isDeviceMap(op.field) {
			continue
		}
		if op.kind == "delete" {
			delKeys[op.field] = op.key
			delBlock = op.in.Block()
		} else if op.field != "equipmentBans" {
			insKeys[op.field] = op.key
			insBlock = op.in.Block()
		}
	}
	// INVERSE on insert
	if k, ok := insKeys["equipmentShortID"]; ok {
		okI := k.Key() == fi.FieldOfTerm(EA, "PublicKey").Key()
		var valOK bool
		for _, op := range ops {
			if op.field == "equipmentShortID" && op.kind == "insert" {
				valOK = op.valT != nil && op.valT.Key() == idT.Key() && op.in.Block() == insBlock
			}
		}
		c.Check(okI && valOK, "INVERSE", fn, fn.Pos(), an.KeyOf(fn, who+":index-insert"), "the public-key index receives record.PublicKey -> record.ShortID together with the insertion of the record", "key "+short(k.Key()))
	} else {
		c.Violated("INVERSE", fn, fn.Pos(), an.KeyOf(fn, who+":index-insert"), "the "+who+" inserts a device without adding it to the public-key index", "no insertion into equipmentShortID")
	}
	for _, m := range []string{"equipment", "equipmentReports", "equipmentImpactRate"} {
		if k, ok := insKeys[m]; ok {
			c.Check(k.Key() == idT.Key(), "CASES", fn, fn.Pos(), an.KeyOf(fn, who+":insert-key:"+m), "the new device is inserted into "+m+" under its own ShortID", "key "+short(k.Key()))
		}
	}
	// conflict branch
	for _, m := range []string{"equipment", "equipmentReports", "equipmentImpactRate"} {
		k, ok := delKeys[m]
		c.Check(ok && k.Key() == idT.Key(), "CASES", fn, fn.Pos(), an.KeyOf(fn, who+":ban-delete:"+m), "the conflict branch of the "+who+" deletes exactly the conflicting id from "+m, "key "+keyOrNone(k))
	}
	if k, ok := delKeys["equipmentShortID"]; ok {
		// key must be derived from the stored record: PublicKey of equipment[id]
		derived := false
		if k.K == an.KField && k.S == "PublicKey" {
			k.A[0].Walk(func(t *an.Term) {
				if t.K == an.KLkOK || t.K == an.KLookup {
					if fld, _, ok := mapFieldOfTerm(t.A[0]); ok && fld == "equipment" && t.A[1].Key() == idT.Key() {
						derived = true
					}
				}
			})
		}
		c.Check(derived, "INVERSE", fn, fn.Pos(), an.KeyOf(fn, who+":index-delete"), "the conflict branch removes the index entry of the STORED record's public key (equipment[id].PublicKey), not the key carried by the conflicting request",
			"deleted key "+short(k.Key()))
	} else {
		c.Violated("INVERSE", fn, fn.Pos(), an.KeyOf(fn, who+":index-delete"), "the conflict branch of the "+who+" does not remove the banned device from the public-key index", "no delete on equipmentShortID")
	}
	// ban set insertion in the conflict branch
	banOK := false
	for _, op := range ops {
		if op.field == "equipmentBans" && op.kind == "insert" && op.key.Key() == idT.Key() && (delBlock == nil || op.in.Block() == delBlock) {
			banOK = true
		}
	}
	c.Check(banOK, "CASES", fn, fn.Pos(), an.KeyOf(fn, who+":ban-insert"), "the conflict branch adds exactly the conflicting id to the ban set, in the block that deletes it", "equipmentBans[id] = {}")
}

func keyOrNone(t *an.Term) string {
	if t == nil {
		return "(none)"
	}
	return short(t.Key())
}

// authTableRules: the structural rules about the device tables that other properties rely on when they say
// "authorized and not banned": the saver's and the loader's case analysis (ban test, identical no-op, persist
// first, conflict deletes exactly the id everywhere) and the key-set pairing of the sibling maps.
func authTableRules(c *an.Ctx, prop string) {
	p := c.P
	saver := findAuthSaver(p)
	if saver == nil {
		c.Undecided("ANCHOR", nil, 0, "auth-saver", "authorization saver not found", "anchor missing")
		return
	}
	saverStructure(c, saver, false)
	ctor := p.Constructor("server", "GCAServer")
	construction := p.ConstructionPhase("server", ctor)
	for _, fn := range p.FuncsIn("server") {
		if !construction[fn] || isAttributedHelper(p, fn) {
			continue
		}
		for _, op := range serverMapOps(p, fn, "GCAServer") {
			if op.field == "equipment" && op.kind == "insert" {
				saverStructure(c, fn, true)
				keyset(c, []*ssa.Function{saver, fn}, prop)
				return
			}
		}
	}
}

// restartRules: what a restart does with the persisted records (rules owned by C04): replay through the live
// parser and integrator over every record, no early exit, banned ids skipped by their own id.
func restartRules(c *an.Ctx) {
	roles, construction := fileRoles(c)
	replayRule(c, roles, construction)
	monotoneLoad(c, roles)
}

// errorAborts: the error result of call (its only result, or the last one) is tested against nil and every way on from
// "not nil" ends in an error return or a panic.
func errorAborts(fi *an.FuncInfo, call *ssa.Call) bool {
	var errV ssa.Value = call
	if tup, ok := call.Type().(*types.Tuple); ok {
		errV = nil
		if call.Referrers() != nil {
			for _, r := range *call.Referrers() {
				if ex, isEx := r.(*ssa.Extract); isEx && ex.Index == tup.Len()-1 {
					errV = ex
				}
			}
		}
	}
	if errV == nil || errV.Referrers() == nil {
		return false
	}
	tested := false
	for _, r := range *errV.Referrers() {
		bo, ok := r.(*ssa.BinOp)
		if !ok || (bo.Op != token.NEQ && bo.Op != token.EQL) || bo.Referrers() == nil {
			continue
		}
		for _, r2 := range *bo.Referrers() {
			iff, isIf := r2.(*ssa.If)
			if !isIf {
				continue
			}
			tested = true
			succ := iff.Block().Succs[0]
			if bo.Op == token.EQL {
				succ = iff.Block().Succs[1]
			}
			if !abortsOnly(fi, iff.Block(), succ) {
				return false
			}
		}
	}
	return tested
}
