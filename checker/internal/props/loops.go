package props

import (
	"fmt"
	"go/token"
	"sort"
	"strings"

	"gcacheck/internal/an"

	"golang.org/x/tools/go/ssa"
)

// natLoop is a natural loop of a function's control-flow graph.
type natLoop struct {
	header *ssa.BasicBlock
	body   map[*ssa.BasicBlock]bool // includes the header
	backs  []*ssa.BasicBlock        // sources of the back edges
}

// loopsOf returns the natural loops of fn (one per header; back edges u->h
// with h dominating u; loops sharing a header are merged).
func loopsOf(fn *ssa.Function) []*natLoop {
	byHeader := map[*ssa.BasicBlock]*natLoop{}
	var order []*ssa.BasicBlock
	for _, u := range fn.Blocks {
		for _, h := range u.Succs {
			if !h.Dominates(u) {
				continue
			}
			l := byHeader[h]
			if l == nil {
				l = &natLoop{header: h, body: map[*ssa.BasicBlock]bool{h: true}}
				byHeader[h] = l
				order = append(order, h)
			}
			l.backs = append(l.backs, u)
			// blocks that reach u without passing through h
			stack := []*ssa.BasicBlock{u}
			for len(stack) > 0 {
				x := stack[len(stack)-1]
				stack = stack[:len(stack)-1]
				if l.body[x] {
					continue
				}
				l.body[x] = true
				stack = append(stack, x.Preds...)
			}
		}
	}
	var out []*natLoop
	for _, h := range order {
		out = append(out, byHeader[h])
	}
	return out
}

// innermostLoopOf returns the smallest loop of fn that contains b.
func innermostLoopOf(fn *ssa.Function, b *ssa.BasicBlock) *natLoop {
	var best *natLoop
	for _, l := range loopsOf(fn) {
		if l.body[b] && (best == nil || len(l.body) < len(best.body)) {
			best = l
		}
	}
	return best
}

// everyIteration: each completed iteration of l passes through block b
// (b dominates every back-edge source).
func (l *natLoop) everyIteration(b *ssa.BasicBlock) bool {
	if !l.body[b] {
		return false
	}
	for _, u := range l.backs {
		if !b.Dominates(u) {
			return false
		}
	}
	return true
}

// everyIterationThroughAny: each completed iteration passes through at least
// one of the given blocks (no path from the header back to the header avoids
// all of them).
func (l *natLoop) everyIterationThroughAny(blocks map[*ssa.BasicBlock]bool) bool {
	seen := map[*ssa.BasicBlock]bool{}
	var stack []*ssa.BasicBlock
	for _, s := range l.header.Succs {
		if l.body[s] {
			stack = append(stack, s)
		}
	}
	for len(stack) > 0 {
		x := stack[len(stack)-1]
		stack = stack[:len(stack)-1]
		if x == l.header {
			return false
		}
		if seen[x] || blocks[x] || !l.body[x] {
			continue
		}
		seen[x] = true
		stack = append(stack, x.Succs...)
	}
	return true
}

// earlyExits lists the edges that leave the loop from a block other than its
// header (break, return, goto out of the body).
func (l *natLoop) earlyExits() [][2]*ssa.BasicBlock {
	var out [][2]*ssa.BasicBlock
	for _, fb := range l.header.Parent().Blocks { // deterministic order
		if !l.body[fb] || fb == l.header {
			continue
		}
		for _, s := range fb.Succs {
			if !l.body[s] {
				out = append(out, [2]*ssa.BasicBlock{fb, s})
			}
		}
	}
	return out
}

// abortsOnly: every path that continues over the edge from -> b ends in a panic or in a return whose last result (the
// error) is not the nil constant. The walk follows error values through joins: a phi that receives, on the edge taken, a
// value known to be non-nil there (a comparison fact, fmt.Errorf, errors.New, another such phi) is non-nil, and a later
// test phi != nil / phi == nil is followed only on the side that agrees (err = e; break ... if err != nil { return err }).
func abortsOnly(fi *an.FuncInfo, from, b *ssa.BasicBlock) bool {
	seen := map[string]bool{}
	nilc := an.ConstTerm("nil")
	nonNilOn := func(v ssa.Value, prev, x *ssa.BasicBlock, known map[ssa.Value]bool) bool {
		if known[v] {
			return true
		}
		t := fi.Term(v)
		if isDefinitelyError(t) {
			return true
		}
		if c, isC := t.IsConst(); isC {
			return c != "nil" && c != "<nil>"
		}
		key := an.NormBin("!=", t, nilc).Key()
		if n := len(prev.Instrs); n > 0 && fi.FactsAt(prev.Instrs[n-1]).Has(key) {
			return true
		}
		for _, f := range fi.EdgeFacts(prev, x) {
			if f.Key() == key {
				return true
			}
		}
		return false
	}
	var walk func(prev, x *ssa.BasicBlock, known map[ssa.Value]bool) bool
	walk = func(prev, x *ssa.BasicBlock, known map[ssa.Value]bool) bool {
		if prev != nil {
			idx := -1
			for i, p := range x.Preds {
				if p == prev {
					idx = i
				}
			}
			var add []ssa.Value
			for _, in := range x.Instrs {
				ph, ok := in.(*ssa.Phi)
				if !ok {
					break
				}
				if idx >= 0 && isErrorish(ph) && nonNilOn(ph.Edges[idx], prev, x, known) {
					add = append(add, ph)
				}
			}
			if len(add) > 0 {
				k2 := map[ssa.Value]bool{}
				for v := range known {
					k2[v] = true
				}
				for _, v := range add {
					k2[v] = true
				}
				known = k2
			}
		}
		var ids []string
		for v := range known {
			ids = append(ids, v.Name())
		}
		sort.Strings(ids)
		sk := fmt.Sprintf("%d|%s", x.Index, strings.Join(ids, ","))
		if seen[sk] {
			return true
		}
		seen[sk] = true
		if len(x.Instrs) == 0 {
			return false
		}
		switch t := x.Instrs[len(x.Instrs)-1].(type) {
		case *ssa.Panic:
			return true
		case *ssa.Return:
			if len(t.Results) == 0 {
				return false
			}
			last := t.Results[len(t.Results)-1]
			if ph, isPhi := last.(*ssa.Phi); isPhi && ph.Block() == x && prev != nil {
				// the value the join receives on the way taken
				return known[ph]
			}
			return !isConstTerm(fi.Term(last), "nil")
		case *ssa.If:
			if bo, ok := t.Cond.(*ssa.BinOp); ok && (bo.Op == token.NEQ || bo.Op == token.EQL) {
				var v ssa.Value
				if c, ok := bo.Y.(*ssa.Const); ok && c.IsNil() {
					v = bo.X
				} else if c, ok := bo.X.(*ssa.Const); ok && c.IsNil() {
					v = bo.Y
				}
				if v != nil && known[v] {
					if bo.Op == token.NEQ {
						return walk(x, x.Succs[0], known)
					}
					return walk(x, x.Succs[1], known)
				}
			}
		}
		if len(x.Succs) == 0 {
			return false
		}
		for _, s := range x.Succs {
			if !walk(x, s, known) {
				return false
			}
		}
		return true
	}
	return walk(from, b, map[ssa.Value]bool{})
}

// noSilentEarlyExit: the loop is left only through its header's condition or
// through an abort (error return / panic); returns a description of the first
// offending edge otherwise.
func (l *natLoop) noSilentEarlyExit(fi *an.FuncInfo) (bool, string) {
	for _, e := range l.earlyExits() {
		if !abortsOnly(fi, e[0], e[1]) {
			pos := ""
			for _, in := range e[0].Instrs {
				if in.Pos().IsValid() {
					pos = fi.P.Pos(in.Pos())
				}
			}
			return false, "edge from block " + e[0].String() + " (" + pos + ") leaves the loop without an error"
		}
	}
	return true, ""
}
