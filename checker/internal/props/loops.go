package props

import (
	"gcacheck/internal/an"

	"golang.org/x/tools/go/ssa"
)

// natLoop is a natural loop of a function's control-flow graph.
type natLoop struct {
	header *ssa.BasicBlock
	body   map[*ssa.BasicBlock]bool // includes the header
	backs  []*ssa.BasicBlock        // sources of the back edges
}

// loopsOf returns the natural loops of fn (one per header; back edges u->h
// with h dominating u; loops sharing a header are merged).
func loopsOf(fn *ssa.Function) []*natLoop {
	byHeader := map[*ssa.BasicBlock]*natLoop{}
	var order []*ssa.BasicBlock
	for _, u := range fn.Blocks {
		for _, h := range u.Succs {
			if !h.Dominates(u) {
				continue
			}
			l := byHeader[h]
			if l == nil {
				l = &natLoop{header: h, body: map[*ssa.BasicBlock]bool{h: true}}
				byHeader[h] = l
				order = append(order, h)
			}
			l.backs = append(l.backs, u)
			// blocks that reach u without passing through h
			stack := []*ssa.BasicBlock{u}
			for len(stack) > 0 {
				x := stack[len(stack)-1]
				stack = stack[:len(stack)-1]
				if l.body[x] {
					continue
				}
				l.body[x] = true
				stack = append(stack, x.Preds...)
			}
		}
	}
	var out []*natLoop
	for _, h := range order {
		out = append(out, byHeader[h])
	}
	return out
}

// innermostLoopOf returns the smallest loop of fn that contains b.
func innermostLoopOf(fn *ssa.Function, b *ssa.BasicBlock) *natLoop {
	var best *natLoop
	for _, l := range loopsOf(fn) {
		if l.body[b] && (best == nil || len(l.body) < len(best.body)) {
			best = l
		}
	}
	return best
}

// everyIteration: each completed iteration of l passes through block b
// (b dominates every back-edge source).
func (l *natLoop) everyIteration(b *ssa.BasicBlock) bool {
	if !l.body[b] {
		return false
	}
	for _, u := range l.backs {
		if !b.Dominates(u) {
			return false
		}
	}
	return true
}

// everyIterationThroughAny: each completed iteration passes through at least
// one of the given blocks (no path from the header back to the header avoids
// all of them).
func (l *natLoop) everyIterationThroughAny(blocks map[*ssa.BasicBlock]bool) bool {
	seen := map[*ssa.BasicBlock]bool{}
	var stack []*ssa.BasicBlock
	for _, s := range l.header.Succs {
		if l.body[s] {
			stack = append(stack, s)
		}
	}
	for len(stack) > 0 {
		x := stack[len(stack)-1]
		stack = stack[:len(stack)-1]
		if x == l.header {
			return false
		}
		if seen[x] || blocks[x] || !l.body[x] {
			continue
		}
		seen[x] = true
		stack = append(stack, x.Succs...)
	}
	return true
}

// earlyExits lists the edges that leave the loop from a block other than its
// header (break, return, goto out of the body).
func (l *natLoop) earlyExits() [][2]*ssa.BasicBlock {
	var out [][2]*ssa.BasicBlock
	for _, fb := range l.header.Parent().Blocks { // deterministic order
		if !l.body[fb] || fb == l.header {
			continue
		}
		for _, s := range fb.Succs {
			if !l.body[s] {
				out = append(out, [2]*ssa.BasicBlock{fb, s})
			}
		}
	}
	return out
}

// abortsOnly: every path from b ends in a panic or in a return whose last
// result (the error) is not the nil constant.
func abortsOnly(fi *an.FuncInfo, b *ssa.BasicBlock) bool {
	seen := map[*ssa.BasicBlock]bool{}
	var walk func(x *ssa.BasicBlock) bool
	walk = func(x *ssa.BasicBlock) bool {
		if seen[x] {
			return true
		}
		seen[x] = true
		if len(x.Instrs) == 0 {
			return false
		}
		switch t := x.Instrs[len(x.Instrs)-1].(type) {
		case *ssa.Panic:
			return true
		case *ssa.Return:
			if len(t.Results) == 0 {
				return false
			}
			return !isConstTerm(fi.Term(t.Results[len(t.Results)-1]), "nil")
		}
		if len(x.Succs) == 0 {
			return false
		}
		for _, s := range x.Succs {
			if !walk(s) {
				return false
			}
		}
		return true
	}
	return walk(b)
}

// noSilentEarlyExit: the loop is left only through its header's condition or
// through an abort (error return / panic); returns a description of the first
// offending edge otherwise.
func (l *natLoop) noSilentEarlyExit(fi *an.FuncInfo) (bool, string) {
	for _, e := range l.earlyExits() {
		if !abortsOnly(fi, e[1]) {
			pos := ""
			for _, in := range e[0].Instrs {
				if in.Pos().IsValid() {
					pos = fi.P.Pos(in.Pos())
				}
			}
			return false, "edge from block " + e[0].String() + " (" + pos + ") leaves the loop without an error"
		}
	}
	return true, ""
}
