package props

import (
	"fmt"
	"math/big"
	"strings"

	"gcacheck/internal/an"

	"golang.org/x/tools/go/ssa"
)

func init() {
	register(&an.PropertyCheck{
		ID:      "C08",
		Title:   "Lost datagrams are eventually recovered; retransmissions are identical",
		Engines: "CODEC (bit order on both sides), dominance over the resend loop, PRED (conversion chain evaluated on the 32-bit sign-extension domain), WHO-MAY (single sender)",
		Explanation: "Decided (each a necessary condition of recovery that is visible in the code's shape): BITS the server sets bit i (byte i/8, bit i%8, LSB first) iff it holds a record for slot offset+i (PowerOutput > 0, a ban counts) and the client tests the same bit; " +
			"RESEND the client's resend loop runs i from 0 while i <= latest - offset and i/8 < 504; for a clear bit it loads slot offset+i from its history, skips it iff the load failed or the value is below 2, and otherwise sends (offset+i, uint64(int32(value))) through the one sender function; " +
			"so what is re-sent is a function of the server's bitfield and the local history only, independent of which datagrams or earlier syncs were lost; CHAIN the original path stores uint32(E) and sends E, the resend path sends uint64(int32(stored)): composed, this is the identity for every E that is the sign extension of a 32-bit value " +
			"(evaluated on the boundary cells of that domain), so a retransmission is byte-identical to the original (same sender, same signing bytes; deterministic signing is trusted); WRITE-ONCE the history the retransmission is read from never changes a stored reading (the rule of C09, re-run); IDEMPOTENT the server ignores an identical replay (C02's ABSORB rule, re-checked). " +
			"every edge that leaves the resend loop is one of its two range conditions failing (no cap, break or return inside it); the reply layout rule of C10 (offset and bitfield read where and how the server writes them) is re-run. Premises re-run: the reply's window offset and bitfield are read in one critical section (C10), the acceptance window is exactly +-432 (C01), every client lock is released on every path (C11). NOT decided: the fault-sequence quantifier itself (which datagrams are lost, which sync attempts fail), timing and 'eventually'; readings outside the signed 32-bit range (outside the property's stated domain).",
		Assumptions: append([]string{"glow.Sign is deterministic (RFC 6979, trusted)", "UDP delivers a datagram unchanged or not at all"}, baseAssumptions...),
		Run:         runC08,
	})
}

func runC08(c *an.Ctx) {
	p := c.P
	bitOrder(c)
	sender := findSender(p)
	saver, loader := historyFuncs(p)
	if sender == nil || saver == nil || loader == nil {
		c.Undecided("ANCHOR", nil, 0, "sender/history", "sender or history functions not found", "anchor missing")
		return
	}
	// the resend site: the sender call whose record comes from the history loader
	var site *ssa.Call
	for _, s := range p.CallSites(sender) {
		call, ok := s.(*ssa.Call)
		if !ok || len(call.Call.Args) < 3 {
			continue
		}
		fi := p.Info(call.Parent())
		rec := fi.Term(call.Call.Args[2])
		if rec.K == an.KLoad {
			if e := fi.ResolveLocalField(rec, "Energy", call); e != nil {
				e.Walk(func(t *an.Term) {
					if t.K == an.KExt && t.S == "0" {
						if cc, ok := t.A[0].Val.(*ssa.Call); ok && cc.Call.StaticCallee() == loader {
							site = call
						}
					}
				})
			}
		}
	}
	if site == nil {
		c.Violated("RESEND", nil, 0, "resend-site", "no call of the sender re-sends a value read back from the history", "the client cannot recover lost datagrams")
		return
	}
	fn := site.Parent()
	c.Scope(fn, sender, loader)
	fi := p.Info(fn)
	rec := fi.Term(site.Call.Args[2])
	tsT := fi.ResolveLocalField(rec, "Timeslot", site)
	enT := fi.ResolveLocalField(rec, "Energy", site)
	facts := fi.FactsAt(site)
	// the loader call and its argument
	var loadCall *ssa.Call
	enT.Walk(func(t *an.Term) {
		if t.K == an.KExt && t.S == "0" {
			if cc, ok := t.A[0].Val.(*ssa.Call); ok && cc.Call.StaticCallee() == loader {
				loadCall = cc
			}
		}
	})
	slotT := fi.Term(loadCall.Call.Args[1])
	stored := fi.FieldlessExtract(loadCall, 0)
	loadErr := fi.FieldlessExtract(loadCall, 1)
	key := func(s string) string { return an.KeyOf(fn, "resend:"+s) }
	c.Check(tsT != nil && tsT.Key() == slotT.Key(), "RESEND", fn, site.Pos(), key("same-slot"), "the re-sent report carries the timeslot whose reading was loaded", "record.Timeslot "+keyOrNone(tsT)+", loaded slot "+short(slotT.Key()))
	// slot = i + offset with i the loop counter
	var iT, offT *an.Term
	if slotT.K == an.KBin && slotT.S == "+" {
		for k := 0; k < 2; k++ {
			if slotT.A[k].K == an.KPhi {
				iT, offT = slotT.A[k], slotT.A[1-k]
			}
		}
	}
	c.Check(iT != nil, "RESEND", fn, site.Pos(), key("slot-formula"), "the loaded slot is offset + i for the loop index i", "slot "+short(slotT.Key()))
	if iT == nil {
		return
	}
	// guards at the send
	okErr := facts.Has(an.NormBin("==", loadErr, an.ConstTerm("nil")).Key())
	okVal := facts.Has(an.NormBin("<=", an.ConstTerm("2"), stored).Key())
	c.Check(okErr && okVal, "RESEND", fn, site.Pos(), key("skip-rule"), "a slot is skipped iff its load failed or its value is below 2 (0: nothing measured, 1: never used): the send is dominated by err == nil and 2 <= value", "facts "+factList(facts))
	// and nothing else skips: the only branches between the loop head and the send are the bit test and this rule
	// bit clear
	okBit := false
	for _, f := range facts {
		if !f.Neg && f.T.K == an.KBin && f.T.S == "==" {
			for k := 0; k < 2; k++ {
				if isConstTerm(f.T.A[k], "0") && f.T.A[1-k].K == an.KBin && f.T.A[1-k].S == "&" && strings.Contains(f.T.A[1-k].Key(), "<<") {
					okBit = true
				}
			}
		}
	}
	c.Check(okBit, "RESEND", fn, site.Pos(), key("clear-bit"), "a report is re-sent only for a slot whose bit is clear in the server's bitfield", "facts "+factList(facts))
	// loop range
	var lastT *an.Term
	okUpper, okBytes := false, false
	for _, f := range facts {
		if f.Neg || f.T.K != an.KBin {
			continue
		}
		if f.T.S == "<=" && f.T.A[0].Key() == iT.Key() {
			lastT = f.T.A[1]
			okUpper = true
		}
		if f.T.S == "<" && isConstTerm(f.T.A[1], "504") && strings.Contains(f.T.A[0].Key(), iT.Key()) && strings.Contains(f.T.A[0].Key(), "#8") {
			okBytes = true
		}
	}
	okLast := false
	if lastT != nil && lastT.K == an.KBin && lastT.S == "-" && lastT.A[1].Key() == offT.Key() {
		okLast = lastT.A[0].Key() == fi.Term(fn.Params[1]).Key()
	}
	c.Check(okUpper && okLast && okBytes, "RESEND", fn, site.Pos(), key("range"), "the loop covers i <= latest - offset and i/8 < 504 (every slot of the server's window up to the device's latest reading)", "facts "+factList(facts))
	// starts at 0, step 1
	okStart := false
	if ph, ok := iT.Val.(*ssa.Phi); ok {
		z, s1 := false, false
		for _, e := range ph.Edges {
			et := fi.Term(e)
			if isConstTerm(et, "0") {
				z = true
			}
			if et.Key() == an.NormBin("+", iT, an.ConstTerm("1")).Key() {
				s1 = true
			}
		}
		okStart = z && s1 && len(ph.Edges) <= 4
	}
	c.Check(okStart, "RESEND", fn, site.Pos(), key("from-zero"), "the loop index starts at 0 and advances by 1 on every path (no slot of the window is skipped by the iteration itself)", "phi edges of the index")
	// offset is the parser's result
	okOff := false
	parser := findSyncParser(p)
	if parser != nil {
		okOff = derivesFromCall(fi, offT.Val, parser, 0)
	}
	c.Check(okOff, "RESEND", fn, site.Pos(), key("offset-from-reply"), "offset is the window offset returned by the (verified) sync reply", "offset "+short(offT.Key()))

	// CHAIN
	okChain := enT.K == an.KConv && strings.HasSuffix(enT.S, "uint64") && enT.A[0].K == an.KConv && strings.HasSuffix(enT.A[0].S, "int32") && enT.A[0].A[0].Key() == stored.Key()
	c.Check(okChain, "CHAIN", fn, site.Pos(), key("sign-extension"), "the re-sent value is uint64(int32(stored)) (the stored 32 bits, sign-extended)", "value "+short(enT.Key()))
	if okChain {
		// compose with the original path: stored = uint32(E)
		bad := ""
		pts := 0
		for _, es := range []string{"0", "2", "3", "24000", "2^31-1", "2^64-2^31", "2^64-24000", "2^64-1"} {
			E := bigExpr(es)
			st := new(big.Int).And(E, an.Big("2^32-1"))
			got, err := an.EvalInt(enT, an.Env{stored.Key(): st}, p.IntBits)
			pts++
			if err != nil {
				bad = err.Error()
				break
			}
			if got.Cmp(E) != 0 {
				bad = fmt.Sprintf("E=%s: resent %s", E, got)
			}
		}
		c.Check(bad == "", "CHAIN", fn, site.Pos(), key("identity-on-domain"), "uint64(int32(uint32(E))) == E for every E that is the sign extension of a 32-bit value: the retransmission carries the originally sent value", fmt.Sprintf("%d boundary cells evaluated %s", pts, bad))
	}
	// the original path stores uint32(E) of the record it sends (C09 SEND rule) - re-check the conversion
	okStore := false
	for _, s := range p.CallSites(saver) {
		cfi := p.Info(s.Parent())
		v := cfi.Term(s.Common().Args[2])
		if v.K == an.KConv && strings.HasSuffix(v.S, "uint32") && strings.Contains(v.A[0].Key(), "Energy") {
			okStore = true
		}
	}
	c.Check(okStore, "CHAIN", saver, saver.Pos(), an.KeyOf(saver, "stores-low-32"), "the history stores uint32(record.Energy) of the record whose full value is sent", "saver call sites")
	// IDEMPOTENT
	if integ := findIntegrator(p); integ != nil {
		ifi := p.Info(integ)
		R := ifi.Term(integ.Params[1])
		ok := true
		nSt := 0
		for _, b := range integ.Blocks {
			for _, in := range b.Instrs {
				st, isSt := in.(*ssa.Store)
				if !isSt {
					continue
				}
				cls := ifi.RefClass(st.Addr)
				if f, isF := cls.FieldOf("GCAServer"); !isF || (f != "equipmentReports" && f != "recentReports") {
					continue
				}
				if f, _ := cls.FieldOf("GCAServer"); f == "equipmentReports" && len(cls.Path) < 3 {
					continue
				}
				nSt++
				nd := false
				for _, fct := range ifi.FactsAt(st) {
					if !fct.Neg && fct.T.K == an.KBin && fct.T.S == "!=" {
						for k := 0; k < 2; k++ {
							if fct.T.A[k].Key() == R.Key() && isSlotLoad(fct.T.A[1-k]) {
								nd = true
							}
						}
					}
				}
				if !nd {
					ok = false
				}
			}
		}
		c.Check(ok && nSt > 0, "IDEMPOTENT", integ, integ.Pos(), an.KeyOf(integ, "replay-noop"), "on the server an identical retransmission changes nothing (every state change of the integrator is dominated by slot != report), so recovery can never ban the device's own slot", fmt.Sprintf("%d stores checked", nSt))
	}
	// the resend loop runs to the end of its range: no break or return inside it (a cap on retransmissions would
	// leave later slots unrecovered while the round still counts as a success)
	if l := innermostLoopOf(fn, site.Block()); l != nil {
		// every edge that leaves the loop is one of its two range conditions failing
		okExits := true
		where := ""
		nEx := 0
		for _, u := range fn.Blocks {
			if !l.body[u] {
				continue
			}
			for _, v := range u.Succs {
				if l.body[v] {
					continue
				}
				nEx++
				isRange := false
				for _, f := range fi.EdgeFacts(u, v) {
					t := f.T
					if f.Neg || t.K != an.KBin {
						continue
					}
					// last < i   or   504 <= i/8
					if t.S == "<" && t.A[1].Key() == iT.Key() {
						isRange = true
					}
					if t.S == "<=" && isConstTerm(t.A[0], "504") && strings.Contains(t.A[1].Key(), iT.Key()) {
						isRange = true
					}
				}
				if !isRange {
					okExits = false
					for _, in := range u.Instrs {
						if in.Pos().IsValid() {
							where = p.Pos(in.Pos())
						}
					}
				}
			}
		}
		c.Check(okExits && nEx > 0, "RESEND", fn, site.Pos(), key("no-early-exit"), "the resend loop is left only when its range is exhausted (i > latest - offset, or the end of the bitfield): no other break or return, e.g. a cap on retransmissions", "exit near "+where)
	} else {
		c.Undecided("RESEND", fn, site.Pos(), key("no-early-exit"), "the resend site is not inside a loop", "shape not recognised")
	}
	// the window offset and the bitfield are read from the reply at the positions and in the byte order the server
	// writes them (layout rule owned by C10, re-run: a misread offset makes every later window unrecoverable)
	if parser != nil {
		replyLayout(c, parser, nil)
	}
	c.Count("RESEND", 8)
	// the history a retransmission is read from is write-once (rule owned by C09, re-run here:
	// otherwise the re-sent value can differ from the one originally sent)
	writeOnce(c, saver, loader)
	// the bitfield tells the client which slots of the window that starts at the replied offset are missing: both are
	// read in one critical section on the server (rule owned by C10; otherwise a rotation between the two reads pairs the
	// new window start with the old window's bitfield and a lost slot is never asked for again)
	replyOneState(c)
	// a retransmitted reading is still acceptable when it arrives: the server accepts exactly +-432 slots (rule owned by C01)
	acceptanceWindow(c)
	// "whichever sync attempts fail": a failed round leaves the client able to run the next one (every client lock is
	// released on every path; rule owned by C11)
	lockBalance(c, p.FuncsIn("client"), nil, "C08")
}

// bigExpr evaluates "2^a-2^b", "2^a-k", "2^a", "k".
func bigExpr(s string) *big.Int {
	if i := strings.LastIndex(s, "-2^"); i > 0 {
		return new(big.Int).Sub(an.Big(s[:i]), an.Big(s[i+1:]))
	}
	return an.Big(s)
}
