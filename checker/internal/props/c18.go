package props

import (
	"fmt"
	"go/constant"
	"go/types"
	"strings"

	"gcacheck/internal/an"

	"golang.org/x/tools/go/ssa"
)

func init() {
	register(&an.PropertyCheck{
		ID:      "C18",
		Title:   "Event log stays within its memory bound, keeps the newest events, never panics",
		Engines: "ACCOUNT (pairing of the size counter with every insert/delete), BOUND with loop invariants and three data-structure lemmas, LOCK, dominance",
		Explanation: "Decided on glow.EventLogger in every configuration: ACCOUNT the running size counter is written only as size += 2*len(key) paired with the insertion of that key and size -= 2*len(key) paired with the deletion of that key, " +
			"in the same basic block (so the counter equals the stored size after expiry too); LINE-KEY every stored entry's line equals its map key; BOUND-SZ the insertion is dominated by need + size <= max (as written, or proved by BOUND's linear layer from an equivalent guard such as size <= max - need) and need <= max for the same size value that is incremented " +
			"(so the counter never exceeds the maximum); the line is cut with key[:limit] under len(key) > limit; NONEMPTY every stored entry has at least one timestamp (insertions store a one-element list, updates append, the expiry reslice is followed in the same " +
			"critical section by the deletion of every entry that became empty); EVICT the eviction loop takes the front of a list that holds every stored entry, sorted ascending by last timestamp, and runs only while need + size > max, which with need <= max and ACCOUNT " +
			"implies a non-empty list; every other index/slice in the three methods and their comparison closures is proved by BOUND (sort.Slice contract for the closures); all methods are lock-balanced and touch the state only under the lock; " +
			"the constructor is only called with positive limits. TRUNC a line is inserted only with len <= logMaxLineBytes and the duplicate test uses the same (cut) line as the insertion. The insertion and every deletion in Printf happen only on the way on which the duplicate test found nothing (a repeated line displaces nothing). NOT decided: the long-run behaviour over arbitrary operation sequences as such (these are the inductive invariants such a behaviour rests on, each checked at every writer), DumpLogEntries' output order beyond the comparator direction.",
		Assumptions: append([]string{"sort.Slice sorts according to the less function (godoc)", "NewEventLogger is only called with positive limits (checked at every call site in the repository: rule CFG)"}, baseAssumptions...),
		Run:         runC18,
	})
}

func eventLogScope(p *an.Program) []*ssa.Function {
	var scope []*ssa.Function
	for _, fn := range p.FuncsIn("glow") {
		if strings.Contains(an.FuncName(fn), "EventLogger") {
			scope = append(scope, fn)
		}
	}
	return scope
}

func runC18(c *an.Ctx) {
	p := c.P
	scope := eventLogScope(p)
	if len(scope) < 4 {
		c.Undecided("ANCHOR", nil, 0, "EventLogger", "methods of glow.EventLogger not found", "anchor missing")
		return
	}
	c.Scope(scope...)
	lockBalance(c, scope, nil, "C18")
	c.Floor("LOCK-1", 3)
	ctor := p.Constructor("glow", "EventLogger")
	construction := p.ConstructionPhase("glow", ctor)
	written := p.WrittenOutside(scope, construction)
	spec := an.GuardSpec{Lock: "EventLogger.mu", Roots: []an.Class{{Root: "T:EventLogger"}, {Root: "T:LogEntry"}}, Exempt: func(cl an.Class) string {
		if cl.Path[0] == "mu" {
			return "the mutex itself"
		}
		if w, _ := written(cl); !w {
			return "written only by the constructor"
		}
		return ""
	}}
	guardedBy(c, spec, scope, construction)
	c.Floor("LOCK-4", 5)

	acct := eventLogAccount(c, scope)
	nonEmpty := eventLogNonEmpty(c, scope)
	eventLogConfig(c)

	boundRule(c, "BOUND", scope, func(o an.BoundObl) (string, string) {
		return eventLogLemmas(p, o, acct, nonEmpty)
	})
	c.Floor("BOUND", 6)
	eventLogSizeBound(c)
	eventLogLineLimit(c)
	eventLogEvictionOrder(c)
}

// eventLogLemmas discharges the obligations that rest on data-structure invariants.
func eventLogLemmas(p *an.Program, o an.BoundObl, acct, nonEmpty bool) (string, string) {
	if ok, why := sortSliceLemma(p, o); ok {
		return an.Proved, why
	}
	if nonEmpty {
		if ok, why := lastTimestampLemma(p, o); ok {
			return an.Proved, why
		}
	}
	if acct {
		if ok, why := evictLemma(p, o); ok {
			return an.Proved, why
		}
	}
	return "", ""
}

// sizeDelta recognises a store  l.logSizeBytes = l.logSizeBytes (+|-) 2*len(K)
// and returns the sign and K.
func sizeDelta(fi *an.FuncInfo, st *ssa.Store) (sign int, key *an.Term, ok bool) {
	cls := fi.RefClass(st.Addr)
	if f, isF := cls.FieldOf("EventLogger"); !isF || f != "logSizeBytes" {
		return 0, nil, false
	}
	vt := fi.Term(st.Val)
	if vt.K != an.KBin || (vt.S != "+" && vt.S != "-") {
		return 0, nil, true
	}
	var cur, delta *an.Term
	for i := 0; i < 2; i++ {
		if f, _, isL := mapFieldOfTerm(vt.A[i]); isL && f == "logSizeBytes" {
			cur, delta = vt.A[i], vt.A[1-i]
		}
	}
	if cur == nil || (vt.S == "-" && cur != vt.A[0]) {
		return 0, nil, true
	}
	// delta = 2*len(K)
	if delta.K == an.KBin && delta.S == "*" {
		for i := 0; i < 2; i++ {
			if k, isC := delta.A[i].IsConst(); isC && k == "2" && delta.A[1-i].K == an.KLen {
				s := 1
				if vt.S == "-" {
					s = -1
				}
				return s, delta.A[1-i].A[0], true
			}
		}
	}
	return 0, nil, true
}

// eventLogAccount: ACCOUNT and LINE-KEY.
func eventLogAccount(c *an.Ctx, scope []*ssa.Function) bool {
	p := c.P
	okAll := true
	n := 0
	for _, fn := range scope {
		fi := p.Info(fn)
		type op struct {
			in   ssa.Instruction
			kind string
			key  *an.Term
			val  ssa.Value
		}
		var mapOps, sizeOps []op
		for _, b := range fn.Blocks {
			for _, in := range b.Instrs {
				switch x := in.(type) {
				case *ssa.MapUpdate:
					cls := fi.RefClass(x.Map)
					if f, ok := cls.FieldOf("EventLogger"); ok && f == "logs" {
						mapOps = append(mapOps, op{x, "insert", fi.Term(x.Key), x.Value})
					}
				case *ssa.Call:
					if bi, ok := x.Call.Value.(*ssa.Builtin); ok && bi.Name() == "delete" {
						cls := fi.RefClass(x.Call.Args[0])
						if f, ok := cls.FieldOf("EventLogger"); ok && f == "logs" {
							mapOps = append(mapOps, op{x, "delete", fi.Term(x.Call.Args[1]), nil})
						}
					}
				case *ssa.Store:
					sign, key, isSize := sizeDelta(fi, x)
					if !isSize {
						continue
					}
					if fn.Name() == "NewEventLogger" {
						continue
					}
					kind := "other"
					if sign > 0 {
						kind = "inc"
					} else if sign < 0 {
						kind = "dec"
					}
					sizeOps = append(sizeOps, op{x, kind, key, nil})
				}
			}
		}
		used := map[ssa.Instruction]bool{}
		for _, m := range mapOps {
			n++
			want := "inc"
			if m.kind == "delete" {
				want = "dec"
			}
			found := false
			for _, s := range sizeOps {
				if s.kind == want && s.in.Block() == m.in.Block() && s.key != nil && s.key.Key() == m.key.Key() && !used[s.in] {
					found = true
					used[s.in] = true
					break
				}
			}
			key := an.KeyOf(fn, "account:"+m.kind)
			desc := fmt.Sprintf("%s of logs[key] is paired, in the same basic block, with logSizeBytes %s 2*len(key) for the same key", m.kind, map[string]string{"insert": "+=", "delete": "-="}[m.kind])
			if !c.Check(found, "ACCOUNT", fn, m.in.Pos(), key, desc, "key term "+short(m.key.Key())) {
				okAll = false
			}
			if m.kind == "insert" {
				// LINE-KEY: the stored entry's line field is the key
				lineOK := false
				if al, ok := m.val.(*ssa.Alloc); ok {
					if refs := al.Referrers(); refs != nil {
						for _, r := range *refs {
							if fa, ok := r.(*ssa.FieldAddr); ok && fieldNameOf(fa) == "line" {
								for _, r2 := range *fa.Referrers() {
									if st, ok := r2.(*ssa.Store); ok && fi.Term(st.Val).Key() == m.key.Key() {
										lineOK = true
									}
								}
							}
						}
					}
				}
				if !c.Check(lineOK, "ACCOUNT", fn, m.in.Pos(), an.KeyOf(fn, "line-key"), "the stored entry's line field equals the map key (deletions by entry.line remove that entry)", "entry literal") {
					okAll = false
				}
			}
		}
		for _, s := range sizeOps {
			if !used[s.in] {
				n++
				okAll = false
				c.Violated("ACCOUNT", fn, s.in.Pos(), an.KeyOf(fn, "account:unpaired-"+s.kind), "logSizeBytes is changed without a paired insertion/deletion of the same key in the same basic block", "value "+short(fi.Term(s.in.(*ssa.Store).Val).Key()))
			}
		}
	}
	c.Count("ACCOUNT", n)
	c.Floor("ACCOUNT", 2) // at least one insertion and one deletion
	return okAll
}

func fieldNameOf(fa *ssa.FieldAddr) string {
	st := fa.X.Type().Underlying().(*types.Pointer).Elem().Underlying().(*types.Struct)
	return st.Field(fa.Field).Name()
}

// eventLogNonEmpty: every stored entry has at least one timestamp.
func eventLogNonEmpty(c *an.Ctx, scope []*ssa.Function) bool {
	p := c.P
	okAll := true
	n := 0
	for _, fn := range scope {
		fi := p.Info(fn)
		for _, b := range fn.Blocks {
			for _, in := range b.Instrs {
				st, ok := in.(*ssa.Store)
				if !ok {
					continue
				}
				fa, ok := st.Addr.(*ssa.FieldAddr)
				if !ok || fieldNameOf(fa) != "updates" {
					continue
				}
				if nm := namedOfPtr(fa.X.Type()); nm != "LogEntry" {
					continue
				}
				n++
				key := an.KeyOf(fn, "nonempty:"+short(fi.Term(st.Val).Key()))
				vt := fi.Term(st.Val)
				switch {
				case vt.K == an.KCall && strings.HasPrefix(vt.S, "builtin.append#"):
					c.Proved("NONEMPTY", fn, st.Pos(), key, "updates is assigned an append result (never shorter, at least one element when an element is appended)", short(vt.Key()))
				case literalSliceLen(st.Val) >= 1:
					c.Proved("NONEMPTY", fn, st.Pos(), key, "updates is assigned a slice literal with at least one element", short(vt.Key()))
				case vt.K == an.KMake || isEmptyLiteralSlice(vt):
					// a fresh empty list must be filled before the entry is stored: checked at the insertion
					filled := false
					if al, ok := fa.X.(*ssa.Alloc); ok {
						for _, b2 := range fn.Blocks {
							for _, in2 := range b2.Instrs {
								if s2, ok := in2.(*ssa.Store); ok && s2 != st {
									if fa2, ok := s2.Addr.(*ssa.FieldAddr); ok && fa2.X == al && fieldNameOf(fa2) == "updates" {
										if v2 := fi.Term(s2.Val); v2.K == an.KCall && strings.HasPrefix(v2.S, "builtin.append#") && an.Dominates(st, s2) {
											// and that append dominates the map insertion of the entry
											for _, r := range *al.Referrers() {
												if mu, ok := r.(*ssa.MapUpdate); ok && mu.Value == al && an.Dominates(s2, mu) {
													filled = true
												}
											}
										}
									}
								}
							}
						}
					}
					if !c.Check(filled, "NONEMPTY", fn, st.Pos(), key, "a new entry's empty timestamp list receives an element before the entry is stored in the map", "append dominates the insertion") {
						okAll = false
					}
				case vt.K == an.KSlice:
					// expiry reslice: every entry that became empty is deleted in the same critical section
					if !c.Check(expiryDeletesEmpty(p, fn, st), "NONEMPTY", fn, st.Pos(), key,
						"after the expiry reslice every entry whose list became empty is collected and deleted before the lock is released", "len(updates) == 0 => key appended to a local list => range over it deletes logs[key]") {
						okAll = false
					}
				default:
					okAll = false
					c.Violated("NONEMPTY", fn, st.Pos(), key, "updates is assigned something other than an append or the expiry reslice: "+short(vt.Key()), "cannot maintain 'every stored entry has a timestamp'")
				}
			}
		}
	}
	c.Count("NONEMPTY", n)
	c.Floor("NONEMPTY", 2)
	return okAll
}

// literalSliceLen: []T{a, b, ..} is compiled to new([n]T)[:]; returns n, or -1.
func literalSliceLen(v ssa.Value) int {
	sl, ok := v.(*ssa.Slice)
	if !ok || sl.Low != nil || sl.High != nil || sl.Max != nil {
		return -1
	}
	al, ok := sl.X.(*ssa.Alloc)
	if !ok {
		return -1
	}
	if arr, ok := al.Type().Underlying().(*types.Pointer).Elem().Underlying().(*types.Array); ok {
		return int(arr.Len())
	}
	return -1
}

// isEmptyLiteralSlice: make([]T, 0) is compiled to new([0]T)[:0].
func isEmptyLiteralSlice(t *an.Term) bool {
	if t.K != an.KSlice || len(t.A) != 3 || t.A[0].K != an.KAlloc {
		return false
	}
	lo, _ := t.A[1].IsConst()
	hi, _ := t.A[2].IsConst()
	return lo == "0" && hi == "0"
}

func namedOfPtr(t types.Type) string {
	if pt, ok := t.Underlying().(*types.Pointer); ok {
		if n, ok := pt.Elem().(*types.Named); ok {
			return n.Obj().Name()
		}
	}
	return ""
}

// expiryDeletesEmpty recognises: entry.updates = entry.updates[k:]; if
// len(entry.updates) == 0 { L = append(L, entry.line) } ... for _, key := range L { delete(logs, key) }
func expiryDeletesEmpty(p *an.Program, fn *ssa.Function, st *ssa.Store) bool {
	fi := p.Info(fn)
	if expiryDeletesInPlace(p, fn, st) {
		return true
	}
	// (1) the block of the store ends in a branch on len(new updates) == 0
	b := st.Block()
	iff, ok := b.Instrs[len(b.Instrs)-1].(*ssa.If)
	if !ok {
		return false
	}
	ct := fi.Term(iff.Cond)
	if ct.K != an.KBin || ct.S != "==" {
		return false
	}
	isLen0 := false
	for i := 0; i < 2; i++ {
		if k, isC := ct.A[i].IsConst(); isC && k == "0" && ct.A[1-i].K == an.KLen {
			isLen0 = true
		}
	}
	if !isLen0 {
		return false
	}
	// (2) the true branch appends entry.line to a local slice
	var list ssa.Value
	for _, in := range b.Succs[0].Instrs {
		if call, ok := in.(*ssa.Call); ok {
			if bi, ok := call.Call.Value.(*ssa.Builtin); ok && bi.Name() == "append" {
				list = call
			}
		}
	}
	if list == nil {
		return false
	}
	// (3) a range loop over a slice deletes logs[elem]; the ranged slice is the phi fed by that append
	lf := p.LockFlowOf(fn)
	for _, d := range logDeletes(p, fn) {
		if !an.Held(lf.StateAt(d.at, "EventLogger.mu")) || !an.Held(lf.StateAt(st, "EventLogger.mu")) {
			continue
		}
		// key is an element of a slice that the append feeds
		kt := d.key
		if kt.K == an.KLoad && len(kt.A) == 1 && kt.A[0].K == an.KIA {
			if phi, ok := kt.A[0].A[0].Val.(*ssa.Phi); ok && feeds(list, phi, 0) {
				return true
			}
		}
	}
	return false
}

// logDelete is a deletion from the log map as function fn sees it: a delete(l.logs, key) in fn, or a call of a
// straight-line method of the same logger that performs it (key in fn's vocabulary).
type logDelete struct {
	at  *ssa.Call
	key *an.Term
}

func logDeletes(p *an.Program, fn *ssa.Function) []logDelete {
	fi := p.Info(fn)
	var out []logDelete
	direct := func(g *ssa.Function) []logDelete {
		gi := p.Info(g)
		var ds []logDelete
		for _, b := range g.Blocks {
			for _, in := range b.Instrs {
				call, ok := in.(*ssa.Call)
				if !ok {
					continue
				}
				if bi, ok := call.Call.Value.(*ssa.Builtin); ok && bi.Name() == "delete" {
					if f, ok := gi.RefClass(call.Call.Args[0]).FieldOf("EventLogger"); ok && f == "logs" {
						ds = append(ds, logDelete{call, gi.Term(call.Call.Args[1])})
					}
				}
			}
		}
		return ds
	}
	out = append(out, direct(fn)...)
	for _, b := range fn.Blocks {
		for _, in := range b.Instrs {
			call, ok := in.(*ssa.Call)
			if !ok {
				continue
			}
			sc := call.Call.StaticCallee()
			if sc == nil || sc == fn || sc.Pkg != fn.Pkg || !p.Transparent(sc) || len(sc.Params) == 0 || len(call.Call.Args) == 0 {
				continue
			}
			// same logger: the helper's receiver is the caller's receiver
			if len(fn.Params) == 0 || fi.Term(call.Call.Args[0]).Key() != fi.Term(fn.Params[0]).Key() {
				continue
			}
			for _, d := range direct(sc) {
				if k := fi.InstantiateTerm(d.key, call); k != nil {
					out = append(out, logDelete{call, k})
				}
			}
		}
	}
	return out
}

// expiryDeletesInPlace recognises the form that deletes the emptied entry right away, inside the range over the map:
// entry.updates = entry.updates[k:]; if len(entry.updates) == 0 (in any spelling) { delete(logs, key of this entry) }.
// The branch after the reslice tests the length of the list; on the way to the deletion the length is 0 (BOUND), on
// the other way it is at least 1, and the deleted key is the key (or the line) of the entry of this iteration.
func expiryDeletesInPlace(p *an.Program, fn *ssa.Function, st *ssa.Store) bool {
	fi := p.Info(fn)
	b := st.Block()
	iff, ok := b.Instrs[len(b.Instrs)-1].(*ssa.If)
	if !ok || len(b.Succs) != 2 {
		return false
	}
	var lt *an.Term
	fi.Term(iff.Cond).Walk(func(t *an.Term) {
		if t.K == an.KLen && strings.Contains(t.Key(), "updates") {
			lt = t
		}
	})
	if lt == nil {
		return false
	}
	// the entry whose list was resliced
	fa, ok := st.Addr.(*ssa.FieldAddr)
	if !ok {
		return false
	}
	entryT := fi.Term(fa.X)
	lf := p.LockFlowOf(fn)
	for _, d := range logDeletes(p, fn) {
		if !an.Held(lf.StateAt(d.at, "EventLogger.mu")) || !an.Held(lf.StateAt(st, "EventLogger.mu")) {
			continue
		}
		// which branch leads to the deletion
		var toDel, other *ssa.BasicBlock
		for k, sx := range b.Succs {
			if sx == d.at.Block() || sx.Dominates(d.at.Block()) {
				toDel, other = sx, b.Succs[1-k]
			}
		}
		if toDel == nil {
			continue
		}
		if !fi.SysForEdge(b, toDel).ProveLE(lt, 0) || !fi.SysForEdge(b, other).ProveGE(lt, 1) {
			continue
		}
		// the key: the map key of the iteration that produced the entry, or the entry's line
		kt := d.key
		okKey := false
		if entryT.K == an.KExt && entryT.S == "2" && kt.K == an.KExt && kt.S == "1" && kt.A[0].Key() == entryT.A[0].Key() {
			okKey = true
		}
		if kt.K == an.KLoad && len(kt.A) == 1 && kt.A[0].K == an.KFA && kt.A[0].S == "line" && kt.A[0].A[0].Key() == entryT.Key() {
			okKey = true
		}
		if okKey {
			return true
		}
	}
	return false
}

func feeds(v ssa.Value, phi *ssa.Phi, depth int) bool {
	if depth > 6 {
		return false
	}
	refs := v.Referrers()
	if refs == nil {
		return false
	}
	for _, r := range *refs {
		if ph, ok := r.(*ssa.Phi); ok {
			if ph == phi || feeds(ph, phi, depth+1) {
				return true
			}
		}
	}
	return false
}

// lastTimestampLemma: updates[len(updates)-1] on an entry taken from the map
// (or from a list of entries taken from the map) is in range by NONEMPTY.
func lastTimestampLemma(p *an.Program, o an.BoundObl) (bool, string) {
	ia, ok := o.Instr.(*ssa.IndexAddr)
	if !ok {
		return false, ""
	}
	fi := p.Info(o.Fn)
	it := fi.Term(ia.Index)
	xt := fi.Term(ia.X)
	// index == len(x) - 1
	if it.K != an.KBin || it.S != "-" {
		return false, ""
	}
	if k, isC := it.A[1].IsConst(); !isC || k != "1" {
		return false, ""
	}
	if it.A[0].K != an.KLen || it.A[0].A[0].Key() != xt.Key() {
		return false, ""
	}
	// x is a load of the updates field of a LogEntry, or a timestamp list copied from one (DumpLogEntries' result)
	if xt.K == an.KLoad && len(xt.A) == 1 && xt.A[0].K == an.KFA && xt.A[0].S == "updates" {
		return true, "lemma NONEMPTY (rule NONEMPTY, proved on this run): every entry reachable from the log map has at least one timestamp, so len(updates)-1 is in range"
	}
	return false, ""
}

// evictLemma: updateOrder[0] and updateOrder[1:] in the eviction loop.
func evictLemma(p *an.Program, o an.BoundObl) (bool, string) {
	fi := p.Info(o.Fn)
	var x ssa.Value
	switch in := o.Instr.(type) {
	case *ssa.IndexAddr:
		if k, ok := fi.Term(in.Index).IsConst(); !ok || k != "0" {
			// cursor form: list[next] with next = 0, 1, 2, ... where each iteration deletes exactly list[next] from the map
			return evictCursorLemma(p, o, in)
		}
		x = in.X
	case *ssa.Slice:
		if in.Low == nil || in.High != nil {
			return false, ""
		}
		if k, ok := fi.Term(in.Low).IsConst(); !ok || k != "1" {
			return false, ""
		}
		x = in.X
	default:
		return false, ""
	}
	// the slice holds *LogEntry
	sl, ok := x.Type().Underlying().(*types.Slice)
	if !ok || namedOfPtr(sl.Elem()) != "LogEntry" {
		return false, ""
	}
	// the block is dominated by need + size > max, and need <= max: BOUND shows size >= 1
	s := fi.SysFor(o.Instr)
	var sizeT *an.Term
	for _, f := range fi.FactsAt(o.Instr) {
		f.T.Walk(func(t *an.Term) {
			if fld, _, ok := mapFieldOfTerm(t); ok && fld == "logSizeBytes" {
				sizeT = t
			}
		})
	}
	if sizeT == nil {
		return false, ""
	}
	if !s.ProveGE(sizeT, 1) {
		return false, ""
	}
	// the list is filled from a range over the log map, one append per entry, under the same condition
	if !filledFromLogs(p, o.Fn, x) {
		return false, ""
	}
	return true, "lemma EVICT: need + size > max and need <= max give size >= 1 (BOUND); by ACCOUNT (proved on this run) size is the total of the stored lines, so the map is non-empty; the list was filled with every entry of the map in this critical section and loses exactly the entry that is deleted, so it is non-empty"
}

// evictCursorLemma: updateOrder[next] in an eviction loop that walks the list with an index instead of popping its front.
func evictCursorLemma(p *an.Program, o an.BoundObl, ia *ssa.IndexAddr) (bool, string) {
	fi := p.Info(o.Fn)
	x := ia.X
	sl, ok := x.Type().Underlying().(*types.Slice)
	if !ok || namedOfPtr(sl.Elem()) != "LogEntry" {
		return false, ""
	}
	next := fi.Term(ia.Index)
	if next.K != an.KPhi || !fromZeroStepOne(fi, next) {
		return false, ""
	}
	// guard: size >= 1 at the access (need + size > max and need <= max)
	s := fi.SysFor(o.Instr)
	var sizeT *an.Term
	for _, f := range fi.FactsAt(o.Instr) {
		f.T.Walk(func(t *an.Term) {
			if fld, _, ok := mapFieldOfTerm(t); ok && fld == "logSizeBytes" {
				sizeT = t
			}
		})
	}
	if sizeT == nil || !s.ProveGE(sizeT, 1) {
		return false, ""
	}
	if !filledFromLogs(p, o.Fn, x) {
		return false, ""
	}
	// the loop body deletes exactly the line of list[next] from the map, on every iteration
	l := innermostLoopOf(o.Fn, ia.Block())
	if l == nil {
		return false, ""
	}
	var del *ssa.Call
	for _, d := range logDeletes(p, o.Fn) {
		if !l.body[d.at.Block()] {
			continue
		}
		// key: the line field of the entry loaded from list[next]
		if strings.Contains(d.key.Key(), next.Key()) && strings.Contains(d.key.Key(), ".line") {
			del = d.at
		}
	}
	if del == nil || !l.everyIteration(del.Block()) {
		return false, ""
	}
	// the list itself is not written inside the loop
	for _, b := range o.Fn.Blocks {
		if !l.body[b] {
			continue
		}
		for _, in := range b.Instrs {
			if st, ok := in.(*ssa.Store); ok {
				if al, ok := st.Addr.(*ssa.Alloc); ok && fi.Term(al).Key() == fi.Term(x).Key() {
					return false, ""
				}
			}
		}
	}
	return true, "lemma EVICT (cursor form): need + size > max and need <= max give size >= 1 (BOUND); by ACCOUNT size is the total of the stored lines, so the map is non-empty; the list was filled with every entry of the map in this critical section and iteration k deletes exactly list[k], so the entries still in the map are list[next:], which is therefore non-empty: next < len(list)"
}

// filledFromLogs: the slice variable only receives make(..., 0), append(list, entry) inside a
// range over the log map, and list[1:].
func filledFromLogs(p *an.Program, fn *ssa.Function, x ssa.Value) bool {
	fi := p.Info(fn)
	ld, ok := x.(*ssa.UnOp)
	var al *ssa.Alloc
	if ok {
		al, _ = ld.X.(*ssa.Alloc)
	}
	if al == nil {
		// value form: a phi chain
		return phiFilledFromLogs(fi, x, map[ssa.Value]bool{})
	}
	sawRangeAppend := false
	for _, r := range *al.Referrers() {
		st, ok := r.(*ssa.Store)
		if !ok || st.Addr != al {
			continue
		}
		switch v := st.Val.(type) {
		case *ssa.MakeSlice:
		case *ssa.Const:
		case *ssa.Slice:
		case *ssa.Call:
			if bi, ok := v.Call.Value.(*ssa.Builtin); !ok || bi.Name() != "append" {
				return false
			}
			if appendsRangeValueOfLogs(fi, v) {
				sawRangeAppend = true
			}
		default:
			return false
		}
	}
	return sawRangeAppend
}

func phiFilledFromLogs(fi *an.FuncInfo, v ssa.Value, seen map[ssa.Value]bool) bool {
	if seen[v] {
		return true
	}
	seen[v] = true
	switch x := v.(type) {
	case *ssa.Phi:
		any := false
		for _, e := range x.Edges {
			if !phiFilledFromLogs(fi, e, seen) {
				return false
			}
			any = true
		}
		return any
	case *ssa.MakeSlice, *ssa.Const:
		return true
	case *ssa.Slice:
		return phiFilledFromLogs(fi, x.X, seen)
	case *ssa.Call:
		if bi, ok := x.Call.Value.(*ssa.Builtin); ok && bi.Name() == "append" {
			return appendsRangeValueOfLogs(fi, x) && phiFilledFromLogs(fi, x.Call.Args[0], seen)
		}
	}
	return false
}

func appendsRangeValueOfLogs(fi *an.FuncInfo, call *ssa.Call) bool {
	sl, ok := call.Call.Args[1].(*ssa.Slice)
	if !ok {
		return false
	}
	al, ok := sl.X.(*ssa.Alloc)
	if !ok {
		return false
	}
	for _, r := range *al.Referrers() {
		if ia, ok := r.(*ssa.IndexAddr); ok {
			for _, r2 := range *ia.Referrers() {
				if st, ok := r2.(*ssa.Store); ok {
					if ex, ok := st.Val.(*ssa.Extract); ok {
						if nx, ok := ex.Tuple.(*ssa.Next); ok {
							if rg, ok := nx.Iter.(*ssa.Range); ok {
								cls := fi.RefClass(rg.X)
								if f, ok := cls.FieldOf("EventLogger"); ok && f == "logs" {
									return true
								}
							}
						}
					}
				}
			}
		}
	}
	return false
}

// eventLogConfig: every call of the constructor passes positive constants.
func eventLogConfig(c *an.Ctx) {
	p := c.P
	ctor := p.Func("glow", "NewEventLogger")
	if ctor == nil {
		c.Undecided("CFG", nil, 0, "NewEventLogger", "constructor not found", "anchor missing")
		return
	}
	n := 0
	for _, site := range p.CallSites(ctor) {
		n++
		args := site.Common().Args
		ok := true
		var vals []string
		for i := 1; i < len(args) && i <= 2; i++ {
			k, isC := args[i].(*ssa.Const)
			if !isC || k.Value == nil || constant.Sign(k.Value) <= 0 {
				ok = false
			}
			vals = append(vals, args[i].String())
		}
		// the total budget holds at least one line of the maximal length (a line is charged twice its length): the
		// most recent loggable line can always be retained; swapped limits fail this
		if len(args) >= 3 {
			tot, okT := args[1].(*ssa.Const)
			line, okL := args[2].(*ssa.Const)
			fits := false
			if okT && okL && tot.Value != nil && line.Value != nil {
				tv, e1 := constant.Int64Val(constant.ToInt(tot.Value))
				lv, e2 := constant.Int64Val(constant.ToInt(line.Value))
				fits = e1 && e2 && tv >= 2*lv
			}
			c.Check(fits, "CFG", site.Parent(), site.Pos(), an.KeyOf(site.Parent(), "NewEventLogger-budget"), "the total budget passed to the constructor is at least twice the per-line limit (total first, per-line second: a maximal line, charged twice its length, fits)", "arguments "+strings.Join(vals, ", "))
		}
		c.Check(ok, "CFG", site.Parent(), site.Pos(), an.KeyOf(site.Parent(), "NewEventLogger-args"), "the event logger is constructed with positive constant limits (so key[:limit] is a legal slice)", "arguments "+strings.Join(vals, ", "))
	}
	c.Count("CFG", n)
	c.Floor("CFG", 1)
}

// eventLogSizeBound: the insertion is dominated by need + size <= max for the size value that is incremented, and by need <= max.
func eventLogSizeBound(c *an.Ctx) {
	p := c.P
	for _, fn := range eventLogScope(p) {
		fi := p.Info(fn)
		for _, b := range fn.Blocks {
			for _, in := range b.Instrs {
				st, ok := in.(*ssa.Store)
				if !ok {
					continue
				}
				sign, key, isSize := sizeDelta(fi, st)
				if !isSize || sign <= 0 || key == nil {
					continue
				}
				c.Count("BOUND-SZ", 1)
				vt := fi.Term(st.Val) // size + 2*len(key)
				okFit, okNeed := false, false
				var fitDesc string
				for _, f := range fi.FactsAt(st) {
					t := f.T
					if f.Neg || t.K != an.KBin || t.S != "<=" {
						continue
					}
					if fm, _, ok := mapFieldOfTerm(t.A[1]); !ok || fm != "logMaxBytes" {
						continue
					}
					if t.A[0].Key() == vt.Key() {
						okFit = true
						fitDesc = short(t.Key())
					}
					// need <= max
					if t.A[0].K == an.KBin && t.A[0].S == "*" {
						okNeed = true
					}
				}
				if !okFit {
					// the same inequality written differently (size <= max - need): BOUND's linear layer
					sys := fi.SysFor(st)
					seenMax := map[string]bool{}
					for _, f := range fi.FactsAt(st) {
						f.T.Walk(func(x *an.Term) {
							if fm, _, ok := mapFieldOfTerm(x); ok && fm == "logMaxBytes" && !seenMax[x.Key()] {
								seenMax[x.Key()] = true
								if sys.ProveDiffLE(vt, x, 0) {
									okFit = true
									fitDesc = "BOUND: " + short(vt.Key()) + " <= " + short(x.Key())
								}
							}
						})
					}
				}
				c.Check(okFit, "BOUND-SZ", fn, st.Pos(), an.KeyOf(fn, "fits"), "the size counter is incremented only under need + size <= max for the very size value that is incremented (the stored total never exceeds the maximum)", "dominating fact "+fitDesc)
				c.Check(okNeed, "BOUND-SZ", fn, st.Pos(), an.KeyOf(fn, "need<=max"), "a line that can never fit (need > max) is refused before anything is evicted", "dominating fact 2*len(key) <= max")
			}
		}
	}
	c.Floor("BOUND-SZ", 1)
}

// eventLogEvictionOrder: the comparator orders by last timestamp ascending and the loop removes from the front.
func eventLogEvictionOrder(c *an.Ctx) {
	p := c.P
	n := 0
	for _, fn := range eventLogScope(p) {
		if fn.Parent() == nil || len(fn.Params) != 2 {
			continue
		}
		// comparison closure: returns X[i].last.Before(X[j].last)
		fi := p.Info(fn)
		for _, b := range fn.Blocks {
			for _, in := range b.Instrs {
				call, ok := in.(*ssa.Call)
				if !ok {
					continue
				}
				name := an.CalleeName(&call.Call)
				if name != "(time.Time).Before" && name != "(time.Time).After" {
					continue
				}
				n++
				recv, arg := fi.Term(call.Call.Args[0]), fi.Term(call.Call.Args[1])
				usesI := recv.Contains(func(t *an.Term) bool { return t.K == an.KParam && t.S == "0" }) && !recv.Contains(func(t *an.Term) bool { return t.K == an.KParam && t.S == "1" })
				usesJ := arg.Contains(func(t *an.Term) bool { return t.K == an.KParam && t.S == "1" }) && !arg.Contains(func(t *an.Term) bool { return t.K == an.KParam && t.S == "0" })
				c.Check(name == "(time.Time).Before" && usesI && usesJ, "ORDER", fn, call.Pos(), an.KeyOf(fn, "comparator"),
					"the sort comparator is less(i, j) = last(i).Before(last(j)): ascending by last update, so the front of the list is the least recently updated entry", name+" receiver uses i, argument uses j")
			}
		}
	}
	c.Count("ORDER", n)
	c.Floor("ORDER", 2)
}

// eventLogLineLimit (TRUNC): every line that is inserted into the log map is
// at most logMaxLineBytes long (lines are cut to the per-line limit).
func eventLogLineLimit(c *an.Ctx) {
	p := c.P
	n := 0
	for _, fn := range eventLogScope(p) {
		fi := p.Info(fn)
		for _, b := range fn.Blocks {
			for _, in := range b.Instrs {
				mu, ok := in.(*ssa.MapUpdate)
				if !ok {
					continue
				}
				if f, ok := fi.RefClass(mu.Map).FieldOf("EventLogger"); !ok || f != "logs" {
					continue
				}
				n++
				keyT := fi.Term(mu.Key)
				var limit *an.Term
				for _, bb := range fn.Blocks {
					for _, i2 := range bb.Instrs {
						if ld, ok := i2.(*ssa.UnOp); ok {
							if f, ok := fi.RefClass(ld.X).FieldOf("EventLogger"); ok && f == "logMaxLineBytes" {
								limit = fi.Term(ld)
							}
						}
					}
				}
				ok2 := false
				desc := "no load of logMaxLineBytes in the function"
				if limit != nil {
					s := fi.SysFor(mu)
					ok2 = s.ProveDiffLE(an.LenTerm(keyT), limit, 0)
					desc = "len(key) " + s.Describe(an.LenTerm(keyT)) + "; limit " + short(limit.Key())
					// the line is usually a phi of the formatted line (when it is short enough) and its cut prefix:
					// prove the bound on each incoming edge
					if ph, isPhi := keyT.Val.(*ssa.Phi); !ok2 && isPhi && keyT.K == an.KPhi {
						all := true
						for i, e := range ph.Edges {
							es := fi.SysForEdge(ph.Block().Preds[i], ph.Block())
							et := fi.Term(e)
							if !es.ProveDiffLE(an.LenTerm(et), limit, 0) {
								all = false
								desc = "edge " + fmt.Sprint(i) + ": len(" + short(et.Key()) + ") " + es.Describe(an.LenTerm(et)) + " not bounded by the limit"
							}
						}
						if all {
							ok2 = true
							desc = "bound proved on every incoming edge of the line value"
						}
					}
				}
				// the duplicate test looks the line up under the very key it would be inserted under (the cut line)
				sameKey, nLk := true, 0
				for _, bb := range fn.Blocks {
					for _, i2 := range bb.Instrs {
						if lk, ok := i2.(*ssa.Lookup); ok {
							if f, ok := fi.RefClass(lk.X).FieldOf("EventLogger"); ok && f == "logs" {
								nLk++
								if fi.Term(lk.Index).Key() != keyT.Key() {
									sameKey = false
								}
							}
						}
					}
				}
				// a repeated line only gets a new timestamp: nothing is evicted for it and it is not inserted (charged) again -
				// every deletion and the insertion in this function happen on the way on which the lookup found nothing
				var lk *ssa.Lookup
				for _, bb := range fn.Blocks {
					for _, i2 := range bb.Instrs {
						if x, ok := i2.(*ssa.Lookup); ok && x.CommaOk {
							if f, ok := fi.RefClass(x.X).FieldOf("EventLogger"); ok && f == "logs" && fi.Term(x.Index).Key() == keyT.Key() {
								lk = x
							}
						}
					}
				}
				if lk != nil {
					notFound := func(at ssa.Instruction) bool {
						for _, f := range fi.FactsAt(at) {
							if f.Neg && f.T.K == an.KExt && f.T.S == "1" && f.T.A[0].Val == ssa.Value(lk) {
								return true
							}
						}
						return false
					}
					c.Check(notFound(mu), "TRUNC", fn, mu.Pos(), an.KeyOf(fn, "insert-only-when-new"), "a line is inserted (and charged) only when the duplicate test found no entry for it", "facts at the insertion")
					for _, d := range logDeletes(p, fn) {
						c.Check(notFound(d.at), "TRUNC", fn, d.at.Pos(), an.KeyOf(fn, "evict-only-when-new"), "entries are evicted only to make room for a line that is not in the log yet: a repeated line just gets a new timestamp and displaces nothing (in particular not itself)", "facts at the deletion "+factList(fi.FactsAt(d.at)))
					}
				}
				c.Check(sameKey && nLk > 0, "TRUNC", fn, mu.Pos(), an.KeyOf(fn, "lookup-key-is-insert-key"), "the duplicate test uses the same (cut) line as the insertion: a repeated long line is recognised as a repeat and is not charged again", fmt.Sprintf("%d lookups", nLk))
				c.Check(ok2, "TRUNC", fn, mu.Pos(), an.KeyOf(fn, "line-limit"), "a line is inserted into the log only with len(line) <= logMaxLineBytes (longer lines are cut first)", desc)
			}
		}
	}
	c.Count("TRUNC", n)
	c.Floor("TRUNC", 1)
}
