package props

import (
	"fmt"
	"math/big"
	"strconv"
	"strings"

	"gcacheck/internal/an"

	"golang.org/x/tools/go/ssa"
)

func init() {
	register(&an.PropertyCheck{
		ID:      "C01",
		Title:   "Only authentic, authorized, in-window reports change server state",
		Engines: "AUTH (must-pass-through with return summaries), PRED (interval-partition predicate equivalence), WHO-MAY (discovered writer sets), effect summaries",
		Explanation: "Decided on the UDP path of package server: WHO-MAY the only functions that store into a report slot, append to the recent-report list or write equipment-reports.dat are the report integrator (and, for the slot arrays, the rotation, which C03 checks); " +
			"the integrator is called only from the UDP handler and from the construction-phase report loader; AUTH at the handler's call of the integrator, under GCAServer.mu, these facts hold on every path: len(raw) == 80; the decoded id is present in the equipment map; " +
			"glow.Verify(equipment[id].PublicKey, report.SigningBytes(), report.Signature) for the very report value that is passed on; PRED the dominating guards are equivalent to -432 <= ts - now <= 432 evaluated without wrap-around for every 32-bit ts and now " +
			"(compared cell by cell, including the uint32 extremes) and to PowerOutput not in {0,1}; the storage-window guards of the integrator are equivalent to offset <= ts < offset+4032; PURE the handler has no write effect on server state and no file write outside the integrator call " +
			"(reject paths leave every observable unchanged); the listener hands over only datagrams of exactly 80 bytes read into an 80-byte buffer; the parser decodes ShortID/Timeslot/PowerOutput/Signature from bytes 0:4, 4:8, 8:16, 16:80 little-endian. " +
			"COVER EquipmentReport.SigningBytes writes every field of the report except Signature at its full width (a field that is missing or narrowed could be altered under a valid signature). the device-table rules of C06 (ban test, identical no-op, persist first, conflict deletes exactly one id everywhere, key-set pairing) are re-run, because \"authorized, non-banned\" rests on them. glow.Verify derives one key from its argument and verifies under that key only (one decompression, one verification, no retry). NOT decided: cryptographic strength of secp256k1/Keccak (trusted); 'every observable exactly as it was' is decided as 'no write effect on reject paths', not by observing endpoints; signing-bytes layout is C15's.",
		Assumptions: append([]string{"glow.Verify(key, data, sig) is true only for a signature by key over data (secp256k1 + Keccak256, trusted)", "glow.CurrentTimeslot() < 2^31"}, baseAssumptions...),
		Run:         runC01,
	})
}

// findIntegrator: the function that stores into a report slot and appends to recentReports.
func findIntegrator(p *an.Program) *ssa.Function {
	for _, fn := range p.FuncsIn("server") {
		slot, recent := false, false
		for _, a := range p.AccessesOf(fn) {
			if !a.Write {
				continue
			}
			if _, isStore := a.Instr.(*ssa.Store); !isStore {
				continue
			}
			if f, ok := a.Cls.FieldOf("GCAServer"); ok {
				if f == "equipmentReports" && len(a.Cls.Path) >= 3 {
					slot = true
				}
				if f == "recentReports" && len(a.Cls.Path) == 1 {
					recent = true
				}
			}
		}
		if slot && recent {
			return fn
		}
	}
	// the recent-list bookkeeping may live in a helper of the integrator: then the integrator is the (one)
	// non-construction function that stores into report slots
	ctor := p.Constructor("server", "GCAServer")
	construction := p.ConstructionPhase("server", ctor)
	var cand *ssa.Function
	for _, fn := range p.FuncsIn("server") {
		if construction[fn] {
			continue
		}
		for _, a := range p.AccessesOf(fn) {
			if _, isStore := a.Instr.(*ssa.Store); !isStore || !a.Write {
				continue
			}
			if f, ok := a.Cls.FieldOf("GCAServer"); ok && f == "equipmentReports" && len(a.Cls.Path) >= 3 {
				if cand != nil && cand != fn {
					return nil
				}
				cand = fn
			}
		}
	}
	return cand
}

// calledOnlyFrom: fn is a helper all of whose call sites are in caller.
func calledOnlyFrom(p *an.Program, fn, caller *ssa.Function) bool {
	sites := p.CallSites(fn)
	if len(sites) == 0 {
		return false
	}
	for _, s := range sites {
		if s.Parent() != caller {
			return false
		}
	}
	return true
}

// verifyFacts lists the arguments of the glow.Verify calls known to be true.
func verifyFacts(fs an.FactSet) [][]*an.Term {
	var out [][]*an.Term
	for _, f := range fs.Sorted() {
		if f.Neg {
			continue
		}
		if (f.T.K == an.KPure || f.T.K == an.KCall) && strings.HasSuffix(f.T.Callee(), "glow.Verify") && len(f.T.A) == 3 {
			out = append(out, f.T.A)
		}
	}
	return out
}

// isSigningBytesOf: t is X.SigningBytes() for the given value term (receiver by value or by reference).
func isSigningBytesOf(t, x *an.Term) bool {
	if (t.K != an.KPure && t.K != an.KCall) || !strings.HasSuffix(t.Callee(), ").SigningBytes") || len(t.A) != 1 {
		return false
	}
	a := t.A[0]
	if a.K == an.KRef {
		a = a.A[0]
	}
	return a.Key() == x.Key()
}

func runC01(c *an.Ctx) {
	p := c.P
	integ := findIntegrator(p)
	handler, listener := udpRoot(p)
	if integ == nil || handler == nil {
		c.Undecided("ANCHOR", nil, 0, "integrator/udp", "report integrator or UDP handler not found", "anchor missing")
		return
	}
	// the launched closure calls the handler method
	if h := firstRepoCallee(p, handler); h != nil && handler.Parent() != nil {
		handler = h
	}
	c.Scope(integ, handler, listener)
	verifyOneKey(c)
	ctor := p.Constructor("server", "GCAServer")
	construction := p.ConstructionPhase("server", ctor)

	// ---- WHO-MAY ----
	nw := 0
	for _, fn := range p.FuncsIn("server") {
		for _, a := range p.AccessesOf(fn) {
			if !a.Write {
				continue
			}
			f, ok := a.Cls.FieldOf("GCAServer")
			if !ok {
				continue
			}
			switch {
			case f == "equipmentReports" && len(a.Cls.Path) >= 3:
				nw++
				_, isStore := a.Instr.(*ssa.Store)
				if isStore {
					if isRotationFunc(p, fn) {
						continue // the weekly rotation moves slots down unchanged (rules ROTATE of C03)
					}
					c.Check(fn == integ, "WHO-MAY", fn, a.Instr.Pos(), an.KeyOf(fn, "slot-store"), "a report slot is stored into only by the report integrator", "writer "+an.FuncName(fn))
				} else {
					// bulk copies: the rotation (checked by C03)
					c.Note("WHO-MAY", fn, a.Instr.Pos(), an.KeyOf(fn, "slot-copy"), "bulk copy into the report arrays ("+a.What+"): rotation, decided by C03")
				}
			case f == "recentReports":
				nw++
				c.Check(fn == integ || calledOnlyFrom(p, fn, integ), "WHO-MAY", fn, a.Instr.Pos(), an.KeyOf(fn, "recent-write:"+a.What), "the recent-report list is written only by the report integrator (or a helper only it calls)", "writer "+an.FuncName(fn))
			}
		}
		// writers of equipment-reports.dat
		fi := p.Info(fn)
		for _, b := range fn.Blocks {
			for _, in := range b.Instrs {
				call, ok := in.(*ssa.Call)
				if !ok {
					continue
				}
				name := an.CalleeName(&call.Call)
				if name != "os.OpenFile" && name != "os.Create" && name != "os.WriteFile" && name != "io/ioutil.WriteFile" {
					continue
				}
				if fi.PathFileName(call.Call.Args[0]) != "equipment-reports.dat" {
					continue
				}
				nw++
				// must be reachable only through the integrator or be the loader's create-if-absent
				callers := p.CallSites(fn)
				viaInteg := len(callers) > 0
				for _, s := range callers {
					if s.Parent() != integ {
						viaInteg = false
					}
				}
				c.Check(viaInteg || construction[fn], "WHO-MAY", fn, call.Pos(), an.KeyOf(fn, "report-log-open:"+name),
					"equipment-reports.dat is opened for writing only by the saver that the integrator calls (or created empty during construction)", "function "+an.FuncName(fn))
			}
		}
	}
	signingCoverage(c, "COVER", "glow", "EquipmentReport", "Signature")
	c.Count("WHO-MAY", nw)
	c.Floor("WHO-MAY", 2)

	// ---- call sites of the integrator ----
	sites := p.CallSites(integ)
	c.Count("AUTH-sites", len(sites))
	c.Floor("AUTH-sites", 2)
	for _, site := range sites {
		caller := site.Parent()
		if construction[caller] {
			c.Proved("AUTH", caller, site.Pos(), an.KeyOf(caller, "integrate-call:loader"), "integrator call in the construction-phase report loader (replays persisted reports; decided by C04)", "construction phase")
			continue
		}
		if caller != handler {
			c.Violated("AUTH", caller, site.Pos(), an.KeyOf(caller, "integrate-call:other"), "the report integrator is called from "+an.FuncName(caller)+", which is neither the UDP handler nor the construction-phase loader", "every path into the integrator must pass the UDP checks")
			continue
		}
		authAtIntegratorCall(c, site.(*ssa.Call))
	}

	// ---- PURE: no other write effect in the handler ----
	fi := p.Info(handler)
	pure := true
	for _, b := range handler.Blocks {
		for _, in := range b.Instrs {
			switch x := in.(type) {
			case *ssa.Store:
				cls := fi.RefClass(x.Addr)
				if _, ok := cls.FieldOf("GCAServer"); ok {
					pure = false
					c.Violated("PURE", handler, x.Pos(), an.KeyOf(handler, "store:"+cls.String()), "the UDP handler writes server state ("+cls.String()+") outside the integrator", "reject paths must leave every observable unchanged")
				}
			case *ssa.Call:
				if sc := x.Call.StaticCallee(); sc == integ {
					continue
				}
				if _, _, isLock := an.LockOp(&x.Call); isLock {
					continue
				}
				for _, w := range fi.CallWrites(x) {
					if _, ok := w.FieldOf("GCAServer"); ok {
						pure = false
						c.Violated("PURE", handler, x.Pos(), an.KeyOf(handler, "callwrite:"+w.String()), "a call in the UDP handler other than the integrator may write "+w.String(), "callee "+an.CalleeName(&x.Call))
					}
				}
				for _, g := range p.Callees(x) {
					if e := p.Effect(g); e != nil && g != integ {
						for op := range e.FileOps {
							if !strings.Contains(an.FuncName(g), "Logger") {
								pure = false
								c.Violated("PURE", handler, x.Pos(), an.KeyOf(handler, "fileop:"+op), "a call in the UDP handler other than the integrator may write files ("+op+")", "callee "+an.FuncName(g))
							}
						}
					}
				}
			}
		}
	}
	if pure {
		c.Proved("PURE", handler, handler.Pos(), an.KeyOf(handler, "reject-paths-pure"), "apart from the integrator call (and the logger) the UDP handler has no write effect on server state and no file write", "effect summaries of every call in the handler")
	}
	c.Count("PURE", 1)

	// ---- listener ----
	if listener != nil {
		lfi := p.Info(listener)
		for _, b := range listener.Blocks {
			for _, in := range b.Instrs {
				ci, ok := in.(*ssa.Call)
				if !ok {
					continue
				}
				if k, _ := an.SpawnTarget(&ci.Call); k != "launch" {
					continue
				}
				okLen := false
				for _, f := range lfi.FactsAt(ci) {
					if f.T.K == an.KBin && f.T.S == "==" && !f.Neg {
						for i := 0; i < 2; i++ {
							if k, isC := f.T.A[i].IsConst(); isC && k == "80" && f.T.A[1-i].K == an.KExt && strings.HasSuffix(f.T.A[1-i].A[0].Callee(), "ReadFromUDP") {
								okLen = true
							}
						}
					}
				}
				c.Check(okLen, "AUTH", listener, ci.Pos(), an.KeyOf(listener, "datagram-length"), "the listener hands a datagram to the handler only if exactly 80 bytes were read", "facts "+factList(lfi.FactsAt(ci)))
			}
			for _, in := range b.Instrs {
				if ms, ok := in.(*ssa.MakeSlice); ok {
					lt := lfi.Term(ms.Len)
					c.Check(isConstTerm(lt, "80"), "AUTH", listener, ms.Pos(), an.KeyOf(listener, "buffer-size"), "the receive buffer is 80 bytes, so longer datagrams are truncated to their leading 80 bytes", "make length "+short(lt.Key()))
				}
			}
		}
	}
	parserLayout(c)
	storageWindow(c, integ)
	// "authorized, non-banned device": the device tables change only as C06 says (rules re-run)
	authTableRules(c, "C01")
}

// authAtIntegratorCall checks the facts at the handler's call of the integrator.
func authAtIntegratorCall(c *an.Ctx, call *ssa.Call) {
	p := c.P
	fn := call.Parent()
	fi := p.Info(fn)
	lf := p.LockFlowOf(fn)
	key := func(s string) string { return an.KeyOf(fn, "integrate-call:"+s) }
	c.Check(an.Held(lf.StateAt(call, "GCAServer.mu")), "AUTH", fn, call.Pos(), key("lock"), "the integrator is called with GCAServer.mu held (checks and state change are one critical section)", "lock state at the call")
	if len(call.Call.Args) < 2 {
		c.Undecided("AUTH", fn, call.Pos(), key("shape"), "integrator call has no report argument", "shape not recognised")
		return
	}
	R := fi.Term(call.Call.Args[1])
	facts := fi.FactsAt(call)
	// length
	okLen := false
	for _, f := range facts {
		if f.T.K == an.KBin && f.T.S == "==" && !f.Neg {
			for i := 0; i < 2; i++ {
				if k, isC := f.T.A[i].IsConst(); isC && k == "80" && f.T.A[1-i].K == an.KLen {
					okLen = true
				}
			}
		}
	}
	c.Check(okLen, "AUTH", fn, call.Pos(), key("len80"), "len(raw) == 80 dominates the integrator call", "facts "+factList(facts))
	// lookup + verify
	okLookup, okVerify := false, false
	var vdesc string
	for _, va := range verifyFacts(facts) {
		keyT, dataT, sigT := va[0], va[1], va[2]
		// key: PublicKey of equipment[R.ShortID]
		if keyT.K == an.KField && keyT.S == "PublicKey" && keyT.A[0].K == an.KExt && keyT.A[0].S == "0" && keyT.A[0].A[0].K == an.KLkOK {
			lk := keyT.A[0].A[0]
			if f, ver, ok := mapFieldOfTerm(lk.A[0]); ok && f == "equipment" {
				idT := lk.A[1]
				if idT.Key() == fi.FieldOfTerm(R, "ShortID").Key() {
					// presence fact for the same lookup
					if facts.Has("ext:1(" + lk.Key() + ")") {
						okLookup = true
					}
					cur := fi.VersionAt(call, an.Class{Root: "T:GCAServer", Path: []string{"equipment"}})
					if isSigningBytesOf(dataT, R) && sigT.Key() == fi.FieldOfTerm(R, "Signature").Key() && ver == cur {
						okVerify = true
						vdesc = "Verify(equipment[R.ShortID].PublicKey, R.SigningBytes(), R.Signature) with R = " + short(R.Key())
					}
				}
			}
		}
	}
	c.Check(okLookup, "AUTH", fn, call.Pos(), key("authorized"), "the report's ShortID is present in the equipment map (authorized, not banned) in the same critical section", "comma-ok fact on equipment[R.ShortID]")
	c.Check(okVerify, "AUTH", fn, call.Pos(), key("verify"), "glow.Verify under the looked-up device key over SigningBytes() of the very report that is integrated, with its own Signature, dominates the integrator call", vdesc)

	windowPred(c, call)
	// PRED: sentinels
	po := fi.FieldOfTerm(R, "PowerOutput")
	rel := an.RelevantFacts(facts, map[string]bool{po.Key(): true})
	var grid []map[string]*big.Int
	for _, v := range []string{"0", "1", "2", "3", "2^63-1", "2^63", "2^64-1"} {
		grid = append(grid, map[string]*big.Int{"p": an.Big(v)})
	}
	pts, dis, err := an.ComparePredicate(rel, map[string]string{"p": po.Key()}, grid, func(pt map[string]*big.Int) bool {
		return pt["p"].Cmp(big.NewInt(1)) > 0
	}, p.IntBits)
	switch {
	case err != nil:
		c.Undecided("PRED", fn, call.Pos(), key("sentinel"), "sentinel guard could not be evaluated: "+err.Error(), "predicate outside the supported fragment")
	case len(dis) > 0:
		c.Violated("PRED", fn, call.Pos(), key("sentinel"), "sentinel rejection differs from PowerOutput in {0, 1}", fmt.Sprintf("first disagreement at PowerOutput=%s (code accepts=%v); guards: %s", dis[0].Env["p"], dis[0].Code, factsText(rel)))
	default:
		c.Proved("PRED", fn, call.Pos(), key("sentinel"), "the guards that dominate the integrator call reject exactly PowerOutput 0 and 1", fmt.Sprintf("%d cells compared; guards: %s", pts, factsText(rel)))
	}
}

// windowPred: the guards that dominate the handler's integrator call are
// equivalent to -432 <= ts - now <= 432 without wrap-around.
func windowPred(c *an.Ctx, call *ssa.Call) {
	p := c.P
	fn := call.Parent()
	fi := p.Info(fn)
	key := func(s string) string { return an.KeyOf(fn, "integrate-call:"+s) }
	R := fi.Term(call.Call.Args[1])
	facts := fi.FactsAt(call)
	// PRED: window
	tsKey := an.ConvTermKey("int64", fi.FieldOfTerm(R, "Timeslot"))
	_ = tsKey
	ts := fi.FieldOfTerm(R, "Timeslot")
	var now *an.Term
	for _, f := range facts {
		f.T.Walk(func(t *an.Term) {
			if (t.K == an.KCall || t.K == an.KPure) && strings.HasSuffix(t.Callee(), "glow.CurrentTimeslot") {
				now = t
			}
		})
	}
	if now == nil {
		c.Violated("PRED", fn, call.Pos(), key("window"), "no comparison with glow.CurrentTimeslot() dominates the integrator call (acceptance window missing)", "facts "+factList(facts))
	} else {
		vars := map[string]bool{ts.Key(): true, now.Key(): true}
		rel := an.RelevantFacts(facts, vars)
		names := map[string]string{"ts": ts.Key(), "now": now.Key()}
		grid := windowGrid()
		pts, dis, err := an.ComparePredicate(rel, names, grid, func(pt map[string]*big.Int) bool {
			d := new(big.Int).Sub(pt["ts"], pt["now"])
			return d.Cmp(big.NewInt(-432)) >= 0 && d.Cmp(big.NewInt(432)) <= 0
		}, p.IntBits)
		switch {
		case err != nil:
			c.Undecided("PRED", fn, call.Pos(), key("window"), "acceptance-window guard could not be evaluated: "+err.Error(), "predicate outside the supported fragment")
		case len(dis) > 0:
			c.Violated("PRED", fn, call.Pos(), key("window"), "acceptance window differs from -432 <= ts - now <= 432",
				fmt.Sprintf("%d of %d cells disagree, first: ts=%s now=%s code accepts=%v, specification accepts=%v; guards: %s", len(dis), pts, dis[0].Env["ts"], dis[0].Env["now"], dis[0].Code, dis[0].Oracle, factsText(rel)))
		default:
			c.Proved("PRED", fn, call.Pos(), key("window"), "the guards that dominate the integrator call are equivalent to -432 <= ts - now <= 432 for all 32-bit ts and now (no wrap-around)",
				fmt.Sprintf("%d cells of the interval partition compared (boundaries +-431/432/433, uint32 extremes); guards: %s", pts, factsText(rel)))
		}
	}
}

// acceptanceWindow runs windowPred at the UDP handler's integrator call (used by C20).
func acceptanceWindow(c *an.Ctx) {
	p := c.P
	integ := findIntegrator(p)
	handler, _ := udpRoot(p)
	if integ == nil || handler == nil {
		c.Undecided("ANCHOR", nil, 0, "integrator/udp", "report integrator or UDP handler not found", "anchor missing")
		return
	}
	if h := firstRepoCallee(p, handler); h != nil && handler.Parent() != nil {
		handler = h
	}
	n := 0
	for _, site := range p.CallSites(integ) {
		if call, ok := site.(*ssa.Call); ok && site.Parent() == handler && len(call.Call.Args) >= 2 {
			n++
			windowPred(c, call)
		}
	}
	c.Count("PRED-window", n)
	c.Floor("PRED-window", 1)
}

func factsText(fs []an.Fact) string {
	var out []string
	for _, f := range fs {
		out = append(out, short(f.Key()))
	}
	return strings.Join(out, " && ")
}

func windowGrid() []map[string]*big.Int {
	max32 := an.Big("2^32-1")
	var grid []map[string]*big.Int
	nows := []string{"0", "1", "431", "432", "433", "1000", "100000", "2^31-1", "2^31", "2^32-434", "2^32-433", "2^32-432", "2^32-1"}
	ds := []int64{-100000, -434, -433, -432, -431, -1, 0, 1, 431, 432, 433, 434, 100000}
	for _, ns := range nows {
		now := an.Big(ns)
		for _, d := range ds {
			ts := new(big.Int).Add(now, big.NewInt(d))
			if ts.Sign() < 0 || ts.Cmp(max32) > 0 {
				continue
			}
			grid = append(grid, map[string]*big.Int{"ts": ts, "now": now})
		}
		for _, abs := range []string{"0", "2^32-1", "2^31"} {
			grid = append(grid, map[string]*big.Int{"ts": an.Big(abs), "now": now})
		}
	}
	return grid
}

// isRotationFunc: the function advances the window offset by 2016 (offset += 2016).
func isRotationFunc(p *an.Program, fn *ssa.Function) bool {
	fi := p.Info(fn)
	for _, b := range fn.Blocks {
		for _, in := range b.Instrs {
			st, ok := in.(*ssa.Store)
			if !ok {
				continue
			}
			if f, ok := fi.RefClass(st.Addr).FieldOf("GCAServer"); !ok || f != "equipmentReportsOffset" {
				continue
			}
			vt := fi.Term(st.Val)
			if vt.K == an.KBin && vt.S == "+" {
				for k := 0; k < 2; k++ {
					if isConstTerm(vt.A[k], "2016") {
						if fl, _, ok := mapFieldOfTerm(vt.A[1-k]); ok && fl == "equipmentReportsOffset" {
							return true
						}
					}
				}
			}
		}
	}
	return false
}

// parserLayout: the function that builds the report from raw bytes and looks the device up
// decodes the documented offsets, little-endian.
func parserLayout(c *an.Ctx) {
	p := c.P
	var parser *ssa.Function
	for _, fn := range p.FuncsIn("server") {
		res := fn.Signature.Results()
		if res.Len() == 2 && strings.HasSuffix(res.At(0).Type().String(), "glow.EquipmentReport") && fn.Signature.Recv() != nil {
			parser = fn
		}
	}
	if parser == nil {
		c.Undecided("CODEC", nil, 0, "report-parser", "server-side report parser not found", "anchor missing")
		return
	}
	// what the parser reads from the raw bytes (directly, or through the decoder of the report type it delegates to)
	want := map[string]string{"ShortID": "Uint32:0:4", "Timeslot": "Uint32:4:8", "PowerOutput": "Uint64:8:16"}
	got := map[string]string{}
	sigOK := false
	for _, e := range p.CodecEvents(parser) {
		if e.Op != "R" || !strings.HasPrefix(e.Off, "#") {
			continue
		}
		lo, err := strconv.Atoi(e.Off[1:])
		if err != nil {
			continue
		}
		switch {
		case e.Order != "":
			got[e.Field] = fmt.Sprintf("Uint%d:%d:%d", 8*e.Width, lo, lo+e.Width)
			if e.Order != "LE" {
				got[e.Field] += ":" + e.Order
			}
		case e.Field == "Signature" && e.Width == 64 && lo == 16:
			sigOK = true
		}
	}
	for f, w := range want {
		c.Check(got[f] == w, "CODEC", parser, parser.Pos(), an.KeyOf(parser, "decode:"+f), "the report parser decodes "+f+" as little-endian "+w, "found "+got[f])
	}
	c.Check(sigOK, "CODEC", parser, parser.Pos(), an.KeyOf(parser, "decode:Signature"), "the report parser takes the signature from bytes 16..80", "copy(report.Signature[:], raw[16:])")
	c.Count("CODEC", 4)
}

// storageWindow: the integrator's early returns are equivalent to ts < offset or ts >= offset+4032.
func storageWindow(c *an.Ctx, integ *ssa.Function) {
	p := c.P
	fi := p.Info(integ)
	// facts at the first slot access
	var first ssa.Instruction
	for _, b := range integ.Blocks {
		for _, in := range b.Instrs {
			if ia, ok := in.(*ssa.IndexAddr); ok && first == nil {
				if isWindowArrayIndex(an.BoundObl{Instr: ia}) {
					first = ia
				}
			}
		}
	}
	if first == nil {
		c.Undecided("PRED", integ, integ.Pos(), an.KeyOf(integ, "storage-window"), "no slot access found in the integrator", "shape not recognised")
		return
	}
	ts := fi.FieldOfTerm(fi.Term(integ.Params[1]), "Timeslot")
	var off *an.Term
	facts := fi.FactsAt(first)
	for _, f := range facts {
		f.T.Walk(func(t *an.Term) {
			if fld, _, ok := mapFieldOfTerm(t); ok && fld == "equipmentReportsOffset" {
				off = t
			}
		})
	}
	if off == nil {
		c.Violated("PRED", integ, first.Pos(), an.KeyOf(integ, "storage-window"), "slot access is not guarded by a comparison with the window offset", "facts "+factList(facts))
		return
	}
	rel := an.RelevantFacts(facts, map[string]bool{ts.Key(): true, off.Key(): true})
	var grid []map[string]*big.Int
	for _, os := range []string{"0", "2016", "4032", "1000000", "2^31-4033", "2^31-1"} {
		o := an.Big(os)
		for _, d := range []int64{-2017, -1, 0, 1, 2015, 2016, 4030, 4031, 4032, 4033, 10000} {
			t := new(big.Int).Add(o, big.NewInt(d))
			if t.Sign() < 0 || t.Cmp(an.Big("2^32-1")) > 0 {
				continue
			}
			grid = append(grid, map[string]*big.Int{"ts": t, "off": o})
		}
	}
	pts, dis, err := an.ComparePredicate(rel, map[string]string{"ts": ts.Key(), "off": off.Key()}, grid, func(pt map[string]*big.Int) bool {
		d := new(big.Int).Sub(pt["ts"], pt["off"])
		return d.Sign() >= 0 && d.Cmp(big.NewInt(4032)) < 0
	}, p.IntBits)
	key := an.KeyOf(integ, "storage-window")
	switch {
	case err != nil:
		c.Undecided("PRED", integ, first.Pos(), key, "storage-window guard could not be evaluated: "+err.Error(), "predicate outside the supported fragment")
	case len(dis) > 0:
		c.Violated("PRED", integ, first.Pos(), key, "the storage-window guards differ from offset <= ts < offset+4032", fmt.Sprintf("first disagreement: ts=%s offset=%s code stores=%v; guards: %s", dis[0].Env["ts"], dis[0].Env["off"], dis[0].Code, factsText(rel)))
	default:
		c.Proved("PRED", integ, first.Pos(), key, "a slot is touched exactly when offset <= ts < offset+4032 (for offsets below 2^31)", fmt.Sprintf("%d cells compared; guards: %s", pts, factsText(rel)))
	}
}

// verifyOneKey: glow.Verify checks the signature under the one public key it is given: the 32 bytes are completed to a
// compressed key once, decompressed once and handed to one signature verification, none of it in a loop ("any other
// key" includes the key with the same X and the other parity).
func verifyOneKey(c *an.Ctx) {
	p := c.P
	v := p.Func("glow", "Verify")
	if v == nil {
		c.Undecided("KEYS", nil, 0, "glow.Verify", "glow.Verify not found", "anchor missing")
		return
	}
	c.Scope(v)
	inLoop := func(b *ssa.BasicBlock) bool {
		for _, l := range loopsOf(v) {
			if l.body[b] {
				return true
			}
		}
		return false
	}
	nDec, nVer, looped := 0, 0, false
	for _, b := range v.Blocks {
		for _, in := range b.Instrs {
			call, ok := in.(*ssa.Call)
			if !ok {
				continue
			}
			name := an.CalleeName(&call.Call)
			switch {
			case strings.HasSuffix(name, "crypto.DecompressPubkey"):
				nDec++
				looped = looped || inLoop(b)
			case strings.HasSuffix(name, "crypto.VerifySignature"):
				nVer++
				looped = looped || inLoop(b)
			}
		}
	}
	c.Check(nDec == 1 && nVer == 1 && !looped, "KEYS", v, v.Pos(), an.KeyOf(v, "one-key"), "glow.Verify derives one public key from its argument and verifies the signature under that key only (one decompression, one verification, no retry)",
		fmt.Sprintf("%d decompressions, %d verifications, in a loop: %v", nDec, nVer, looped))
}
