package props

import (
	"fmt"
	"sort"
	"strings"

	"gcacheck/internal/an"

	"golang.org/x/tools/go/ssa"
)

func init() {
	register(&an.PropertyCheck{
		ID:      "C05",
		Title:   "A crash at any point leaves a server that starts and keeps the durable prefix",
		Engines: "PERSIST (writer protocol per durable file, loader tolerance per exposed state), BOUND (loader uses of file contents), dominance (write before update)",
		Explanation: "Decided under the process-crash model the property states (completed system calls survive): every file operation of the server is enumerated and attributed to a durable file by resolving its path; each writer is classified " +
			"(append-1: O_APPEND without O_TRUNC and exactly one Write of a whole record; create-empty; create-then-write; truncate-then-write) and each loader is checked against the states that protocol can expose: " +
			"for append-1 and create-empty files the loader creates the file when absent and accepts any whole number of records; for create-then-write (server.keys) and truncate-then-write (gcaPubKey.dat) the loader must treat an empty file exactly like an absent one: " +
			"every use of the contents as valid state is dominated by len == full size (BOUND), and no error return of the loader is reachable with an empty file; ORDER every in-memory update that a durable write justifies is dominated by the successful write in the same critical section, " +
			"or the failure stops the process; PARTIAL every operation writes at most one record to at most one durable file, so no operation can be half applied across files; WHO-MAY only the classified writers touch the durable files. " +
			"LOG a record log written by truncate/create-then-write is a violation (earlier records destroyed). ORDER is decided by re-running the saver structures of C07 (key file written before key and flag are set, every success sets both), C06 (authorization appended before the tables change) and C03 (archived week on disk before the offset advances); a file created and then written in more than one Write is a violation (a crash between them leaves a partial non-empty file). The device-table and replay rules of C06/C04 are re-run (replaying a durable prefix makes the live case analysis); a registration is never refused because of a disk probe (os.Stat/Open/ReadFile) - after a crash inside the key write the file exists while the server is unregistered. REPLAY the loaders of the durable files and what they call never read the clock (replay does not depend on when the server restarts). NOT decided: torn single writes and power loss (outside the stated model), SIGKILL timing as such, that the recovered state equals a prefix of the submitted operations (C04 covers replay).",
		Assumptions: append([]string{"process-crash model: a completed write(2)/open(2) survives, an O_APPEND write of one buffer is not interleaved (README: File Writing and Archiving)"}, baseAssumptions...),
		Run:         runC05,
	})
}

var durableFiles = []string{"server.keys", "gcaPubKey.dat", "equipment-authorizations.dat", "allDeviceStats.dat", "equipment-reports.dat"}

// recordLogs are the durable files that accumulate one record per accepted
// fact; every writer of such a file must leave the existing records in place.
var recordLogs = map[string]bool{"equipment-authorizations.dat": true, "allDeviceStats.dat": true, "equipment-reports.dat": true}

func isDurable(f string) bool {
	for _, d := range durableFiles {
		if d == f {
			return true
		}
	}
	return false
}

type fileRole struct {
	writers map[*ssa.Function]string // protocol
	loaders []*ssa.Function
}

func fileRoles(c *an.Ctx) (map[string]*fileRole, map[*ssa.Function]bool) {
	p := c.P
	ctor := p.Constructor("server", "GCAServer")
	construction := p.ConstructionPhase("server", ctor)
	roles := map[string]*fileRole{}
	for _, f := range durableFiles {
		roles[f] = &fileRole{writers: map[*ssa.Function]string{}}
	}
	prodReach := p.SyncReach(ctor)
	for _, r := range p.Roots("server") {
		if r.Kind != "exported" {
			for fn := range p.SyncReach(r.Fn) {
				prodReach[fn] = true
			}
		}
	}
	for _, fn := range p.FuncsIn("server") {
		if !prodReach[fn] {
			continue // test helpers (server/testing.go) are not reachable from any binary's entry points
		}
		for _, f := range durableFiles {
			if proto, _ := p.WriterProtocol(fn, f); proto != "" {
				roles[f].writers[fn] = proto
			}
		}
		for _, op := range p.FileOps(fn) {
			if op.Kind == "readfile" && isDurable(op.File) {
				// loaders run (also) during construction
				if construction[fn] || callsFromCtor(p, fn, ctor) {
					roles[op.File].loaders = append(roles[op.File].loaders, fn)
				}
			}
		}
	}
	return roles, construction
}

func callsFromCtor(p *an.Program, fn, ctor *ssa.Function) bool {
	for _, s := range p.CallSites(fn) {
		if s.Parent() == ctor {
			return true
		}
	}
	return false
}

func runC05(c *an.Ctx) {
	_ = c.P
	roles, construction := fileRoles(c)
	n := 0
	for _, file := range durableFiles {
		r := roles[file]
		var ws []string
		for fn, proto := range r.writers {
			ws = append(ws, an.FuncName(fn)+"="+proto)
			c.Scope(fn)
		}
		sort.Strings(ws)
		if len(r.writers) == 0 || len(r.loaders) == 0 {
			c.Undecided("PROTOCOL", nil, 0, "file:"+file, "durable file "+file+" has no recognised writer or loader", "writers "+strings.Join(ws, ", "))
			continue
		}
		// the strongest exposure decides what the loader must tolerate
		exposesEmpty := false
		for fn, proto := range r.writers {
			n++
			key := an.KeyOf(fn, "protocol:"+file)
			switch proto {
			case "append-1":
				c.Proved("PROTOCOL", fn, fn.Pos(), key, file+" is written append-only with exactly one Write per record (a crash exposes only whole records)", "writer protocol append-1")
				appendOneWholeRecord(c, fn, file)
			case "create-empty":
				c.Check(construction[fn], "PROTOCOL", fn, fn.Pos(), key, file+" is created empty only during construction, when it does not exist", "writer protocol create-empty")
			case "create-then-write", "truncate-then-write":
				if recordLogs[file] {
					c.Violated("PROTOCOL", fn, fn.Pos(), key, file+" is a record log but "+an.FuncName(fn)+" writes it by "+proto+": every earlier record is destroyed by the write (and a crash between the two steps leaves an empty log)", "writer protocol "+proto)
					continue
				}
				exposesEmpty = true
				c.Proved("PROTOCOL", fn, fn.Pos(), key, file+" is written by "+proto+": a crash between the two steps leaves an EMPTY file, which the loader must treat like an absent one", "writer protocol "+proto)
			default:
				c.Violated("PROTOCOL", fn, fn.Pos(), key, file+" is written with an unsafe protocol ("+proto+"): a crash can expose a state the loader cannot interpret", "see the file operations of "+an.FuncName(fn))
			}
		}
		for _, ld := range r.loaders {
			c.Scope(ld)
			loaderTolerance(c, ld, file, exposesEmpty)
			replayIgnoresClock(c, ld, file)
		}
	}
	c.Count("PROTOCOL", n)
	c.Floor("PROTOCOL", 5)
	partialRule(c, roles, construction)
	// ORDER: the in-memory update that a durable write justifies happens only after that write succeeded, in the same
	// critical section (rules owned by C07 for the key, C06 for authorizations, C03 for archived weeks; re-run here)
	if ks := findKeySaver(c.P); ks != nil {
		keySaverStructure(c, ks)
	} else {
		c.Undecided("ANCHOR", nil, 0, "key-saver", "GCA key saver not found", "anchor missing")
	}
	if as := findAuthSaver(c.P); as != nil {
		saverStructure(c, as, false)
	}
	rotateRules(c, contig(c, "CONTIG"))
	// "the state a start recovers is the state some prefix of the operations produced": replaying a durable prefix makes
	// the same case analysis as the live operations did (device tables: rules owned by C06; reports: owned by C04)
	authTableRules(c, "C05")
	restartRules(c)
}

// appendOneWholeRecord: the single Write writes a Serialize() result (one whole record).
func appendOneWholeRecord(c *an.Ctx, fn *ssa.Function, file string) {
	p := c.P
	fi := p.Info(fn)
	for _, op := range p.FileOps(fn) {
		if op.Kind != "write" || op.File != file {
			continue
		}
		dt := fi.Term(op.Call.Call.Args[1])
		ok := (dt.K == an.KPure || dt.K == an.KCall) && strings.HasSuffix(dt.Callee(), ").Serialize")
		c.Check(ok, "PROTOCOL", fn, op.Call.Pos(), an.KeyOf(fn, "whole-record:"+file), "the one Write appends a whole serialized record", "data "+short(dt.Key()))
		// not in a loop
		inLoop := false
		for _, s := range op.Call.Block().Succs {
			if reachable(s, op.Call.Block()) {
				inLoop = true
			}
		}
		c.Check(!inLoop, "PROTOCOL", fn, op.Call.Pos(), an.KeyOf(fn, "single-write:"+file), "the Write is executed at most once per call (not in a loop)", "control flow")
	}
}

// loaderTolerance: what the loader does with absent / empty / whole-record states.
func loaderTolerance(c *an.Ctx, ld *ssa.Function, file string, exposesEmpty bool) {
	p := c.P
	fi := p.Info(ld)
	var read *ssa.Call
	for _, op := range p.FileOps(ld) {
		if op.Kind == "readfile" && op.File == file {
			read = op.Call
		}
	}
	if read == nil {
		return
	}
	data := fi.FieldlessExtract(read, 0)
	// absent: a branch on os.IsNotExist(err) exists and does not return an error
	absentOK := false
	for _, b := range ld.Blocks {
		for _, f := range fi.FactsAtBlock(b) {
			if f.Neg {
				continue
			}
			t := f.T
			isNE := func(x *an.Term) bool { return strings.HasSuffix(x.Callee(), "os.IsNotExist") }
			hit := isNE(t)
			if t.K == an.KOr {
				hit = isNE(t.A[0]) || isNE(t.A[1])
			}
			if !hit || len(b.Instrs) == 0 {
				continue
			}
			// the handling path must be able to reach a nil-error return
			if reachesNilReturn(fi, b) {
				absentOK = true
			}
		}
	}
	c.Check(absentOK, "LOADER", ld, ld.Pos(), an.KeyOf(ld, "absent:"+file), "when "+file+" does not exist the loader creates/initialises and continues (first start, or crash before the file was created)", "os.IsNotExist branch reaches a nil-error return")
	// BOUND: every use of the contents is in range
	bad := 0
	for _, o := range p.BoundObligations(ld) {
		if !strings.Contains(o.Expr, "ReadFile") {
			continue
		}
		key := an.KeyOf(ld, "contents:"+o.Kind+":"+o.Expr)
		if !o.OK {
			bad++
			c.Violated("LOADER", ld, o.Instr.Pos(), key, "the loader slices/indexes the contents of "+file+" without a length guard: "+o.Desc, o.Why+" (an empty or short file makes start-up panic)")
		} else {
			c.Proved("LOADER", ld, o.Instr.Pos(), key, "use of the contents of "+file+" is in range: "+o.Desc, o.Why)
		}
	}
	if exposesEmpty {
		// (a) contents are taken as valid state only when the file has its full size
		full := map[string]int64{"server.keys": 96, "gcaPubKey.dat": 32}[file]
		n := 0
		for _, b := range ld.Blocks {
			for _, in := range b.Instrs {
				call, ok := in.(*ssa.Call)
				if !ok {
					continue
				}
				bi, ok := call.Call.Value.(*ssa.Builtin)
				if !ok || bi.Name() != "copy" {
					continue
				}
				src := fi.Term(call.Call.Args[1])
				if !strings.Contains(src.Key(), data.Key()) {
					continue
				}
				n++
				s := fi.SysFor(call)
				lt := an.LenTerm(data)
				ok2 := s.ProveGE(lt, full) && s.ProveLE(lt, full)
				c.Check(ok2, "LOADER", ld, call.Pos(), an.KeyOf(ld, "full-size:"+file), fmt.Sprintf("the contents of %s are used as a key only when the file has its full size (%d bytes): an empty file left by a crash is not mistaken for a key", file, full), "len(contents) "+s.Describe(lt))
			}
		}
		if n == 0 {
			c.Undecided("LOADER", ld, ld.Pos(), an.KeyOf(ld, "full-size:"+file), "no use of the contents of "+file+" found in its loader", "shape not recognised")
		}
		// (b) no error return is reachable with an empty file
		for _, b := range ld.Blocks {
			if len(b.Instrs) == 0 || b == ld.Recover {
				continue
			}
			ret, ok := b.Instrs[len(b.Instrs)-1].(*ssa.Return)
			if !ok {
				continue
			}
			et := fi.Term(ret.Results[len(ret.Results)-1])
			if k, isC := et.IsConst(); isC && k == "nil" {
				continue
			}
			// only returns after the read matter
			if !an.Dominates(read, ret) {
				continue
			}
			s := fi.SysFor(ret)
			emptyExcluded := s.ProveGE(an.LenTerm(data), 1)
			ioErr := false
			if h := forwardedHelper(fi, ret); h != nil && !emptyExcluded {
				// the error of a helper is passed on: every error return of the helper must stem from a file-system error
				ioErr = errorReturnsAreIO(p, h)
			}
			for _, f := range fi.FactsAt(ret) {
				if !f.Neg && f.T.K == an.KBin && f.T.S == "!=" && strings.Contains(f.T.Key(), "#nil") {
					// an error of a file-system call
					for _, a := range f.T.A {
						callee := a.Callee()
						if a.K == an.KExt {
							callee = a.A[0].Callee()
						}
						if strings.HasPrefix(callee, "os.") || strings.HasPrefix(callee, "io/ioutil.") || strings.HasPrefix(callee, "(*os.File)") {
							ioErr = true
						}
					}
				}
			}
			c.Check(emptyExcluded || ioErr, "LOADER", ld, ret.Pos(), an.KeyOf(ld, "empty-starts:"+file), "no error return of the loader can be reached with an empty "+file+" (only real I/O errors and files of a wrong non-zero size abort start-up)",
				"len(contents) "+s.Describe(an.LenTerm(data))+"; facts "+factList(fi.FactsAt(ret)))
		}
	}
}

func reachesNilReturn(fi *an.FuncInfo, from *ssa.BasicBlock) bool {
	seen := map[*ssa.BasicBlock]bool{}
	var walk func(b *ssa.BasicBlock) bool
	walk = func(b *ssa.BasicBlock) bool {
		if seen[b] {
			return false
		}
		seen[b] = true
		if len(b.Instrs) > 0 {
			if ret, ok := b.Instrs[len(b.Instrs)-1].(*ssa.Return); ok && len(ret.Results) > 0 {
				et := fi.Term(ret.Results[len(ret.Results)-1])
				if k, isC := et.IsConst(); isC && k == "nil" {
					return true
				}
				// the results of a helper are passed on: as good as the helper's own returns
				if h := forwardedHelper(fi, ret); h != nil {
					hfi := fi.P.Info(h)
					for _, hb := range h.Blocks {
						if len(hb.Instrs) > 0 {
							if hr, ok := hb.Instrs[len(hb.Instrs)-1].(*ssa.Return); ok && len(hr.Results) > 0 && isConstTerm(hfi.Term(hr.Results[len(hr.Results)-1]), "nil") {
								return true
							}
						}
					}
				}
			}
		}
		for _, s := range b.Succs {
			if walk(s) {
				return true
			}
		}
		return false
	}
	return walk(from)
}

// partialRule: an operation writes at most one durable file.
func partialRule(c *an.Ctx, roles map[string]*fileRole, construction map[*ssa.Function]bool) {
	p := c.P
	// per root operation: durable files written by anything it reaches synchronously
	n := 0
	for _, r := range p.Roots("server") {
		if r.Kind == "exported" || r.Kind == "onstop" || r.Kind == "afterstop" {
			continue
		}
		files := map[string]bool{}
		for fn := range p.SyncReach(r.Fn) {
			for f, role := range roles {
				if proto, ok := role.writers[fn]; ok && proto != "create-empty" && !construction[fn] {
					files[f] = true
				}
			}
		}
		if len(files) == 0 {
			continue
		}
		n++
		var fl []string
		for f := range files {
			fl = append(fl, f)
		}
		sort.Strings(fl)
		c.Check(len(files) == 1, "PARTIAL", r.Fn, r.Fn.Pos(), an.KeyOf(r.Fn, "one-file"), "the operation started at "+an.FuncName(r.Fn)+" writes at most one durable file (no operation needs two files to change atomically)", "files "+strings.Join(fl, ", "))
	}
	c.Count("PARTIAL", n)
	c.Floor("PARTIAL", 2)
}

// forwardedHelper: the return passes on the error result of a call to a repository helper (return helper(...)).
func forwardedHelper(fi *an.FuncInfo, ret *ssa.Return) *ssa.Function {
	if len(ret.Results) == 0 {
		return nil
	}
	et := fi.Term(ret.Results[len(ret.Results)-1])
	ct := et
	if et.K == an.KExt && len(et.A) == 1 {
		ct = et.A[0]
	}
	if call, ok := ct.Val.(*ssa.Call); ok && (ct.K == an.KCall || ct.K == an.KPure) {
		if sc := call.Call.StaticCallee(); sc != nil && an.IsRepoFunc(sc) && sc.Pkg == fi.Fn.Pkg {
			return sc
		}
	}
	return nil
}

// errorReturnsAreIO: every return of fn with a non-nil error is dominated by the failure of a file-system call.
func errorReturnsAreIO(p *an.Program, fn *ssa.Function) bool {
	fi := p.Info(fn)
	for _, b := range fn.Blocks {
		if len(b.Instrs) == 0 || b == fn.Recover {
			continue
		}
		ret, ok := b.Instrs[len(b.Instrs)-1].(*ssa.Return)
		if !ok || len(ret.Results) == 0 {
			continue
		}
		if isConstTerm(fi.Term(ret.Results[len(ret.Results)-1]), "nil") {
			continue
		}
		io := false
		for _, f := range fi.FactsAt(ret) {
			if !f.Neg && f.T.K == an.KBin && f.T.S == "!=" && strings.Contains(f.T.Key(), "#nil") {
				for _, a := range f.T.A {
					callee := a.Callee()
					if a.K == an.KExt {
						callee = a.A[0].Callee()
					}
					if strings.HasPrefix(callee, "os.") || strings.HasPrefix(callee, "io/ioutil.") || strings.HasPrefix(callee, "(*os.File)") {
						io = true
					}
				}
			}
		}
		if !io {
			return false
		}
	}
	return true
}

// replayIgnoresClock: what a loader replays was accepted when it was written; whether it is accepted again must not
// depend on when the server happens to be restarted. Neither the loader nor anything it calls synchronously (the logger
// apart, which stamps its lines) reads the clock: a check that is "still valid now" (acceptance window, expiration) in a
// function that replay shares with the live path drops durable records or stops the start-up.
func replayIgnoresClock(c *an.Ctx, ld *ssa.Function, file string) {
	p := c.P
	if ld.Pkg == nil || ld.Pkg.Pkg.Name() != "server" {
		return
	}
	var where []string
	for fn := range p.SyncReach(ld) {
		if strings.Contains(an.FuncName(fn), "Logger)") {
			continue
		}
		for _, b := range fn.Blocks {
			for _, in := range b.Instrs {
				call, ok := in.(*ssa.Call)
				if !ok {
					continue
				}
				name := an.CalleeName(&call.Call)
				if name == "time.Now" || name == "time.Since" || strings.HasSuffix(name, "glow.CurrentTimeslot") {
					where = append(where, an.FuncName(fn)+" calls "+name)
				}
			}
		}
	}
	sort.Strings(where)
	c.Check(len(where) == 0, "REPLAY", ld, ld.Pos(), an.KeyOf(ld, "replay-ignores-clock:"+file), "the loader of "+file+" and what it calls do not read the clock (a durable record is replayed whenever the server restarts)", strings.Join(where, "; "))
}
